"""Lean side of a check: (re)build under a lock, source audit, axiom audit."""
import fcntl
import json
import os
import re
import subprocess
import time

from .common import LEAN_DIR, VERIF

ALLOWED_AXIOMS = {"propext", "Classical.choice", "Quot.sound"}
FORBIDDEN = re.compile(
    r"\bsorry\b|\badmit\b|^\s*axiom\s|native_decide|bv_decide|implemented_by|\bunsafe\s|maxHeartbeats\s+0\b"
)


class Lock:
    def __init__(self, name="build.lock"):
        os.makedirs(os.path.join(LEAN_DIR, ".lake"), exist_ok=True)
        self.path = os.path.join(LEAN_DIR, ".lake", name)

    def __enter__(self):
        self.f = open(self.path, "w")
        fcntl.flock(self.f, fcntl.LOCK_EX)
        return self

    def __exit__(self, *a):
        fcntl.flock(self.f, fcntl.LOCK_UN)
        self.f.close()


def lake(args, timeout=3600):
    p = subprocess.run(
        ["lake"] + args, cwd=LEAN_DIR, stdout=subprocess.PIPE, stderr=subprocess.STDOUT, timeout=timeout
    )
    return p.returncode, p.stdout.decode(errors="replace")


def build(targets):
    """lake build of the given targets; returns (ok, log). Serialised by a file lock so that checks
    started in parallel from a fresh checkout build once."""
    with Lock():
        rc, out = lake(["build"] + targets)
    return rc == 0, out


def strip_comments(src: str) -> str:
    # remove block comments (nested) and line comments
    out = []
    i, depth, n = 0, 0, len(src)
    while i < n:
        if src.startswith("/-", i):
            depth += 1
            i += 2
        elif depth and src.startswith("-/", i):
            depth -= 1
            i += 2
        elif depth:
            if src[i] == "\n":
                out.append("\n")
            i += 1
        elif src.startswith("--", i):
            while i < n and src[i] != "\n":
                i += 1
        else:
            out.append(src[i])
            i += 1
    return "".join(out)


def source_audit():
    """grep the Lean sources (comments removed) for forbidden constructs"""
    hits = []
    for root, dirs, files in os.walk(LEAN_DIR):
        dirs[:] = [d for d in dirs if d != ".lake"]
        for f in files:
            if not f.endswith(".lean"):
                continue
            p = os.path.join(root, f)
            txt = strip_comments(open(p, encoding="utf-8").read())
            for ln, line in enumerate(txt.split("\n"), 1):
                if FORBIDDEN.search(line):
                    hits.append(f"{os.path.relpath(p, VERIF)}:{ln}: {line.strip()[:120]}")
    return hits


def axiom_audit(module: str):
    """list the theorems of a compiled proof module with their axioms"""
    cmd = ["lake", "env", "lean", "--run", os.path.join(VERIF, "tools", "Audit.lean"), module]
    p = subprocess.run(cmd, cwd=LEAN_DIR, stdout=subprocess.PIPE, stderr=subprocess.PIPE, timeout=1800)
    thms = []
    if p.returncode != 0:
        return None, p.stderr.decode(errors="replace")[-2000:]
    for line in p.stdout.decode().split("\n"):
        line = line.strip()
        if line.startswith("{"):
            o = json.loads(line)
            if "theorem" in o and o["theorem"].startswith("AwProofs."):
                thms.append(o)
    return thms, ""


def checker_cmd(module):
    return f"cd lean && lake build awdriver +{module} && lake env lean --run ../tools/Audit.lean {module}"


def prove(module: str, required):
    """Build the proof module and audit it. Returns a dict:
    ok, obligations, discharged, theorems, problems (list of strings), log"""
    t0 = time.time()
    res = {"ok": False, "obligations": 0, "discharged": 0, "theorems": [], "problems": [], "log": ""}
    hits = source_audit()
    if hits:
        res["problems"] += ["forbidden construct: " + h for h in hits]
    ok, log = build(["+" + module])
    if not ok:
        res["problems"].append(f"lake build +{module} failed")
        res["log"] = log[-4000:]
        res["obligations"] = max(len(required), 1)
        return res
    thms, err = axiom_audit(module)
    if thms is None:
        res["problems"].append("axiom audit failed to run")
        res["log"] = err
        res["obligations"] = max(len(required), 1)
        return res
    names = {t["theorem"] for t in thms}
    missing = [r for r in required if r not in names]
    for m in missing:
        res["problems"].append(f"required theorem missing: {m}")
    disc = 0
    for t in thms:
        bad = [a for a in t["axioms"] if a not in ALLOWED_AXIOMS]
        if bad:
            res["problems"].append(f"{t['theorem']} depends on {bad}")
        else:
            disc += 1
    if not thms:
        res["problems"].append(f"{module} contains no property theorem")
    res["theorems"] = thms
    res["obligations"] = len(thms) + len(missing)
    res["discharged"] = disc
    res["ok"] = not res["problems"]
    res["wall_s"] = round(time.time() - t0, 2)
    return res


def leanchecker(modules):
    with Lock():
        p = subprocess.run(
            ["lake", "env", "leanchecker"] + modules,
            cwd=LEAN_DIR,
            stdout=subprocess.PIPE,
            stderr=subprocess.STDOUT,
            timeout=3600,
        )
    return p.returncode == 0, p.stdout.decode(errors="replace")[-2000:]
