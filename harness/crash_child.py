"""Child process of a crash run: executes a resolved history on a real file backend and SIGKILLs
itself when the k-th SQL statement is about to execute. Every traced statement and every operation
start is appended to a progress file first (the data reaches the kernel before the kill)."""
import json
import os
import signal
import sys


def main():
    hist, path, prog, kill_at = sys.argv[1], sys.argv[2], sys.argv[3], int(sys.argv[4])
    h = json.load(open(hist))
    from harness.common import import_repo

    import_repo()
    from harness import commitlib

    fd = os.open(prog, os.O_WRONLY | os.O_CREAT | os.O_APPEND)
    count = [0]

    def cb(stmt):
        count[0] += 1
        os.write(fd, ("S " + " ".join(stmt.split())[:60] + "\n").encode())
        if count[0] == kill_at:
            os.kill(os.getpid(), signal.SIGKILL)

    clock = commitlib.Clock()
    clock.us = h["start"]
    if h["backend"] == "sqlite":
        from aw_datastore.storages import SqliteStorage

        clock.install()
        from aw_datastore import Datastore

        ds_obj = Datastore(SqliteStorage, testing=True, filepath=path, enable_lazy_commit=h["lazy"])
        st = ds_obj.storage_strategy
        st.conn.set_trace_callback(cb)

        def own_ids():
            return set()
    else:
        from aw_datastore.storages import PeeweeStorage

        ds_obj = None
        st = PeeweeStorage(testing=True, filepath=path)
        st.db.connection().set_trace_callback(cb)

        def own_ids():
            return set()

    for j, (now, op) in enumerate(zip(h["nows"], h["ops"])):
        clock.us = now
        os.write(fd, f"OP {j}\n".encode())
        op = list(op)
        # ids are already concrete
        if op[0] == "insert":
            op[2] = [None if op[2][0] is None else ["raw", op[2][0]]] + list(op[2][1:])
        elif op[0] == "bulk":
            op[2] = [[None if e[0] is None else ["raw", e[0]]] + list(e[1:]) for e in op[2]]
        elif op[0] in ("replace", "delete"):
            op[2] = ["raw", op[2]]
        elif op[0] == "replacelast":
            op = op[:3]
        commitlib.apply_op(st, op, [], own_ids, ds_obj)
    os.write(fd, b"END\n")
    print(count[0])


if __name__ == "__main__":
    main()
