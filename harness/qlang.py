"""Query-language side of the harness (shared by C11 and C17).

* drives the REAL `aw_query.query2` in-process with every builtin *body* replaced by a recording
  stub (the real `q2_function` / `q2_typecheck` wrappers stay in place), so that a call returns
  the symbolic term `name(args…)`;
* canonical JSON forms of values / token trees on both sides of the correspondence check;
* an independent reference implementation of the language (strict recursive-descent parser,
  evaluator over the dumped registry signature, renderer with seeded layouts) used by the oracles;
* generators.

Canonical value:  ["i",n] ["s",text] ["b",bool] ["l",[v…]] ["d",[[key,v]…]] ["c",kind,name,[v…]]
                  ["ds"] ["ns"] ["none"]   -- or ["err", kind]
Abstract syntax:  ["i",n] ["s",text] ["v",name] ["c",name,[e…]] ["l",[e…]] ["d",[[key,e]…]]
Program:          [[name, e]…]
"""
import inspect
import signal
from datetime import datetime, timedelta, timezone

from .common import Toks, err_kind, hx

T0 = datetime(2020, 1, 1, tzinfo=timezone.utc)
T1 = T0 + timedelta(days=1)
ENV = [["NAME", "n"], ["STARTTIME", T0.isoformat()], ["ENDTIME", T1.isoformat()]]
QUERY_ERRS = ("QueryParse", "QueryInterpret", "QueryFunction")
WS_CHARS = " \t\n\r\x0b\x0c\x1c\x1d\x1e\x1f"  # ASCII part of what str.strip() removes


def is_ascii(s):
    return all(ord(c) < 128 for c in s)


# ---- the real code with symbolic builtin bodies ------------------------------------------------


class _DS:
    """the datastore object handed to query(); builtins are stubs, nothing is read from it"""

    def __repr__(self):
        return "<DS>"


DS = _DS()


class SymL(list):
    pass


class SymS(str):
    pass


class SymI(int):
    pass


class SymF(float):
    pass


class SymO:
    pass


SYM = {"l": SymL, "s": SymS, "i": SymI, "f": SymF, "o": SymO}


def mk_sym(kind, name, args):
    o = SYM[kind]()
    o.term = (kind, name, list(args))
    return o


class Mode:
    ret = {}
    real = False


_installed = False
_raw = {}


def install_stubs():
    """replace the body of every registered builtin (the innermost function of the decorator
    chain) by a stub; idempotent per process"""
    global _installed
    if _installed:
        return
    import aw_query.functions as F

    from .registry_dump import chain

    for name in list(F.functions):
        ch = chain(F.functions[name])
        raw = ch[-1]
        stub = _make_stub(name, raw)
        done = False
        for w in ch[:-1]:
            for cell in w.__closure__ or ():
                try:
                    if cell.cell_contents is raw:
                        cell.cell_contents = stub
                        done = True
                except ValueError:
                    pass
        if not done:
            raise RuntimeError(f"cannot stub the body of builtin {name!r}")
        _raw[name] = raw
    _installed = True


def _make_stub(name, raw):
    sig = inspect.signature(raw)

    def stub(*args, **kwargs):
        sig.bind(*args, **kwargs)  # the TypeError the real `f(*args)` raises when it cannot bind
        if Mode.real:
            return raw(*args, **kwargs)
        return mk_sym(Mode.ret.get(name, "l"), name, args)

    stub.__name__ = raw.__name__
    return stub


def canon(v):
    t = getattr(v, "term", None)
    if isinstance(v, tuple(SYM.values())) and t is not None:
        return ["c", t[0], t[1], [canon(a) for a in t[2]]]
    if v is DS:
        return ["ds"]
    if v is None:
        return ["none"]
    if isinstance(v, bool):
        return ["b", v]
    if isinstance(v, int):
        return ["i", v]
    if isinstance(v, str):
        return ["s", v]
    if isinstance(v, list):
        return ["l", [canon(x) for x in v]]
    if isinstance(v, dict):
        if "STARTTIME" in v and "NAME" in v and "True" in v:
            return ["ns"]
        return ["d", [[k, canon(x)] for k, x in v.items()]]
    return ["?", type(v).__name__]


class Timeout(BaseException):
    pass


def _alarm(signum, frame):
    raise Timeout()


def guarded(f):
    """run f() with a 20 s alarm; map exceptions to ["err", kind]"""
    old = signal.signal(signal.SIGALRM, _alarm)
    signal.setitimer(signal.ITIMER_REAL, 20.0)
    try:
        return f()
    except Timeout:
        return ["err", "OtherPy:Timeout(no termination within 20 s)"]
    except RecursionError:
        return ["err", "OtherPy:RecursionError"]
    except Exception as e:  # noqa: BLE001 - classification of whatever escapes is the point
        return ["err", err_kind(e)]
    finally:
        signal.setitimer(signal.ITIMER_REAL, 0)
        signal.signal(signal.SIGALRM, old)


def run_text(text, ret, kind_only=False):
    """aw_query.query2.query on the real code, builtins symbolic. `kind_only`: report a value as
    ["value"] without walking it (results nested hundreds of levels deep cannot be canonicalised, pickled or
    written as JSON by the harness's own recursive code)"""
    import aw_query.query2 as q2

    install_stubs()
    Mode.ret = ret or {}
    Mode.real = False
    if kind_only:
        return guarded(lambda: (q2.query("n", text, T0, T1, DS), ["value"])[1])
    return guarded(lambda: canon(q2.query("n", text, T0, T1, DS)))


def base_namespace():
    import aw_query.query2 as q2

    ns = q2.create_namespace()
    for k, v in ENV:
        ns[k] = v
    return ns


def ser_tok(t):
    import aw_query.query2 as q2

    if isinstance(t, q2.QInteger):
        return ["int", t.value]
    if isinstance(t, q2.QString):
        return ["str", t.value]
    if isinstance(t, q2.QVariable):
        return ["var", t.name, None if t.value is None else canon(t.value)]
    if isinstance(t, q2.QFunction):
        return ["call", t.name, [ser_tok(a) for a in t.args]]
    if isinstance(t, q2.QList):
        return ["list", [ser_tok(a) for a in t.value]]
    if isinstance(t, q2.QDict):
        return ["dict", [[k, ser_tok(v)] for k, v in t.value.items()]]
    return ["?", type(t).__name__]


def parse_text(text):
    """aw_query.query2.parse(statement, namespace) on the real code -> [name, token tree]"""
    import aw_query.query2 as q2

    def go():
        var, val = q2.parse(text, base_namespace())
        return [var.name, ser_tok(val)]

    return guarded(go)


# ---- the real builtins on a populated store (no model; oracle = direct evaluation) -------------


def make_store():
    """a fresh in-memory datastore with two buckets of events inside [T0, T1]"""
    from aw_core.models import Event
    from aw_datastore import Datastore
    from aw_datastore.storages import MemoryStorage

    ds = Datastore(MemoryStorage, testing=True)
    ds.create_bucket("win", "currentwindow", "c", "host1")
    ds.create_bucket("afk", "afkstatus", "c", "host1")
    ds.create_bucket("win-host2", "currentwindow", "c", "host2")
    ds["win-host2"].insert(Event(timestamp=T0 + timedelta(minutes=5), duration=timedelta(minutes=3), data={"app": "b0", "title": "other"}))
    apps = ["a0", "a1", "a0", "a2", "a1", "a0"]
    for i, app in enumerate(apps):
        ds["win"].insert(Event(timestamp=T0 + timedelta(minutes=10 * i), duration=timedelta(minutes=7),
                               data={"app": ("(2) " if i == 3 else "") + app, "title": ("(7) " if i % 3 == 0 else "") + f"t{i % 2} - x",
                                     "url": f"http://h{i % 2}.org/p"}))
    for i, st in enumerate(["not-afk", "afk", "not-afk"]):
        ds["afk"].insert(Event(timestamp=T0 + timedelta(minutes=20 * i), duration=timedelta(minutes=15),
                               data={"status": st}))
    return ds


def canon_real(v):
    from aw_core.models import Event

    if isinstance(v, Event):
        import json

        from .common import dt_to_us, td_to_us

        return ["event", v.id, dt_to_us(v.timestamp), td_to_us(v.duration),
                json.dumps(v.data, sort_keys=True, default=str)]
    if isinstance(v, (list, tuple)):
        return ["l", [canon_real(x) for x in v]]
    if isinstance(v, dict):
        return ["d", [[k, canon_real(x)] for k, x in v.items()]]
    if isinstance(v, (bool, int, str)) or v is None:
        return ["v", v]
    return ["o", type(v).__name__, str(v)]


def run_text_real(text):
    """aw_query.query2.query with the real builtin bodies on a fresh populated store"""
    import aw_query.query2 as q2

    install_stubs()
    Mode.real = True
    try:
        return guarded(lambda: canon_real(q2.query("n", text, T0, T1, make_store())))
    finally:
        Mode.real = False


def run_sequence_real(steps):
    """a sequence of real queries on ONE store with bucket deletions / creations in between:
    steps = [["q", text] | ["del", bucket] | ["create", bucket]]; returns the outcome kind of every query"""
    import aw_query.query2 as q2

    install_stubs()
    Mode.real = True
    try:
        ds = make_store()
        outs = []
        for st in steps:
            if st[0] == "q":
                o = guarded(lambda: canon_real(q2.query("n", st[1], T0, T1, ds)))
                outs.append(o[:2] if o[0] == "err" else ["value"])
            elif st[0] == "del":
                try:
                    ds.delete_bucket(st[1])
                    outs.append(["ok"])
                except Exception as e:
                    outs.append(["raised", type(e).__name__])
            else:
                try:
                    ds.create_bucket(st[1], "t", "c", "host1")
                    outs.append(["ok"])
                except Exception as e:
                    outs.append(["raised", type(e).__name__])
        return outs
    finally:
        Mode.real = False


def ref_eval_real(prog, value_semantics=False):
    """direct evaluation of the abstract syntax: the builtin bodies (the undecorated functions of
    aw_query.functions) applied to the values of the arguments, datastore / namespace passed to
    the ones that declare them"""
    install_stubs()
    reg = registry()
    ds = make_store()
    ns = {"True": True, "False": False, "true": True, "false": False}
    for k, v in ENV:
        ns[k] = v

    def ev(e):
        k = e[0]
        if k in ("i", "s"):
            return e[1]
        if k == "v":
            return ns[e[1]]
        if k == "l":
            return [ev(x) for x in e[1]]
        if k == "d":
            return {kk: ev(x) for kk, x in e[1]}
        ent = reg[e[1]]
        args = [ev(x) for x in e[2]]
        if e[1] in ("query_bucket", "query_bucket_eventcount", "find_bucket"):
            # what the three store-reading builtins stand for, written out against the store itself
            return direct_store_read(ds, e[1], args)
        d = direct_transforms().get(e[1])
        if d is not None:
            # the transform the builtin stands for, applied to the argument values in written order
            # (independent of the body registered in aw_query.functions)
            return d(*args)
        full = ([ds] if ent["takes_ds"] else []) + ([ns] if ent["takes_ns"] else []) + args
        return _raw[e[1]](*full)

    def go():
        import copy

        for name, e in prog:
            v = ev(e)
            ns[name] = copy.deepcopy(v) if value_semantics else v
        return canon_real(ns["RETURN"])

    return guarded(go)


def direct_store_read(ds, name, args):
    from aw_query.exceptions import QueryFunctionException

    if name == "find_bucket":
        if not (1 <= len(args) <= 2) or not all(isinstance(a, str) for a in args):
            raise QueryFunctionException("find_bucket: wrong arguments")
        flt, host = args[0], (args[1] if len(args) > 1 else None)
        for b, meta in ds.buckets().items():
            if flt in b and (not host or meta["hostname"] == host):
                return b
        raise QueryFunctionException("no bucket matches")
    if len(args) != 1 or not isinstance(args[0], str):
        raise QueryFunctionException(name + ": wrong arguments")
    if args[0] not in ds.buckets():
        raise QueryFunctionException("no such bucket")
    if name == "query_bucket":
        return ds[args[0]].get(-1, T0, T1)
    return ds[args[0]].get_eventcount(T0, T1)


def direct_transforms():
    import aw_transform as T
    from aw_transform import Rule

    return {
        "filter_keyvals": lambda ev, k, v: T.filter_keyvals(ev, k, v, False),
        "exclude_keyvals": lambda ev, k, v: T.filter_keyvals(ev, k, v, True),
        "filter_keyvals_regex": lambda ev, k, r: T.filter_keyvals_regex(ev, k, r),
        "filter_period_intersect": lambda a, b: T.filter_period_intersect(a, b),
        "period_union": lambda a, b: T.period_union(a, b),
        "limit_events": lambda ev, n: T.limit_events(ev, n),
        "merge_events_by_keys": lambda ev, ks: T.merge_events_by_keys(ev, ks),
        "chunk_events_by_key": lambda ev, k: T.chunk_events_by_key(ev, k),
        "sort_by_timestamp": lambda ev: T.sort_by_timestamp(ev),
        "sort_by_duration": lambda ev: T.sort_by_duration(ev),
        "sum_durations": lambda ev: T.sum_durations(ev),
        "concat": lambda a, b: T.concat(a, b),
        "union_no_overlap": lambda a, b: T.union_no_overlap(a, b),
        "flood": lambda ev: T.flood(ev),
        "split_url_events": lambda ev: T.split_url_events(ev),
        "simplify_window_titles": lambda ev, key: T.simplify_string(ev, key=key),
        "categorize": lambda ev, cl: T.categorize(ev, [(c, Rule(r)) for c, r in cl]),
        "tag": lambda ev, cl: T.tag(ev, [(c, Rule(r)) for c, r in cl]),
        "nop": lambda: 1,
    }


# ---- protocol ------------------------------------------------------------------------------------


def p_env():
    return " ".join([str(len(ENV))] + [f"{hx(k)} {hx(v)}" for k, v in ENV])


def p_ret(ret):
    items = sorted((ret or {}).items())
    return " ".join([str(len(items))] + [f"{hx(k)} {v}" for k, v in items])


def p_expr(e):
    k = e[0]
    if k == "i":
        return f"i {e[1]}"
    if k == "s":
        return f"s {hx(e[1])}"
    if k == "v":
        return f"v {hx(e[1])}"
    if k == "c":
        return " ".join([f"c {hx(e[1])} {len(e[2])}"] + [p_expr(a) for a in e[2]])
    if k == "l":
        return " ".join([f"l {len(e[1])}"] + [p_expr(a) for a in e[1]])
    if k == "d":
        return " ".join([f"d {len(e[1])}"] + [f"{hx(kk)} {p_expr(v)}" for kk, v in e[1]])
    raise ValueError(e)


def p_prog(p):
    return " ".join([str(len(p))] + [f"{hx(n)} {p_expr(e)}" for n, e in p])


def line_run(text, ret):
    return f"q run {p_ret(ret)} {p_env()} {hx(text)}"


def line_parse(text):
    return f"q parse {p_env()} {hx(text)}"


def line_denote(prog, ret):
    return f"q denote {p_ret(ret)} {p_env()} {p_prog(prog)}"


def line_render(prog, seed, table):
    return f"q render {seed} {len(table)} " + " ".join(hx(w) for w in table) + " " + p_prog(prog)


def _r_int(t: Toks):
    """an integer of the model's answer; one that this interpreter's int() refuses to read (more than 4300
    digits) is kept as text, so that it simply differs from whatever the real code produced"""
    tok = t.tok()
    return int(tok) if len(tok) <= MAX_INT_DIGITS else "big:" + tok


def r_val(t: Toks):
    k = t.tok()
    if k == "i":
        return ["i", _r_int(t)]
    if k == "s":
        return ["s", t.str()]
    if k == "b":
        return ["b", t.tok() == "1"]
    if k == "l":
        return ["l", t.list(lambda: r_val(t))]
    if k == "d":
        return ["d", t.list(lambda: [t.str(), r_val(t)])]
    if k == "c":
        kind = t.tok()
        name = t.str()
        return ["c", kind, name, t.list(lambda: r_val(t))]
    if k in ("ds", "ns", "none"):
        return [k]
    raise ValueError(k)


def r_tok(t: Toks):
    k = t.tok()
    if k == "int":
        return ["int", _r_int(t)]
    if k == "str":
        return ["str", t.str()]
    if k == "var":
        return ["var", t.str(), t.opt(lambda: r_val(t))]
    if k == "call":
        name = t.str()
        return ["call", name, t.list(lambda: r_tok(t))]
    if k == "list":
        return ["list", t.list(lambda: r_tok(t))]
    if k == "dict":
        return ["dict", t.list(lambda: [t.str(), r_tok(t)])]
    raise ValueError(k)


def r_result(line, f):
    """'ok …' -> f(tokens); 'err Kind' -> ["err", Kind]"""
    from .common import answer

    t = answer(line)
    if line.startswith("err "):
        t.tok()
        return ["err", t.tok()]
    return f(t)


# ---- independent reference: renderer, strict parser, evaluator ----------------------------------


def hash_path(seed, path):
    h = seed
    for x in path:
        h = (h * 1000003 + x + 1) % 2147483647
    return h


class Layout:
    """whitespace / quote style as a function of (node path, slot); the same function is compiled
    into the model driver (Driver/Query.lean mkLayout)"""

    def __init__(self, seed, table, path=()):
        self.seed, self.table, self.path = seed, table, tuple(path)

    def sub(self, j):
        return Layout(self.seed, self.table, self.path + (j + 1,))

    def slot(self, m):
        return self.table[hash_path(self.seed, self.path + (0, m)) % len(self.table)]

    def quote(self, m):
        return '"' if (hash_path(self.seed, self.path + (0, m)) // 8) % 2 == 0 else "'"


def render_str(q, s):
    # a backslash in the value that stands before a quote character is not an escape: the string must then be
    # delimited by the other quote (only backslash + delimiter is an escape)
    if "\\'" in s:
        q = '"'
    elif '\\"' in s:
        q = "'"
    return q + s.replace(q, "\\" + q) + q


def render_expr(e, lay):
    k = e[0]
    if k == "i":
        return str(e[1])
    if k == "s":
        return render_str(lay.quote(0), e[1])
    if k == "v":
        return e[1]
    if k == "c":
        return e[1] + "(" + render_args(e[2], lay) + ")"
    if k == "l":
        return "[" + render_args(e[1], lay) + "]"
    if k == "d":
        out = ""
        for j, (key, v) in enumerate(e[1]):
            if j:
                out += lay.slot(4 * j) + "," + lay.slot(4 * j + 1)
            out += render_str(lay.quote(4 * j + 2), key) + lay.slot(4 * j + 2) + ":" + lay.slot(4 * j + 3)
            out += render_expr(v, lay.sub(j))
        return "{" + out + "}"
    raise ValueError(e)


def render_args(args, lay):
    out = ""
    for j, a in enumerate(args):
        if j:
            out += lay.slot(2 * j) + "," + lay.slot(2 * j + 1)
        out += render_expr(a, lay.sub(j))
    return out


def render_prog(prog, seed, table):
    lay = Layout(seed, table)
    out = ""
    for i, (name, e) in enumerate(prog):
        out += lay.slot(4 * i) + name + lay.slot(4 * i + 1) + "=" + lay.slot(4 * i + 2)
        out += render_expr(e, lay.sub(i)) + lay.slot(4 * i + 3) + ";"
    return out + lay.slot(4 * len(prog))


class NotWellFormed(Exception):
    pass


class RefParser:
    """strict grammar of the language (whitespace only around , : = ;)

    prog    := ws (ident ws '=' ws expr ws (';' ws | END))*
    expr    := digits | string | ident '(' args ')' | ident | '[' args ']' | '{' entries '}'
    args    := ε | expr (ws ',' ws expr)*
    entries := ε | string ws ':' ws expr (ws ',' ws string ws ':' ws expr)*     (keys distinct)
    string  := q (any char except q, backslash, ';'  |  backslash q  |  backslash c)* q     q ∈ {", '}
               (backslash q denotes q; backslash c, c a printable ASCII character other than q, backslash and ';',
                denotes the two characters themselves)
    """

    def __init__(self, s):
        self.s, self.i = s, 0

    def peek(self):
        return self.s[self.i] if self.i < len(self.s) else ""

    def ws(self):
        while self.peek() != "" and self.peek() in WS_CHARS:
            self.i += 1

    def expect(self, c):
        if self.peek() != c:
            raise NotWellFormed(f"expected {c!r} at {self.i}")
        self.i += 1

    def ident(self):
        j = self.i
        c = self.peek()
        if not (c != "" and (c in "_" or ("a" <= c <= "z") or ("A" <= c <= "Z"))):
            raise NotWellFormed(f"identifier expected at {self.i}")
        while self.peek() != "" and (
            self.peek() == "_" or "a" <= self.peek() <= "z" or "A" <= self.peek() <= "Z" or "0" <= self.peek() <= "9"
        ):
            self.i += 1
        return self.s[j : self.i]

    def string(self):
        q = self.peek()
        if q == "" or q not in "\"'":
            raise NotWellFormed(f"string expected at {self.i}")
        self.i += 1
        out = ""
        while True:
            c = self.peek()
            if c == "" or c == ";":
                raise NotWellFormed("unterminated string")
            self.i += 1
            if c == q:
                return out
            if c == "\\":
                n = self.peek()
                if n == q:
                    self.i += 1
                    out += q
                elif n != "" and " " <= n <= "~" and n not in "\\;":
                    self.i += 1
                    out += "\\" + n
                else:
                    raise NotWellFormed("backslash not followed by the quote or a plain character")
            else:
                out += c

    def args(self, close):
        out = []
        if self.peek() == close:
            return out
        out.append(self.expr())
        while True:
            j = self.i
            self.ws()
            if self.peek() != ",":
                self.i = j
                return out
            self.i += 1
            self.ws()
            out.append(self.expr())

    def entry(self):
        k = self.string()
        self.ws()
        self.expect(":")
        self.ws()
        return [k, self.expr()]

    def expr(self):
        c = self.peek()
        if c != "" and "0" <= c <= "9":
            j = self.i
            while self.peek() != "" and "0" <= self.peek() <= "9":
                self.i += 1
            if self.i - j > MAX_INT_DIGITS:
                raise NotWellFormed("integer literal longer than the runtime's int() limit")
            return ["i", int(self.s[j : self.i])]
        if c != "" and c in "\"'":
            return ["s", self.string()]
        if c == "[":
            self.i += 1
            a = self.args("]")
            self.expect("]")
            return ["l", a]
        if c == "{":
            self.i += 1
            ents = []
            if self.peek() != "}":
                ents.append(self.entry())
                while True:
                    j = self.i
                    self.ws()
                    if self.peek() != ",":
                        self.i = j
                        break
                    self.i += 1
                    self.ws()
                    ents.append(self.entry())
            self.expect("}")
            if len({k for k, _ in ents}) != len(ents):
                raise NotWellFormed("duplicate dict key")
            return ["d", ents]
        name = self.ident()
        if self.peek() == "(":
            self.i += 1
            a = self.args(")")
            self.expect(")")
            return ["c", name, a]
        return ["v", name]

    def prog(self):
        out = []
        self.ws()
        while self.i < len(self.s):
            name = self.ident()
            self.ws()
            self.expect("=")
            self.ws()
            e = self.expr()
            self.ws()
            if self.i < len(self.s):
                self.expect(";")
                self.ws()
            out.append([name, e])
        return out


MAX_INT_DIGITS = 4300  # CPython's default sys.get_int_max_str_digits(): int() of a longer digit string raises
MAX_DEPTH = 150  # bracket nesting beyond which the interpreter's recursion limit may be hit (a parse error since F21; not modelled)


def bracket_depth(text):
    """deepest nesting of ( [ { in the text (quotes are not looked at: an upper bound)"""
    d = m = 0
    for c in text:
        if c in "([{":
            d += 1
            m = max(m, d)
        elif c in ")]}":
            d = max(0, d - 1)
    return m


def ref_parse(text):
    """the program a well-formed ASCII text denotes, or None"""
    if not is_ascii(text) or bracket_depth(text) > MAX_DEPTH:
        return None
    try:
        return RefParser(text).prog()
    except NotWellFormed:
        return None


def depth(e):
    k = e[0]
    if k in ("i", "s", "v"):
        return 0
    kids = e[2] if k == "c" else [v for _, v in e[1]] if k == "d" else e[1]
    return 1 + max([depth(x) for x in kids], default=0)


class RefErr(Exception):
    def __init__(self, kind):
        self.kind = kind


def _isinst(kind, v):
    t = v[0]
    if kind == "list":
        return t == "l" or (t == "c" and v[1] == "l")
    if kind == "str":
        return t == "s" or (t == "c" and v[1] == "s")
    if kind == "int":
        return t in ("i", "b") or (t == "c" and v[1] == "i")
    if kind == "float":
        return t == "c" and v[1] == "f"
    return True


def ref_call(entry, ret, args):
    """the call protocol stated from the dumped signature: datastore / namespace are passed to the
    builtins that declare them; a required parameter annotated list/str/int/float must get an
    instance (QueryFunction); the signature must bind the arguments (QueryInterpret)"""
    full = list(args)
    if entry["takes_ns"]:
        full = [["ns"]] + full
    if entry["takes_ds"]:
        full = [["ds"]] + full
    if entry["typechecked"]:
        for p, a in zip(entry["params"], full):
            if p["kind"] != "other" and p["required"] and not _isinst(p["kind"], a):
                raise RefErr("QueryFunction")
    if len(full) < entry["min"] or (entry["max"] is not None and len(full) > entry["max"]):
        raise RefErr("QueryInterpret")
    return ["c", ret.get(entry["name"], "l"), entry["name"], full]


def ref_eval_expr(e, ns, reg, ret):
    k = e[0]
    if k == "i":
        return ["i", e[1]]
    if k == "s":
        return ["s", e[1]]
    if k == "v":
        if e[1] not in ns:
            raise RefErr("QueryInterpret")
        return ns[e[1]]
    if k == "l":
        return ["l", [ref_eval_expr(x, ns, reg, ret) for x in e[1]]]
    if k == "d":
        return ["d", [[kk, ref_eval_expr(x, ns, reg, ret)] for kk, x in e[1]]]
    if k == "c":
        if e[1] not in reg:
            raise RefErr("QueryInterpret")
        args = [ref_eval_expr(x, ns, reg, ret) for x in e[2]]
        return ref_call(reg[e[1]], ret, args)
    raise ValueError(e)


def ref_eval(prog, reg, ret):
    """value (canonical) the program denotes, or ["err", kind]"""
    ns = {"True": ["b", True], "False": ["b", False], "true": ["b", True], "false": ["b", False]}
    for k, v in ENV:
        ns[k] = ["s", v]
    try:
        for name, e in prog:
            ns[name] = ref_eval_expr(e, ns, reg, ret)
    except RefErr as x:
        return ["err", x.kind]
    if "RETURN" not in ns:
        return ["err", "QueryParse"]
    return ns["RETURN"]


_REG = None


def registry():
    """name -> description, from the dump of the repository under check"""
    global _REG
    if _REG is None:
        from .registry_dump import describe

        _REG = {e["name"]: e for e in describe()}
    return _REG


def default_ret():
    """result kinds used by generated programs (so that nested calls type-check): the declared
    return annotation where it is list/str/int/float, a few known ones by name, else 'l'"""
    out = {}
    for n, e in registry().items():
        k = e["ret"]
        if k == "o":
            k = {"find_bucket": "s", "nop": "i", "sum_durations": "o"}.get(n, "l")
        out[n] = k
    return out


# ---- generators ----------------------------------------------------------------------------------

IDENTS = ["a", "b", "x1", "_v", "events", "Tmp_2", "RETURN", "not_afk", "e2", "T"]
STR_CH = list("abz09 _-()[]{},:=.'") + ['"']
TABLES = [
    [""],
    ["", " "],
    ["", " ", "  ", "\n", " \n\t", "\t"],
    [" ", "\r\n", "\x0b", "\x0c ", "\x1c", "\x1d\x1e\x1f", "\n\n"],
]


def gen_string(rng, maxlen=6):
    s = "".join(rng.choice(STR_CH) for _ in range(rng.randrange(0, maxlen + 1)))
    if rng.random() < 0.1:
        # a backslash that does not stand before the delimiter is an ordinary character of the value
        i = rng.randrange(len(s) + 1)
        s = s[:i] + "\\" + rng.choice(["a", "z", " ", "n", "'", '"', "(", ","]) + s[i:]
    return s


def gen_expr(rng, d, env, want=None, reg=None, ret=None, typed=0.8):
    """random expression of nesting <= d; `want` in list/str/int/other steers towards a value that
    passes the type check of that parameter kind (with probability `typed`)"""
    reg = reg if reg is not None else registry()
    ret = ret if ret is not None else default_ret()
    names = sorted(reg)
    if want in ("list", "str", "int") and rng.random() < typed:
        kinds = {"list": "l", "str": "s", "int": "i"}[want]
        cands = [n for n in names if ret.get(n, "l") == kinds]
        r = rng.random()
        if d > 0 and cands and r < 0.45:
            return gen_call(rng, d, env, rng.choice(cands), reg, ret, typed)
        if want == "list":
            return ["l", [gen_expr(rng, d - 1, env, None, reg, ret, typed) for _ in range(rng.randrange(0, 4))]] if d > 0 else ["l", []]
        if want == "str":
            return ["s", gen_string(rng)]
        return ["i", rng.choice([0, 1, 7, 42, 1000, 10**12])]
    r = rng.random()
    if d <= 0 or r < 0.25:
        c = rng.random()
        if c < 0.3:
            return ["i", rng.choice([0, 1, 7, 42, 1000, 2**70])]
        if c < 0.6:
            return ["s", gen_string(rng)]
        if env and c < 0.9:
            return ["v", rng.choice(env)]
        return ["v", rng.choice(["True", "false", "NAME", "STARTTIME"])]
    if r < 0.55:
        return gen_call(rng, d, env, rng.choice(names), reg, ret, typed)
    if r < 0.8:
        return ["l", [gen_expr(rng, d - 1, env, None, reg, ret, typed) for _ in range(rng.randrange(0, 4))]]
    ents, seen = [], set()
    for _ in range(rng.randrange(0, 4)):
        k = gen_string(rng, 4)
        if k not in seen:
            seen.add(k)
            ents.append([k, gen_expr(rng, d - 1, env, None, reg, ret, typed)])
    return ["d", ents]


def gen_call(rng, d, env, name, reg, ret, typed):
    e = reg[name]
    ps = e["params"][(1 if e["takes_ds"] else 0) + (1 if e["takes_ns"] else 0) :]
    n = len(ps)
    if rng.random() < 0.12:
        n = rng.randrange(0, 4)
    elif any(not p["required"] for p in ps) and rng.random() < 0.5:
        n = len([p for p in ps if p["required"]])
    args = []
    for j in range(n):
        want = ps[j]["kind"] if j < len(ps) else None
        args.append(gen_expr(rng, d - 1, env, want, reg, ret, typed))
    return ["c", name, args]


def gen_prog(rng, maxdepth=4, typed=0.85):
    env, prog = [], []
    for _ in range(rng.randrange(0, 4)):
        v = rng.choice(IDENTS)
        if env and rng.random() < 0.25:  # aliasing / rebinding: x = y; y = …; uses of x
            e = ["v", rng.choice(env)]
        else:
            e = gen_expr(rng, rng.randrange(0, maxdepth + 1), env, rng.choice([None, "list", "str"]), typed=typed)
        prog.append([v, e])
        if v not in env:
            env.append(v)
    prog.append(["RETURN", gen_expr(rng, rng.randrange(0, maxdepth + 1), env, rng.choice([None, "list"]), typed=typed)])
    return prog


ALPHABET = list("ab1 \n\t=;,:()[]{}\"'\\_9Z") + ["RETURN", "nop", "concat", "nop()", "[1]", '"s"']


def corrupt(rng, s, n=None):
    s = list(s)
    for _ in range(n or rng.randrange(1, 4)):
        if not s:
            break
        i = rng.randrange(len(s))
        op = rng.random()
        if op < 0.3:
            del s[i]
        elif op < 0.5:
            s.insert(i, s[i])
        elif op < 0.7 and i + 1 < len(s):
            s[i], s[i + 1] = s[i + 1], s[i]
        else:
            s.insert(i, rng.choice(ALPHABET))
    return "".join(s)


def shrink_text(t):
    n = len(t)
    k = n // 2
    while k >= 1:
        for i in range(0, n - k + 1, max(1, k // 2)):
            yield t[:i] + t[i + k :]
        k //= 2


def shrink_expr(e):
    """smaller expressions: children, fewer children"""
    k = e[0]
    if k == "c":
        for a in e[2]:
            yield a
        for i in range(len(e[2])):
            yield ["c", e[1], e[2][:i] + e[2][i + 1 :]]
        for i, a in enumerate(e[2]):
            for s in shrink_expr(a):
                yield ["c", e[1], e[2][:i] + [s] + e[2][i + 1 :]]
    elif k == "l":
        for a in e[1]:
            yield a
        for i in range(len(e[1])):
            yield ["l", e[1][:i] + e[1][i + 1 :]]
        for i, a in enumerate(e[1]):
            for s in shrink_expr(a):
                yield ["l", e[1][:i] + [s] + e[1][i + 1 :]]
    elif k == "d":
        for _, a in e[1]:
            yield a
        for i in range(len(e[1])):
            yield ["d", e[1][:i] + e[1][i + 1 :]]
        for i, (kk, a) in enumerate(e[1]):
            for s in shrink_expr(a):
                yield ["d", e[1][:i] + [[kk, s]] + e[1][i + 1 :]]
    elif k == "s" and e[1]:
        yield ["s", ""]
        yield ["s", e[1][: len(e[1]) // 2]]
    elif k == "i" and e[1]:
        yield ["i", 0]


def shrink_prog(p):
    for i in range(len(p) - 1):
        yield p[:i] + p[i + 1 :]
    for i, (n, e) in enumerate(p):
        for s in shrink_expr(e):
            yield p[:i] + [[n, s]] + p[i + 1 :]
