"""Base class of a property check.

A property module provides a subclass of `Prop`. A *case* is a JSON-serialisable object (an input,
an operation history, a program, ...). The generic runner (runner.py)
  1. builds and audits the Lean proof module of the property,
  2. runs every case on the real code (`impl`) and on the Lean model (`model_lines`/`model_out`)
     and diffs the canonical outputs (the correspondence check),
  3. evaluates the property itself, stated directly in Python (`oracle`), on the outputs of the real
     code (and on the model's outputs),
  4. decides: PASS / KNOWN-FINDING / VIOLATION with a replay / VIOLATION no-failing-input-found.
"""
import random


class Ctx:
    def __init__(self, tier, seed, escalated=False):
        self.tier = tier
        self.seed = seed
        self.quick = tier == "quick"
        # the anchored source changed since the model was last validated against it: spend more search
        self.escalated = escalated and self.quick

    def rng(self, name):
        return random.Random(f"{self.seed}:{name}")

    def pick(self, quick, thorough):
        if (self.escalated and isinstance(quick, int) and isinstance(thorough, int) and not isinstance(quick, bool)
                and quick >= 20):  # numbers of random cases, not structural sizes (list lengths, grid bounds)
            return max(quick, min(thorough, quick * 6))
        return quick if self.quick else thorough


class Prop:
    ID = "C00"
    MODULE = None  # Lean module with the property theorems
    THEOREMS = []  # fully qualified names that must be present
    TRUSTED = []  # property-specific trusted base entries
    ASSUMPTIONS = []
    RULE = ""  # how cases are generated and what makes one non-trivial
    WORKERS = 8  # processes used to run the real code
    NO_MODEL = False

    # ---- generation -------------------------------------------------------------------------
    def gen(self, ctx):
        """return a list of (stream_name, case); deterministic in ctx.seed"""
        raise NotImplementedError

    def extra_search(self, ctx, around):
        """more cases to try on the real code when a proof or the correspondence is broken;
        `around` is a list of (shrunk) disagreement cases"""
        return []

    # ---- both sides ------------------------------------------------------------------------
    def impl(self, case):
        """run the real code; return canonical JSON-able output (exceptions mapped to ['err', kind])"""
        raise NotImplementedError

    def model_lines(self, case):
        """protocol lines for the driver"""
        raise NotImplementedError

    def model_out(self, case, answers):
        """canonical output of the model from the driver's answer lines"""
        raise NotImplementedError

    def same(self, case, impl_out, model_out):
        return impl_out == model_out

    # ---- the property ----------------------------------------------------------------------
    def oracle(self, case, out):
        """None if the property holds on this case/output, else a short description"""
        raise NotImplementedError

    def nontrivial(self, case, out):
        return True

    def key(self, case):
        """hashable identity of a case for the distinct count"""
        import json

        return json.dumps(case, sort_keys=True)

    def scope(self, case, out):
        """key of the known finding whose scope contains this failing case, or None"""
        return None

    def shrink(self, case):
        """candidate smaller cases"""
        return []

    def features(self, case, out):
        """labels counted into the evidence histograms"""
        return []
