"""Driving the three storage backends and their Lean models with operation histories.

A history is a list of ops (JSON). Event ids inside ops are symbolic references
["ref", k] = id of the k-th event inserted by the history (counted over inserts in issue order);
they are resolved against what the real backend assigned, and the *same concrete ids* are sent to the
model, whose own id assignment is then compared through the outputs.

ops:
  ["create", b, meta]   meta = {"name":.., "type":.., "client":.., "hostname":.., "created_us":.., "data":..}
  ["update", b, {field: value}]      ["delbucket", b]   ["lookup", b]   ["metadata", b]   ["buckets"]
  ["insert", b, ev]     ev = [idref|None, ts_us, dur_us, data_text]
  ["bulk", b, [ev…]]    ["replace", b, idref, ev]   ["replacelast", b, ev]   ["delete", b, idref]
  ["get", b, limit, start_us|None, end_us|None]   ["getbyid", b, idref]   ["count", b, start, end]
idref = ["ref", k] | ["raw", n]
"""
import json
import os
import shutil
import tempfile

from .common import (answer, canon_data, dt_to_us, err_kind, ev_tuple, hx, mk_event, p_ev, p_list, p_opt,
                     us_to_dt)

BACKENDS = ("memory", "sqlite", "peewee")
WRITE_OPS = {"create", "create_bad", "update", "delbucket", "insert", "bulk", "replace", "replacelast", "delete", "reopen"}


def tmp_root():
    base = "/dev/shm" if os.path.isdir("/dev/shm") and os.access("/dev/shm", os.W_OK) else None
    return tempfile.mkdtemp(prefix="awverif_", dir=base)


class Store:
    """a real Datastore on a private scratch directory"""

    def __init__(self, backend, lazy=True, path=None):
        from aw_datastore import Datastore
        from aw_datastore.storages import MemoryStorage, PeeweeStorage, SqliteStorage

        self.backend = backend
        self.lazy = lazy
        self.dir = None
        if backend == "memory":
            self.ds = Datastore(MemoryStorage, testing=True)
        else:
            if path is None:
                self.dir = tmp_root()
                path = os.path.join(self.dir, "db.sqlite")
            self.path = path
            if backend == "sqlite":
                self.ds = Datastore(SqliteStorage, testing=True, filepath=path, enable_lazy_commit=lazy)
            else:
                self.ds = Datastore(PeeweeStorage, testing=True, filepath=path)
        self.st = self.ds.storage_strategy

    def reopen(self):
        """the client restarts after a clean stop: a new Datastore object on the same database file (nothing to do
        for the memory backend, whose contents live in the object)"""
        from aw_datastore import Datastore
        from aw_datastore.storages import PeeweeStorage, SqliteStorage

        if self.backend == "sqlite":
            self.st.commit()
            self.st.conn.close()
            self.ds = Datastore(SqliteStorage, testing=True, filepath=self.path, enable_lazy_commit=self.lazy)
        elif self.backend == "peewee":
            close_peewee(self.st.db)
            self.ds = Datastore(PeeweeStorage, testing=True, filepath=self.path)
        self.st = self.ds.storage_strategy

    def close(self):
        try:
            if self.backend == "sqlite":
                self.st.conn.close()
            elif self.backend == "peewee":
                close_peewee(self.st.db)
        finally:
            if self.dir:
                shutil.rmtree(self.dir, ignore_errors=True)


def close_peewee(db):
    """close peewee's database object even when the code under test left a transaction open on it (the object is one
    per process: the next case must be able to use it; what was observed before stands)"""
    for _ in range(8):
        try:
            db.close()
            return
        except Exception:  # noqa: BLE001 - "Attempting to close database while transaction is open"
            try:
                if not db.session_rollback():
                    db._state.reset()
            except Exception:  # noqa: BLE001
                db._state.reset()


def created_us(text):
    """the creation instant of a bucket as integer µs (the backends keep it as ISO text: sqlite and memory as
    given, peewee normalised to UTC) - compared as an instant"""
    from datetime import datetime

    try:
        return dt_to_us(datetime.fromisoformat(text))
    except Exception:
        return text


def meta_tuple(m):
    """canonical [name, type, client, hostname, created instant, data_text] of a metadata dict"""
    return [m.get("name"), m["type"], m["client"], m["hostname"], created_us(m["created"]), canon_data(m.get("data") or {})]


def dump(store):
    """everything observable: {bucket: {"meta": […], "events": [[id, ts, dur, data] sorted by id]}}"""
    out = {}
    bs = store.st.buckets()
    for b in sorted(bs):
        evs = [ev_tuple(e) for e in store.st.get_events(b, -1)]
        evs.sort(key=lambda e: (e[0] is None, e[0]))
        out[b] = {"meta": meta_tuple(bs[b]), "events": evs, "count": store.st.get_eventcount(b)}
        described = meta_tuple(store.st.get_metadata(b))
        if described != out[b]["meta"]:
            out[b]["described"] = described  # describing a bucket must agree with the listing
    return out


def created_iso(us):
    return us_to_dt(us).isoformat()


def _scribble_json(d):
    """the client edits, at every depth, a dict it has just passed to the store"""
    if isinstance(d, dict):
        for v in list(d.values()):
            _scribble_json(v)
        d["scribbled"] = True
    elif isinstance(d, list):
        for v in d:
            _scribble_json(v)
        d.append("scribbled")


class Runner:
    """runs a history on a real backend, resolving id references"""

    def __init__(self, backend, with_dumps=True):
        self.backend = backend
        self.with_dumps = with_dumps

    def resolve(self, idref, refs):
        if idref is None:
            return None
        kind, v = idref
        if kind == "raw":
            return v
        if v < len(refs) and refs[v] is not None:
            return refs[v]
        return 10**6 + v  # an id that never existed

    def run(self, ops):
        store = Store(self.backend)
        try:
            return self._run(store, ops)
        finally:
            store.close()

    def _run(self, store, ops):
        ds, st = store.ds, store.st
        pool = {}  # a client that re-uses its Event objects: same content -> same Python object

        def ev_obj(e, used=None):
            """the client's Event object for this content; its id is (re)set to what the operation passes
            (`used`: objects already placed in the list of the current bulk call - one object cannot be two elements)"""
            key = (e[1], e[2], e[3])
            o = pool.get(key)
            if o is not None and used is not None and any(o is u for u in used):
                if self.backend == "memory" and e[0] is None and o.id is None:
                    # `n * [event]`: the same id-less object several times in one list. The memory store never writes to the
                    # caller's objects, so each occurrence is one more event to store (the SQL stores stamp the new id on the
                    # object they are given, which makes a second occurrence an update: they get distinct objects)
                    return o
                o = None
                key = None
            if o is None:
                o = mk_event(e)
                if key is not None:
                    pool[key] = o
            else:
                o.id = e[0]
                o.timestamp = us_to_dt(e[1])
                o.duration = us_to_dt(e[2]) - us_to_dt(0)
                o.data = json.loads(e[3]) if e[3] else {}
            if used is None:
                # single-event calls: the client keeps ONE state dict and refills it in place before every call (a watcher
                # loop); what it wrote earlier with the same dict object must not follow the dict
                state.clear()
                state.update(json.loads(e[3]) if e[3] else {})
                o.data = state
            return o

        state = {}

        def scribble(events):
            """a handed-out event is the client's to change: mark its data in place, top level and below"""
            for x in events:
                if x is None:
                    continue
                for v in list(x.data.values()):
                    if isinstance(v, list):
                        v.append("client-scribble")
                    elif isinstance(v, dict):
                        v["client-scribble"] = 1
                x.data["client-scribble"] = [1]

        def h(b):
            """the client's handle of bucket b (looked up earlier; possibly stale)"""
            return ds.bucket_instances.get(b) or _handle(ds, b)

        held = {}

        def held_handle(b):
            """the handle the client obtained the first time it looked at bucket b and has kept ever since (across
            deletion and re-creation of the bucket)"""
            if b not in held:
                held[b] = ds.bucket_instances.get(b) or _handle(ds, b)
            return held[b]

        refs = []  # k -> concrete id
        outs, resolved, dumps = [], [], []
        known_ids = set()  # (bucket, id) seen in dumps
        quiet = self.with_dumps == "last"  # nothing is read between the writes: only the final state is observed
        for n_op, op in enumerate(ops):
            k = op[0]
            rop = list(op)
            try:
                if k == "create":
                    m = op[2]
                    d0 = json.loads(m["data"]) if m.get("data") is not None else None
                    try:
                        ds.create_bucket(op[1], m["type"], m["client"], m["hostname"],
                                         created=us_to_dt(m["created_us"], m.get("created_off", 0)), name=m.get("name"), data=d0)
                    finally:
                        _scribble_json(d0)  # the caller goes on using its own dict
                    out = ["ok"]
                elif k == "create_bad":
                    # a creation the store must reject (and leave no trace of): the creation time is not a datetime,
                    # or (SQL backends) a NOT NULL metadata field is None
                    if op[2] == "created":
                        ds.create_bucket(op[1], "t", "c", "h", created="not-a-datetime")
                    elif self.backend != "memory":
                        ds.create_bucket(op[1], None, "c", "h", created=us_to_dt(0))
                    else:
                        raise ValueError("not applicable to the memory backend")
                    out = ["accepted"]
                elif k == "update":
                    kw = dict(op[2])
                    if "data" in kw and kw["data"] is not None:
                        kw["data"] = json.loads(kw["data"])
                    if "type" in kw:
                        kw["type_id"] = kw.pop("type")
                    try:
                        ds.update_bucket(op[1], **kw)
                    finally:
                        _scribble_json(kw.get("data"))
                    out = ["ok"]
                elif k == "delbucket":
                    ds.delete_bucket(op[1])
                    out = ["ok"]
                elif k == "reopen":
                    store.reopen()
                    ds, st = store.ds, store.st
                    held.clear()
                    out = ["ok"]
                elif k == "lookup":
                    ds[op[1]]
                    out = ["ok"]
                elif k == "metadata":
                    m1 = meta_tuple(held_handle(op[1]).metadata())
                    if m1 != meta_tuple(st.get_metadata(op[1])):
                        m1 = ["a handle kept by the client describes the bucket as", m1, "the store as", meta_tuple(st.get_metadata(op[1]))]
                    out = ["ok", m1]
                elif k == "buckets":
                    bs = ds.buckets()
                    out = ["ok", {b: meta_tuple(bs[b]) for b in sorted(bs)}]
                elif k == "insert":
                    ev = list(op[2])
                    ev[0] = self.resolve(ev[0], refs)
                    rop[2] = ev
                    had_id = ev[0] is not None
                    r = h(op[1]).insert(ev_obj(ev))
                    if not had_id:
                        refs.append(r.id)
                    out = ["ok", r.id]
                elif k == "bulk":
                    evs = []
                    for e in op[2]:
                        e = list(e)
                        e[0] = self.resolve(e[0], refs)
                        evs.append(e)
                    rop[2] = evs
                    before = {(b, e[0]) for b, v in dump(store).items() for e in v["events"]}
                    n_new = sum(1 for e in evs if e[0] is None)
                    try:
                        objs = []
                        for e in evs:
                            objs.append(ev_obj(e, objs))
                        h(op[1]).insert(objs)
                    finally:
                        after = dump(store)
                        new = sorted(e[0] for e in after.get(op[1], {"events": []})["events"]
                                     if (op[1], e[0]) not in before)
                        new = new[:n_new] + [None] * (n_new - len(new))
                        refs.extend(new)
                    out = ["ok"]
                elif k == "replace":
                    i = self.resolve(op[2], refs)
                    rop[2] = i
                    h(op[1]).replace(i, ev_obj([self.resolve(op[3][0], refs)] + list(op[3][1:])))
                    out = ["ok"]
                elif k == "replacelast":
                    blind = quiet or (len(op) > 3 and op[3] == "blind")  # no limit-1 read right before it
                    try:
                        last = None if blind else h(op[1]).get(1)
                        hint = last[0].id if last else None
                    except Exception:
                        hint = None
                    rop = rop[:3] + [hint]
                    h(op[1]).replace_last(ev_obj([self.resolve(op[2][0], refs)] + list(op[2][1:])))
                    out = ["ok"]
                elif k == "delete":
                    i = self.resolve(op[2], refs)
                    rop[2] = i
                    r = h(op[1]).delete(i)
                    out = ["ok", bool(r)]
                elif k == "get":
                    b = ds.bucket_instances.get(op[1]) or _handle(ds, op[1])
                    r = b.get(op[2], us_to_dt(op[3]) if op[3] is not None else None,
                              us_to_dt(op[4]) if op[4] is not None else None)
                    out = ["ok", [ev_tuple(e) for e in r]]
                    scribble(r)
                elif k == "getbyid":
                    i = self.resolve(op[2], refs)
                    rop[2] = i
                    r = h(op[1]).get_by_id(i)
                    out = ["ok", None if r is None else ev_tuple(r)]
                    scribble([r])
                elif k == "count":
                    r = h(op[1]).get_eventcount(us_to_dt(op[2]) if op[2] is not None else None,
                                          us_to_dt(op[3]) if op[3] is not None else None)
                    out = ["ok", r]
                else:
                    raise RuntimeError("unknown op " + k)
            except RuntimeError:
                raise
            except Exception as e:  # outcome of the real code
                out = ["err", err_kind(e)]
                if k == "create_bad":
                    out = ["rejected"]
                if k == "insert" and op[2][0] is None:
                    refs.append(None)
            outs.append(out)
            resolved.append(rop)
            if (self.with_dumps is True and k in WRITE_OPS) or (quiet and n_op == len(ops) - 1):
                dumps.append(dump(store))
            else:
                dumps.append(None)
        return {"outs": outs, "resolved": resolved, "dumps": dumps}


def _handle(ds, b):
    """a (possibly stale) Bucket handle, as a client that looked the bucket up earlier would hold"""
    from aw_datastore.datastore import Bucket

    return Bucket(ds, b)


# ---- model side -------------------------------------------------------------------------------


def p_meta(m):
    return " ".join([p_opt(m.get("name"), hx), hx(m["type"]), hx(m["client"]), hx(m["hostname"]),
                     hx(created_iso(m["created_us"])), hx(canon_data(json.loads(m["data"]) if m.get("data") else {}))])


def model_lines(backend, resolved, with_dumps=True):
    """protocol lines for a resolved history; returns (lines, index map op -> (line idx, dump idx))"""
    L = [f"store reset"]
    idx = []
    pre = f"store {backend} "
    for op in resolved:
        k = op[0]
        if k == "create":
            L.append(pre + f"create {hx(op[1])} {p_meta(op[2])}")
        elif k == "update":
            u = op[2]
            data = u.get("data")
            if data is not None:
                data = canon_data(json.loads(data))
            L.append(pre + "update " + " ".join([hx(op[1]), p_opt(u.get("type"), hx), p_opt(u.get("client"), hx),
                                                 p_opt(u.get("hostname"), hx), p_opt(u.get("name"), hx), p_opt(data, hx)]))
        elif k == "create_bad":
            L.append(pre + f"lookup {hx(op[1])}")  # the model does nothing for a rejected creation (a read keeps the lines aligned)
        elif k == "reopen":
            # a new storage object on the same file: the tables are the state, the model does nothing (peewee's key
            # cache is rebuilt from the table: C05.peewee_keys_coherent says it equals the table at all times)
            L.append(pre + "buckets")
        elif k in ("delbucket", "lookup", "metadata"):
            L.append(pre + f"{k} {hx(op[1])}")
        elif k == "buckets":
            L.append(pre + "buckets")
        elif k == "insert":
            L.append(pre + f"insert {hx(op[1])} {p_ev(op[2])}")
        elif k == "bulk":
            L.append(pre + f"bulk {hx(op[1])} {p_list(op[2], p_ev)}")
        elif k == "replace":
            L.append(pre + f"replace {hx(op[1])} {op[2]} {p_ev([None] + list(op[3][1:]))}")
        elif k == "replacelast":
            L.append(pre + f"replacelast {hx(op[1])} {p_opt(op[3])} {p_ev([None] + list(op[2][1:]))}")
        elif k == "delete":
            L.append(pre + f"delete {hx(op[1])} {op[2]}")
        elif k == "get":
            L.append(pre + f"get {hx(op[1])} {op[2]} {p_opt(op[3])} {p_opt(op[4])}")
        elif k == "getbyid":
            L.append(pre + f"getbyid {hx(op[1])} {op[2]}")
        elif k == "count":
            L.append(pre + f"count {hx(op[1])} {p_opt(op[2])} {p_opt(op[3])}")
        li = len(L) - 1
        di = None
        if (with_dumps is True and k in WRITE_OPS) or (with_dumps == "last" and op is resolved[-1]):
            L.append(pre + "dump")
            di = len(L) - 1
        idx.append((li, di))
    return L, idx


def read_meta(t):
    name = t.opt(t.str)
    typ, client, host, created, data = t.str(), t.str(), t.str(), t.str(), t.str()
    return [name, typ, client, host, created_us(created), data]


def parse_dump(line):
    t = answer(line)
    n = t.int()
    out = {}
    for _ in range(n):
        b = t.str()
        m = read_meta(t)
        evs = t.list(t.ev)
        evs.sort(key=lambda e: (e[0] is None, e[0]))
        out[b] = {"meta": m, "events": evs, "count": len(evs)}
    return dict(sorted(out.items()))


def model_out(backend, resolved, answers, idx):
    outs, dumps = [], []
    for op, (li, di) in zip(resolved, idx):
        a = answers[li]
        k = op[0]
        if k == "create_bad":
            outs.append(["rejected"])
        elif k == "reopen":
            outs.append(["ok"])
        elif a.startswith("err "):
            outs.append(["err", a.split()[1]])
        else:
            t = answer(a)
            if k in ("create", "update", "delbucket", "lookup", "bulk", "replace"):
                outs.append(["ok"])
            elif k == "replacelast":
                rest = a.split()[1:]
                outs.append(["ok"] if not rest or rest[0] != "illegal-hint" else ["ok", "illegal-hint"])
            elif k == "metadata":
                outs.append(["ok", read_meta(t)])
            elif k == "buckets":
                n = t.int()
                d = {}
                for _ in range(n):
                    b = t.str()
                    d[b] = read_meta(t)
                outs.append(["ok", dict(sorted(d.items()))])
            elif k == "insert":
                tok = t.tok()
                outs.append(["ok", int(t.tok()) if tok == "S" else (None if tok == "N" else int(tok))])
            elif k == "delete":
                v = t.tok()
                outs.append(["ok", v != "0"])
            elif k == "get":
                outs.append(["ok", t.list(t.ev)])
            elif k == "getbyid":
                outs.append(["ok", t.opt(t.ev)])
            elif k == "count":
                outs.append(["ok", t.int()])
        dumps.append(parse_dump(answers[di]) if di is not None else None)
    return {"outs": outs, "dumps": dumps, "resolved": resolved}


def norm_err(backend, out):
    """peewee exception classes that the enum folds together"""
    if out and out[0] == "err":
        k = out[1]
        if k.startswith("OtherPy:") and "DoesNotExist" in k:
            return ["err", "DoesNotExist"]
    return out


def legal_read(backend, got, full):
    """is `got` (impl) a legal answer given the model's answer `full` computed with the same limit?
    memory and sqlite have a deterministic order; for peewee SQL leaves ties unspecified: compare as
    sequences of timestamps plus multisets inside equal-timestamp groups (a limit cutting through a
    tie group may keep any of its members)."""
    if backend != "peewee":
        return got == full
    if len(got) != len(full):
        return False
    if [e[1] for e in got] != [e[1] for e in full]:
        return False
    if not got:
        return True
    last = got[-1][1]
    key = lambda e: json.dumps(e, sort_keys=True)
    a = sorted(key(e) for e in got if e[1] != last)
    b = sorted(key(e) for e in full if e[1] != last)
    return a == b


def same_history(backend, io, mo):
    if len(io["outs"]) != len(mo["outs"]):
        return False
    for op, a, b in zip(io["resolved"], io["outs"], mo["outs"]):
        if op[0] == "get" and a[0] == "ok" and b[0] == "ok":
            if not legal_read(backend, a[1], b[1]):
                return False
        elif a != b:
            return False
    for a, b in zip(io["dumps"], mo["dumps"]):
        if a != b:
            return False
    return True
