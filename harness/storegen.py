"""Generators and reference model for store histories (C02, C04, C05, C07)."""
import copy
import json

T0 = 1_600_000_000_000_000  # 2020-09-13T12:26:40Z in µs
SEC = 1_000_000


def lab(x):
    return json.dumps({"label": x}, sort_keys=True, separators=(",", ":"), ensure_ascii=False)


LABELS = [lab("a"), lab("b"), json.dumps({"label": "ü\"'", "n": [1, {"k": None}], "f": 0.5},
                                         sort_keys=True, separators=(",", ":"), ensure_ascii=False)]
# data that compares equal in Python (1 == True == 1.0, 0 == False) but is not the same JSON value
LABELS_JSON_TYPES = ['{"n":1}', '{"n":true}', '{"n":1.0}', '{"n":0}', '{"n":false}', '{"n":[1,{"k":true}]}', '{"n":[1.0,{"k":1}]}']
BUCKETS = ["b0", "b1", "bü-2"]
# ids that SQL LIKE would confuse (case twins, "_" as a wildcard) and that contain each other
BUCKETS_LIKE = ["aw_w", "aw-w", "AW_W", "aw_w%"]
BUCKETS_COLS = ["id", "name", "client"]  # bucket ids spelled like columns of the buckets table
# ids that are the same text for a reader and different strings: composed / decomposed accents (NFC / NFD), a ligature (NFKC)
BUCKETS_NFC = ["aw-watcher_Jos\u00e9", "aw-watcher_Jose\u0301", "aw-watcher_\ufb01le"]


def mk_meta(rng, b, with_name=None):
    m = {
        "type": rng.choice(["currentwindow", "afk", "tüp"]),
        "client": rng.choice(["aw-watcher-window", "c"]),
        "hostname": rng.choice(["host", "höst"]),
        "created_us": T0 - rng.randint(0, 10**9) * 1000,
        "created_off": rng.choice([0, 0, 120, -330, 765]),
        "data": rng.choice([None, "{}", json.dumps({"k": [1, "x", None]}), json.dumps({"a": {"b": "c"}})]),
    }
    if with_name if with_name is not None else rng.random() < 0.5:
        m["name"] = rng.choice(["My bucket", "näme"])
    return m


DAY = 86_400 * SEC


def rand_ev(rng, grid=8, base=T0):
    dur = rng.choice([0, 0, SEC, 2 * SEC, 3 * SEC, 3, 1_234_567])
    if rng.random() < 0.06:  # day-scale durations (timedelta keeps days, seconds and microseconds apart)
        dur = rng.choice([DAY, DAY + SEC, 2 * DAY + 1500, 30 * DAY])
    return [None, base + rng.randrange(grid) * SEC, dur, rng.choice(LABELS)]


# histories whose instants straddle the Unix epoch (events that start and end before 1970, that reach across it, that
# start on it): instants are signed microsecond counts, nothing in the property stops at 1970
EPOCH_BASE = -4 * SEC
# ... and histories dated after today (2149: the library only warns about years after 2100)
FUTURE_BASE = 5_680_000_000_000_000
# ... and far from the epoch on either side (1 March of the years 500, 1000, 2300, 3000, 9000): a double no longer
# resolves such instants to the microsecond
FAR_BASES = [-46_383_580_800_000_000, -30_605_126_400_000_000, 10_418_889_600_000_000, 32_508_777_600_000_000,
             221_850_489_600_000_000]


class HistGen:
    """random history respecting C02's precondition; tracks live references symbolically"""

    def __init__(self, rng, nbuckets=2, grid=8):
        self.rng = rng
        r_b = rng.random()
        self.buckets = (BUCKETS_LIKE if r_b < 0.15 else BUCKETS_COLS if r_b < 0.25 else BUCKETS_NFC if r_b < 0.35 else BUCKETS)[:nbuckets]
        self.grid = grid
        r0 = rng.random()
        self.base = EPOCH_BASE if r0 < 0.12 else FUTURE_BASE if r0 < 0.18 else rng.choice(FAR_BASES) if r0 < 0.24 else T0
        self.ops = []
        self.nrefs = 0
        self.live = {b: [] for b in self.buckets}

    def start(self):
        for b in self.buckets:
            self.ops.append(["create", b, mk_meta(self.rng, b)])

    def op_insert(self, b):
        self.ops.append(["insert", b, rand_ev(self.rng, self.grid, self.base)])
        self.live[b].append(self.nrefs)
        self.nrefs += 1

    def op_bulk(self, b):
        evs = []
        n = self.rng.randint(0, 4)
        ups = self.rng.sample(self.live[b], min(len(self.live[b]), self.rng.randint(0, 2)))
        for r in ups:
            e = rand_ev(self.rng, self.grid, self.base)
            e[0] = ["ref", r]
            evs.append(e)
        new = [rand_ev(self.rng, self.grid, self.base) for _ in range(n)]
        if new and self.rng.random() < 0.15:
            new += [list(new[0]) for _ in range(self.rng.randint(1, 3))]  # the same event several times (`n * [event]`)
        evs += new
        self.rng.shuffle(evs)
        self.ops.append(["bulk", b, evs])
        for e in evs:
            if e[0] is None:
                self.live[b].append(self.nrefs)
                self.nrefs += 1

    def op_insert_carrying(self, b):
        """a SINGLE insert of an event that carries an id (an event read earlier, changed and handed back; one exported from
        another store): what that means differs between the backends (C02 leaves it out), but it is an event write like any
        other for the commit bookkeeping"""
        e = rand_ev(self.rng, self.grid, self.base)
        e[0] = ["ref", self.rng.choice(self.live[b])] if self.live[b] and self.rng.random() < 0.7 else ["ref", 10**5 + self.rng.randint(0, 9)]
        self.ops.append(["insert", b, e])

    def op_bulk_unknown_ids(self, b):
        """a bulk insert in which some events carry ids the bucket does not know (exported elsewhere), before and between new ones"""
        evs = []
        for _ in range(self.rng.randint(2, 5)):
            e = rand_ev(self.rng, self.grid, self.base)
            if self.rng.random() < 0.5:
                e[0] = ["ref", 10**5 + self.rng.randint(0, 9)]
            evs.append(e)
        self.ops.append(["bulk", b, evs])
        for e in evs:
            if e[0] is None:
                self.live[b].append(self.nrefs)
                self.nrefs += 1

    def carried(self):
        """the event object passed to replace / replace_last may carry any id of its own (e.g. an event that was
        read back earlier): the addressed id is what counts"""
        e = rand_ev(self.rng, self.grid, self.base)
        everything = [r for x in self.buckets for r in self.live[x]]
        if everything and self.rng.random() < 0.3:
            e[0] = ["ref", self.rng.choice(everything)]
        return e

    def op_replace(self, b):
        if not self.live[b]:
            return self.op_insert(b)
        self.ops.append(["replace", b, ["ref", self.rng.choice(self.live[b])], self.carried()])

    def op_replacelast(self, b):
        if not self.live[b]:
            return self.op_insert(b)
        op = ["replacelast", b, self.carried()]
        if self.rng.random() < 0.3:
            op.append("blind")  # not preceded by a limit-1 read (whatever the client read earlier may be long out of date)
        self.ops.append(op)

    def op_delete(self, b):
        if self.live[b] and self.rng.random() < 0.7:
            r = self.rng.choice(self.live[b])
            self.live[b].remove(r)
            self.ops.append(["delete", b, ["ref", r]])
        else:
            self.ops.append(["delete", b, ["ref", 10**5 + self.rng.randint(0, 50)]])

    def op_read(self, b):
        k = self.rng.choice(["get", "get1", "getbyid", "count", "metadata", "buckets", "lookup"])
        if k == "get":
            self.ops.append(["get", b, self.rng.choice([-1, -1, 1, 2, 3, 0, 100, -2, -100]), None, None])
        elif k == "get1":
            self.ops.append(["get", b, 1, None, None])
        elif k == "getbyid":
            r = self.rng.choice(self.live[b]) if self.live[b] and self.rng.random() < 0.8 else 10**5
            self.ops.append(["getbyid", b, ["ref", r]])
        elif k == "count":
            self.ops.append(["count", b, None, None])
        elif k == "metadata":
            self.ops.append(["metadata", b])
        elif k == "buckets":
            self.ops.append(["buckets"])
        else:
            self.ops.append(["lookup", b])

    def step(self):
        b = self.rng.choice(self.buckets)
        r = self.rng.random()
        if r < 0.35:
            self.op_insert(b)
        elif r < 0.45:
            self.op_bulk(b)
        elif r < 0.57:
            self.op_replace(b)
        elif r < 0.72:
            self.op_replacelast(b)
        elif r < 0.84:
            self.op_delete(b)
        else:
            self.op_read(b)


def new_refs_of(op):
    if op[0] == "insert" and op[2][0] is None:
        return 1
    if op[0] == "bulk":
        return sum(1 for e in op[2] if e[0] is None)
    return 0


def _renum(x, start, n):
    """shift references >= start+n down by n; references in [start, start+n) become dead (never existed)"""
    if isinstance(x, list):
        if len(x) == 2 and x[0] == "ref" and isinstance(x[1], int):
            if x[1] >= start + n:
                return ["ref", x[1] - n]
            if x[1] >= start:
                return ["ref", 10**5 + 77]
            return x
        return [_renum(y, start, n) for y in x]
    return x


def drop_op(ops, i):
    """history without op i, references renumbered"""
    start = sum(new_refs_of(o) for o in ops[:i])
    n = new_refs_of(ops[i])
    rest = ops[:i] + [_renum(o, start, n) if n else o for o in ops[i + 1 :]]
    return rest


def uses_dead_ref(ops):
    return "100077" in json.dumps(ops)


def shrink_history(ops, keep_prefix=0):
    for i in range(len(ops) - 1, keep_prefix - 1, -1):
        cand = drop_op(ops, i)
        if not uses_dead_ref(cand):
            yield cand
    # shrink bulk lists
    for i, o in enumerate(ops):
        if o[0] == "bulk" and len(o[2]) > 0:
            for j in range(len(o[2])):
                if o[2][j][0] is not None:
                    c = copy.deepcopy(ops)
                    del c[i][2][j]
                    yield c


# ---- reference list model (the C02 oracle) -------------------------------------------------------


class RefModel:
    """plain per-bucket event lists; ids are taken from what the backend reported and checked fresh"""

    def __init__(self):
        self.b = {}  # bucket -> list of [id, ts, dur, data]

    def check(self, ops_resolved, outs, dumps):
        """replays the resolved history; returns None or a description of the first divergence"""
        for n, (op, out, d) in enumerate(zip(ops_resolved, outs, dumps)):
            k = op[0]
            where = f"op {n} {json.dumps(op, ensure_ascii=False)[:200]}"
            if k in ("insert", "bulk", "replace", "replacelast", "delete", "getbyid", "count", "get") and op[1] not in self.b:
                return None  # outside the property's quantifier (operation on a bucket that does not exist)
            if k == "replacelast" and not self.b[op[1]]:
                return None  # replace-last only on non-empty buckets
            if k == "create":
                if out[0] == "ok":
                    self.b[op[1]] = []
            elif k == "delbucket":
                if out[0] == "ok":
                    self.b.pop(op[1], None)
            elif k == "insert":
                b = op[1]
                if out[0] != "ok":
                    return f"{where}: insert rejected with {out}"
                i = out[1]
                if any(e[0] == i for e in self.b[b]):
                    return f"{where}: assigned id {i} is already live in the bucket"
                self.b[b].append([i, op[2][1], op[2][2], op[2][3]])
            elif k == "bulk":
                b = op[1]
                if out[0] != "ok":
                    return f"{where}: bulk insert rejected with {out}"
                for e in op[2]:
                    if e[0] is not None:
                        hit = [x for x in self.b[b] if x[0] == e[0]]
                        if len(hit) != 1:
                            return f"{where}: precondition broken by generator (upsert id not live)"
                        hit[0][1:] = e[1:]
                new = [e for e in op[2] if e[0] is None]
                have = {x[0] for x in self.b[b]}
                fresh = [x for x in (d or {}).get(b, {"events": []})["events"] if x[0] not in have]
                if len(fresh) != len(new):
                    return f"{where}: {len(new)} new events expected, {len(fresh)} new ids appeared"
                if sorted(x[1:] for x in fresh) != sorted(e[1:] for e in new):
                    return f"{where}: new events differ from the ones inserted"
                self.b[b] += [list(x) for x in fresh]
            elif k == "replace":
                b = op[1]
                if out[0] != "ok":
                    return f"{where}: replace of a live id rejected with {out}"
                hit = [x for x in self.b[b] if x[0] == op[2]]
                if len(hit) != 1:
                    return f"{where}: precondition broken by generator (replace id not live)"
                hit[0][1:] = op[3][1:]
            elif k == "replacelast":
                b = op[1]
                if out[0] != "ok":
                    return f"{where}: replace_last on a non-empty bucket rejected with {out}"
                hint = op[3]
                top = max(x[1] for x in self.b[b])
                if hint is None:
                    # no limit-1 read preceded it (a history observed only at its end): the newest event is rewritten;
                    # with several events tied for newest the reference cannot tell which one - stop judging there
                    newest = [x for x in self.b[b] if x[1] == top]
                    if len(newest) != 1:
                        return None
                    hint = newest[0][0]
                hit = [x for x in self.b[b] if x[0] == hint]
                if len(hit) != 1 or hit[0][1] != top:
                    return f"{where}: the limit-1 read before it returned id {hint}, which is not a newest event"
                hit[0][1:] = op[2][1:]
            elif k == "delete":
                b = op[1]
                hit = [x for x in self.b[b] if x[0] == op[2]]
                if out != ["ok", bool(hit)]:
                    return f"{where}: delete returned {out}, event live: {bool(hit)}"
                if hit:
                    self.b[b].remove(hit[0])
            elif k == "getbyid":
                b = op[1]
                hit = [x for x in self.b[b] if x[0] == op[2]]
                exp = ["ok", hit[0] if hit else None]
                if out != exp:
                    return f"{where}: lookup returned {out}, expected {exp}"
            elif k == "count" and op[2] is None and op[3] is None:
                if out != ["ok", len(self.b[op[1]])]:
                    return f"{where}: count {out}, expected {len(self.b[op[1]])}"
            elif k == "get" and op[3] is None and op[4] is None:
                if out[0] != "ok":
                    return f"{where}: read rejected {out}"
                lim = op[2]
                want = len(self.b[op[1]]) if lim < 0 else min(lim, len(self.b[op[1]]))
                got = out[1]
                if len(got) != want:
                    return f"{where}: read returned {len(got)} events, expected {want}"
                for g in got:
                    if g not in self.b[op[1]]:
                        return f"{where}: read returned {g} which is not in the bucket"
            if d is not None:
                for b, evs in self.b.items():
                    if b not in d:
                        return f"{where}: bucket {b} missing from the listing"
                    want = sorted(evs, key=lambda e: e[0])
                    if d[b]["events"] != want:
                        return f"{where}: bucket {b} holds {d[b]['events']}, reference list {want}"
                    if d[b]["count"] != len(want):
                        return f"{where}: bucket {b} count {d[b]['count']} != {len(want)}"
                extra = set(d) - set(self.b)
                if extra:
                    return f"{where}: unexpected buckets {sorted(extra)}"
        return None
