"""Shared helpers of the verification harness.

The real code is imported from $VERIF_REPO (default /repo); `import_repo()` asserts that the four
packages really come from there, so that an edited working tree is what gets checked.
"""
import json
import os
import sys
from datetime import datetime, timedelta, timezone

VERIF = os.path.dirname(os.path.dirname(os.path.abspath(__file__)))
REPO = os.environ.get("VERIF_REPO", "/repo")
LEAN_DIR = os.path.join(VERIF, "lean")
DRIVER = os.path.join(LEAN_DIR, ".lake", "build", "bin", "awdriver")
GUARD = "AW_CORE_VERIF"

EPOCH = datetime(1970, 1, 1, tzinfo=timezone.utc)
US = timedelta(microseconds=1)


def import_repo():
    """Put the repository first on sys.path and check that the packages come from it."""
    os.environ.setdefault(GUARD, "1")
    if sys.path[0] != REPO:
        sys.path.insert(0, REPO)
    import logging

    logging.disable(logging.CRITICAL)
    import aw_core
    import aw_datastore
    import aw_query
    import aw_transform

    for m in (aw_core, aw_datastore, aw_query, aw_transform):
        f = os.path.realpath(m.__file__)
        if not f.startswith(os.path.realpath(REPO) + os.sep):
            raise RuntimeError(f"{m.__name__} imported from {f}, not from {REPO}")


def dt_to_us(dt: datetime) -> int:
    """exact microseconds since the epoch (integer arithmetic only)"""
    return (dt - EPOCH) // US


# the instant (seconds since the epoch) at which these zones, at UTC+0 all winter, move their clocks forward in 2024
DST_SPRING = [("Europe/London", 1711846800), ("Europe/Lisbon", 1711846800)]


def us_to_dt(us: int, offset_min=0) -> datetime:
    """the instant as an aware datetime at the given UTC offset (minutes), or in the named zone (zoneinfo)"""
    dt = EPOCH + timedelta(microseconds=us)
    if isinstance(offset_min, str):
        from zoneinfo import ZoneInfo

        return dt.astimezone(ZoneInfo(offset_min))
    if offset_min:
        dt = dt.astimezone(timezone(timedelta(minutes=offset_min)))
    return dt


def td_to_us(td: timedelta) -> int:
    return td // US


def us_to_td(us: int) -> timedelta:
    return timedelta(microseconds=us)


def pulsetime_us(pt) -> int:
    """µs value of timedelta(seconds=pulsetime) - the conversion the code itself performs"""
    return td_to_us(timedelta(seconds=pt))


# ---- line protocol -------------------------------------------------------------------------


def hx(s: str) -> str:
    return s.encode("utf-8").hex() if s else "-"


def unhx(t: str) -> str:
    return "" if t == "-" else bytes.fromhex(t).decode("utf-8")


def canon_data(d) -> str:
    """canonical text of a JSON value (Python == on JSON values modulo int/float/bool mixing,
    which the generators avoid)"""
    return json.dumps(d, sort_keys=True, ensure_ascii=False, separators=(",", ":"))


def p_opt(v, f=str):
    return "N" if v is None else "S " + f(v)


def p_list(items, f):
    return " ".join([str(len(items))] + [f(x) for x in items])


def p_ev(e) -> str:
    """e = (id|None, ts_us, dur_us, data_text)"""
    return f"{p_opt(e[0])} {e[1]} {e[2]} {hx(e[3])}"


class Toks:
    def __init__(self, line: str):
        self.t = line.split()
        self.i = 0

    def tok(self):
        v = self.t[self.i]
        self.i += 1
        return v

    def int(self):
        return int(self.tok())

    def str(self):
        return unhx(self.tok())

    def opt(self, f):
        t = self.tok()
        if t == "N":
            return None
        assert t == "S", t
        return f()

    def list(self, f):
        n = self.int()
        return [f() for _ in range(n)]

    def ev(self):
        i = self.opt(self.int)
        ts = self.int()
        dur = self.int()
        d = self.str()
        return [i, ts, dur, d]

    def done(self):
        return self.i == len(self.t)


def answer(line: str) -> Toks:
    """split a driver answer; raises on 'bad ...' (a protocol error is a machinery failure)"""
    if line.startswith("ok"):
        t = Toks(line)
        t.tok()
        return t
    if line.startswith("err "):
        return Toks(line)
    raise ProtocolError(line)


class ProtocolError(Exception):
    pass


def run_driver(lines):
    """send all request lines to the compiled model driver, return the answer lines"""
    import subprocess

    if not lines:
        return []
    data = ("\n".join(lines) + "\n").encode()
    p = subprocess.run([DRIVER], input=data, stdout=subprocess.PIPE, stderr=subprocess.PIPE)
    if p.returncode != 0:
        raise ProtocolError(f"driver exit {p.returncode}: {p.stderr.decode()[:500]}")
    out = p.stdout.decode().split("\n")
    if out and out[-1] == "":
        out.pop()
    if len(out) != len(lines):
        raise ProtocolError(f"driver answered {len(out)} lines for {len(lines)} requests")
    return out


# ---- events -------------------------------------------------------------------------------


def mk_event(e, offset_min=0):
    """build a real aw_core Event from (id, ts_us, dur_us, data_text)"""
    from aw_core.models import Event

    return Event(
        id=e[0],
        timestamp=us_to_dt(e[1], offset_min),
        duration=us_to_td(e[2]),
        data=json.loads(e[3]) if e[3] else {},
    )


def ev_tuple(ev):
    """canonical (id, ts_us, dur_us, data_text) of a real Event"""
    return [ev.id, dt_to_us(ev.timestamp), td_to_us(ev.duration), canon_data(ev.data)]


def err_kind(exc: BaseException) -> str:
    """map an exception to the small enum used on both sides"""
    n = type(exc).__name__
    mro = [c.__name__ for c in type(exc).__mro__]
    if "QueryParseException" in mro:
        return "QueryParse"
    if "QueryInterpretException" in mro:
        return "QueryInterpret"
    if "QueryFunctionException" in mro:
        return "QueryFunction"
    if "QueryException" in mro:
        return "Query"
    if n in ("KeyError", "ValueError", "TypeError", "IndexError", "AttributeError"):
        return n
    if "IntegrityError" in mro or n == "IntegrityError":
        return "Integrity"
    return "OtherPy:" + n


def warm_up(call, objs, retime=False):
    """Call `call()` once on the very same Event objects while they hold OTHER durations (and data), then put the case's
    values back: a transform that remembers something about the objects (or about their ids and timestamps) it has seen
    must not let that leak into the next call. The outcome of the warm-up call is discarded."""
    import copy
    from datetime import timedelta

    saved = [(o, o.duration, copy.deepcopy(o.data), o.timestamp, o.id) for o in objs]
    for n, o in enumerate(objs):
        o.duration = o.duration + timedelta(seconds=3 + n % 2)
        o.data = dict(o.data, warm=n)
    try:
        call()
    except Exception:  # noqa: BLE001 - discarded
        pass
    for o, d, da, ts, i in saved:
        o.timestamp = ts
        o.duration = d
        o.data = da
        o.id = i
