"""Driving SqliteStorage's lazy commit with a controllable clock, observing durability from a second
connection, and real crashes (SIGKILL at the k-th traced SQL statement in a child process).

Case: {"lazy": bool, "ops": [[dt_us, op…], …]} - the clock advances by dt_us before each op; ops as in
storelib (ids as references) plus ["read", b] (a get_events that commits first).
"""
import json
import os
import sqlite3
import subprocess
import sys
from datetime import datetime, timedelta, timezone

from .common import VERIF, canon_data, err_kind, hx, mk_event, p_ev, p_list, p_opt, us_to_dt
from . import storelib

CLOCK0 = 1_700_000_000_000_000  # naive local clock origin in µs (only differences matter)
WRITES = {"insert": 1, "replace": 1, "replacelast": 1, "delete": 1}


def n_writes(op):
    if op[0] == "bulk":
        return len(op[2])
    return WRITES.get(op[0], 0)


class Clock:
    def __init__(self):
        self.us = CLOCK0

    def install(self):
        import aw_datastore.storages.sqlite as mod

        clock = self
        base = datetime(2023, 11, 14, 22, 13, 20, tzinfo=timezone.utc)

        class FakeDT(datetime):
            @classmethod
            def now(cls, tz=None):
                # like the real datetime.now(): the same instant, as naive LOCAL wall-clock time without tz (the
                # process's TZ applies) or as an aware time in tz
                d = base + timedelta(microseconds=clock.us - CLOCK0)
                if tz is None:
                    return d.astimezone().replace(tzinfo=None)
                return d.astimezone(tz)

        self._mod = mod
        self._orig = mod.datetime
        mod.datetime = FakeDT

    def remove(self):
        self._mod.datetime = self._orig


def raw_dump(conn, backend="sqlite"):
    """canonical contents of the tables as seen by `conn` (no commit, no storage code involved)"""
    out = {}
    if backend == "sqlite":
        rows = {}
        for r in conn.execute("SELECT rowid, id, name, type, client, hostname, created, datastr FROM buckets"):
            rows[r[0]] = r[1]
            out[r[1]] = {"meta": [r[2], r[3], r[4], r[5], storelib.created_us(r[6]), canon_data(json.loads(r[7] or "{}"))], "events": []}
        for r in conn.execute("SELECT id, bucketrow, starttime, endtime, datastr FROM events ORDER BY id"):
            b = rows.get(r[1], "?orphan")
            out.setdefault(b, {"meta": None, "events": []})["events"].append(
                [r[0], int(r[2]), int(r[3]) - int(r[2]), canon_data(json.loads(r[4]))])
    else:
        rows = {}
        for r in conn.execute("SELECT key, id, name, type, client, hostname, created, datastr FROM bucketmodel"):
            rows[r[0]] = r[1]
            out[r[1]] = {"meta": [r[2], r[3], r[4], r[5], r[6], canon_data(json.loads(r[7] or "{}"))], "events": []}
        for r in conn.execute("SELECT id, bucket_id, timestamp, duration, datastr FROM eventmodel ORDER BY id"):
            b = rows.get(r[1], "?orphan")
            out.setdefault(b, {"meta": None, "events": []})["events"].append(
                [r[0], str(r[2]), str(r[3]), canon_data(json.loads(r[4]))])
    return dict(sorted(out.items()))


def second_view(path, backend="sqlite"):
    c = sqlite3.connect(path)
    try:
        return raw_dump(c, backend)
    except sqlite3.OperationalError:
        return {"?unreadable": True}
    finally:
        c.close()


def apply_op(st, op, refs, own_ids, ds=None):
    """execute one op on the storage (bulk inserts through the Bucket wrapper of `ds` when it is given, as an
    application would); returns (out, resolved_op)"""
    k = op[0]
    rop = list(op)

    def res(idref):
        if idref is None:
            return None
        kind, v = idref
        if kind == "raw":
            return v
        return refs[v] if v < len(refs) and refs[v] is not None else 10**6 + v

    try:
        if k == "create":
            m = op[2]
            if ds is not None:
                # as an application does: through the Datastore object (whatever it does must stay ONE bucket-level operation)
                ds.create_bucket(op[1], m["type"], m["client"], m["hostname"], created=storelib.us_to_dt(m["created_us"]),
                                 name=m.get("name"), data=json.loads(m["data"]) if m.get("data") is not None else None)
            else:
                st.create_bucket(op[1], m["type"], m["client"], m["hostname"], storelib.created_iso(m["created_us"]),
                                 name=m.get("name"), data=json.loads(m["data"]) if m.get("data") is not None else None)
            return ["ok"], rop
        if k == "update":
            kw = dict(op[2])
            if kw.get("data") is not None:
                kw["data"] = json.loads(kw["data"])
            if "type" in kw:
                kw["type_id"] = kw.pop("type")
            st.update_bucket(op[1], **kw)
            return ["ok"], rop
        if k == "delbucket":
            st.delete_bucket(op[1])
            return ["ok"], rop
        if k == "insert":
            ev = list(op[2])
            ev[0] = res(ev[0])
            rop[2] = ev
            try:
                r = st.insert_one(op[1], mk_event(ev))
            except Exception:
                if op[2][0] is None:
                    refs.append(None)
                raise
            if op[2][0] is None:
                refs.append(r.id)
            return ["ok", r.id], rop
        if k == "bulk":
            evs = []
            for e in op[2]:
                e = list(e)
                e[0] = res(e[0])
                evs.append(e)
            rop[2] = evs
            n_new = sum(1 for e in evs if e[0] is None)
            before = own_ids()
            try:
                if ds is not None:
                    from aw_datastore.datastore import Bucket

                    Bucket(ds, op[1]).insert([mk_event(e) for e in evs])
                else:
                    st.insert_many(op[1], [mk_event(e) for e in evs])
            finally:
                new = sorted(own_ids() - before)
                new = new[:n_new] + [None] * (n_new - len(new))
                refs.extend(new)
            return ["ok"], rop
        if k == "replace":
            i = res(op[2])
            rop[2] = i
            st.replace(op[1], i, mk_event([None] + list(op[3][1:])))
            return ["ok"], rop
        if k == "replacelast":
            rop.append(None)
            st.replace_last(op[1], mk_event([None] + list(op[2][1:])))
            return ["ok"], rop
        if k == "delete":
            i = res(op[2])
            rop[2] = i
            return ["ok", bool(st.delete(op[1], i))], rop
        if k == "read":
            st.get_events(op[1], -1)
            return ["ok"], rop
        if k == "read1":
            st.get_events(op[1], 1)  # the limit-1 read of the heartbeat loop
            return ["ok"], rop
        raise RuntimeError("unknown op " + k)
    except RuntimeError:
        raise
    except Exception as e:
        return ["err", err_kind(e)], rop


def run_history(case):
    """in-process run with the fake clock; after every op the own-connection view and the view of a
    fresh second connection"""
    import time

    from aw_datastore.storages import SqliteStorage

    old_tz = os.environ.get("TZ")
    if case.get("tz"):
        os.environ["TZ"] = case["tz"]
        time.tzset()
    try:
        return _run_history(case)
    finally:
        if case.get("tz"):
            if old_tz is None:
                os.environ.pop("TZ", None)
            else:
                os.environ["TZ"] = old_tz
            time.tzset()


def _run_history(case):
    from aw_datastore.storages import SqliteStorage

    d = storelib.tmp_root()
    path = os.path.join(d, "c.db")
    clock = Clock()
    clock.install()
    try:
        # the store is obtained the way an application obtains it: through Datastore, which passes the options on
        from aw_datastore import Datastore

        ds_obj = Datastore(SqliteStorage, testing=True, filepath=path, enable_lazy_commit=case.get("lazy", True))
        st = ds_obj.storage_strategy
        refs = []

        def own_ids():
            return {r[0] for r in st.conn.execute("SELECT id FROM events")}

        steps, resolved, nows = [], [], []
        # a second store of the same process on another file (case["neighbour"]: indexes of the operations right before
        # which it is written to): what it does is no business of the store under test
        neighbour = None
        if case.get("neighbour"):
            neighbour = SqliteStorage(testing=True, filepath=os.path.join(d, "neighbour.db"), enable_lazy_commit=True)
            neighbour.create_bucket("n", "t", "c", "h", storelib.created_iso(CLOCK0))
        for n_op, entry in enumerate(case["ops"]):
            clock.us += entry[0]
            if neighbour is not None and n_op in case["neighbour"]:
                neighbour.insert_one("n", mk_event([None, CLOCK0, 0, "{}"]))
            out, rop = apply_op(st, entry[1:], refs, own_ids, ds_obj)
            resolved.append(rop)
            nows.append(clock.us)
            steps.append({"out": out, "own": raw_dump(st.conn), "second": second_view(path)})
        st.conn.close()
        if neighbour is not None:
            neighbour.conn.close()
        return {"steps": steps, "resolved": resolved, "nows": nows, "start": CLOCK0}
    finally:
        clock.remove()
        import shutil

        shutil.rmtree(d, ignore_errors=True)


# ---- model side -------------------------------------------------------------------------------------


def op_line(now, op):
    k = op[0]
    pre = f"commit {k} {now} "
    if k == "create":
        return pre + f"{hx(op[1])} {storelib.p_meta(op[2])}"
    if k == "update":
        u = op[2]
        data = u.get("data")
        if data is not None:
            data = canon_data(json.loads(data))
        return pre + " ".join([hx(op[1]), p_opt(u.get("type"), hx), p_opt(u.get("client"), hx),
                               p_opt(u.get("hostname"), hx), p_opt(u.get("name"), hx), p_opt(data, hx)])
    if k == "delbucket":
        return pre + hx(op[1])
    if k == "insert":
        return pre + f"{hx(op[1])} {p_ev(op[2])}"
    if k == "bulk":
        return pre + f"{hx(op[1])} {p_list(op[2], p_ev)}"
    if k == "replace":
        return pre + f"{hx(op[1])} {op[2]} {p_ev([None] + list(op[3][1:]))}"
    if k == "replacelast":
        return pre + f"{hx(op[1])} N {p_ev([None] + list(op[2][1:]))}"
    if k == "delete":
        return pre + f"{hx(op[1])} {op[2]}"
    if k in ("read", "read1"):
        return f"commit read {now}"
    raise RuntimeError(k)


def model_lines(case, impl_out):
    L = [f"commit reset {1 if case.get('lazy', True) else 0} {impl_out['start']}"]
    for now, op in zip(impl_out["nows"], impl_out["resolved"]):
        L += [op_line(now, op), "commit state", "commit dumpcur", "commit dumpdur"]
    return L


def model_dump(line):
    d = storelib.parse_dump(line)
    return {b: {"meta": v["meta"], "events": v["events"]} for b, v in d.items()}


def model_out(case, answers, impl_out):
    steps = []
    for i in range(len(impl_out["resolved"])):
        a, s, cur, dur = answers[1 + 4 * i : 5 + 4 * i]
        toks = a.split()
        if toks[0] == "err":
            out = ["err", toks[1]]
        else:
            k = impl_out["resolved"][i][0]
            out = ["ok"]
            if k == "insert":
                out.append(int(toks[1]))
            elif k == "delete":
                out.append(toks[1] != "0")
        st = s.split()
        steps.append({"out": out, "own": model_dump(cur), "second": model_dump(dur),
                      "n": int(st[1]), "pending": int(st[2])})
    return {"steps": steps}


def norm_view(v):
    """raw views carry created strings etc.; compare metadata and events"""
    return {b: {"meta": x["meta"], "events": x["events"]} for b, x in v.items()}


def same(io, mo):
    if len(io["steps"]) != len(mo["steps"]):
        return False
    for a, b in zip(io["steps"], mo["steps"]):
        if a["out"] != b["out"] or norm_view(a["own"]) != b["own"] or norm_view(a["second"]) != b["second"]:
            return False
    return True


# ---- crash runs ---------------------------------------------------------------------------------------


def crash_run(backend, resolved_ops, nows, kill_at, lazy=True):
    """run the history in a child process that SIGKILLs itself when the kill_at-th SQL statement is
    about to execute; returns (progress lines, reopened dump, return code)"""
    d = storelib.tmp_root()
    try:
        path = os.path.join(d, "c.db")
        prog = os.path.join(d, "progress")
        hist = os.path.join(d, "hist.json")
        json.dump({"backend": backend, "ops": resolved_ops, "nows": nows, "lazy": lazy, "start": CLOCK0}, open(hist, "w"))
        env = dict(os.environ)
        env["PYTHONPATH"] = VERIF
        r = subprocess.run([sys.executable, "-m", "harness.crash_child", hist, path, prog, str(kill_at)],
                           cwd=VERIF, env=env, stdout=subprocess.PIPE, stderr=subprocess.PIPE)
        lines = open(prog).read().split("\n") if os.path.exists(prog) else []
        if lines and lines[-1] == "":
            lines.pop()
        reopened = second_view(path, backend) if os.path.exists(path) else {}
        return lines, reopened, r.returncode, r.stderr.decode()[-500:]
    finally:
        import shutil

        shutil.rmtree(d, ignore_errors=True)
