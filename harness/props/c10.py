"""C10 - flood closes exactly the short gaps and never loses or overlaps time (aw_transform/flood.py)

A case is {"pt": <pulsetime in seconds>, "l": [[id, ts_us, dur_us, data_text], ...]} (events in
the order they are handed to flood) and optionally "tz": [utc offset in minutes per event].
"""
import itertools
import json

from ..base import Prop
from ..common import answer, ev_tuple, mk_event, p_ev, p_list, pulsetime_us, warm_up

T0 = 1_600_000_000_000_000  # 2020-09-13T12:26:40Z in microseconds
U = 500_000  # grid unit of the valid-chain scope: 0.5 s (pulsetimes 0, 0.5, 1 s = 0, 1, 2 units)
V = 50_000  # grid unit of the any-placement scope: 0.05 s, so that -0.1 s (the trim threshold) is on the grid
THRES = 100_000
MS = 1000  # Event timestamps are whole milliseconds (aw_core.models._timestamp_parse)


def lab(x):
    return json.dumps({"l": x}, sort_keys=True, separators=(",", ":"))


# ---- the property, stated directly --------------------------------------------------------------


def in_scope(pt_us, l):
    """the quantifier of C10: pulsetime >= 0, durations >= 0, distinct timestamps, no overlap"""
    if pt_us < 0:
        return False
    if any(e[2] < 0 for e in l):
        return False
    s = sorted(l, key=lambda e: e[1])
    for a, b in zip(s, s[1:]):
        if a[1] == b[1] or a[1] + a[2] > b[1]:
            return False
    return True


def union(ivs):
    """canonical form of a union of half-open integer intervals: sorted, disjoint, non-touching"""
    out = []
    for s, e in sorted(iv for iv in ivs if iv[0] < iv[1]):
        if out and s <= out[-1][1]:
            out[-1][1] = max(out[-1][1], e)
        else:
            out.append([s, e])
    return out


def inside(iv, u):
    return any(s <= iv[0] and iv[1] <= e for s, e in u)


def check_property(pt_us, l, out):
    s = sorted(l, key=lambda e: e[1])
    # non-overlapping, positive-length, in time order
    for e in out:
        if e[2] <= 0:
            return f"output event of non-positive length: {e}"
    for a, b in zip(out, out[1:]):
        if a[1] + a[2] > b[1]:
            return f"output events overlap or are out of order: {a} {b}"
    # covered time = input time + exactly the gaps (between timestamp neighbours) of length <= pulsetime
    ivs = [[e[1], e[1] + e[2]] for e in s]
    gaps = [[a[1] + a[2], b[1]] for a, b in zip(s, s[1:])]
    short = [g for g in gaps if g[1] - g[0] <= pt_us]
    expect = union(ivs + short)
    got = union([[e[1], e[1] + e[2]] for e in out])
    if got != expect:
        lost = [iv for iv in union(ivs) if not inside(iv, got)]
        if lost:
            return f"input time lost: {lost[0]} not covered by output {got}"
        openg = [g for g in union(short) if not inside(g, got)]
        if openg:
            return f"gap of length <= pulsetime not closed: {openg[0]} (output covers {got})"
        return f"time covered outside the input and its short gaps: output {got}, expected {expect}"
    # every label still covers what it covered
    for d in sorted({e[3] for e in s}):
        ud = union([[e[1], e[1] + e[2]] for e in out if e[3] == d])
        for e in s:
            if e[3] == d and e[2] > 0 and not inside([e[1], e[1] + e[2]], ud):
                return f"label {d} lost time of input event {e} (output for the label covers {ud})"
    return None


def gap_class(pt_us, a, b):
    g = b[1] - (a[1] + a[2])
    if g == 0:
        c = "0"
    elif g < -THRES:
        c = "<-thres"
    elif g == -THRES:
        c = "=-thres"
    elif g < 0:
        c = "(-thres,0)"
    elif g < pt_us:
        c = "(0,pt)"
    elif g == pt_us:
        c = "=pt"
    else:
        c = ">pt"
    d = "same" if a[3] == b[3] else "diff"
    r = "d1>d2" if a[2] > b[2] else "d1=d2" if a[2] == b[2] else "d1<d2"
    return f"gap{c}/{d}/{r}"


def chains(n, hi, lo=0):
    """all chains of n non-overlapping [start, end] on lo..hi with distinct starts (zero lengths allowed)"""

    def rec(k, min_start, acc):
        if k == 0:
            yield list(acc)
            return
        for s in range(min_start, hi + 1):
            for e in range(s, hi + 1):
                acc.append((s, e))
                # the next start is >= e and differs from s
                yield from rec(k - 1, max(e, s + 1), acc)
                acc.pop()

    yield from rec(n, lo, [])


class C10(Prop):
    ID = "C10"
    MODULE = "AwProofs.Props.C10"
    THEOREMS = [
        "AwProofs.C10.out_nonoverlap_positive_partial",
        "AwProofs.C10.cover_iff_partial",
        "AwProofs.C10.label_monotone",
        "AwProofs.C10.input_time_covered",
        "AwProofs.C10.out_positive",
        "AwProofs.C10.sorted_out_nonoverlap_positive_partial",
        "AwProofs.C10.sorted_cover_iff_partial",
        "AwProofs.C10.sorted_label_monotone",
        "AwProofs.C10.out_nonoverlap_positive_refuted",
        "AwProofs.C10.cover_iff_refuted",
        "AwProofs.C10.sort_stable",
    ]
    TRUSTED = [
        "timedelta(seconds=pulsetime) -> microseconds is computed by Python at the harness boundary",
        "dict equality of event data is modelled as equality of the canonical JSON text (generators avoid 1/1.0/True mixing)",
        "copy.deepcopy gives flood private copies of the events (value model); that the caller's list and its "
        "elements are unchanged is checked on the real code by the oracle of every run, not proved",
        "input lists contain distinct event objects (no object twice)",
    ]
    ASSUMPTIONS = [
        "timestamps of Event objects are whole milliseconds (Event's constructor floors them); cases carry such timestamps",
        "C10 quantifies over non-overlapping inputs with distinct timestamps, durations >= 0, pulsetime >= 0; "
        "overlapping / equal-timestamp / negative-duration / negative-pulsetime inputs are used for the "
        "model-code correspondence only and are not judged by the oracle",
    ]
    LEVEL_TEXT = (
        "Machine-checked Lean 4 theorems over a branch-for-branch model of flood.py (value copy, stable sort, pair sweep "
        "with the mutated neighbour carried along, six branches incl. negative gaps, Event's millisecond-flooring "
        "timestamp setter, final filter), for inputs in any order and all integer-microsecond pulsetimes >= 0: "
        "label_monotone, input_time_covered, out_positive in full; out_nonoverlap_positive_partial and cover_iff_partial "
        "under the extra hypothesis that all durations are whole milliseconds; the full statements are refuted on the "
        "model by concrete witnesses (out_nonoverlap_positive_refuted, cover_iff_refuted), reproduced on the real code "
        "(known finding submillisecond-duration); the model is compared with the real function on exhaustive grids, "
        "boundary cases and random chains on every run"
    )
    LEVEL_NOTE = (
        "trusts: Lean kernel + 3 standard axioms; model-code tie is differential (exhaustive grids + boundary + random); "
        "input_preserved is observed on the real code (value and identity), not proved; two of three statements are "
        "proved only for whole-millisecond durations (open finding outside)"
    )
    TECHNIQUE = "Lean 4 proof over executable model + differential correspondence check"
    RULE = (
        "boundary: 2- and 3-event chains at microsecond granularity around every comparison of the loop body "
        "(gap vs 0, -0.1 s, pulsetime; duration order; equal/differing data); grid-chain: every non-overlapping chain "
        "of <=3 (quick) / <=4 (thorough) events with endpoints on 0..7 half-seconds, distinct timestamps, zero lengths "
        "allowed, every labelling over two labels, pulsetimes {0,0.5,1} s, handed over in shuffled order; "
        "grid-any: every list of <=3 events (start 0..3|4, duration 0..3) x two labels on a 0.05 s grid incl. overlaps and "
        "equal timestamps, pulsetimes {0,0.05,0.1} (correspondence only); random-chain: seeded valid chains of up to 40 "
        "events at microsecond granularity with gaps drawn around the pulsetime, shuffled, mixed UTC offsets; "
        "random-any: seeded lists with overlaps, equal timestamps, negative durations and pulsetimes (correspondence only); "
        "non-trivial = inside the property's quantifier with at least two events"
    )

    # ---- generation -------------------------------------------------------------------------
    def gen(self, ctx):
        out = []
        rng = ctx.rng("c10")

        # 1. boundary cases from the case splits of the proof / the comparisons of the source.
        #    q = 1000: everything on whole milliseconds; q = 1: durations with a sub-millisecond part
        #    (timestamps of real Events are always whole milliseconds, so the gap is steered by e1's duration)
        for pt in (0, 0.001, 0.3, 1, 1e-6, 0.3004):
            ptus = pulsetime_us(pt)
            for q in (1000, 1):
                gaps = sorted({-THRES - q, -THRES, -THRES + q, -q, 0, q, ptus - q, ptus, ptus + q, ptus + THRES})
                for g1 in gaps:
                    for d1 in (0, 5 * q, 300 * q, 300_000):
                        bts = -(-(d1 + g1) // MS) * MS  # smallest whole millisecond >= d1 + g1
                        d1 = bts - g1
                        if d1 < 0 or bts < 0:
                            continue
                        for d2 in sorted({0, max(d1 - q, 0), d1, d1 + q, 2 * q, 200_000}):
                            for l1, l2 in (("A", "A"), ("A", "B")):
                                a = [None, T0, d1, lab(l1)]
                                b = [None, T0 + bts, d2, lab(l2)]
                                out.append(("boundary", {"pt": pt, "l": [a, b]}))
                                out.append(("boundary", {"pt": pt, "l": [b, a]}))
                                for g2 in (0, q, ptus, ptus + q, -q, -THRES - q):
                                    cts = -(-(bts + d2 + g2) // MS) * MS
                                    for d3, l3 in ((0, "A"), (6 * q, "A"), (6 * q, "B"), (400_000, "B")):
                                        c = [None, T0 + cts, d3, lab(l3)]
                                        out.append(("boundary", {"pt": pt, "l": [c, a, b]}))

        # 2. exhaustive: valid chains on the half-second grid, shuffled order
        n = ctx.pick(3, 4)
        for k in range(0, n + 1):
            for ch in chains(k, 7):
                for labs in itertools.product("AB", repeat=k):
                    for pt in (0, 0.5, 1):
                        l = [[None, T0 + s * U, (e - s) * U, lab(x)] for (s, e), x in zip(ch, labs)]
                        rng.shuffle(l)
                        out.append(("grid-chain", {"pt": pt, "l": l}))

        # 3. exhaustive: any placement on the 0.05 s grid (overlaps, equal timestamps) - correspondence only
        opts = [(s, d, x) for s in range(ctx.pick(4, 5)) for d in range(4) for x in "AB"]
        for k in (1, 2, 3):
            for combo in itertools.product(opts, repeat=k):
                for pt in ctx.pick((0.05,), (0, 0.05, 0.1)):
                    out.append(("grid-any", {"pt": pt, "l": [[None, T0 + s * V, d * V, lab(x)] for s, d, x in combo]}))

        # 4. random valid chains; timestamps on whole milliseconds, durations either all on whole
        #    milliseconds (the scope of the proved theorems) or with sub-millisecond parts
        for _ in range(ctx.pick(3000, 60000)):
            pt = rng.choice([0, 0.001, 0.25, 1, 5, 1e-6, rng.random() * 3, rng.randint(0, 5)])
            ptus = pulsetime_us(pt)
            q = rng.choice([1000, 1000, 1])
            m = rng.choice([2, 3, 3, 4, 5, 8, rng.randint(2, 40)])
            numeric = rng.random() < 0.1
            t = T0 + MS * rng.randint(0, 10**3)
            l, tz = [], []
            for _ in range(m):
                d = q * rng.choice([0, 0, 1, rng.randint(0, 10), rng.randint(0, 3 * 10**6 // q), 10**6 // q])
                # (labels -1 and -2: different data whose hash() coincides in CPython)
                l.append([rng.choice([None, rng.randint(0, 99)]), t, d, lab(rng.choice([-1, -2, -1]) if numeric else rng.choice("AAB"))])
                tz.append(rng.choice([0, 0, 60, -330]))
                g = rng.choice([0, q, ptus - q, ptus, ptus + q, ptus // MS * MS, ptus // MS * MS + MS,
                                rng.randint(0, 2 * ptus + 2), rng.randint(0, 10**7)])
                nt = -(-(t + d + max(g, 0)) // MS) * MS
                t = max(t + MS, nt)
            order = list(range(m))
            rng.shuffle(order)
            cc = {"pt": pt, "l": [l[i] for i in order], "tz": [tz[i] for i in order]}
            if rng.random() < 0.08:
                cc["warm"] = True
                if rng.random() < 0.5:  # events that carry (distinct) ids, as events read from a bucket do
                    cc["l"] = [[k + 1] + e[1:] for k, e in enumerate(cc["l"])]
            out.append(("random-chain", cc))

        # 4a. long chains (hundreds to a couple of thousand events), whole-millisecond durations, mostly short gaps
        for m in ([257, 600, 1025] if ctx.quick else [129, 257, 513, 600, 1025, 2049]):
            for pt in (0.5, 2):
                ptus = pulsetime_us(pt)
                t = T0
                l = []
                for _ in range(m):
                    d = MS * rng.choice([0, 1, rng.randint(0, 3000), 1000])
                    l.append([None, t, d, lab(rng.choice("AAAB"))])
                    g = rng.choice([0, MS, ptus // MS * MS, ptus // MS * MS + MS, rng.randint(0, 2 * ptus) // MS * MS])
                    t = max(t + MS, t + d + g)
                rng.shuffle(l)
                out.append(("long-chain", {"pt": pt, "l": l, "tz": [0] * m}))

        # 4b. chains whose gaps and durations are whole days plus a little (timedelta keeps days, seconds, microseconds apart)
        DAY = 86_400_000_000
        for _ in range(ctx.pick(1500, 30000)):
            pt = rng.choice([0, 1, 5, 60, 3600])
            ptus = pulsetime_us(pt)
            m = rng.randint(2, 5)
            t = T0
            l = []
            for _ in range(m):
                d = rng.choice([0, MS, 10**6, DAY, DAY + MS, 2 * DAY + 3 * 10**6])
                l.append([None, t, d, lab(rng.choice("AAB"))])
                g = rng.choice([1, 2, 7]) * DAY * rng.choice([0, 1, 1]) + rng.choice([0, MS, ptus // MS * MS, ptus // MS * MS + MS, 3 * 10**6])
                t = t + d + max(g, MS)
            rng.shuffle(l)
            out.append(("day-scale-chain", {"pt": pt, "l": l}))

        # 5. random lists outside the quantifier: overlaps, ties, negative durations/pulsetimes
        for _ in range(ctx.pick(3000, 60000)):
            pt = rng.choice([0, 0.05, 0.1, 0.3, 1, -1, rng.random()])
            q = rng.choice([1000, 1])
            m = rng.randint(1, 12)
            l = []
            t = T0
            for _ in range(m):
                t += MS * rng.choice([0, 0, 1, 50, 100, rng.randint(-150, 300), rng.randint(0, 1000)])
                d = q * rng.choice([0, 1, V // q, 2 * V // q, 3 * V // q, rng.randint(0, 10**6 // q),
                                    rng.randint(-2 * V // q, 4 * V // q)])
                l.append([rng.choice([None, rng.randint(0, 99)]), t, d, lab(rng.choice("AB"))])
            rng.shuffle(l)
            out.append(("random-any", {"pt": pt, "l": l}))
        # events stamped in a zone that is at UTC+0 in winter, lasting across the night its clocks go forward
        from ..common import DST_SPRING

        for zone, ls in DST_SPRING:
            for back in (600, 1800):
                for gap in (0, 3, 5, 6, 3600, 3603):
                    a = [None, (ls - back) * 1_000_000, 7200 * 1_000_000, lab("A")]
                    b = [None, a[1] + a[2] + gap * 1_000_000, 10 * 1_000_000, lab("B")]
                    c = [None, b[1] + b[2] + 4 * 1_000_000, 1_000_000, lab("B")]
                    out.append(("dst-zone", {"pt": 5, "l": [a, b, c], "tz": [zone, zone, 0]}))
        return out

    # ---- both sides ------------------------------------------------------------------------
    def impl(self, case):
        from aw_transform.flood import flood

        tz = case.get("tz") or [0] * len(case["l"])
        evs = [mk_event(e, o) for e, o in zip(case["l"], tz)]
        for e, c in zip(evs, case["l"]):
            if ev_tuple(e) != list(c):
                raise ValueError(f"case event {c} is not an Event value (timestamps must be whole milliseconds)")
        ref = list(evs)
        if case.get("warm"):
            # the same Event objects were flooded before, with other durations and another pulsetime
            warm_up(lambda: flood(evs, case["pt"] + 4), evs)
            warm_up(lambda: flood(evs, case["pt"]), evs)
        before = [(ev_tuple(e), e.timestamp.utcoffset(), sorted(e.keys())) for e in evs]
        r = flood(evs, case["pt"])
        out = [ev_tuple(e) for e in r]
        inp = "same"
        if len(evs) != len(ref):
            inp = f"input list length changed from {len(ref)} to {len(evs)}"
        else:
            for i, (x, y, b) in enumerate(zip(evs, ref, before)):
                if x is not y:
                    inp = f"input list element {i} replaced by another object"
                    break
                now = (ev_tuple(x), x.timestamp.utcoffset(), sorted(x.keys()))
                if now != b:
                    inp = f"input event {i} modified: {b[0]} -> {now[0]}"
                    break
        return {"out": out, "inp": inp}

    def model_lines(self, case):
        return [f"flood flood {pulsetime_us(case['pt'])} {p_list(case['l'], p_ev)}"]

    def model_out(self, case, answers):
        t = answer(answers[0])
        # value model: the input is untouched by construction
        return {"out": t.list(t.ev), "inp": "same"}

    # ---- the property ----------------------------------------------------------------------
    def oracle(self, case, out):
        pt = pulsetime_us(case["pt"])
        l = case["l"]
        if not in_scope(pt, l):
            return None
        if out["inp"] != "same":
            return "input modified: " + out["inp"]
        return check_property(pt, l, out["out"])

    def nontrivial(self, case, out):
        return len(case["l"]) >= 2 and in_scope(pulsetime_us(case["pt"]), case["l"])

    def scope(self, case, out):
        """known finding `submillisecond-duration`: some input duration is not a whole number of
        milliseconds (the negation of `WholeMsDurations` in AwProofs.C10.*_partial)"""
        if any(e[2] % MS != 0 for e in case["l"]):
            return "submillisecond-duration"
        return None

    def features(self, case, out):
        pt = pulsetime_us(case["pt"])
        l = case["l"]
        sc = in_scope(pt, l)
        fs = ["scope:in" if sc else "scope:out", "durations:" + ("whole-ms" if self.scope(case, out) is None else "sub-ms"), f"n:{min(len(l), 9)}{'+' if len(l) > 9 else ''}"]
        s = sorted(l, key=lambda e: e[1])
        for a, b in zip(s, s[1:]):
            fs.append(gap_class(pt, a, b))
        npos = sum(1 for e in l if e[2] > 0)
        if sc:
            fs.append("out:" + ("fewer-events" if len(out["out"]) < npos else "same-count"))
        return fs

    def shrink(self, case):
        l = case["l"]
        tz = case.get("tz")
        for i in range(len(l)):
            c = {"pt": case["pt"], "l": l[:i] + l[i + 1 :]}
            if tz:
                c["tz"] = tz[:i] + tz[i + 1 :]
            yield c
        if tz and any(tz):
            yield {"pt": case["pt"], "l": l}
        for i, e in enumerate(l):
            if e[0] is not None:
                c = dict(case)
                c["l"] = l[:i] + [[None] + e[1:]] + l[i + 1 :]
                yield c
        s = sorted(l, key=lambda e: e[1])
        if s != l:
            c = dict(case)
            c.pop("tz", None)
            c["l"] = s
            yield c

    def extra_search(self, ctx, around):
        from ..base import Ctx

        return self.gen(Ctx("thorough", ctx.seed + 1))


PROP = C10()
