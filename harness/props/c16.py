"""C16 - grouping, chunking, sorting, limiting and filtering conserve events and time
(aw_transform/merge_events_by_keys.py, chunk_events_by_key.py, sort_by.py, filter_keyvals.py)"""
import copy
import itertools
import json

from ..base import Ctx, Prop
from ..common import answer, canon_data, dt_to_us, err_kind, hx, mk_event, p_list, p_opt, pulsetime_us, td_to_us

MS = 1000
SEC = 1_000_000


# ---- canonical values -------------------------------------------------------------------------


def jv(v):
    """class of a JSON value as the model sees it: string / list of strings / anything else"""
    if isinstance(v, str):
        return ["s", v]
    if isinstance(v, list) and all(isinstance(x, str) for x in v):
        return ["l", list(v)]
    return ["o", canon_data(v)]


def items(d):
    """a dict in insertion order"""
    return [[k, jv(v)] for k, v in d.items()]


def evrepr(ev):
    return [ev.id, dt_to_us(ev.timestamp), td_to_us(ev.duration), items(ev.data)]


def spec_data(e):
    return json.loads(e[3]) if e[3] else {}


def spec_repr(e):
    return [e[0], e[1], e[2], items(spec_data(e))]


def expand(case):
    l = case["l"]
    ix = case.get("ix")
    return l if ix is None else [l[i] for i in ix]


# ---- wire --------------------------------------------------------------------------------------


def p_jv(j):
    if j[0] == "s":
        return "s " + hx(j[1])
    if j[0] == "l":
        return "l " + p_list(j[1], hx)
    return "o " + hx(j[1])


def p_evt(e):
    d = spec_data(e)
    return f"{p_opt(e[0])} {e[1]} {e[2]} " + p_list(list(d.items()), lambda kv: hx(kv[0]) + " " + p_jv(jv(kv[1])))


def r_jv(t):
    tag = t.tok()
    if tag == "s":
        return ["s", t.str()]
    if tag == "l":
        return ["l", t.list(t.str)]
    assert tag == "o", tag
    return ["o", t.str()]


def r_evt(t):
    i = t.opt(t.int)
    ts = t.int()
    dur = t.int()
    d = t.list(lambda: [t.str(), r_jv(t)])
    return [i, ts, dur, d]


def r_chunk(t):
    ts = t.int()
    dur = t.int()
    v = r_jv(t)
    return [ts, dur, v, t.list(lambda: r_evt(t))]


# ---- helpers of the oracle ---------------------------------------------------------------------


def unhashable(v):
    try:
        hash(tuple(v) if isinstance(v, list) else v)
        return False
    except TypeError:
        return True


def lk(dat, k):
    """value class of key k in an items list, or None"""
    for kk, v in dat:
        if kk == k:
            return v
    return None


def pattern(dat, keys):
    return json.dumps([lk(dat, k) for k in keys])


def is_err(r):
    return isinstance(r, list) and len(r) == 2 and r[0] == "err"


VALS4 = [None, "x", "y", ["x"]]


def mk_data(pairs):
    """pairs: [(key, value|None)] -> JSON text in that order"""
    return json.dumps({k: v for k, v in pairs if v is not None}, ensure_ascii=False)


class C16(Prop):
    ID = "C16"
    MODULE = "AwProofs.Props.C16"
    THEOREMS = [
        "AwProofs.C16.merge_no_keys",
        "AwProofs.C16.merge_groups_partial",
        "AwProofs.C16.merge_group_duration",
        "AwProofs.C16.merge_total_duration",
        "AwProofs.C16.merge_ok_iff",
        "AwProofs.C16.chunk_concat_prefix",
        "AwProofs.C16.chunk_concat",
        "AwProofs.C16.chunk_uniform",
        "AwProofs.C16.chunk_duration",
        "AwProofs.C16.sort_perm_sorted",
        "AwProofs.C16.limit_prefix",
        "AwProofs.C16.filter_partition",
    ]
    TRUSTED = [
        "timedelta(seconds=pulsetime) -> microseconds is computed by Python at the harness boundary",
        "Python == / hash on JSON values is modelled as equality of (class, canonical JSON text) with the classes "
        "string / list of strings / other (generators avoid 1/1.0/True mixing); tuple(list) is injective and never "
        "equals a non-list JSON value",
        "sorted(key=, reverse=) is a stable sort (CPython guarantee), modelled by a stable insertion sort",
        "that no input object is modified is observed on the real code only (deep snapshot before/after each call); "
        "the value model has no notion of it",
    ]
    ASSUMPTIONS = [
        "merge_events_by_keys with an empty key list is the documented early return (the input list itself); the "
        "grouping claim is for non-empty key lists, the conservation claims hold for both",
        "merge_events_by_keys raises TypeError exactly when a value of one of the keys is unhashable (a dict, or a "
        "list containing a list/dict); such inputs are sent and compared, the grouping claim is for the others",
        "chunk_events_by_key is not modelled for key == 'subevents' (the output's own bookkeeping key)",
        "event timestamps are on the millisecond grid (the Event constructor truncates to ms)",
        "sum_durations (float seconds) is not part of the property statement and is not checked here",
    ]
    LEVEL_TEXT = (
        "Machine-checked Lean 4 theorems for all event lists, key lists, values and integer pulsetimes/counts over a "
        "loop-for-loop model of merge_events_by_keys (repaired composite key, dict insertion order), "
        "chunk_events_by_key (break, events[-1] gap test), sort_by_timestamp/duration (stable), limit_events "
        "(any integer count) and filter_keyvals/exclude; the model is compared with the real functions on an "
        "exhaustive small scope and random lists on every run, and the property is evaluated directly on the real "
        "outputs (incl. object identity and unmodified inputs)"
    )
    LEVEL_NOTE = "trusts: Lean kernel + 3 standard axioms; model-code tie is differential (exhaustive small scope + random); JSON == as canonical text"
    TECHNIQUE = "Lean 4 proof over executable model + differential correspondence check + direct oracle"
    RULE = (
        "merge/filter: every list of <=3 (thorough 4) events whose data takes each of {absent,'x','y',['x']} under two "
        "keys, with power-of-two durations, key lists [k1,k2] (all lists) and [],[k1],[k2],[k2,k1],[k1,k1],[k1,k3] "
        "(<=2 events); chunk: every list of <=3 events x 4 values x 3 start instants x pulsetimes {0,1,5}, incl. "
        "unsorted; sort: every list of <=3 (4) events over 3 instants x 3 durations; limit: lengths 0..4 x counts "
        "-6..6; seeded random lists of up to 30 events with missing keys, list/number/null/dict values, equal values "
        "under different keys, duplicates and aliased objects, negative durations, unsorted instants. "
        "non-trivial = at least two events"
    )

    # ---- generation ---------------------------------------------------------------------------
    def gen(self, ctx):
        out = []
        opts = [(a, b) for a in VALS4 for b in VALS4]
        nmax = ctx.pick(3, 4)

        def evs_of(combo):
            return [[None, i * MS, (1 << i) * SEC, mk_data([("k1", a), ("k2", b)])] for i, (a, b) in enumerate(combo)]

        # corpus-like boundary cases first
        w = [[None, 0, SEC, mk_data([("k2", "x")])], [None, MS, 2 * SEC, mk_data([("k1", "x")])]]
        out.append(("boundary", {"k": "merge", "l": w, "keys": ["k1", "k2"]}))
        out.append(("boundary", {"k": "merge", "l": w, "keys": []}))
        out.append(("boundary", {"k": "merge", "l": [], "keys": ["k1"]}))
        out.append(("boundary", {"k": "merge", "l": [[3, 0, SEC, '{"k1": {"a": 1}}']], "keys": ["k1"]}))
        out.append(("boundary", {"k": "merge", "l": [[3, 0, SEC, '{"k1": [["x"]]}']], "keys": ["k1"]}))
        out.append(("boundary", {"k": "merge", "l": [[3, 0, SEC, '{"k1": [2, "[x"]}'], [4, 0, SEC, '{"k1": [2, "[x"]}']],
                                 "keys": ["k1"]}))
        out.append(("boundary", {"k": "merge", "l": [[3, 0, SEC, '{"k1": "a\\"[b"}'], [4, 0, SEC, '{"k1": [2, "\\\\", [3]]}']],
                                 "keys": ["k1"]}))
        out.append(("boundary", {"k": "chunk", "l": [], "key": "k1", "pt": 5.0}))
        for kind in ("sortts", "sortdur"):
            out.append(("boundary", {"k": kind, "l": []}))

        # exhaustive small scope: merge
        for n in range(0, nmax + 1):
            for combo in itertools.product(opts, repeat=n):
                l = evs_of(combo)
                out.append(("grid-merge", {"k": "merge", "l": l, "keys": ["k1", "k2"]}))
                if n <= 2:
                    for keys in ([], ["k1"], ["k2"], ["k2", "k1"], ["k1", "k1"], ["k1", "k3"]):
                        out.append(("grid-merge", {"k": "merge", "l": l, "keys": keys}))
        # exhaustive small scope: filter (both polarities per case)
        fvals = [[], ["x"], ["x", "y"], [["x"]], ["y", ["x"]]]
        for n in range(0, nmax + 1):
            for combo in itertools.product(opts, repeat=n):
                l = evs_of(combo)
                for vals in fvals if n <= 2 else fvals[1:4:2]:
                    out.append(("grid-filter", {"k": "filter", "l": l, "key": "k1", "vals": vals}))
        # exhaustive small scope: chunk (unsorted instants, gaps around the pulsetime)
        for n in range(0, 4):
            for combo in itertools.product(VALS4, repeat=n):
                for tss in itertools.product((0, 1, 2), repeat=n):
                    l = [[None, t * SEC, (1 << i) * SEC // 2, mk_data([("k1", v), ("z", "q")])]
                         for i, (v, t) in enumerate(zip(combo, tss))]
                    for pt in (0, 1, 5) if n >= 2 else (5,):
                        out.append(("grid-chunk", {"k": "chunk", "l": l, "key": "k1", "pt": pt}))
        # exhaustive small scope: sorts
        sopts = [(t, d) for t in range(3) for d in range(3)]
        for n in range(0, nmax + 1):
            for combo in itertools.product(sopts, repeat=n):
                l = [[i, t * MS, d * SEC, "{}"] for i, (t, d) in enumerate(combo)]
                out.append(("grid-sort", {"k": "sortts", "l": l}))
                out.append(("grid-sort", {"k": "sortdur", "l": l}))
        for n in range(0, 5):
            l = [[i, i * MS, SEC, "{}"] for i in range(n)]
            for c in range(-6, 7):
                out.append(("grid-limit", {"k": "limit", "l": l, "count": c}))

        # seeded random
        rng = ctx.rng("c16")
        keypool = ["k1", "k2", "k3", "", "ké", "subevents2"]
        valpool = ["x", "y", "", "x", ["x"], ["x", "y"], ["y", "x"], ["x", "x"], ["x", "y", "x"], [], 2, 3.5, -7, None, True, {"a": 1}, [["x"]], [2, 3], [3, 2],
                   "8080", 8080, "None", "True", "['x']",
                   [2, "[x"], "a\"[b", "\\", [2, "\\\"", {"b": []}], "ü☃", 10**20, ["x", 2], [None],
                   [2, "a\"[b"], [2, "\\", [3]], [2, "{"], [False, "ü[", 2.5]]
        hashpool = [v for v in valpool if not unhashable(v)]

        def rdata(pool, pkey):
            ks = [k for k in keypool if rng.random() < pkey]
            rng.shuffle(ks)
            return json.dumps({k: rng.choice(pool) for k in ks}, ensure_ascii=False)

        def revents(m, pool, pkey, sorted_ts=False):
            l, t = [], rng.randint(0, 10**6) * MS
            for _ in range(m):
                if sorted_ts:
                    t += MS * rng.choice([0, 1, rng.randint(0, 5000)])
                else:
                    t = max(0, t + MS * rng.choice([0, 1, -1, rng.randint(-3000, 5000)]))
                d = rng.choice([0, 1, SEC, rng.randint(0, 3 * SEC), rng.randint(-SEC, SEC)])
                l.append([rng.choice([None, rng.randint(0, 99)]), t, d, rdata(pool, pkey)])
            if l and rng.random() < 0.3:  # duplicates by value
                for _ in range(rng.randint(1, 3)):
                    l.insert(rng.randint(0, len(l)), list(rng.choice(l)))
            return l

        def maybe_alias(case):
            n = len(case["l"])
            if n and rng.random() < 0.15:
                case["ix"] = [rng.randrange(n) for _ in range(rng.randint(1, n + 2))]
            return case

        # long lists (hundreds to a couple of thousand events)
        for n in ([257, 1025] if ctx.quick else [129, 257, 513, 1025, 2049]):
            l = revents(n, ["x", "y", ["x"], 2], 0.9, sorted_ts=True)
            out.append(("long", {"k": "merge", "l": l, "keys": ["k1", "k2"]}))
            out.append(("long", {"k": "chunk", "l": l, "key": "k1", "pt": 5.0}))
            out.append(("long", {"k": "sortts", "l": revents(n, ["x"], 0.3)}))
            out.append(("long", {"k": "sortdur", "l": revents(n, ["x"], 0.3)}))
            out.append(("long", {"k": "filter", "l": l, "key": "k1", "vals": ["x", 2]}))
            out.append(("long", {"k": "limit", "l": l, "count": n - 1}))

        # groups whose summed duration is beyond what a double holds to the microsecond (centuries, with a microsecond part)
        for _ in range(ctx.pick(40, 600)):
            l = revents(rng.randint(1, 6), ["x", "y"], 0.9)
            for e in l:
                e[2] = rng.choice([86_400 * SEC * 150_000 + 1, 86_400 * SEC * 200_000, 1, 3, 86_400 * SEC * 99_999 + 999_999])
            out.append(("huge-durations", {"k": "merge", "l": l, "keys": ["k1"]}))
            out.append(("huge-durations", {"k": "chunk", "l": l, "key": "k1", "pt": 5.0}))

        nr = ctx.pick(1500, 40000)
        for _ in range(nr):
            pool = hashpool if rng.random() < 0.85 else valpool
            small = rng.choice([["x", "y", ["x"], 2], [["x", "y"], ["y", "x"], ["x", "x"], ["x"]], [8080, "8080", None, "None", True, "True"]]) if rng.random() < 0.6 else pool
            l = revents(rng.randint(0, 30), small, rng.choice([0.3, 0.6, 0.9]))
            keys = [rng.choice(keypool[:4]) for _ in range(rng.choice([0, 1, 1, 2, 2, 3]))]
            out.append(("random-merge", maybe_alias({"k": "merge", "l": l, "keys": keys})))
        for _ in range(nr):
            small = rng.choice([["x", "y"], ["x", "y", ["x"], 2, None], valpool])
            l = revents(rng.randint(0, 30), small, rng.choice([0.9, 1.0, 1.0]), sorted_ts=rng.random() < 0.5)
            key = rng.choice(keypool[:3])
            if rng.random() < 0.6:  # make the sequence key-bearing
                for e in l:
                    d = spec_data(e)
                    d.setdefault(key, rng.choice(small))
                    e[3] = json.dumps(d, ensure_ascii=False)
            pt = rng.choice([0, 1e-6, 0.001, 0.5, 1, 5.0, rng.random() * 5, 10**9, -1])
            if len(l) >= 2 and rng.random() < 0.5:
                # put the gap of some event against events[-1] right at the pulsetime boundary
                lf = l[-1][1] + l[-1][2]
                t = (lf + pulsetime_us(pt)) // MS * MS + rng.choice([-MS, 0, MS])
                if 0 <= t < 10**15:
                    l[rng.randrange(len(l) - 1)][1] = t
            out.append(("random-chunk", maybe_alias({"k": "chunk", "l": l, "key": key, "pt": pt})))
        for _ in range(nr):
            l = revents(rng.randint(0, 30), ["x"], 0.3)
            if rng.random() < 0.5:  # many ties
                for e in l:
                    e[1] = rng.randint(0, 3) * MS
                    e[2] = rng.randint(-1, 2) * SEC
            out.append(("random-sort", maybe_alias({"k": rng.choice(["sortts", "sortdur"]), "l": l})))
        for _ in range(nr // 3):
            l = revents(rng.randint(0, 12), ["x"], 0.3)
            out.append(("random-limit", maybe_alias({"k": "limit", "l": l, "count": rng.randint(-len(l) - 3, len(l) + 3)})))
        for _ in range(nr):
            pool = rng.choice([["x", "y", ["x"]], valpool])
            l = revents(rng.randint(0, 30), pool, rng.choice([0.3, 0.6, 0.9]))
            vals = [rng.choice(pool) for _ in range(rng.randint(0, 4))]
            out.append(("random-filter", maybe_alias({"k": "filter", "l": l, "key": rng.choice(keypool[:4]), "vals": vals})))
        return out

    # ---- real code ---------------------------------------------------------------------------
    def impl(self, case):
        from aw_transform.chunk_events_by_key import chunk_events_by_key
        from aw_transform.filter_keyvals import filter_keyvals
        from aw_transform.merge_events_by_keys import merge_events_by_keys
        from aw_transform.sort_by import limit_events, sort_by_duration, sort_by_timestamp

        objs = [mk_event(e) for e in case["l"]]
        ix = case.get("ix")
        evs = objs if ix is None else [objs[i] for i in ix]
        before = [copy.deepcopy(dict(e)) for e in evs]
        ids_before = [id(e) for e in evs]
        pos = {}
        for i, e in enumerate(evs):
            pos.setdefault(id(e), i)

        def where(o):
            return pos.get(id(o)) if ix is None else None

        k = case["k"]
        res = {}
        try:
            if k == "merge":
                r = merge_events_by_keys(evs, list(case["keys"]))
                res["r"] = [evrepr(e) for e in r]
            elif k == "chunk":
                key = case["key"]
                r = chunk_events_by_key(evs, key, case["pt"])
                res["r"] = [[dt_to_us(c.timestamp), td_to_us(c.duration), jv(c.data[key]),
                             [evrepr(s) for s in c.data["subevents"]]] for c in r]
                res["idx"] = [[where(s) for s in c.data["subevents"]] for c in r]
                res["shape_ok"] = all(sorted(c.data.keys()) == sorted({key, "subevents"}) and c.id is None for c in r)
            elif k in ("sortts", "sortdur"):
                r = (sort_by_timestamp if k == "sortts" else sort_by_duration)(evs)
                res["r"] = [evrepr(e) for e in r]
                res["idx"] = [where(e) for e in r]
            elif k == "limit":
                r = limit_events(evs, case["count"])
                res["r"] = [evrepr(e) for e in r]
                res["idx"] = [where(e) for e in r]
            elif k == "filter":
                vals = copy.deepcopy(case["vals"])
                keep = filter_keyvals(evs, case["key"], vals, False)
                drop = filter_keyvals(evs, case["key"], vals, True)
                res["r"] = [[evrepr(e) for e in keep], [evrepr(e) for e in drop]]
                res["idx"] = [[where(e) for e in keep], [where(e) for e in drop]]
                res["vals_ok"] = vals == case["vals"]
            else:
                raise AssertionError(k)
        except AssertionError:
            raise
        except Exception as e:  # noqa: BLE001 - every exception of the code under test is an outcome
            res = {"r": ["err", err_kind(e)]}
        if ix is not None:
            res.pop("idx", None)  # aliased input objects: positions are ambiguous
        res["inputs_ok"] = (
            len(evs) == len(before)
            and [id(e) for e in evs] == ids_before
            and all(dict(e) == b for e, b in zip(evs, before))
            and all(list(e.data.items()) == list(b["data"].items()) for e, b in zip(evs, before))
        )
        return res

    # ---- model --------------------------------------------------------------------------------
    def model_lines(self, case):
        l = p_list(expand(case), p_evt)
        k = case["k"]
        if k == "merge":
            return [f"grp merge {l} {p_list(case['keys'], hx)}"]
        if k == "chunk":
            return [f"grp chunk {l} {hx(case['key'])} {pulsetime_us(case['pt'])}"]
        if k in ("sortts", "sortdur"):
            return [f"grp {k} {l}"]
        if k == "limit":
            return [f"grp limit {l} {case['count']}"]
        vals = p_list([jv(v) for v in case["vals"]], p_jv)
        return [f"grp filter {l} {hx(case['key'])} {vals} 0", f"grp filter {l} {hx(case['key'])} {vals} 1"]

    def model_out(self, case, answers):
        t = answer(answers[0])
        k = case["k"]
        if t.t[0] == "err":
            return {"r": ["err", t.t[1]]}
        if k == "chunk":
            r = t.list(lambda: r_chunk(t))
        elif k == "filter":
            t2 = answer(answers[1])
            r = [t.list(lambda: r_evt(t)), t2.list(lambda: r_evt(t2))]
            assert t2.done()
        else:
            r = t.list(lambda: r_evt(t))
        assert t.done()
        return {"r": r}

    def same(self, case, impl_out, model_out):
        return impl_out["r"] == model_out["r"]

    # ---- the property, stated directly -------------------------------------------------------
    def oracle(self, case, out):
        if out.get("inputs_ok") is False:
            return "the call modified its input (list or an event)"
        if out.get("vals_ok") is False:
            return "the call modified the list of values"
        k = case["k"]
        l = [spec_repr(e) for e in expand(case)]
        n = len(l)
        r = out["r"]
        idx = out.get("idx")
        if is_err(r):
            if k == "merge" and r[1] == "TypeError" and case["keys"] and any(
                kk in spec_data(e) and unhashable(spec_data(e)[kk]) for e in expand(case) for kk in case["keys"]
            ):
                return None  # unhashable value under one of the keys: outside the grouping claim
            return f"unexpected exception {r[1]}"
        if k == "merge":
            keys = case["keys"]
            if not keys:
                return None if r == l else "empty key list: result is not the input"
            if sum(e[2] for e in r) != sum(e[2] for e in l):
                return f"total duration {sum(e[2] for e in r)} != {sum(e[2] for e in l)}"
            groups = {}
            for e in l:
                groups.setdefault(pattern(e[3], keys), []).append(e)
            seen = set()
            for o in r:
                p = pattern(o[3], keys)
                if p in seen:
                    return f"two output events for the combination {p}"
                seen.add(p)
                if p not in groups:
                    return f"output event for a combination {p} that no input event has"
                if o[2] != sum(e[2] for e in groups[p]):
                    return f"group {p}: duration {o[2]} != sum {sum(e[2] for e in groups[p])} over its {len(groups[p])} events"
                if any(kk not in keys for kk, _ in o[3]):
                    return "output data has a key that was not asked for"
            if len(r) != len(groups):
                return f"{len(r)} output events for {len(groups)} distinct presence/value combinations"
            return None
        if k == "chunk":
            key = case["key"]
            if out.get("shape_ok") is False:
                return "chunk event data is not {key, subevents}"
            flat = [s for c in r for s in c[3]]
            bearing = all(lk(e[3], key) is not None for e in l)
            if bearing:
                if flat != l:
                    return "sub-events of the chunks do not concatenate back to the input"
                if idx is not None and [i for c in idx for i in c] != list(range(n)):
                    return "sub-events are not the input objects in order"
            else:
                # not key-bearing: only a sub-sequence of key-bearing input events may appear
                it = iter(l)
                if not all(any(s == e for e in it) for s in flat) or any(lk(s[3], key) is None for s in flat):
                    return "sub-events are not a sub-sequence of the key-bearing input events"
            for c in r:
                if not c[3]:
                    return "empty chunk"
                if any(lk(s[3], key) != c[2] for s in c[3]):
                    return f"chunk with value {c[2]} holds an event with another value"
                if c[1] != sum(s[2] for s in c[3]):
                    return f"chunk duration {c[1]} != sum of its sub-events {sum(s[2] for s in c[3])}"
            return None
        if k in ("sortts", "sortdur"):
            if sorted(map(json.dumps, r)) != sorted(map(json.dumps, l)):
                return "result is not a permutation of the input"
            if idx is not None and sorted(idx, key=lambda i: -1 if i is None else i) != list(range(n)):
                return "result is not a permutation of the input objects"
            ks = [e[1] for e in r] if k == "sortts" else [-e[2] for e in r]
            if any(a > b for a, b in zip(ks, ks[1:])):
                return "result is not in order"
            return None
        if k == "limit":
            c = case["count"]
            if r != l[: len(r)]:
                return "result is not a prefix of the input"
            if idx is not None and idx != list(range(len(r))):
                return "result is not a prefix of the input objects"
            if c >= 0 and len(r) != min(c, n):
                return f"{len(r)} events for count {c} of {n}"
            return None
        if k == "filter":
            key, vals = case["key"], [jv(v) for v in case["vals"]]
            keep, drop = r
            want = [lk(e[3], key) is not None and lk(e[3], key) in vals for e in l]
            if len(keep) + len(drop) != n:
                return f"{len(keep)} kept + {len(drop)} excluded != {n}"
            if keep != [e for e, w in zip(l, want) if w]:
                return "filter_keyvals is not the sub-sequence of matching events"
            if drop != [e for e, w in zip(l, want) if not w]:
                return "exclude_keyvals is not the sub-sequence of the other events"
            if idx is not None:
                a, b = idx
                if any(i is None for i in a + b) or a != sorted(a) or b != sorted(b) or sorted(a + b) != list(range(n)):
                    return "the two results are not complementary sub-sequences of the input objects"
            return None
        return "unknown case kind"

    def nontrivial(self, case, out):
        return len(expand(case)) >= 2

    def features(self, case, out):
        k = case["k"]
        r = out["r"]
        n = len(expand(case))
        if is_err(r):
            return [f"{k}:err-{r[1]}"]
        f = []
        if case.get("ix") is not None:
            f.append(f"{k}:aliased-input")
        if k == "merge":
            m = len(r)
            f.append("merge:" + ("no-keys" if not case["keys"] else "empty" if n == 0 else "all-one-group" if m == 1
                                 else "no-two-merged" if m == n else "some-merged"))
            if case["keys"] and any(len(o[3]) < len(set(case["keys"])) for o in r):
                f.append("merge:group-with-missing-key")
        elif k == "chunk":
            flat = sum(len(c[3]) for c in r)
            f.append("chunk:" + ("empty" if n == 0 else "break" if flat < n else "one-chunk" if len(r) == 1
                                 else "no-two-chunked" if len(r) == n else "some-chunked"))
        elif k in ("sortts", "sortdur"):
            ks = [e[1] if k == "sortts" else e[2] for e in r]
            f.append(k + (":ties" if len(set(ks)) < len(ks) else ":distinct"))
        elif k == "limit":
            c = case["count"]
            f.append("limit:" + ("negative" if c < 0 else "beyond" if c > n else "inside"))
        elif k == "filter":
            f.append("filter:" + ("none-kept" if not r[0] else "all-kept" if not r[1] else "split"))
        return f

    def shrink(self, case):
        if case.get("ix") is not None:
            ix = case["ix"]
            for i in range(len(ix)):
                yield {**case, "ix": ix[:i] + ix[i + 1:]}
            yield {**{k: v for k, v in case.items() if k != "ix"}, "l": expand(case)}
            return
        l = case["l"]
        for i in range(len(l)):
            yield {**case, "l": l[:i] + l[i + 1:]}
        for i, e in enumerate(l):
            if e[0] is not None:
                yield {**case, "l": l[:i] + [[None] + e[1:]] + l[i + 1:]}
            d = spec_data(e)
            for kk in d:
                d2 = {a: b for a, b in d.items() if a != kk}
                if case["k"] == "chunk" and kk == case["key"]:
                    continue
                yield {**case, "l": l[:i] + [e[:3] + [json.dumps(d2, ensure_ascii=False)]] + l[i + 1:]}
        if case["k"] == "merge":
            keys = case["keys"]
            for i in range(len(keys)):
                if len(keys) > 1:
                    yield {**case, "keys": keys[:i] + keys[i + 1:]}
        if case["k"] == "filter":
            vals = case["vals"]
            for i in range(len(vals)):
                yield {**case, "vals": vals[:i] + vals[i + 1:]}

    def extra_search(self, ctx, around):
        return self.gen(Ctx("quick", ctx.seed + 1))


PROP = C16()
