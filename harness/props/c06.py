"""C06 - after a crash the database holds a prefix of what was done, minus a bounded tail"""
import json

from ..base import Ctx, Prop
from ..common import run_driver
from .. import commitlib, storegen, storelib


def commit_history(rng, n, heavy_delete=False, lazy=True):
    g = storegen.HistGen(rng, nbuckets=2, grid=6)
    g.start()
    ops = [[0] + o for o in g.ops]
    g.ops = []
    for _ in range(n):
        r = rng.random()
        if heavy_delete and r < 0.5:
            g.op_delete(rng.choice(g.buckets))
        elif r < 0.03:
            b = rng.choice(g.buckets)
            g.ops.append(["update", b, rng.choice([{"name": "n" + str(rng.randint(0, 9))}, {"data": json.dumps({"v": rng.randint(0, 9)})},
                                                    {"hostname": "h" + str(rng.randint(0, 9)), "data": "{}"}])])
        elif r < 0.05:
            g.ops.append(["read", rng.choice(g.buckets)])
        elif r < 0.06:
            # operations that are rejected: missing bucket, nothing to update
            g.ops.append(rng.choice([["delbucket", "no-such-bucket"], ["update", "no-such-bucket", {"name": "x"}],
                                     ["update", rng.choice(g.buckets), {}], ["create", rng.choice(g.buckets), storegen.mk_meta(rng, "x")],
                                     ["insert", "no-such-bucket", storegen.rand_ev(rng)]]))
        elif r < 0.07:
            b = rng.choice(g.buckets)
            g.ops.append(["delbucket", b])
            g.live[b] = []
            g.ops.append(["create", b, storegen.mk_meta(rng, b)])
        else:
            b = rng.choice(g.buckets)
            q = rng.random()
            if q < 0.50:
                g.op_insert(b)
            elif q < 0.54:
                g.op_insert_carrying(b)
            elif q < 0.57:
                g.op_bulk_unknown_ids(b)
            elif q < 0.63:
                g.op_bulk(b)
            elif q < 0.75:
                g.op_replace(b)
            elif q < 0.87:
                g.op_replacelast(b)
            else:
                g.op_delete(b)
        for o in g.ops:
            dt = rng.choice([0, 0, 0, 1000, 20000, 20000, 400000])
            ops.append([dt] + o)
        g.ops = []
    return {"lazy": lazy, "ops": ops}


class C06(Prop):
    ID = "C06"
    MODULE = "AwProofs.Props.C06"
    THEOREMS = ["AwProofs.C06.bucket_ops_durable", "AwProofs.C06.bucket_ops_durable_delete", "AwProofs.C06.bucket_ops_durable_update_missing", "AwProofs.C06.cur_is_last_of_history", "AwProofs.C06.durable_is_past_state", "AwProofs.C06.durable_is_prefix_minus_pending", "AwProofs.C06.eager_always_durable", "AwProofs.C06.eager_every_op_durable", "AwProofs.C06.every_op_atomic", "AwProofs.C06.insertMany_inside_not_durable", "AwProofs.C06.insertMany_no_longer_splits", "AwProofs.C06.pending_bounded", "AwProofs.C06.pending_bounded_inside_insertMany", "AwProofs.C06.pending_consistent", "AwProofs.C06.single_op_atomic"]
    MODEL_NEEDS_IMPL = True
    WORKERS = 12
    LEVEL_TEXT = 'Lean 4 invariants of the commit machine over the sqlite table model, for all histories: durable_is_past_state / durable_is_prefix_minus_pending (the reopened database is the state after a prefix of the elementary writes), bucket_ops_durable, single_op_atomic, pending_bounded (<= 50, deletions counted), eager_every_op_durable, every_op_atomic / insertMany_inside_not_durable (the repaired insert_many takes one commit decision after all its statements: no operation is split, a crash inside it shows none of it); model compared with the real store through a second connection after every operation and by SIGKILL at every traced SQL statement (sqlite and peewee)'
    LEVEL_NOTE = 'trusts: Lean kernel + 3 standard axioms; SQLite atomic commit / WAL recovery and Python sqlite3 implicit transactions (exercised by the real kill runs); peewee autocommit (no model: every completed operation durable is checked on the real store)'
    TECHNIQUE = "Lean 4 invariant proof over a commit-machine model + differential correspondence (second-connection view, SIGKILL at every SQL statement)"
    RULE = (
        "view: seeded random histories (bursts of event writes incl. long runs of deletes, bulk inserts with upserts, "
        "bucket operations, reads) on the real lazily committing store with a fake clock; after every operation the "
        "own-connection view and the view of a fresh second connection are compared with the model's cur/durable states; "
        "crash: the history runs in a child process that SIGKILLs itself at the k-th traced SQL statement, for every k "
        "of the sampled histories, on sqlite and peewee; non-trivial = step with pending writes, or any crash run"
    )

    def gen(self, ctx):
        out = []
        rng = ctx.rng("c06")
        for i in range(ctx.pick(40, 600)):
            h = commit_history(rng, rng.randint(20, ctx.pick(90, 250)), heavy_delete=(i % 4 == 0), lazy=(i % 10 != 9))
            if i % 5 == 3:
                # another store of the same process (another database file) is written to before many of the operations
                h["neighbour"] = sorted(rng.sample(range(len(h["ops"])), min(len(h["ops"]), rng.randint(5, 40))))
            out.append(("view", {"k": "view", **h}))
        # the ordinary upgrade situation: a store at its default location next to a legacy database; the migrated buckets
        # are deleted, the process ends without a clean shutdown, the store is opened again
        from . import c14

        for _, c in c14.PROP.gen(Ctx(ctx.tier, ctx.seed))[: ctx.pick(60, 300)]:
            if c["mode"] == "same" and c["buckets"] and not c.get("both_profiles"):
                out.append(("migrated-then-deleted", {"k": "migrated", "c14": {**c, "emptied": True}}))
        # an AUTO-COMMITTING store created at its default location in a data directory that holds a legacy database: with
        # buckets, without any, or with buckets that were all deleted again - whatever the migration did on the way, every
        # completed operation of the new store is durable
        for i in range(ctx.pick(9, 60)):
            out.append(("eager-upgrade", {"k": "eager-upgrade", "testing": i % 2 == 0, "legacy": ["none", "empty", "emptied", "populated"][i % 4],
                                          "n": rng.randint(2, 6), "seed": rng.randrange(1 << 30)}))
        # crash runs: every kill point of a few histories; the first two are directed: (a) a bucket holding more events
        # than the commit threshold is deleted while writes are buffered (a commit between its two DELETEs would split it),
        # (b) a bulk insert mixing upserts and new events, and a rejected replace, are followed by more operations
        directed = []
        m0 = storegen.mk_meta(rng, "b0")
        big = [[0, "create", "b0", m0], [0, "create", "b1", storegen.mk_meta(rng, "b1")],
               [0, "bulk", "b0", [storegen.rand_ev(rng) for _ in range(45)]]]
        big += [[1000, "insert", "b1", storegen.rand_ev(rng)] for _ in range(4)]
        big += [[rng.choice([0, 11_000_000]), "delbucket", "b0"], [0, "insert", "b1", storegen.rand_ev(rng)],
                [0, "create", "b0", m0], [0, "insert", "b0", storegen.rand_ev(rng)]]
        directed.append({"lazy": True, "ops": big})
        mixed = [[0, "create", "b0", m0], [0, "insert", "b0", storegen.rand_ev(rng)], [0, "insert", "b0", storegen.rand_ev(rng)],
                 [0, "bulk", "b0", [[["ref", 0]] + storegen.rand_ev(rng)[1:], storegen.rand_ev(rng), [["ref", 1]] + storegen.rand_ev(rng)[1:], storegen.rand_ev(rng)]],
                 [0, "insert", "b0", storegen.rand_ev(rng)], [0, "replace", "b0", ["ref", 100070], storegen.rand_ev(rng)],
                 [0, "insert", "b0", storegen.rand_ev(rng)], [0, "create", "b1", storegen.mk_meta(rng, "b1")],
                 [0, "update", "b1", {"name": "renamed"}], [0, "insert", "b1", storegen.rand_ev(rng)], [0, "delete", "b0", ["ref", 0]]]
        directed.append({"lazy": True, "ops": mixed})
        # (c) bucket operations issued while NOTHING is buffered (right after a read): an update of several fields at once,
        # the deletion of a populated bucket - neither may be visible in part
        calm = [[0, "create", "b0", m0], [0, "create", "b1", storegen.mk_meta(rng, "b1")],
                [0, "bulk", "b0", [storegen.rand_ev(rng) for _ in range(6)]], [0, "read", "b0"],
                [0, "update", "b0", {"type": "t2", "data": "{\"z\": 1}", "name": "n2", "hostname": "h2"}], [0, "read", "b0"],
                [0, "delbucket", "b0"], [0, "insert", "b1", storegen.rand_ev(rng)], [0, "read", "b1"],
                [0, "update", "b1", {"client": "c2", "data": "{\"k\": [2]}"}], [0, "read", "b1"], [0, "delbucket", "b1"]]
        directed.append({"lazy": True, "ops": calm})
        # (d) buckets created with a name and a data dict (through the Datastore object, as an application does) while writes
        # are buffered: the bucket appears whole or not at all
        withdata = [[0, "create", "b0", {**m0, "name": "nm", "data": json.dumps({"k": [1, {"z": 2}]})}], [0, "insert", "b0", storegen.rand_ev(rng)],
                    [1000, "insert", "b0", storegen.rand_ev(rng)],
                    [0, "create", "b1", {**storegen.mk_meta(rng, "b1"), "name": "other", "data": json.dumps({"a": {"b": "c"}})}],
                    [0, "insert", "b1", storegen.rand_ev(rng)], [0, "update", "b0", {"data": json.dumps({"k": 2})}], [0, "insert", "b0", storegen.rand_ev(rng)]]
        directed.append({"lazy": True, "ops": withdata})
        for i in range(ctx.pick(2, 12) + len(directed)):
            h = directed[i] if i < len(directed) else commit_history(rng, rng.randint(12, 30) if i % 2 else 60, heavy_delete=(i % 3 == 0))
            for be in ("sqlite", "peewee"):
                hh = h if be == "sqlite" else {"lazy": True, "ops": [o for o in h["ops"] if o[1] not in ("read", "read1")]}
                # number of statements is found by a dry run inside gen (cheap: one child)
                total = self._count_statements(be, hh)
                for k in range(1, total + 1):
                    out.append(("crash", {"k": "crash", "backend": be, "kill": k, **hh}))
        return out

    def _impl_eager_upgrade(self, case):
        import os
        import random
        import shutil

        import aw_datastore.storages.peewee as pw
        from aw_datastore import Datastore
        from aw_datastore.storages import PeeweeStorage, SqliteStorage

        from ..common import mk_event, us_to_dt

        rng = random.Random(case["seed"])
        d = storelib.tmp_root()
        old_env = os.environ.get("XDG_DATA_HOME")
        os.environ["XDG_DATA_HOME"] = d
        try:
            if case["legacy"] != "none":
                legacy = PeeweeStorage(testing=case["testing"])
                if case["legacy"] in ("emptied", "populated"):
                    for b in ("old0", "old1"):
                        legacy.create_bucket(b, "t", "c", "h", us_to_dt(storegen.T0).isoformat(), name=None, data=None)
                        legacy.insert_many(b, [mk_event(storegen.rand_ev(rng)) for _ in range(3)])
                if case["legacy"] == "emptied":
                    for b in ("old0", "old1"):
                        legacy.delete_bucket(b)
                legacy.db.close()
            ds = Datastore(SqliteStorage, testing=case["testing"], enable_lazy_commit=False)
            st = ds.storage_strategy
            path = os.path.join(d, "activitywatch", "aw-server", "sqlite" + ("-testing" if case["testing"] else "") + ".v1.db")
            steps = []

            def observe(what):
                own = commitlib.norm_view(commitlib.raw_dump(st.conn, "sqlite"))
                sec = commitlib.norm_view(commitlib.second_view(path))
                steps.append([what, own == sec, own if own != sec else None, sec if own != sec else None])

            observe("constructed")
            ds.create_bucket("new", "t", "c", "h", created=us_to_dt(storegen.T0))
            observe("create_bucket")
            ids = []
            for i in range(case["n"]):
                e = ds["new"].insert(mk_event(storegen.rand_ev(rng)))
                ids.append(e.id)
                observe(f"insert #{i}")
            ds["new"].replace_last(mk_event([None, storegen.T0 + 99 * 1_000_000, 1000, storegen.LABELS[0]]))
            observe("replace_last")
            ds["new"].replace(ids[0], mk_event(storegen.rand_ev(rng)))
            observe("replace")
            ds["new"].delete(ids[-1])
            observe("delete")
            ds["new"].insert([mk_event(storegen.rand_ev(rng)) for _ in range(3)])
            observe("bulk insert")
            st.conn.close()
            try:
                pw._db.close()
            except Exception:
                pass
            return {"steps": steps}
        finally:
            if old_env is None:
                os.environ.pop("XDG_DATA_HOME", None)
            else:
                os.environ["XDG_DATA_HOME"] = old_env
            shutil.rmtree(d, ignore_errors=True)

    def _count_statements(self, be, h):
        from ..common import import_repo

        import_repo()
        io = commitlib.run_history(h) if be == "sqlite" else self._resolve_peewee(h)
        lines, _, rc, err = commitlib.crash_run(be, io["resolved"], io["nows"], 0, h.get("lazy", True))
        return sum(1 for l in lines if l.startswith("S "))

    def _resolve_peewee(self, h):
        # ids for peewee: run the history on a real peewee store to resolve references
        r = storelib.Runner("peewee", with_dumps=True).run([o[1:] for o in h["ops"]])
        nows, t = [], commitlib.CLOCK0
        for o in h["ops"]:
            t += o[0]
            nows.append(t)
        return {"resolved": [x[:3] if x[0] == "replacelast" else x for x in r["resolved"]], "nows": nows,
                "dumps": r["dumps"], "outs": r["outs"]}

    # ---- real code -----------------------------------------------------------------------------------
    def impl(self, case):
        if case["k"] == "view":
            return commitlib.run_history(case)
        if case["k"] == "eager-upgrade":
            return self._impl_eager_upgrade(case)
        if case["k"] == "migrated":
            from . import c14

            o = c14.PROP.impl(case["c14"])
            return {"migrated": sorted(o["new"]), "after_delete_and_reopen": o["emptied"]}
        be = case["backend"]
        if be == "sqlite":
            full = commitlib.run_history(case)
            boundaries = [{}] + [commitlib.norm_view(s["own"]) for s in full["steps"]]
        else:
            full = self._resolve_peewee(case)
            boundaries = None
        lines, reopened, rc, err = commitlib.crash_run(be, full["resolved"], full["nows"], case["kill"], case.get("lazy", True))
        if rc != -9:
            raise RuntimeError(f"crash child ended with {rc}: {err}")
        j = max([int(l.split()[1]) for l in lines if l.startswith("OP ")], default=-1)
        in_op = []
        for l in lines:
            if l.startswith("OP "):
                in_op = []
            elif l.startswith("S "):
                in_op.append(l[2:])
        completed = in_op[:-1]
        out = {"op": j, "completed": completed, "reopened": reopened, "resolved": full["resolved"], "nows": full["nows"],
               "start": commitlib.CLOCK0}
        if be == "sqlite":
            out["boundaries"] = boundaries
        else:
            # peewee raw views at op boundaries come from a second clean run
            out["boundaries"] = self._peewee_boundaries(full)
        return out

    def _peewee_boundaries(self, full):
        import os
        import shutil

        from aw_datastore.storages import PeeweeStorage

        d = storelib.tmp_root()
        try:
            path = os.path.join(d, "p.db")
            st = PeeweeStorage(testing=True, filepath=path)
            # every completed operation is durable on the auto-committing store: the expected durable states are what the
            # store's OWN connection sees at the operation boundaries
            res = [commitlib.raw_dump(st.db.connection(), "peewee")]
            for op in full["resolved"]:
                op = list(op)
                if op[0] == "insert":
                    op[2] = [None if op[2][0] is None else ["raw", op[2][0]]] + list(op[2][1:])
                elif op[0] == "bulk":
                    op[2] = [[None if e[0] is None else ["raw", e[0]]] + list(e[1:]) for e in op[2]]
                elif op[0] in ("replace", "delete"):
                    op[2] = ["raw", op[2]]
                elif op[0] == "replacelast":
                    op = op[:3]
                commitlib.apply_op(st, op, [], lambda: set())
                res.append(commitlib.raw_dump(st.db.connection(), "peewee"))
            storelib.close_peewee(st.db)
            return res
        finally:
            shutil.rmtree(d, ignore_errors=True)

    # ---- model -----------------------------------------------------------------------------------------
    def model_lines(self, case, io):
        if case["k"] == "view":
            return commitlib.model_lines(case, io)
        if case["k"] in ("migrated", "eager-upgrade") or case["backend"] != "sqlite":
            return []
        j = io["op"]
        L = [f"commit reset {1 if case.get('lazy', True) else 0} {io['start']}"]
        for now, op in list(zip(io["nows"], io["resolved"]))[: max(j, 0)]:
            L.append(commitlib.op_line(now, op))
        L += ["commit state", "commit dumpdur"]
        if j >= 0:
            L += [commitlib.op_line(io["nows"][j], io["resolved"][j]), "commit state"]
        return L

    def model_out(self, case, answers, io):
        if case["k"] == "view":
            return commitlib.model_out(case, answers, io)
        if case["k"] in ("migrated", "eager-upgrade") or case["backend"] != "sqlite":
            return None
        j = io["op"]
        base = 1 + max(j, 0)
        l0 = int(answers[base].split()[4])
        durable = commitlib.model_dump(answers[base + 1])
        c = sum(1 for s in io["completed"] if s.upper().startswith("COMMIT"))
        if j >= 0 and c >= 1:
            l1 = int(answers[base + 3].split()[4])
            idx = l0 + c - 1
            if idx >= l1:
                return {"expected": None, "why": f"{c} COMMITs completed inside the operation, model performs {l1 - l0}"}
            lines = [f"commit reset {1 if case.get('lazy', True) else 0} {io['start']}"]
            for now, op in list(zip(io["nows"], io["resolved"]))[: j + 1]:
                lines.append(commitlib.op_line(now, op))
            lines.append(f"commit logdump {idx}")
            durable = commitlib.model_dump(run_driver(lines)[-1])
        return {"expected": durable}

    def same(self, case, io, mo):
        if case["k"] == "view":
            return commitlib.same(io, mo)
        if mo is None:
            return True
        if mo.get("expected") is None:
            return False
        return commitlib.norm_view(io["reopened"]) == mo["expected"]

    # ---- the property ------------------------------------------------------------------------------------
    def oracle(self, case, out):
        if out is None or "expected" in out:
            return None
        if case["k"] == "eager-upgrade":
            for what, ok, own, sec in out["steps"]:
                if not ok:
                    return (f"store without lazy commit, created beside a legacy database ({case['legacy']}): after {what} returned, a second "
                            f"connection sees {json.dumps(sec)[:300]}, the store itself {json.dumps(own)[:300]}")
            return None
        if case["k"] == "migrated":
            if out.get("after_delete_and_reopen"):
                return (f"delete_bucket returned for each of {out['migrated']}, the connection was dropped and the store opened "
                        f"again: it holds {out['after_delete_and_reopen']}")
            return None
        if case["k"] == "view":
            if "resolved" not in out:
                return None
            lazy = case.get("lazy", True)
            owns = [{}] + [commitlib.norm_view(s["own"]) for s in out["steps"]]
            match = 0
            for j, (op, s) in enumerate(zip(out["resolved"], out["steps"]), start=1):
                sec = commitlib.norm_view(s["second"])
                cands = [i for i in range(match, j + 1) if owns[i] == sec]
                where = f"op {j - 1} {json.dumps(op, ensure_ascii=False)[:120]}"
                if not cands:
                    # the property only forbids splitting single-event and bucket operations: a committed state inside
                    # a bulk insert is not a violation by itself (the repaired insert_many never produces one - theorem
                    # every_op_atomic - so the correspondence with the model reports it as a disagreement)
                    split = [q for q in range(match, j) if out["resolved"][q][0] == "bulk"
                             and any(e[0] is not None for e in out["resolved"][q][2])]
                    if not split:
                        return f"{where}: the committed state is not the state after any prefix of the operations"
                    match = split[-1]
                    continue
                match = cands[-1]
                if s["out"][0] == "err" and owns[j] != owns[j - 1]:
                    return f"{where}: rejected with {s['out']} but the connection's view of the store changed"
                if op[0] in ("create", "update", "delbucket") and s["out"][0] == "ok" and match != j:
                    return f"{where}: bucket operation returned but is not durable"
                if not lazy and match != j:
                    return f"{where}: store without lazy commit, completed operation not durable"
                lost = sum(commitlib.n_writes(o) for o, st in zip(out["resolved"][match:j], out["steps"][match:j])
                           if st["out"][0] == "ok")  # a rejected operation wrote nothing
                if lost > 50:
                    return f"{where}: {lost} event writes (more than 50) would be lost in a crash now"
            return None
        # crash run: the reopened database is a prefix state with a bounded tail
        reopened = commitlib.norm_view(out["reopened"]) if case["backend"] == "sqlite" else out["reopened"]
        bounds = out["boundaries"]
        j = out["op"]
        if "?unreadable" in out["reopened"]:
            return "the database could not be reopened after the crash"
        if case["backend"] == "sqlite":
            cands = [i for i in range(0, j + 2) if i < len(bounds) and bounds[i] == reopened]
            op = out["resolved"][j] if j >= 0 else None
            if not cands:
                if any(o[0] == "bulk" and any(e[0] is not None for e in o[2]) for o in out["resolved"][: max(j, 0) + 1]):
                    # a commit inside an earlier (or this) bulk insert is not forbidden by the property; the model
                    # (every_op_atomic) has none, so such a state shows up as a disagreement of the correspondence
                    return None
                return f"crash inside op {j}: reopened database is not the state after any prefix of the operations"
            i = cands[-1]
            lost = sum(commitlib.n_writes(o) for o in out["resolved"][i:max(j, 0)])
            if lost > 50:
                return f"crash inside op {j}: {lost} completed event writes lost (more than 50)"
            for q in range(i, max(j, 0)):
                if out["resolved"][q][0] in ("create", "update", "delbucket") and bounds[q + 1] != bounds[q]:
                    if bounds[q + 1] != reopened and i <= q:
                        return f"crash inside op {j}: completed bucket operation {q} was lost"
            return None
        # peewee: every completed operation is durable
        before, after = bounds[max(j, 0)], bounds[min(j + 1, len(bounds) - 1)]
        if reopened == before or reopened == after:
            return None
        op = out["resolved"][j] if j >= 0 else None
        if op is not None and op[0] in ("bulk", "delbucket"):
            for b in set(before) | set(after) | set(reopened):
                eb = {json.dumps(e) for e in before.get(b, {"events": []})["events"]}
                ea = {json.dumps(e) for e in after.get(b, {"events": []})["events"]}
                er = {json.dumps(e) for e in reopened.get(b, {"events": []})["events"]}
                if not (er <= (eb | ea) and (eb & ea) <= er):
                    return f"crash inside op {j}: bucket {b} holds events that are neither the state before nor after the operation"
            return None
        return f"crash inside op {j}: reopened database differs from the state before and after the operation"

    def nontrivial(self, case, out):
        if case["k"] in ("crash", "migrated", "eager-upgrade"):
            return True
        return any(s["own"] != s["second"] for s in out["steps"])

    def key(self, case):
        return json.dumps(case, sort_keys=True)

    def features(self, case, out):
        if case["k"] == "eager-upgrade":
            return [f"eager-upgrade:legacy-{case['legacy']}"]
        if case["k"] == "migrated":
            return [f"migrated-store:{len(out['migrated'])}-buckets"]
        if case["k"] == "crash":
            op = out["resolved"][out["op"]][0] if out["op"] >= 0 else "init"
            return [f"crash:{case['backend']}:in-{op}"]
        fs = []
        for op, s in zip(out["resolved"], out["steps"]):
            fs.append(f"view:{op[0]}:{'durable' if s['own'] == s['second'] else 'pending'}")
        return fs

    def shrink(self, case):
        if case["k"] == "view":
            ops = [o[1:] for o in case["ops"]]
            dts = [o[0] for o in case["ops"]]
            for i in range(len(ops) - 1, 1, -1):
                cand = storegen.drop_op(ops, i)
                if not storegen.uses_dead_ref(cand):
                    d2 = dts[:i] + dts[i + 1 :]
                    yield {**case, "ops": [[d] + o for d, o in zip(d2, cand)]}

    def extra_search(self, ctx, around):
        return [c for c in self.gen(Ctx("thorough", ctx.seed + 1)) if c[1]["k"] == "view"][:400]


PROP = C06()
