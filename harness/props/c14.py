"""C14 - migrating a legacy (peewee v2) database to the SQLite store loses nothing"""
import hashlib
import json
import os
import shutil

from ..base import Ctx, Prop
from ..common import hx, mk_event, p_ev, p_list, us_to_dt
from .. import storegen, storelib

T0 = storegen.T0
FUTURE = 5_680_000_000_000_000  # an instant in 2149, in µs


def file_hash(p):
    return hashlib.sha256(open(p, "rb").read()).hexdigest()


class C14(Prop):
    ID = "C14"
    MODULE = "AwProofs.Props.C14"
    THEOREMS = ["AwProofs.C14.migration_count_and_members", "AwProofs.C14.migration_ids_distinct", "AwProofs.C14.migration_preserves", "AwProofs.C14.migration_succeeds", "AwProofs.C14.old_unchanged", "AwProofs.C14.trigger_iff", "AwProofs.C14.legacy_file_untouched", "AwProofs.C14.legacy_file_altered_before_F27"]
    WORKERS = 8
    LEVEL_TEXT = 'Lean 4 theorems over the peewee and sqlite table models: migration_succeeds, migration_preserves (every legacy bucket with its metadata, its events as a multiset of instant/duration/data: Perm modulo ids), migration_ids_distinct, trigger_iff (same profile, new file, default path), legacy_file_untouched (also for files of the older schema vintage, F27); real legacy databases in private XDG directories are migrated and compared, legacy file bytes hashed'
    LEVEL_NOTE = 'trusts: Lean kernel + 3 standard axioms; backend models as validated by C02/C04; the legacy file is modelled as (has the bucket data column, content): the legacy store adds the column to the file it opens, the migration gives it a scratch copy (legacy_file_untouched); that opening a current-schema file writes nothing is observed (hash of the file bytes) on every run'
    TECHNIQUE = "Lean 4 proof over the two store models + differential correspondence on real legacy databases in private XDG dirs"
    RULE = (
        "legacy databases written by the real PeeweeStorage at its default location under a private XDG_DATA_HOME "
        "(0..4 buckets, 0..60 events incl. equal instants and zero lengths, unicode ids, bucket data dicts, both profiles), "
        "then the default SqliteStorage is constructed beside it (migration), in the same and in the other profile; "
        "non-trivial = legacy database with at least one bucket holding events"
    )

    def gen(self, ctx):
        out = []
        rng = ctx.rng("c14")
        for i in range(ctx.pick(70, 300)):
            nb = rng.choice([0, 1, 1, 2, 3, 4])
            buckets = []
            for k in range(nb):
                bid = rng.choice(["aw-watcher-window_host", "bücket-ü", "b", "x.y.z"]) + str(k)
                m = storegen.mk_meta(rng, bid)
                n = rng.choice([0, 1, 3, rng.randint(0, ctx.pick(60, 250))])
                evs = [[None, T0 + rng.randrange(0, 50) * 1_000_000, rng.choice([0, 0, 1, 1500, 2_000_000, 86_400_000_000]),
                        rng.choice(storegen.LABELS)] for _ in range(n)]
                buckets.append({"id": bid, "meta": m, "events": evs})
            if len(buckets) >= 2 and rng.random() < 0.25:
                # two buckets whose ids differ only in letter case (a host name that changed its capitalisation)
                buckets[1]["id"] = buckets[0]["id"].swapcase() if buckets[0]["id"].swapcase() != buckets[0]["id"] else buckets[0]["id"] + "X"
            mode = rng.choice(["same", "same", "same", "other-profile", "custom-path"])
            case = {"testing": rng.random() < 0.5, "mode": mode, "buckets": buckets,
                    "other_first": mode == "same" and rng.random() < 0.3}
            if mode == "same" and i % 5 == 2:
                case["emptied"] = True
            r = rng.random()
            if mode == "same" and r < 0.2:
                # other files whose names begin like the legacy database lie beside it (a backup copy, a stale journal)
                case["sidecar"] = rng.choice([[".bak"], ["-journal"], [".bak", ".old"]])
            elif mode == "same" and r < 0.45 and buckets:
                # both profiles have a legacy database; both are migrated by one process, the first new store still open
                other = []
                for k in range(rng.randint(1, 2)):
                    bid = "other-profile-" + str(k)
                    other.append({"id": bid, "meta": storegen.mk_meta(rng, bid),
                                  "events": [[None, T0 + rng.randrange(0, 50) * 1_000_000, rng.choice([0, 1500, 2_000_000]),
                                              rng.choice(storegen.LABELS)] for _ in range(rng.randint(1, 5))]})
                if rng.random() < 0.7:
                    # the other profile also has a bucket of the SAME id as one of this profile's, at another position of its
                    # bucket table and with other contents
                    twin_id = buckets[-1]["id"]
                    other.append({"id": twin_id, "meta": storegen.mk_meta(rng, twin_id),
                                  "events": [[None, T0 + rng.randrange(50, 90) * 1_000_000, 2_500_000, storegen.LABELS[1]]
                                             for _ in range(rng.randint(1, 4))]})
                case["both_profiles"] = other
                case["other_first"] = False
            if rng.random() < 0.25 and buckets:
                # events the legacy store keeps faithfully although they are unusual: negative durations, instants before 1970
                # with a fractional second
                b = rng.choice(buckets)
                b["events"] = b["events"] + [[None, T0 + 5_000_000, -250_000, storegen.LABELS[0]], [None, -1_500_000, 2_000_000, storegen.LABELS[1]],
                                             [None, -86_400_000_000 + 123_000, rng.choice([0, 1]), storegen.LABELS[0]]][: rng.randint(1, 3)]
            if rng.random() < 0.15 and buckets:
                # events dated after the day of the migration (a clock that ran ahead; years after 2100 only draw a warning)
                b = rng.choice(buckets)
                b["events"] = b["events"] + [[None, FUTURE + rng.randrange(0, 9) * 1_000_000, rng.choice([0, 1_000_000]), storegen.LABELS[0]]
                                             for _ in range(rng.randint(1, 3))]
                b["events"].append([None, T0, FUTURE - T0 + 5_000_000, storegen.LABELS[1]])  # begins in the past, ends in 2149
            if rng.random() < 0.15 and buckets:
                # an event that was left running "for ever": a whole number of seconds (which the legacy store's float keeps
                # exactly) reaching beyond the year 9999, where no datetime can follow
                b = rng.choice(buckets)
                b["events"] = b["events"] + [[None, T0 + rng.randrange(0, 50) * 1_000_000, rng.choice([9000, 12000, 250000]) * 31_557_600 * 1_000_000, storegen.LABELS[0]]]
            if rng.random() < 0.25 and buckets:
                # runs of events whose data are equal for Python (1 == True == 1.0) and different JSON values
                b = rng.choice(buckets)
                t = storegen.LABELS_JSON_TYPES
                run = [t[0], t[1], t[2], t[3], t[4], t[5], t[6]] if rng.random() < 0.5 else [rng.choice(t) for _ in range(6)]
                b["events"] = b["events"] + [[None, T0 + (60 + k) * 1_000_000, 1_000_000, x] for k, x in enumerate(run)]
            out.append(("legacy-db", case))
        # a legacy bucket larger than any batch size the copy might use (100, 1000), not a multiple of either
        for n in ((1234,) if ctx.quick else (101, 1001, 1234, 2500)):
            evs = [[None, T0 + k * 1000, 1000, storegen.LABELS[k % 2]] for k in range(n)]
            out.append(("legacy-db-large", {"testing": rng.random() < 0.5, "mode": "same", "other_first": False,
                                            "buckets": [{"id": "big", "meta": storegen.mk_meta(rng, "big"), "events": evs},
                                                        {"id": "small", "meta": storegen.mk_meta(rng, "small"), "events": evs[:3]}]}))
        # a legacy v2 file of an older vintage: written before the bucket table had its `datastr` column (the legacy store adds
        # the column to its own files when it opens them: `auto_migrate`)
        for k in range(ctx.pick(6, 30)):
            bs = []
            for j in range(rng.choice([1, 2, 3])):
                bid = f"old-{j}"
                m = storegen.mk_meta(rng, bid)
                m["data"] = None
                bs.append({"id": bid, "meta": m, "events": [[None, T0 + rng.randrange(0, 50) * 1_000_000, rng.choice([0, 1500, 2_000_000]),
                                                             rng.choice(storegen.LABELS)] for _ in range(rng.randint(0, 6))]})
            out.append(("legacy-old-schema", {"testing": k % 2 == 0, "mode": rng.choice(["same", "same", "other-profile"]), "other_first": False,
                                              "old_schema": True, "buckets": bs}))
        # a legacy file that some tool has switched to write-ahead logging and whose last writes are still in the -wal file
        # beside it (another connection keeps the log from being folded back): the legacy database is the file AND its journal
        for k in range(ctx.pick(4, 20)):
            bs = []
            for j in range(rng.choice([1, 2])):
                bid = f"wal-{j}"
                bs.append({"id": bid, "meta": storegen.mk_meta(rng, bid),
                           "events": [[None, T0 + rng.randrange(0, 50) * 1_000_000, rng.choice([0, 1500, 2_000_000]), rng.choice(storegen.LABELS)]
                                      for _ in range(rng.randint(1, 12))]})
            out.append(("legacy-wal", {"testing": k % 2 == 0, "mode": "same", "other_first": False, "wal": True, "buckets": bs}))
        # texts that a JSON document can carry only escaped (half of a surrogate pair, NUL) or that some tools treat as
        # line ends; the model's strings are UTF-8, so these cases are judged on the two real stores alone
        ODD = ["\ud83d", "half \ude00 pair", "nul\x00char", "line\u2028sep\u2029", "\x7f\x80\ufffe"]
        for k, txt in enumerate(ODD if ctx.quick else ODD * 3):
            evs = [[None, T0 + j * 1_000_000, 1_000_000, json.dumps({"title": txt, txt: j}, ensure_ascii=True)] for j in range(3)]
            out.append(("legacy-odd-text", {"testing": k % 2 == 0, "mode": "same", "other_first": False, "no_model": True,
                                            "buckets": [{"id": "odd", "meta": storegen.mk_meta(rng, "odd"), "events": evs}]}))
        return out

    def impl(self, case):
        import aw_datastore.storages.peewee as pw
        from aw_datastore.storages import PeeweeStorage, SqliteStorage

        d = storelib.tmp_root()
        old_env = os.environ.get("XDG_DATA_HOME")
        os.environ["XDG_DATA_HOME"] = d
        try:
            legacy = PeeweeStorage(testing=case["testing"])
            keeper = None
            if case.get("wal"):
                import sqlite3

                legacy.db.close()  # (the journal mode can only be changed while nobody else has the file open)
                keeper = sqlite3.connect(os.path.join(d, "activitywatch", "aw-server", "peewee-sqlite" + ("-testing" if case["testing"] else "") + ".v2.db"))
                keeper.execute("PRAGMA journal_mode=WAL").fetchall()
                keeper.execute("PRAGMA wal_autocheckpoint=0").fetchall()
                keeper.isolation_level = None
                keeper.execute("BEGIN")  # a reader that stays: the log cannot be folded back into the file
                keeper.execute("SELECT * FROM sqlite_master").fetchall()
                legacy = PeeweeStorage(testing=case["testing"])
                legacy.db.execute_sql("PRAGMA wal_autocheckpoint=0")
            for b in case["buckets"]:
                m = b["meta"]
                legacy.create_bucket(b["id"], m["type"], m["client"], m["hostname"], storelib.created_iso(m["created_us"]),
                                     name=m.get("name"), data=json.loads(m["data"]) if m.get("data") else None)
                legacy.insert_many(b["id"], [mk_event(e) for e in b["events"]])
            store = type("S", (), {"st": legacy})
            legacy_dump = storelib.dump(store)
            legacy.db.close()
            second = None
            if case.get("both_profiles"):
                legacy2 = PeeweeStorage(testing=not case["testing"])
                for b in case["both_profiles"]:
                    m = b["meta"]
                    legacy2.create_bucket(b["id"], m["type"], m["client"], m["hostname"], storelib.created_iso(m["created_us"]),
                                          name=m.get("name"), data=json.loads(m["data"]) if m.get("data") else None)
                    legacy2.insert_many(b["id"], [mk_event(e) for e in b["events"]])
                second = {"legacy": storelib.dump(type("S", (), {"st": legacy2}))}
                legacy2.db.close()
            data_dir = os.path.join(d, "activitywatch", "aw-server")
            files = sorted(os.listdir(data_dir))
            lname = "peewee-sqlite" + ("-testing" if case["testing"] else "") + ".v2.db"
            lpath = os.path.join(data_dir, lname)
            for suffix in case.get("sidecar") or []:
                if suffix == "-journal":
                    open(lpath + suffix, "wb").close()
                else:
                    shutil.copy(lpath, lpath + suffix)
            if case.get("old_schema"):
                import sqlite3

                c = sqlite3.connect(lpath)
                c.execute("ALTER TABLE bucketmodel DROP COLUMN datastr")
                c.commit()
                c.close()
            h0 = file_hash(lpath)
            if case.get("other_first"):
                # the store of the other profile already exists in the shared data directory
                o = SqliteStorage(testing=not case["testing"])
                o.conn.close()
                h0 = file_hash(lpath)
            if case["mode"] == "same":
                new = SqliteStorage(testing=case["testing"])
            elif case["mode"] == "other-profile":
                new = SqliteStorage(testing=not case["testing"])
            else:
                new = SqliteStorage(testing=case["testing"], filepath=os.path.join(d, "custom.db"))
            # first what a SECOND connection sees right after the constructor returned (nothing has been read through
            # the new store yet, so nothing has been flushed on its behalf): the migrated events must already be there
            fresh = None
            if case["mode"] == "same":
                from .. import commitlib

                npath = os.path.join(data_dir, "sqlite" + ("-testing" if case["testing"] else "") + ".v1.db")
                fresh = {b: len(v["events"]) for b, v in commitlib.second_view(npath).items()}
            store2 = type("S", (), {"st": new})
            new_dump = storelib.dump(store2)
            if second is not None:
                new2 = SqliteStorage(testing=not case["testing"])  # the first new store is still open
                second["new"] = storelib.dump(type("S", (), {"st": new2}))
                new2.conn.close()
            emptied = None
            if case.get("emptied") and case["mode"] == "same":
                # the user deletes every migrated bucket, the process ends without a clean shutdown (the connection is
                # dropped with whatever it had not committed), and the store - no longer a new file - is opened again
                for b in list(new.buckets()):
                    new.delete_bucket(b)
                new.conn.close()
                again = SqliteStorage(testing=case["testing"])
                emptied = sorted(again.buckets())
                new = again
            new.conn.close()
            try:
                pw._db.close()
            except Exception:
                pass
            h1 = file_hash(lpath) if os.path.exists(lpath) else "legacy file is gone"
            if keeper is not None:
                keeper.close()  # (the harness's own connection: closing it folds the log back, after the file was hashed)
            return {"legacy": legacy_dump, "new": new_dump, "legacy_unchanged": h0 == h1, "files": files, "second": second,
                    "fresh": fresh, "emptied": emptied}
        finally:
            if old_env is None:
                os.environ.pop("XDG_DATA_HOME", None)
            else:
                os.environ["XDG_DATA_HOME"] = old_env
            shutil.rmtree(d, ignore_errors=True)

    def model_lines(self, case):
        if case.get("no_model"):
            return []
        L = ["store reset"]
        for b in case["buckets"]:
            L.append(f"store peewee create {hx(b['id'])} {storelib.p_meta(b['meta'])}")
            L.append(f"store peewee bulk {hx(b['id'])} {p_list(b['events'], p_ev)}")
        L.append("store peewee dump")
        name = "peewee-sqlite" + ("-testing" if case["testing"] else "") + ".v2.db"
        new_testing = case["testing"] if case["mode"] != "other-profile" else not case["testing"]
        L.append(f"store trigger {1 if new_testing else 0} 1 {1 if case['mode'] == 'custom-path' else 0} {hx(name)}")
        L.append("store migrate")
        L.append("store sqlite dump")
        return L

    def model_out(self, case, answers):
        if case.get("no_model"):
            return None
        legacy = storelib.parse_dump(answers[-4])
        trig = answers[-3].split()[1] == "1"
        new = storelib.parse_dump(answers[-1]) if trig else {}
        if not answers[-2].startswith("ok"):
            new = {"?error": answers[-2]}
        return {"legacy": legacy, "new": new}

    def same(self, case, io, mo):
        if mo is None:
            return True
        return io["legacy"] == mo["legacy"] and io["new"] == mo["new"]

    def oracle(self, case, out):
        if "legacy_unchanged" in out and not out["legacy_unchanged"]:
            return "the legacy database file was modified"
        if case["mode"] != "same":
            if out["new"]:
                return f"migration ran although it should not ({case['mode']}): {sorted(out['new'])}"
            return None
        if out.get("fresh") is not None:
            want = {b: len(v["events"]) for b, v in out["legacy"].items()}
            if out["fresh"] != want:
                return (f"right after the new store was constructed a second connection sees {out['fresh']} events per bucket, "
                        f"the legacy store holds {want} (migrated events left uncommitted)")
        if out.get("emptied"):
            return (f"every bucket was deleted from the migrated store and the store opened again: it holds {out['emptied']} "
                    "(the migration ran on a file that was not new, or the deletions were lost)")
        pairs = [("", out["legacy"], out["new"])]
        if out.get("second"):
            pairs.append(("other profile, migrated second by the same process: ", out["second"]["legacy"], out["second"]["new"]))
        for what, leg, new in pairs:
            if sorted(leg) != sorted(new):
                return f"{what}buckets after migration {sorted(new)}, legacy {sorted(leg)}"
            for b in leg:
                if leg[b]["meta"] != new[b]["meta"]:
                    return f"{what}bucket {b}: metadata {new[b]['meta']} differs from legacy {leg[b]['meta']}"
                a = sorted(json.dumps(e[1:]) for e in leg[b]["events"])
                c = sorted(json.dumps(e[1:]) for e in new[b]["events"])
                if a != c:
                    return f"{what}bucket {b}: {len(c)} events after migration, {len(a)} in the legacy store (or contents differ)"
        return None

    def nontrivial(self, case, out):
        return any(b["events"] for b in case["buckets"])

    def features(self, case, out):
        return [f"mode:{case['mode']}", f"testing:{case['testing']}", f"buckets:{len(case['buckets'])}"]

    def shrink(self, case):
        bs = case["buckets"]
        for i in range(len(bs)):
            yield {**case, "buckets": bs[:i] + bs[i + 1 :]}
        for i, b in enumerate(bs):
            if len(b["events"]) > 1:
                yield {**case, "buckets": bs[:i] + [{**b, "events": b["events"][: len(b["events"]) // 2]}] + bs[i + 1 :]}
                yield {**case, "buckets": bs[:i] + [{**b, "events": b["events"][1:]}] + bs[i + 1 :]}

    def extra_search(self, ctx, around):
        return self.gen(Ctx("thorough", ctx.seed + 1))[:60]


PROP = C14()
