"""C15 - union_no_overlap keeps list one intact and only the uncovered parts of list two
(aw_transform/union_no_overlap.py)

A case is {"u": unit_us, "du": unit_us?, "l1": [[ts, dur] | [ts, dur, id], ...], "l2": [...],
"tz": [m1, m2]?}: instants in units of `u` microseconds (a multiple of 1000: an `Event` cannot hold
a finer instant, its timestamp setter floors to the millisecond), durations in units of `du`
(default `u`; `du` = 1 gives microsecond durations). Event k of list s carries the data
{"s": s, "i": k}, so the origin of every returned event can be read off its data without trusting
the model's tags.
"""
import itertools
import json

from ..base import Prop
from ..common import answer, err_kind, ev_tuple, mk_event, p_ev, p_list, warm_up

SEC = 1_000_000


_LAB = {}


def label(s, i):
    k = (s, i)
    if k not in _LAB:
        _LAB[k] = json.dumps({"i": i, "s": s}, sort_keys=True, separators=(",", ":"))
    return _LAB[k]


def origin(data_text):
    """1 / 2 from a label text '{"i":k,"s":1}'"""
    return 1 if data_text.endswith('"s":1}') else 2 if data_text.endswith('"s":2}') else 0


def full(case, s):
    """the 4-tuples (id, ts_us, dur_us, data_text) of list s"""
    u = case["u"]
    du = case.get("du", u)
    assert u % 1000 == 0
    if case.get("same"):
        # every event of both lists carries the same data: events cannot be told apart by their payload
        return [[e[2] if len(e) > 2 else None, e[0] * u, e[1] * du, '{"x":1}'] for e in case["l1" if s == 1 else "l2"]]
    return [[e[2] if len(e) > 2 else None, e[0] * u, e[1] * du, label(s, i)]
            for i, e in enumerate(case["l1" if s == 1 else "l2"])]


_MEMO = [None, None]


def facts(case):
    """(L1, L2, in_scope, some-pair-meets) of a case; one-entry memo (oracle, nontrivial and features are called in a row)"""
    if _MEMO[0] is not case:
        L1, L2 = full(case, 1), full(case, 2)
        ok = good(L1) and good(L2)
        _MEMO[0], _MEMO[1] = case, (L1, L2, ok, ok and any(meets(e, f) for e in L1 for f in L2))
    return _MEMO[1]


def good(l):
    """sorted, internally non-overlapping, durations >= 0: each event ends at or before the next starts"""
    return all(e[2] >= 0 for e in l) and all(a[1] + a[2] <= b[1] for a, b in zip(l, l[1:]))


def aligned(l):
    """every duration is a whole number of milliseconds (instants always are)"""
    return all(e[2] % 1000 == 0 for e in l)


def norm(iv):
    """union of half-open intervals [a, b) as the sorted list of maximal intervals"""
    out = []
    for a, b in sorted(x for x in iv if x[0] < x[1]):
        if out and a <= out[-1][1]:
            out[-1][1] = max(out[-1][1], b)
        else:
            out.append([a, b])
    return out


def minus(a, b, cover):
    """[a, b) minus the union `cover` (normalised) as maximal intervals"""
    out = []
    cur = a
    for c, d in cover:
        if d <= cur:
            continue
        if c >= b:
            break
        if c > cur:
            out.append([cur, c])
        cur = max(cur, d)
    if cur < b:
        out.append([cur, b])
    return out


def meets(e, f):
    """the two events of different lists interact: open intersection, or a zero-length one strictly inside"""
    a, b, c, d = e[1], e[1] + e[2], f[1], f[1] + f[2]
    if a < b and c < d:
        return max(a, c) < min(b, d)
    if a == b and c < d:
        return c < a < d
    if c == d and a < b:
        return a < c < b
    return False


class C15(Prop):
    ID = "C15"
    MODULE = "AwProofs.Props.C15"
    THEOREMS = [
        "AwProofs.C15.list1_intact",
        "AwProofs.C15.list2_pieces_within",
        "AwProofs.C15.list2_zero_length",
        "AwProofs.C15.terminates",
        "AwProofs.C15.list2_pieces_partial",
        "AwProofs.C15.out_nonoverlap_partial",
        "AwProofs.C15.cover_union_partial",
        "AwProofs.C15.list2_pieces_refuted",
        "AwProofs.C15.out_nonoverlap_refuted",
        "AwProofs.C15.cover_union_refuted",
    ]
    TRUSTED = [
        "the origin of a returned event is read off its data label by the oracle (every generated event has a unique label); "
        "the model tags origins itself and the two are cross-checked",
        "inputs-not-modified is observed on the real code only (field-wise and object-wise comparison of both argument lists "
        "before/after); the model is a pure function",
    ]
    LEVEL_TEXT = (
        "Machine-checked Lean 4 theorems over a branch-for-branch model of the union_no_overlap loop, _split_event and the "
        "millisecond floor of Event.timestamp: list1_intact, list2_pieces_within, list2_zero_length (all sorted internally "
        "non-overlapping lists with durations >= 0) and terminates (all integer inputs) in full; list2_pieces_partial, "
        "out_nonoverlap_partial, cover_union_partial under the extra hypothesis that the list-one durations are whole "
        "milliseconds, with the full statements refuted on the model (list2_pieces_refuted, out_nonoverlap_refuted, "
        "cover_union_refuted: open finding submillisecond-list-one). The model is compared with the real function on every "
        "pair of small-scope lists and on random long lists on every run, and the property is evaluated directly on the "
        "real outputs, sub-millisecond inputs included"
    )
    LEVEL_NOTE = (
        "trusts: Lean kernel + 3 standard axioms; model-code tie is differential (exhaustive small scope + random); "
        "coverage is half-open [ts, ts+dur); zero-length events treated separately; three of the seven statements are "
        "_partial (whole-ms list-one durations), the gap is the open finding submillisecond-list-one"
    )
    TECHNIQUE = "Lean 4 proof over executable model + differential correspondence check + direct oracle"
    RULE = (
        "named boundary layouts (spanning either way, containment, shared edges, zero-length at every relative position); "
        "every pair of sorted non-overlapping lists with <=2 + <=3 events on the points 0..5 (quick) / <=3 + <=3 on 0..6 "
        "(thorough), zero-length events and touching events included; seeded random lists of up to 14 events drawn from a "
        "shared pool of millisecond instants (so edges coincide often), mixed UTC offsets and ids; one event spanning many; "
        "chains of 50-300 events with dense edges; "
        "microsecond durations on millisecond instants (judged like every other case; failures with a sub-millisecond "
        "list-one duration fall under the open finding submillisecond-list-one); "
        "arbitrary integer lists (unsorted, negative durations) for correspondence and termination only; "
        "non-trivial = some event of list one meets some event of list two"
    )
    ASSUMPTIONS = [
        "precondition of the property: in each list every event has duration >= 0 and ends at or before the start of the "
        "next one (so a zero-length event may sit on an edge of a neighbour but not strictly inside it)",
        "list2_pieces, out_nonoverlap and cover_union are proved only for list-one durations that are whole milliseconds "
        "(suffix _partial); for other inputs the real code fails them (the cut tail is floored to the ms by "
        "Event.timestamp's setter), recorded as the open finding submillisecond-list-one",
    ]

    # ---- generation -------------------------------------------------------------------------
    @staticmethod
    def chains(points, kmax):
        """all sorted non-overlapping lists of <=kmax events with end points in 0..points-1"""
        out = []
        for k in range(kmax + 1):
            for c in itertools.combinations_with_replacement(range(points), 2 * k):
                out.append([[c[2 * i], c[2 * i + 1] - c[2 * i]] for i in range(k)])
        return out

    def named(self):
        u = SEC
        n = []

        def add(l1, l2):
            n.append(("named", {"u": u, "l1": l1, "l2": l2}))

        add([[0, 2]], [[0, 1], [1, 1]])  # list-one event spans two list-two events (F14 witness 1)
        add([[0, 0]], [[0, 1]])  # zero-length list-one event at the start of a list-two event (F14 witness 2)
        add([[0, 10]], [[1, 1], [2, 2], [5, 0], [6, 3], [9, 3]])  # spanning many, last one sticks out
        add([[2, 2], [6, 2]], [[0, 10]])  # list-two event spans several list-one events
        add([[2, 2], [4, 2]], [[0, 10]])  # ... that touch each other
        add([[5, 0]], [[0, 10]])  # zero-length list-one event strictly inside
        add([[0, 10]], [[5, 0]])  # zero-length list-two event strictly inside
        add([[0, 5]], [[0, 0], [5, 0]])  # zero-length list-two events on both edges
        add([[0, 5], [5, 5]], [[5, 0]])  # ... on a shared edge of list one
        add([[5, 0]], [[5, 0]])  # both zero-length at the same instant
        add([[0, 5]], [[0, 5]])  # identical
        add([[0, 5]], [[1, 3]])  # containment
        add([[1, 3]], [[0, 5]])  # containment the other way
        add([[0, 5]], [[5, 5]])  # shared edge
        add([[5, 5]], [[0, 5]])
        add([[0, 5]], [[3, 5]])  # partial overlap
        add([[3, 5]], [[0, 5]])
        add([], [[0, 1], [1, 1]])
        add([[0, 1], [1, 1]], [])
        add([], [])
        add([[0, 1], [3, 1], [6, 1]], [[0, 2], [2, 2], [4, 2], [6, 2]])  # the layout of the suite, shifted
        add([[1, 2, 7], [4, 0, 8], [4, 3, None]], [[0, 9, 3]])  # ids survive the cuts
        # microsecond durations on millisecond instants (u = 1 ms, du = 1 us)
        ms = lambda l1, l2: n.append(("named", {"u": 1000, "du": 1, "l1": l1, "l2": l2}))
        ms([[0, 2_000_000]], [[1000, 1_500_500], [2501, 499]])  # list one on whole ms: exact pieces
        ms([[0, 1500]], [[1, 1000]])  # witness of the open finding submillisecond-list-one (AwProofs.C15.*_refuted)
        ms([[0, 12_345_678]], [[5000, 20_000_000]])  # list-one end between two ms: the tail is floored (open finding)
        ms([[0, 3]], [[0, 14], [1, 3_330_015]])  # ... must still end after a few iterations
        return n

    def gen(self, ctx):
        out = self.named()
        if ctx.quick:
            a, b = self.chains(6, 2), self.chains(6, 3)
        else:
            a = b = self.chains(7, 3)
        u = 250_000
        for l1 in a:
            for l2 in b:
                out.append(("grid", {"u": u, "l1": l1, "l2": l2}))
        if ctx.quick:  # the other order of the quick scope
            for l1 in b:
                if len(l1) == 3:
                    for l2 in a:
                        out.append(("grid", {"u": u, "l1": l1, "l2": l2}))
        rng = ctx.rng("c15")

        def chain_from(pool, k, withid):
            idx = sorted(rng.choice(range(len(pool))) for _ in range(2 * k))
            l = []
            for i in range(k):
                a_, b_ = pool[idx[2 * i]], pool[idx[2 * i + 1]]
                e = [a_, b_ - a_]
                if withid:
                    e.append(rng.choice([None, rng.randint(0, 99)]))
                l.append(e)
            return l

        for _ in range(ctx.pick(3000, 150000)):
            # instants from a small shared pool (ms granularity), so that edges coincide often
            p = rng.randint(2, 24)
            base = rng.randint(0, 2 * 10**9)
            pool = sorted({base + rng.choice([rng.randint(0, 20), rng.randint(0, 10**4), rng.randint(0, 4000) * 1000]) for _ in range(p)})
            c = {"u": 1000, "l1": chain_from(pool, rng.randint(0, 14), rng.random() < 0.3),
                 "l2": chain_from(pool, rng.randint(0, 14), rng.random() < 0.3)}
            if rng.random() < 0.2:
                c["tz"] = [rng.choice([0, 60, -330, 765]), rng.choice([0, -480, 345])]
            if rng.random() < 0.08:
                c["warm"] = True
            out.append(("random", c))
            if rng.random() < 0.25:
                out.append(("random-same-data", {**c, "same": True}))
        # long lists: hundreds of events on either side, and a few list-two events spanning hundreds of list-one events
        for n in ([150, 400] if ctx.quick else [150, 257, 400, 1025]):
            base = rng.randint(0, 10**9)
            pool = sorted({base + rng.randint(0, 40 * n) * 1000 for _ in range(4 * n)})
            out.append(("long", {"u": 1000, "l1": chain_from(pool, n, False), "l2": chain_from(pool, n, False)}))
            out.append(("long", {"u": 1000, "l1": chain_from(pool, n, False), "l2": chain_from(pool, 3, False)}))
            out.append(("long", {"u": 1000, "l1": chain_from(pool, 3, False), "l2": chain_from(pool, n, False)}))
        for _ in range(ctx.pick(300, 10000)):
            # one event spanning many, either way round
            k = rng.randint(2, 20)
            pts = sorted(rng.randint(0, 60) for _ in range(2 * k))
            many = [[pts[2 * i], pts[2 * i + 1] - pts[2 * i]] for i in range(k)]
            lo = rng.randint(0, 30)
            one = [[lo, rng.randint(0, 62 - lo)]]
            if rng.random() < 0.3:
                hi = one[0][0] + one[0][1]
                one.append([hi + rng.randint(0, 3), rng.randint(0, 20)])
            c = {"u": 1000, "l1": one, "l2": many} if rng.random() < 0.5 else {"u": 1000, "l1": many, "l2": one}
            out.append(("spanning", c))
        for _ in range(ctx.pick(1500, 60000)):
            # microsecond durations on millisecond instants: the tail of a cut event is floored to the ms by
            # Event.timestamp's setter. With list one on whole ms the property is still exact (only list-one
            # edges are cut points); otherwise it can fail (open finding submillisecond-list-one)
            sub1 = rng.random() < 0.5

            def mk(sub):
                k = rng.randint(0, 6)
                pts = sorted(rng.randint(0, 12) for _ in range(2 * k))
                l = []
                for i in range(k):
                    d = (pts[2 * i + 1] - pts[2 * i]) * 1000
                    if sub and d > 0 and rng.random() < 0.7:
                        d -= rng.choice([1, 500, 999, rng.randint(1, 999)])
                    l.append([pts[2 * i], d])
                return l

            out.append(("subms", {"u": 1000, "du": 1, "l1": mk(sub1), "l2": mk(True)}))
        for _ in range(ctx.pick(20, 300)):
            # long lists (hundreds of events), dense edges: every branch many times in one run
            def longchain(k):
                pts, t = [], rng.randint(0, 5)
                for _ in range(2 * k):
                    pts.append(t)
                    t += rng.choice([0, 0, 1, 1, 2, 3, rng.randint(0, 40)])
                return [[pts[2 * i], pts[2 * i + 1] - pts[2 * i]] for i in range(k)]

            out.append(("long", {"u": 1000, "l1": longchain(rng.randint(50, 300)), "l2": longchain(rng.randint(50, 300))}))
        for _ in range(ctx.pick(1500, 60000)):
            # arbitrary integers: unsorted, overlapping, negative durations (outside the precondition)
            mk = lambda: [[rng.randint(-3, 12), rng.choice([0, 1, 2, rng.randint(-3, 8)]) * rng.choice([1000, 1000, 1, 250])]
                          for _ in range(rng.randint(0, 6))]
            out.append(("anyints", {"u": 1000, "du": 1, "l1": mk(), "l2": mk()}))
        # list-one / list-two events stamped in a zone that is at UTC+0 in winter, lasting across the night its clocks go forward
        from ..common import DST_SPRING

        for zone, ls in DST_SPRING:
            for back in (600, 1800):
                for off2 in (-900, 900, 3600, 5400):
                    l1 = [[(ls - back) * 1000, 7200 * 1000]]
                    l2 = [[(ls + off2) * 1000, 7200 * 1000]]
                    out.append(("dst-zone", {"u": 1000, "l1": l1, "l2": l2, "tz": [zone, 0]}))
                    out.append(("dst-zone", {"u": 1000, "l1": l2, "l2": l1, "tz": [0, zone]}))
        return out

    # ---- both sides ------------------------------------------------------------------------
    def impl(self, case):
        from aw_transform.union_no_overlap import union_no_overlap

        tz = case.get("tz", [0, 0])
        f1, f2 = full(case, 1), full(case, 2)
        e1 = [mk_event(e, tz[0]) for e in f1]
        e2 = [mk_event(e, tz[1]) for e in f2]
        keep1, keep2 = list(e1), list(e2)
        if case.get("warm"):
            # the same Event objects (same ids, same instants) went through the function before with other durations, and the
            # pieces it returned then are what a chained call would be handed
            try:
                first = union_no_overlap(e1, e2)
                union_no_overlap(e1, first)
                union_no_overlap(first, e2)
            except Exception:  # noqa: BLE001 - discarded
                pass
            # ... and, immediately before the measured call, the same list objects held other contents
            warm_up(lambda: union_no_overlap(e1, e2), e1 + e2)
        try:
            r = union_no_overlap(e1, e2)
        except (AttributeError, TypeError, IndexError, ValueError, KeyError) as ex:
            return ["err", err_kind(ex)]
        same = (
            len(e1) == len(keep1) and len(e2) == len(keep2)
            and all(x is y for x, y in zip(e1, keep1)) and all(x is y for x, y in zip(e2, keep2))
            and [ev_tuple(e) for e in e1] == f1 and [ev_tuple(e) for e in e2] == f2
        )
        return {"out": [ev_tuple(e) for e in r], "inputs_same": same}

    def model_lines(self, case):
        return [f"unov run {p_list(full(case, 1), p_ev)} {p_list(full(case, 2), p_ev)}"]

    def model_out(self, case, answers):
        t = answer(answers[0])
        n = t.int()
        out, tags_ok = [], True
        for _ in range(n):
            tag = t.tok()
            e = t.ev()
            out.append(e)
            if not case.get("same") and origin(e[3]) != (1 if tag == "1" else 2):
                tags_ok = False
        assert t.done()
        r = {"out": out, "inputs_same": True}
        if not tags_ok:
            r["model_tag_mismatch"] = True
        return r

    # ---- the property ----------------------------------------------------------------------
    def oracle(self, case, out):
        if isinstance(out, list) and out and out[0] == "err":
            return f"union_no_overlap raised {out[1]}"
        if not out["inputs_same"]:
            return "the input lists or their events were modified"
        L1, L2, in_scope, _ = facts(case)
        o = out["out"]
        if case.get("same"):
            # equal data everywhere: origins cannot be read off, so the statement is checked on intervals:
            # every list-one event is returned, nothing overlaps, the covered time is the union of the inputs
            rest = [[e[1], e[2]] for e in o]
            for e in L1:
                if [e[1], e[2]] not in rest:
                    return f"list-one event [{e[1]},{e[1] + e[2]}) is not among the returned events"
                rest.remove([e[1], e[2]])
            if not in_scope:
                return None
            if any(e[2] < 0 for e in o):
                return "output event with negative duration"
            so = sorted([e[1], e[1] + e[2]] for e in o)
            for p_, q_ in zip(so, so[1:]):
                if p_[1] > q_[0]:
                    return f"two returned events overlap: {p_} {q_}"
            cin = norm([[e[1], e[1] + e[2]] for e in L1 + L2])
            cout = norm([[e[1], e[1] + e[2]] for e in o])
            if cin != cout:
                return f"covered time {cout} is not the union of the inputs {cin}"
            cover1 = norm([[e[1], e[1] + e[2]] for e in L1])
            for x, d in rest:
                if d > 0 and minus(x, x + d, cover1) != [[x, x + d]]:
                    return f"returned list-two piece [{x},{x + d}) lies (partly) inside list one"
            return None
        lab1 = {e[3] for e in L1}
        lab2 = {e[3]: e for e in L2}
        o1 = [e for e in o if e[3] in lab1]
        o2 = [e for e in o if e[3] in lab2]
        if len(o1) + len(o2) != len(o):
            return "output contains an event whose data belongs to no input event"
        if o1 != L1:
            return f"list-one events not returned unchanged and in order: {o1} vs {L1}"
        if not in_scope:
            return None  # outside the precondition: only the unconditional parts above
        cover1 = norm([[e[1], e[1] + e[2]] for e in L1])
        for f in L2:
            pieces = sorted([e[1], e[1] + e[2]] for e in o2 if e[3] == f[3])
            a, b = f[1], f[1] + f[2]
            if a < b:
                for x, y in pieces:
                    if not (a <= x < y <= b):
                        return f"piece [{x},{y}) of list-two event [{a},{b}) is empty, reversed or sticks out"
                for p, q in zip(pieces, pieces[1:]):
                    if p[1] > q[0]:
                        return f"two pieces of list-two event [{a},{b}) overlap: {p} {q}"
                exp = minus(a, b, cover1)
                if norm(pieces) != exp:
                    return f"pieces of list-two event [{a},{b}) cover {norm(pieces)}, uncovered part is {exp}"
            else:
                inside = any(e[1] < a < e[1] + e[2] for e in L1)
                touched = any(e[1] <= a <= e[1] + e[2] for e in L1)
                if any(p != [a, a] for p in pieces) or len(pieces) > 1:
                    return f"zero-length list-two event at {a} returned as {pieces}"
                if inside and pieces:
                    return f"zero-length list-two event at {a} lies strictly inside a list-one event but was returned"
                if not touched and not pieces:
                    return f"zero-length list-two event at {a} touches no list-one event but was lost"
        if any(e[2] < 0 for e in o):
            return "output event with negative duration"
        so = sorted([e[1], e[1] + e[2]] for e in o)
        for p, q in zip(so, so[1:]):
            if p[1] > q[0]:
                return f"two returned events overlap: {p} {q}"
        cin = norm([[e[1], e[1] + e[2]] for e in L1 + L2])
        cout = norm([[e[1], e[1] + e[2]] for e in o])
        if cin != cout:
            return f"covered time {cout} is not the union of the inputs {cin}"
        return None

    def scope(self, case, out):
        """known finding `submillisecond-list-one`: some list-one instant or duration is not a whole number of
        milliseconds (the negation of TsMs / WholeMsDurations l1 in AwProofs.C15.*_partial)"""
        if any(e[1] % 1000 != 0 or e[2] % 1000 != 0 for e in full(case, 1)):
            return "submillisecond-list-one"
        return None

    def nontrivial(self, case, out):
        return facts(case)[3]

    def features(self, case, out):
        L1, L2, in_scope, any_meets = facts(case)
        if not in_scope:
            return ["outside-precondition"]
        ft = ["list-one:" + ("whole-ms" if aligned(L1) else "sub-ms")]
        if any(sum(1 for f in L2 if meets(e, f)) >= 2 for e in L1):
            ft.append("l1-event-meets-several-l2")
        if any(sum(1 for e in L1 if meets(e, f)) >= 2 for f in L2):
            ft.append("l2-event-meets-several-l1")
        if any(e[2] == 0 and meets(e, f) for e in L1 for f in L2):
            ft.append("zero-length-l1-inside-l2")
        if any(f[2] == 0 and meets(e, f) for e in L1 for f in L2):
            ft.append("zero-length-l2-inside-l1")
        ends1 = {x for e in L1 for x in (e[1], e[1] + e[2])}
        if any(x in ends1 for f in L2 for x in (f[1], f[1] + f[2])):
            ft.append("shared-edge")
        if not isinstance(out, list):
            n2 = sum(1 for e in out["out"] if origin(e[3]) == 2)
            ft.append("l2-pieces:" + ("fewer" if n2 < len(L2) else "same" if n2 == len(L2) else "more"))
        if not any_meets:
            ft.append("disjoint")
        return ft

    def shrink(self, case):
        for k in ("l1", "l2"):
            l = case[k]
            for i in range(len(l)):
                yield {**case, k: l[:i] + l[i + 1 :]}
        if "tz" in case:
            yield {k: v for k, v in case.items() if k != "tz"}
        if any(len(e) > 2 for e in case["l1"] + case["l2"]):
            yield {**case, "l1": [e[:2] for e in case["l1"]], "l2": [e[:2] for e in case["l2"]]}
        # compress the instants to their ranks (keeps every order relation between end points)
        if case.get("du", case["u"]) == case["u"]:
            pts = sorted({x for e in case["l1"] + case["l2"] for x in (e[0], e[0] + e[1])})
            if pts and (pts != list(range(len(pts))) or case["u"] != SEC):
                rk = {p: i for i, p in enumerate(pts)}
                comp = lambda l: [[rk[e[0]], rk[e[0] + e[1]] - rk[e[0]]] + e[2:] for e in l]
                yield {**case, "u": SEC, "l1": comp(case["l1"]), "l2": comp(case["l2"])}

    def extra_search(self, ctx, around):
        from ..base import Ctx

        return self.gen(Ctx("quick", ctx.seed + 1))


PROP = C15()
