"""C20 - effective configuration = defaults overlaid by the user's file (aw_core/config.py, dirs.py)

Case kinds
  load     default text, optional existing user file text, n loads through the REAL load_config_toml
           under a private XDG_CONFIG_HOME; observed: every returned configuration, the bytes of the
           config file before and after every load
  merge    _merge on plain nested dicts (exhaustive small scope + random); second argument unchanged
  comment  _comment_out_toml on arbitrary text
  strip    str.strip on white-space boundary characters (the model's `pyStrip`)
"""
import copy
import datetime as dtm
import itertools
import json
import math
import os
import shutil
import tempfile

from ..base import Prop
from ..common import answer, err_kind, hx

APP = "aw-verif-c20"

# ---- canonical trees ------------------------------------------------------------------------
# tree = ["L", text] | ["T", [[key, tree], ...]]   (dict order kept)


def cv(v):
    """canonical, type-strict JSON form of a TOML value (true, 1 and 1.0 are different settings)"""
    if isinstance(v, bool):
        return bool(v)
    if isinstance(v, int):
        return int(v)
    if isinstance(v, float):
        return {"$f": repr(float(v))}
    if isinstance(v, str):
        return str(v)
    if isinstance(v, dtm.datetime):
        if v.tzinfo is not None:
            return {"$dt": v.astimezone(dtm.timezone.utc).isoformat()}
        return {"$ldt": v.isoformat()}
    if isinstance(v, dtm.date):
        return {"$d": v.isoformat()}
    if isinstance(v, dtm.time):
        return {"$t": v.isoformat()}
    if isinstance(v, dict):
        return {str(k): cv(v[k]) for k in v}
    if isinstance(v, (list, tuple)):
        return [cv(x) for x in v]
    raise TypeError(f"value {type(v).__name__}")


def leaf_text(v):
    if hasattr(v, "unwrap"):
        v = v.unwrap()
    return json.dumps(cv(v), sort_keys=True, ensure_ascii=False, separators=(",", ":"))


def tree_of(v):
    """read a (tomlkit or plain) value the way _merge and a caller do: through the dict interface"""
    if isinstance(v, dict):
        return ["T", [[str(k), tree_of(v[k])] for k in v]]
    return ["L", leaf_text(v)]


def p_tree(t):
    if t[0] == "L":
        return "L " + hx(t[1])
    return " ".join(["T", str(len(t[1]))] + [hx(k) + " " + p_tree(s) for k, s in t[1]])


def r_tree(tk):
    t = tk.tok()
    if t == "L":
        return ["L", tk.str()]
    assert t == "T", t
    n = tk.int()
    out = []
    for _ in range(n):
        k = tk.str()
        out.append([k, r_tree(tk)])
    return ["T", out]


def unordered(t):
    if t[0] == "L":
        return t[1]
    return {k: unordered(s) for k, s in t[1]}


def spec_overlay(d, u):
    """the property, on unordered trees (dict = table, str = leaf): at every nesting level the user's
    value for each key the user's file sets, the default for every key it does not, user-only keys kept"""
    out = {}
    for k in set(d) | set(u):
        if k in u and k in d:
            if isinstance(d[k], dict) and isinstance(u[k], dict):
                out[k] = spec_overlay(d[k], u[k])
            else:
                out[k] = u[k]
        elif k in u:
            out[k] = u[k]
        else:
            out[k] = d[k]
    return out


def plain_of(t):
    """plain nested dicts from a tree whose leaves are JSON texts"""
    if t[0] == "L":
        return json.loads(t[1])
    return {k: plain_of(s) for k, s in t[1]}


def first_diff(a, b, path=()):
    if isinstance(a, dict) and isinstance(b, dict):
        for k in sorted(set(a) | set(b)):
            if k not in a:
                return f"key {'.'.join(path + (k,))!r} missing from the result"
            if k not in b:
                return f"unexpected key {'.'.join(path + (k,))!r} in the result"
            r = first_diff(a[k], b[k], path + (k,))
            if r:
                return r
        return None
    if a != b:
        return f"at {'.'.join(path)!r}: got {str(a)[:80]} expected {str(b)[:80]}"
    return None


# ---- TOML document generator (a tree grammar, rendered with random styles) ---------------------

BARE = ["a", "b", "c", "port", "x-y", "n_1", "T", "0"]
QUOTED = ['"q r"', '"k.dot"', "'li t'", '"ü"', '"#h"', '"[br]"', '""']


def key_name(k):
    """the key a rendered key text denotes"""
    if k.startswith('"') or k.startswith("'"):
        return k[1:-1]
    return k


class DocGen:
    def __init__(self, rng, multiline=False):
        self.rng = rng
        self.multiline = multiline  # allow values spread over several lines
        self.used_multiline = False
        self.force_headers = False
        self.block_starts = []

    # -- trees: ("leaf", value) | ("table", [(key, node)...]) | ("aot", [elements: [(key,node)...]])
    def scalar(self):
        r = self.rng
        c = r.randrange(12)
        if c == 0:
            return r.choice([0, 1, 2, -1, 5600, 10**12])
        if c == 1:
            return r.choice([0.0, 1.0, 2.0, 0.5, -1.5, 12.3, 1e3, 1e-7, float("inf")])
        if c == 2:
            return r.choice([True, False])
        if c == 3:
            return r.choice(["", "x", "Hello World!", "a # b", "[s]", "[[s]]", 'q"uote', "tab\there", "ü€", "1", "true"])
        if c == 4:
            return dtm.datetime(1979, 5, 27, 7, 32, r.randrange(3), tzinfo=dtm.timezone.utc)
        if c == 5:
            return r.choice([dtm.date(1979, 5, 27), dtm.time(7, 32, 1), dtm.datetime(2020, 1, 2, 3, 4, 5)])
        if c == 6:
            return [self.small() for _ in range(r.randrange(4))]
        if c == 7:
            return [[1, 2], [r.randrange(3)], []]
        if c == 8:
            return [{"x": r.randrange(3)}, {"y": [1], "z": {"w": 1}}]
        return r.randrange(4)

    def small(self):
        return self.rng.choice([0, 1, 2, 1.0, 0.5, True, "x", "y", [1], [1.0]])

    def keys(self, n):
        r = self.rng
        pool = BARE + (QUOTED if r.random() < 0.35 else [])
        ks = []
        for _ in range(n):
            k = r.choice(pool)
            if key_name(k) not in [key_name(x) for x in ks]:
                ks.append(k)
        return ks

    def table(self, depth, aot_ok):
        r = self.rng
        out = []
        for k in self.keys(r.randrange(0, 5) if depth else r.randrange(0, 6)):
            c = r.random()
            if depth < 3 and c < 0.38:
                out.append((k, ("table", self.table(depth + 1, aot_ok))))
            elif aot_ok and depth < 2 and c < 0.50:
                out.append((k, ("aot", [self.aot_elem(depth + 1) for _ in range(r.randrange(1, 4))])))
            else:
                out.append((k, ("leaf", self.scalar())))
        return out

    def aot_elem(self, depth):
        r = self.rng
        out = []
        for k in self.keys(r.randrange(0, 3)):
            c = r.random()
            if c < 0.25:
                out.append((k, ("table", [(kk, ("leaf", self.scalar())) for kk in self.keys(r.randrange(0, 3))])))
            elif c < 0.35 and depth < 3:
                out.append((k, ("aot", [[(kk, ("leaf", self.small())) for kk in self.keys(r.randrange(0, 2))]
                                        for _ in range(r.randrange(1, 3))])))
            else:
                out.append((k, ("leaf", self.scalar())))
        return out

    def mutate(self, entries, depth=0):
        """a user document related to a default tree: dropped, kept, changed, retyped and new keys"""
        r = self.rng
        out = []
        for k, node in entries:
            c = r.random()
            if c < 0.35:
                continue
            if c < 0.45:
                out.append((k, copy.deepcopy(node)))  # same value
            elif c < 0.60:
                if node[0] == "table":
                    out.append((k, ("table", self.mutate(node[1], depth + 1))))
                else:
                    out.append((k, ("leaf", self.scalar())))
            elif c < 0.72 and node[0] == "leaf":
                out.append((k, ("leaf", self.retype(node[1]))))
            elif c < 0.80:
                if node[0] == "table":  # table -> scalar / array
                    out.append((k, ("leaf", self.scalar())))
                elif depth < 3:  # leaf -> table
                    out.append((k, ("table", self.table(depth + 1, False))))
            elif node[0] == "table":
                out.append((k, ("table", self.mutate(node[1], depth + 1))))
            elif node[0] == "aot" and c < 0.9:
                out.append((k, ("aot", [self.aot_elem(depth + 1)])))
        have = [key_name(k) for k, _ in out] + [key_name(k) for k, _ in entries if r.random() < 0.7]
        for k in self.keys(r.randrange(0, 3)):
            if key_name(k) not in have:
                have.append(key_name(k))
                if depth < 3 and r.random() < 0.3:
                    out.append((k, ("table", self.table(depth + 1, depth < 2 and r.random() < 0.3))))
                else:
                    out.append((k, ("leaf", self.scalar())))
        r.shuffle(out)
        return out

    def retype(self, v):
        """a value of another TOML type, preferably one Python's == identifies with v"""
        r = self.rng
        if isinstance(v, bool):
            return r.choice([int(v), float(v), str(v).lower()])
        if isinstance(v, int):
            return r.choice([float(v), str(v), v in (1,) if v in (0, 1) else float(v), [v]])
        if isinstance(v, float) and v == v and not math.isinf(v) and v == int(v):
            return r.choice([int(v), str(v)])
        if isinstance(v, list):
            return r.choice([[float(x) if isinstance(x, int) and not isinstance(x, bool) else x for x in v], "list", 0])
        return r.choice([0, "s", [v] if not isinstance(v, (dtm.date, dtm.time)) else [1], True])

    # -- rendering ---------------------------------------------------------------------------
    def rstr(self, s):
        r = self.rng
        if "'" not in s and "\t" not in s and "\n" not in s and r.random() < 0.3:
            return "'" + s + "'"
        return '"' + s.replace("\\", "\\\\").replace('"', '\\"').replace("\t", "\\t").replace("\n", "\\n") + '"'

    def rval(self, v, inline=False):
        r = self.rng
        if isinstance(v, bool):
            return "true" if v else "false"
        if isinstance(v, int):
            if v >= 1000 and r.random() < 0.3:
                return f"{v:_}"
            if v >= 0 and r.random() < 0.1:
                return hex(v)
            return str(v)
        if isinstance(v, float):
            if math.isinf(v):
                return "inf" if v > 0 else "-inf"
            if v == 1000.0 and r.random() < 0.5:
                return "1e3"
            return repr(v)
        if isinstance(v, str):
            if self.multiline and not inline and r.random() < 0.3:
                self.used_multiline = True
                body = r.choice(["\nline one\n[not.a.header]\nlast", "\n[[x]]\n", "a\nb = 1\n", "\n# a heading\ntext\n", "#!/bin/sh\n#c = 2\n  # indented\n",
                                 "x\n#y = 1\nz"]) + v.replace("\\", "").replace('"', "")
                return '"""' + body + '"""'
            return self.rstr(v)
        if isinstance(v, dtm.datetime):
            s = v.isoformat()
            return s.replace("+00:00", "Z") if r.random() < 0.7 else s
        if isinstance(v, (dtm.date, dtm.time)):
            return v.isoformat()
        if isinstance(v, dict):
            return "{" + ", ".join(f"{k} = {self.rval(x, True)}" for k, x in v.items()) + "}"
        if isinstance(v, list):
            items = [self.rval(x, True) for x in v]
            if self.multiline and not inline and items and r.random() < 0.5:
                self.used_multiline = True
                return "[\n" + "".join(f"  {it},\n" for it in items) + "]"
            sep = r.choice([", ", ","])
            return "[" + sep.join(items) + "]"
        raise TypeError(type(v))

    def comment(self):
        return self.rng.choice(["", "", "", "  # a comment", " # [not a header]", "\t#x = 1"])

    def ind(self):
        return self.rng.choice(["", "", "", "  ", "\t", "    "])

    def keyvals(self, lines, entries, prefix=""):
        """leaf / inline-table / dotted-key lines of one table body; returns the entries that need headers"""
        r = self.rng
        later = []
        for k, node in entries:
            if r.random() < 0.12:
                lines.append(r.choice(["", "# comment line", "  # indented comment", "#", "   ", "#[x]"]))
            if node[0] == "leaf":
                lines.append(f"{self.ind()}{prefix}{k} = {self.rval(node[1])}{self.comment()}")
            elif node[0] == "table" and self.inlinable(node) and r.random() < 0.25:
                lines.append(f"{self.ind()}{prefix}{k} = {self.rinline(node)}{self.comment()}")
            elif node[0] == "table" and self.inlinable(node) and node[1] and r.random() < 0.2:
                self.keyvals(lines, node[1], prefix + k + r.choice([".", ".", " . "]))
            else:
                later.append((k, node))
        return later

    def inlinable(self, node):
        return all(n[0] == "leaf" or (n[0] == "table" and self.inlinable(n)) for _, n in node[1])

    def rinline(self, node):
        return "{" + ", ".join(
            f"{k} = {self.rval(n[1], True) if n[0] == 'leaf' else self.rinline(n)}" for k, n in node[1]) + "}"

    def body(self, lines, path, entries):
        self.headers(lines, path, self.keyvals(lines, entries))

    def headers(self, lines, path, later):
        r = self.rng
        for k, node in later:
            p = path + [k]
            name = r.choice([".", ".", ".", " . "]).join(p)
            if node[0] == "table":
                sub = []
                later2 = self.keyvals(sub, node[1])
                # the header may be left implicit only if the table has nothing but [sub.tables]
                if sub or not later2 or self.force_headers or r.random() < 0.6:
                    self.block_starts.append(len(lines))
                    br = r.choice(["[%s]", "[%s]", "[%s]", "[ %s ]", "  [%s]", "\t[%s]"]) % name
                    lines.append(br + self.comment())
                    if r.random() < 0.2:
                        lines.append("")
                lines.extend(sub)
                self.headers(lines, p, later2)
            else:
                for el in node[1]:
                    lines.append(r.choice(["[[%s]]", "[[%s]]", "  [[%s]]", "[[ %s ]]"]) % name + self.comment())
                    self.body(lines, p, el)

    def render(self, entries):
        lines = []
        if self.rng.random() < 0.4:
            lines.append("# A config file, with comments!")
        # without arrays of tables every [header] block is self-contained: sometimes emit them out of order
        # ([a.x] [c] [a.y] [a]), which tomlkit represents differently (OutOfOrderTableProxy)
        self.force_headers = not has_aot(entries) and self.rng.random() < 0.2
        self.block_starts = []
        self.body(lines, [], entries)
        if self.force_headers and len(self.block_starts) > 1:
            st = self.block_starts + [len(lines)]
            blocks = [lines[st[i]:st[i + 1]] for i in range(len(st) - 1)]
            self.rng.shuffle(blocks)
            lines = lines[:st[0]] + [l for b in blocks for l in b]
        text = "\n".join(lines)
        if self.rng.random() < 0.6:
            text += "\n"
        return text


def has_aot(entries):
    return any(n[0] == "aot" or (n[0] == "table" and has_aot(n[1])) for _, n in entries)


# ---- fixed boundary documents ----------------------------------------------------------------

SUITE_DEFAULT = """# A default config file, with comments!
[section]
somestring = "Hello World!"    # A comment
somevalue = 12.3               # Another comment
somearray = ["asd", 123]"""

BOUNDARY = [
    # (default, user or None, one value per line)
    (SUITE_DEFAULT, None, True),
    (SUITE_DEFAULT, "[section]\nsomevalue = 1000.1", True),
    (SUITE_DEFAULT, "", True),
    (SUITE_DEFAULT, "# only a comment\n", True),
    ("", None, True),
    ("", "[section]\nx = 1\n", True),
    ("\n\n", None, True),
    ("x = 1", "x = 1.0", True),
    ("x = 1", "x = true", True),
    ("x = [1, 2]", "x = [1.0, 2.0]", True),
    ("x = 1", "[x]\ny = 2", True),
    ("[x]\ny = 2", "x = 1", True),
    ("[x]\ny = 2\n[x.z]\nw = 1", "[x.z]\nw = 2\nv = 3\n[n]\nm = 1", True),
    ("[a.b.c]\nd = 1\ne = 2", "[a.b]\nc = 5", True),
    ("[a.b.c]\nd = 1\ne = 2", "[a]\nb.c.d = 5", True),
    ("[a.b.c]\nd = 1\ne = 2", "a = {b = {c = {e = 3}}}", True),
    ("a = {b = 1, c = 2}\n", "[a]\nc = 3", True),
    ("a.b = 1\na.c = 2\n", "a.c = 3\na.d = 4", True),
    ("[[aot]]\nx = 1\n[[aot]]\nx = 2\n", None, True),
    ("[[a]]\nx = 1\n[a.b]\ny = 2\n", None, True),
    ("[[a]]\nx = 1\n[a.b]\ny = 2\n[[a]]\nx = 2\n[a.b]\ny = 3\n", None, True),
    ("[t]\nk = 1\n[[t.aot]]\nx = 1\n[[t.aot.inner]]\nz = 1\n[u]\nw = 2\n", None, True),
    ("top = 1\n  [[ aot ]]  # c\nx = 1\n[later]\ny = 1\n[later.sub]\nz = 2", None, True),
    ("[[aot]]\nx = 1\n", "[[aot]]\nx = 5\n[[aot]]\nx = 6", True),
    ("[[aot]]\nx = 1\n", "[aot]\nx = 5", True),
    ("[aot]\nx = 1\n", "[[aot]]\nx = 5", True),
    ("  [s]\n\tk = 1\n [ s . t ]  # c\n  v = \"[x]\"\n", None, True),
    ("[\"q r\".'s.t']\n\"k k\" = 1\n", None, True),
    ("[\"q r\".'s.t']\n\"k k\" = 1\n", "[\"q r\".\"s.t\"]\n'k k' = 2", True),
    ("x = [\n  [1, 2],\n  [3],\n]\n", None, False),
    ("s = \"\"\"\n[t]\n\"\"\"\n[u]\nk = 1", None, False),
    ("x = = 1", None, True),
    ("x = 1\nx = 2", None, True),
    ("x = 1", "y = = 2", True),
    ("x = 1", "[a]\n[a]", True),
    ("b = 1979-05-27", "b = 1979-05-27T07:32:00Z", True),
    ("b = 1979-05-27T07:32:00Z", "b = 1979-05-27", True),
    ("x = true", "x = 1", True),
    ("x = 1.0", "x = 1", True),
    ("x = [1, 2]", "x = [true, 2.0]", True),
    ("a = {n = 3}", "[a.x]", True),
    ("a = {n = 3}", "a.x.y = 1", True),
    ("a = {n = 1}", "[a.x]\n[c]\n[a.y]\nz = 1", True),
    ("a = {n = {m = 1}}", "[a.n.x]\n[c]\n[a.n.y]\nz = 1", True),
    ("[a.x]\nk = 1\n[c]\nk = 2\n[a.y]\nz = 1\n[a]\nw = 0", None, True),
    ("[c.a]\n[c]\nn = 0\n[c.a.a]", "[c]\na = []", True),
    ("[a.x]\nk = 1\n[c]\nk = 2\n[a.y]\nz = 1\n[a]\nw = 0", "[a.y]\nz = 2\n[d]\n[a.x]\nk = 3\nj = 4", True),
    ("[a]\nx = 1\n\x0b\n[b]\ny = 2", None, True),
    ("\u00a0\n[a]\nx = 1", None, True),
]


# ---- the property module -----------------------------------------------------------------------

WS = [0x09, 0x0A, 0x0B, 0x0C, 0x0D, 0x1C, 0x1D, 0x1E, 0x1F, 0x20, 0x85, 0xA0, 0x1680, 0x2000, 0x2005, 0x200A,
      0x2028, 0x2029, 0x202F, 0x205F, 0x3000]
NOT_WS = [0x08, 0x0E, 0x1B, 0x21, 0x84, 0x86, 0x9F, 0xA1, 0x180E, 0x1FFF, 0x200B, 0x200C, 0x2027, 0x202A, 0x2060,
          0x2FFF, 0x3001, 0xFEFF, 0x23, 0x5B]


class C20(Prop):
    ID = "C20"
    MODULE = "AwProofs.Props.C20"
    THEOREMS = [
        "AwProofs.C20.leaf_of_merge",
        "AwProofs.C20.tables_of_merge",
        "AwProofs.C20.user_file_untouched",
        "AwProofs.C20.load_with_user_file",
        "AwProofs.C20.load_without_file",
        "AwProofs.C20.merge_skeleton_id",
        "AwProofs.C20.first_run_identity",
        "AwProofs.C20.first_run_stable",
    ]
    WORKERS = 8
    TRUSTED = [
        "tomlkit.parse (and reading its document through the dict interface) is a parameter of the model: the theorems "
        "assume only that a file of blank, comment and plain [table] header lines parses to a leafless tree whose tables "
        "are prefixes of its header paths, and that in a valid document the plain headers before the first [[..]] header "
        "name tables; the correspondence check runs the real tomlkit on every generated document and first-run file",
        "TOML values are observed as a canonical type-strict text (true, 1, 1.0 distinct; offsets normalised to UTC)",
        "one config file per application in a private XDG_CONFIG_HOME; os.path.isfile/open/read/write are the file-state "
        "transitions of the model (no concurrent writer, path not a directory)",
    ]
    ASSUMPTIONS = [
        "first-run identity is claimed for defaults whose values are each written on one line (as the property says)",
        "default and user documents are valid TOML unless the case is an error case; an invalid default raises before any file is written",
    ]
    LEVEL_TEXT = (
        "Machine-checked Lean 4 theorems over a statement-for-statement model of _merge, _comment_out_toml (character "
        "level: split, strip, startswith, join) and load_config_toml on a one-file state: leaf_of_merge and "
        "tables_of_merge (path characterisation of the overlay for all pairs of trees), user_file_untouched, "
        "merge_skeleton_id and first_run_identity (any number of later loads return the defaults); tomlkit is a stated "
        "parameter; model compared with the real load_config_toml/_merge/_comment_out_toml on generated documents every run"
    )
    LEVEL_NOTE = "trusts: Lean kernel + 3 standard axioms; tomlkit as a specified parameter; model-code tie is differential (tree-grammar documents, exhaustive small dict pairs)"
    TECHNIQUE = "Lean 4 proof over executable model + differential correspondence check through a private XDG_CONFIG_HOME"
    RULE = (
        "load: default/user TOML documents rendered from a random tree grammar (tables 3 deep by headers, dotted keys and "
        "inline tables, implicit super-tables, header blocks out of order, quoted keys, all scalar types, arrays, arrays "
        "of tables with sub-tables, comments, indentation) with the user tree derived from the default by dropping/keeping/changing/retyping/adding "
        "keys, with and without an existing file, 3 loads each; merge: every pair of dicts over keys {a,b}, leaves {1,2}, "
        "depth<=2 in both insertion orders, plus random deeper pairs; comment/strip: random and boundary text; "
        "non-trivial = load with overlapping keys or a first run, merge pair with a shared key"
    )

    # ---- generation ----
    def gen(self, ctx):
        out = []
        for d, u, one in BOUNDARY:
            out.append(("boundary-load", {"k": "load", "default": d, "user": u, "n": 3, "oneline": one}))
        for cp in WS + NOT_WS:
            c = chr(cp)
            out.append(("boundary-strip", {"k": "strip", "text": c + "x" + c}))
            out.append(("boundary-comment", {"k": "comment", "text": f"{c}\n{c}[h]{c}\nk = 1{c}\n{c}{c}[[a]]\n[h2]\n{c}"}))
        for t in ["", "\n", "x", "[", "[[", "[a", " [ [a]]", "#", "#[a]", "[a]\n\n[[b]]\n\n[c]\n#d\ne=1\n", "\r\n[a]\r\nx=1\r\n",
                  "x=1\n[[b]]", "[[b]]\nx=1", "[b]\n[[b.c]]\n[b.d]\n  \n[e]"]:
            out.append(("boundary-comment", {"k": "comment", "text": t}))
        # exhaustive small scope for _merge on plain dicts
        leafs = [None, 1, 2]
        subs = []
        for x, y in itertools.product(leafs, repeat=2):
            subs.append({k: v for k, v in (("a", x), ("b", y)) if v is not None})
        vals = leafs + [s for s in subs]
        trees = []
        for x, y in itertools.product(range(len(vals)), repeat=2):
            ent = [(k, vals[i]) for k, i in (("a", x), ("b", y)) if vals[i] is not None]
            trees.append(ent)
            if len(ent) == 2:
                trees.append(ent[::-1])

        def mk(ent):
            return ["T", [[k, ["L", str(v)] if not isinstance(v, dict) else ["T", [[kk, ["L", str(vv)]] for kk, vv in v.items()]]]
                          for k, v in ent]]

        for a in trees:
            for b in trees:
                out.append(("grid-merge", {"k": "merge", "a": mk(a), "b": mk(b)}))
        rng = ctx.rng("c20")

        def rtree(depth):
            ks = rng.sample(["a", "b", "c", "d", "e"], rng.randrange(0, 5))
            ent = []
            for k in ks:
                if depth < 4 and rng.random() < 0.45:
                    ent.append([k, rtree(depth + 1)])
                else:
                    ent.append([k, ["L", rng.choice(["1", "2", "3", '"s"', "[1,2]", "[]"])]])
            return ["T", ent]

        def rmut(t, depth):
            """a tree related to t: keys dropped, kept, changed, retyped (leaf<->table), added; order shuffled"""
            ent = []
            for k, s in t[1]:
                c = rng.random()
                if c < 0.3:
                    continue
                if c < 0.45:
                    ent.append([k, copy.deepcopy(s)])
                elif s[0] == "T" and c < 0.85:
                    ent.append([k, rmut(s, depth + 1)])
                elif c < 0.92 or depth >= 4:
                    ent.append([k, ["L", rng.choice(["1", "2", "4", '"u"', "[2]"])]])
                else:
                    ent.append([k, rtree(depth + 1)])
            for k in rng.sample(["a", "b", "c", "d", "e", "f"], rng.randrange(0, 3)):
                if k not in [x for x, _ in ent]:
                    ent.append([k, rtree(depth + 1) if depth < 4 and rng.random() < 0.3 else ["L", rng.choice(["5", '"n"'])]])
            rng.shuffle(ent)
            return ["T", ent]

        for i in range(ctx.pick(3000, 150000)):
            a = rtree(0)
            out.append(("random-merge", {"k": "merge", "a": a, "b": rmut(a, 0) if i % 2 else rtree(0)}))
        for _ in range(ctx.pick(300, 20000)):
            n = rng.randrange(0, 12)
            parts = []
            for _ in range(n):
                parts.append(rng.choice(["", " ", "\t", "[a]", "[[a]]", " [a.b] ", "x = 1", "# c", "[", "]", "[1, 2],", "\x0b", "\u00a0",
                                         "\u2003[t]", "\r", "  [[ q ]] # c", "\"\"\"", "é = 1"]))
            out.append(("random-comment", {"k": "comment", "text": "\n".join(parts)}))
        # documents
        for i in range(ctx.pick(2500, 60000)):
            g = DocGen(rng, multiline=(i % 10 == 9))
            dtree = g.table(0, aot_ok=rng.random() < 0.45)
            dtext = g.render(dtree)
            one = not g.used_multiline
            c = rng.random()
            if c < 0.4:
                utext = None
            else:
                gu = DocGen(rng, multiline=(i % 7 == 3))
                utree = gu.mutate(dtree) if rng.random() < 0.85 else gu.table(0, aot_ok=True)
                utext = gu.render(utree)
            c_ = {"k": "load", "default": dtext, "user": utext, "n": 3, "oneline": one}
            if utext is not None and rng.random() < 0.1:
                c_["symlink"] = True
            if i % 6 == 1:
                # application names are free text: reverse-DNS style, version suffixes, a trailing dot
                c_["app"] = ["net.example.aw-watcher", "aw-watcher-demo.v2", "aw.verif.c20.toml", "aw-verif-c20."][(i // 6) % 4]
            out.append(("random-load", c_))
        return out

    # ---- real code ----
    def impl(self, case):
        k = case["k"]
        if k == "strip":
            return case["text"].strip()
        if k == "comment":
            from aw_core.config import _comment_out_toml

            return _comment_out_toml(case["text"])
        if k == "merge":
            from aw_core.config import _merge

            a, b = plain_of(case["a"]), plain_of(case["b"])
            b0 = copy.deepcopy(b)
            r = _merge(a, b)
            return {"res": tree_of(r), "same_object": r is a, "b_unchanged": tree_of(b) == tree_of(b0)}
        return self.impl_load(case)

    def impl_load(self, case):
        import tomlkit
        from aw_core import dirs
        from aw_core.config import load_config_toml

        tmp = tempfile.mkdtemp(prefix="verif_c20_")
        real = os.path.realpath(tmp)
        for bad in ("/repo", "/verif"):
            assert not real.startswith(bad + os.sep), real
        old = os.environ.get("XDG_CONFIG_HOME")
        os.environ["XDG_CONFIG_HOME"] = tmp
        app = case.get("app", APP)
        try:
            cdir = dirs.get_config_dir(app)
            if not os.path.realpath(cdir).startswith(real + os.sep):
                # the directory in force is not the one the library uses: nothing is run there (it is not ours to write
                # to); the user's file in the directory in force would be ignored - reported by the oracle
                d_, u_ = _parses(case)
                return {"wrong_dir": [cdir, tmp], "loads": [], "files": [None], "only_file": [], "d": d_, "u": u_, "file_tree": None}
            path = os.path.join(cdir, app + ".toml")
            if case["user"] is not None:
                target = path
                if case.get("symlink"):
                    # the user's file is a symbolic link into a directory of dotfiles
                    os.makedirs(os.path.join(tmp, "dotfiles"), exist_ok=True)
                    target = os.path.join(tmp, "dotfiles", app + ".toml")
                    os.symlink(target, path)
                with open(target, "wb") as f:
                    f.write(case["user"].encode("utf-8"))

            def snap():
                if not os.path.exists(path):
                    return None
                with open(path, "rb") as f:
                    return f.read().decode("utf-8")

            loads = []
            files = [snap()]
            for _ in range(case["n"]):
                try:
                    r = load_config_toml(app, case["default"])
                    loads.append(tree_of(r))
                except Exception as e:  # tomlkit's errors are ValueError subclasses
                    loads.append(["err", "TomlError" if _is_toml_error(e) else err_kind(e)])
                files.append(snap())
            out = {"loads": loads, "files": files, "only_file": sorted(APP + n[len(app):] if n.startswith(app) else n for n in os.listdir(cdir))}
            out["d"], out["u"] = _parses(case)
            # tomlkit on the file the real code wrote (the model's parser on first-run files is compared with it)
            out["file_tree"] = _parse_tree(files[-1]) if case["user"] is None and files[-1] is not None else None
            return out
        finally:
            if old is None:
                os.environ.pop("XDG_CONFIG_HOME", None)
            else:
                os.environ["XDG_CONFIG_HOME"] = old
            shutil.rmtree(tmp, ignore_errors=True)

    # ---- model ----
    def model_lines(self, case):
        k = case["k"]
        if k == "strip":
            return ["cfg strip " + hx(case["text"])]
        if k == "comment":
            return ["cfg comment " + hx(case["text"])]
        if k == "merge":
            return [f"cfg merge {p_tree(case['a'])} {p_tree(case['b'])}"]
        d, u = _parses(case)
        dt = "N" if d is None else "S " + p_tree(d)
        if case["user"] is None:
            f = "N"
        else:
            f = "S " + hx(case["user"]) + " " + ("N" if u is None else "S " + p_tree(u))
        lines = [f"cfg load {case['n']} {hx(case['default'])} {dt} {f}"]
        if case["user"] is None:
            lines.append("cfg firstfile " + hx(case["default"]))
        return lines

    def model_out(self, case, answers):
        k = case["k"]
        t = answer(answers[0])
        if k in ("strip", "comment"):
            return t.str()
        if k == "merge":
            return {"res": r_tree(t), "same_object": True, "b_unchanged": True}
        loads, files = [], [case["user"]]
        for _ in range(case["n"]):
            r = t.opt(lambda: r_tree(t))
            loads.append(["err", "TomlError"] if r is None else r)
            files.append(t.opt(t.str))
        out = {"loads": loads, "files": files, "only_file": [APP + ".toml"] if files[-1] is not None else []}
        out["d"], out["u"] = _parses(case)
        # the model's parser for first-run files (parseSkel) on the file the model writes, compared with the real
        # tomlkit on the file the real code wrote
        out["file_tree"] = None
        if case["user"] is None and files[-1] is not None:
            t2 = answer(answers[1])
            out["file_tree"] = t2.opt(lambda: r_tree(t2))
        return out

    def same(self, case, io, mo):
        if case["k"] != "load":
            return io == mo
        if "wrong_dir" in io:
            return False
        # key order of a tomlkit document after item assignment is tomlkit's business (it keeps plain values before
        # tables, moves a key whose kind changed, ...) and no part of the property: load results are compared as
        # unordered trees; `_merge`'s own key order is compared on plain dicts (merge cases)
        def un(l):
            return l if l[0] == "err" else unordered(l)

        def unt(t):
            return None if t is None else unordered(t)

        if ([un(l) for l in io["loads"]] == [un(l) for l in mo["loads"]] and io["files"] == mo["files"]
                and io["only_file"] == mo["only_file"] and unt(io["file_tree"]) == unt(mo["file_tree"])):
            return True
        # open finding F18: tomlkit's OutOfOrderTableProxy (a default table defined in separated pieces) loses sibling
        # keys on assignment. The model has dict semantics and does not reproduce that; inside the finding's scope a
        # result that fails the oracle is attributed to the finding, not to the model (files must still agree).
        if io["files"] == mo["files"] and self.scope(case, io) == F18 and self.oracle(case, io):
            return True
        return False

    def scope(self, case, out):
        if (case.get("k") == "load" and case["user"] is not None and _out_of_order(case["default"])
                and isinstance(out, dict) and all(f == out["files"][0] for f in out["files"])):
            return F18  # only failures of the returned overlay; an altered user file is never attributed to it
        return None

    # ---- the property ----
    def oracle(self, case, out):
        k = case["k"]
        if k == "strip":
            return None
        if k == "comment":
            return comment_oracle(case["text"], out)
        if k == "merge":
            exp = spec_overlay(unordered(case["a"]), unordered(case["b"]))
            d = first_diff(unordered(out["res"]), exp)
            if d:
                return "overlay: " + d
            if not out["b_unchanged"]:
                return "_merge changed its second argument"
            return None
        if "wrong_dir" in out:
            return (f"the configuration directory in force is {out['wrong_dir'][1]} (XDG_CONFIG_HOME) but the library uses "
                    f"{out['wrong_dir'][0]}: the user's file in the directory in force is not read")
        d, u = out["d"], out["u"]
        loads, files = out["loads"], out["files"]
        if d is None:
            # invalid defaults: rejected before anything is written
            if any(l[0] != "err" for l in loads):
                return "invalid default document accepted"
            if files[-1] != files[0]:
                return "config file written/changed although the defaults are not valid TOML"
            return None
        if case["user"] is not None:
            for i, f in enumerate(files[1:]):
                if f != files[0]:
                    return f"existing user file altered by load {i + 1}"
            if u is None:
                return None if all(l[0] == "err" for l in loads) else "unparseable user file did not raise"
            exp = spec_overlay(unordered(d), unordered(u))
            for i, l in enumerate(loads):
                if l[0] == "err":
                    return f"load {i + 1} raised {l[1]} on valid documents"
                df = first_diff(unordered(l), exp)
                if df:
                    return f"load {i + 1} is not the defaults overlaid by the user's file: {df}"
            return None
        # no file: first load returns the defaults and writes a file; later loads leave the effective
        # configuration equal to the defaults and never touch the file again
        if files[1] is None:
            return "no config file written on the first run"
        if out["only_file"] != [APP + ".toml"]:
            return f"unexpected files in the config directory: {out['only_file']}"
        for i, f in enumerate(files[2:]):
            if f != files[1]:
                return f"first-run file altered by load {i + 2}"
        for i, l in enumerate(loads):
            if i > 0 and not case["oneline"]:
                break  # the property's last sentence is only claimed for one value per line
            if l[0] == "err":
                return f"load {i + 1} after a first run raised {l[1]}"
            df = first_diff(unordered(l), unordered(d))
            if df:
                return f"load {i + 1} (no user file{'' if i == 0 else ', after the first run wrote one'}) differs from the defaults: {df}"
        return None

    def nontrivial(self, case, out):
        k = case["k"]
        if k == "merge":
            return bool(set(k for k, _ in case["a"][1]) & set(k for k, _ in case["b"][1]))
        if k == "load":
            if case["user"] is None:
                return bool(out.get("d") and out["d"][1])
            return bool(out.get("d") and out.get("u") and set(k for k, _ in out["d"][1]) & set(k for k, _ in out["u"][1]))
        return bool(case["text"].strip())

    def features(self, case, out):
        k = case["k"]
        if k in ("strip", "comment"):
            return [k]
        if k == "merge":
            fs = set()
            _overlap_kinds(case["a"], case["b"], 0, fs)
            return ["merge:" + f for f in sorted(fs)] or ["merge:disjoint"]
        fs = ["load:" + ("first-run" if case["user"] is None else "user-file")]
        if out["d"] is None:
            fs.append("load:default-invalid")
        elif case["user"] is not None and out["u"] is None:
            fs.append("load:user-invalid")
        elif case["user"] is not None:
            s = set()
            _overlap_kinds(out["d"], out["u"], 0, s)
            fs += ["load:" + f for f in sorted(s)]
        else:
            if "[[" in case["default"]:
                fs.append("load:first-run-with-aot")
            if not case["oneline"]:
                fs.append("load:first-run-multiline")
            if any(l[0] == "err" for l in out["loads"]):
                fs.append("load:later-load-raised")
        return fs

    def shrink(self, case):
        k = case["k"]
        if k == "load":
            for f in ("default", "user"):
                t = case[f]
                if t is None:
                    continue
                ls = t.split("\n")
                for i in range(len(ls)):
                    yield {**case, f: "\n".join(ls[:i] + ls[i + 1:])}
            if case["n"] > 2:
                yield {**case, "n": case["n"] - 1}
        elif k == "comment":
            ls = case["text"].split("\n")
            for i in range(len(ls)):
                yield {**case, "text": "\n".join(ls[:i] + ls[i + 1:])}
        elif k == "merge":
            for f in ("a", "b"):
                for t in _drop_one(case[f]):
                    yield {**case, f: t}

    def extra_search(self, ctx, around):
        from ..base import Ctx

        return self.gen(Ctx("quick", ctx.seed + 1))


def _is_toml_error(e):
    return any(c.__name__ == "TOMLKitError" for c in type(e).__mro__)


def _parse_tree(text):
    import tomlkit

    try:
        return tree_of(tomlkit.parse(text))
    except Exception as e:
        if _is_toml_error(e):
            return None
        raise


F18 = "F18-out-of-order-default"
_OOO_CACHE = {}


def _out_of_order(text):
    """does tomlkit represent some table of this document as an OutOfOrderTableProxy (defined in separated pieces)?"""
    r = _OOO_CACHE.get(text)
    if r is None:
        import tomlkit
        from tomlkit.container import OutOfOrderTableProxy

        def walk(v):
            if isinstance(v, OutOfOrderTableProxy):
                return True
            if isinstance(v, dict):
                return any(walk(v[k]) for k in v)
            return False

        try:
            r = walk(tomlkit.parse(text))
        except Exception:
            r = False
        if len(_OOO_CACHE) > 4096:
            _OOO_CACHE.clear()
        _OOO_CACHE[text] = r
    return r


_PARSE_CACHE = {}


def _parses(case):
    key = (case["default"], case["user"])
    r = _PARSE_CACHE.get(key)
    if r is None:
        if len(_PARSE_CACHE) > 4096:
            _PARSE_CACHE.clear()
        r = (_parse_tree(case["default"]), None if case["user"] is None else _parse_tree(case["user"]))
        _PARSE_CACHE[key] = r
    return r


def _overlap_kinds(a, b, depth, out):
    da, db = dict((k, v) for k, v in a[1]), dict((k, v) for k, v in b[1])
    for k in db:
        if k not in da:
            out.add("user-only-key")
            continue
        x, y = da[k], db[k]
        if x[0] == "T" and y[0] == "T":
            out.add(f"table-table@{depth}")
            _overlap_kinds(x, y, depth + 1, out)
        elif x[0] == "T":
            out.add("leaf-over-table")
        elif y[0] == "T":
            out.add("table-over-leaf")
        else:
            out.add("leaf-same" if x[1] == y[1] else "leaf-over-leaf")
    if set(da) - set(db):
        out.add("default-only-key")


def _drop_one(t):
    if t[0] != "T":
        return
    ent = t[1]
    for i in range(len(ent)):
        yield ["T", ent[:i] + ent[i + 1:]]
    for i, (k, s) in enumerate(ent):
        for s2 in _drop_one(s):
            yield ["T", ent[:i] + [[k, s2]] + ent[i + 1:]]


def comment_oracle(text, out):
    """the property says nothing about the shape of the first-run file, only about the effective configuration of
    later loads (checked in the load cases); comment cases only tie the model's character-level
    `_comment_out_toml` to the real one"""
    return None


PROP = C20()
