"""C13 - Event normalisation to UTC milliseconds, durations, JSON form and round trips
(aw_core/models.py, aw_core/schema.py, aw_core/schemas/event.json), plus the `fl` sub-stream that
ties the binary64 model (lean/AwModel/Float64.lean) to the hardware floats.

Case kinds
  ev       one Event built from (wall-clock reading `loc` in µs, utcoffset `off` in µs or None,
           input form, duration form, id, data); everything the property talks about is observed
  msrange  many microsecond values through the real Event (the millisecond floor, all 10^6 values
           in the thorough tier), light-weight
  fl       one float operation on the hardware vs. the model
"""
import copy
import json
import math
import re
from datetime import date, datetime, timedelta, timezone
from fractions import Fraction

from ..base import Ctx, Prop
from ..common import US, answer, canon_data, hx, p_opt

M = 10**6
T_MAX = 4102444800 * M  # 2100-01-01T00:00:00Z
D43 = 2**43
HALF_PLUS = Fraction(1, 2) + Fraction(1, 2**34)
NAIVE_EPOCH = datetime(1970, 1, 1)
FL_MIN = Fraction(1, 2**1022)
FL_MAX = Fraction(2**1024)

_schema = None
_fc = None


def _set_tz():
    """Give the process a non-UTC local zone (POSIX TZ string, no tz database needed). The conforming
    code never consults the local zone; code that lets a naive datetime reach `astimezone` does, and
    is then observed to move the instant instead of passing by the accident of a UTC sandbox."""
    import os
    import time

    if os.environ.get("TZ") != "VRF-05:30":
        os.environ["TZ"] = "VRF-05:30"
        time.tzset()


def _validator():
    global _schema, _fc
    if _schema is None:
        from aw_core import schema
        from jsonschema import FormatChecker

        first = schema.get_json_schema("event")
        # an application loads the other published schemas too (bucket, export); the event schema is what it is after that, for
        # the dict obtained before as for one obtained now
        for other in ("bucket", "export"):
            try:
                schema.get_json_schema(other)
            except Exception:
                pass
        _schema = [first, schema.get_json_schema("event")]
        _fc = FormatChecker(["date-time"])
    return _schema, _fc


# ---- boundary conversions (integer arithmetic only) ---------------------------------------------


def wall_fields(loc):
    """naive datetime whose wall-clock reading is `loc` µs after 1970-01-01T00:00:00"""
    return NAIVE_EPOCH + timedelta(microseconds=loc)


def mk_aware(loc, off):
    tz = timezone(timedelta(microseconds=off))
    return datetime(1970, 1, 1, tzinfo=tz) + timedelta(microseconds=loc)


def dt_pair(dt):
    """(wall-clock µs, utcoffset µs | None) of a datetime, without astimezone"""
    loc = (dt.replace(tzinfo=None) - NAIVE_EPOCH) // US
    o = dt.utcoffset()
    return loc, (None if o is None else o // US)


def off_text(off, style):
    if style == "Z":
        assert off == 0
        return "Z"
    assert off % (60 * M) == 0
    m = abs(off) // (60 * M)
    sign = "-" if off < 0 else "+"
    hh, mm = divmod(m, 60)
    if style == "hh" and mm == 0:
        return f"{sign}{hh:02d}"
    if style == "hhmm":
        return f"{sign}{hh:02d}{mm:02d}"
    return f"{sign}{hh:02d}:{mm:02d}"


def iso_text(case):
    """the ISO-8601 string of a case, formatted by hand"""
    loc = case["loc"]
    w = wall_fields(loc - loc % M)
    f = case.get("fmt", {})
    if f.get("basic"):
        s = w.strftime("%Y%m%d") + "T" + w.strftime("%H%M%S")
    else:
        s = w.strftime("%Y-%m-%d") + f.get("sep", "T") + w.strftime("%H:%M:%S")
    digits = f.get("digits", 6)
    frac = f"{loc % M:06d}"[:digits] if digits <= 6 else f"{loc % M:06d}" + case.get("extra", "")
    if frac:
        s += f.get("dot", ".") + frac
    if case["form"] == "iso":
        s += off_text(case["off"], f.get("offstyle", "hh:mm"))
    elif case["form"] == "z":
        s += "Z"
    return s


ISO_OUT = re.compile(r"^(\d{4})-(\d\d)-(\d\d)T(\d\d):(\d\d):(\d\d)(?:\.(\d{6}))?([+-])(\d\d):(\d\d)$")


def parse_out_ts(s):
    """independent reading of the timestamp string of the JSON form -> [loc µs, off µs]"""
    m = ISO_OUT.match(s)
    if not m:
        return ["unparsed", s]
    y, mo, d, h, mi, sec, us, sg, oh, om = m.groups()
    days = date(int(y), int(mo), int(d)).toordinal() - date(1970, 1, 1).toordinal()
    loc = ((days * 24 + int(h)) * 60 + int(mi)) * 60 * M + int(sec) * M + int(us or 0)
    off = (int(oh) * 60 + int(om)) * 60 * M * (-1 if sg == "-" else 1)
    return [loc, off]


_ZONES = {}


def _zone(name):
    from zoneinfo import ZoneInfo

    if name not in _ZONES:
        _ZONES[name] = ZoneInfo(name)
    return _ZONES[name]


def true_instant(case):
    """the instant the input denotes, exact (Fraction of µs since the epoch)"""
    extra = case.get("extra", "")
    t = Fraction(case["loc"]) - (case["off"] or 0)
    if extra and case["form"] in ("iso", "z", "naive-iso") and case.get("fmt", {}).get("digits", 6) > 6:
        t += Fraction(int(extra), 10 ** len(extra))
    return t


def in_scope(case):
    """inside the quantifier of C13: offset a whole number of milliseconds within +-14 h, instant
    1970..2100"""
    off = case["off"] or 0
    # "timestamps 1970..2100 at any offset in [-14h, +14h]": the WALL-CLOCK date is 1970 or later, so the UTC instant
    # may lie up to 14 h before the epoch
    return off % 1000 == 0 and abs(off) <= 14 * 3600 * M and -14 * 3600 * M <= true_instant(case) < T_MAX and case["loc"] >= 0


def dur_value(d):
    k = d[0]
    if k == "td":
        return timedelta(microseconds=d[1])
    if k == "int":
        return d[1]
    if k == "float":
        return float.fromhex(d[1])
    from decimal import Decimal

    return {"str": "1.0", "none": None, "list": [1], "fraction": Fraction(1, 3), "decimal": Decimal("1.5")}[d[1]]


def ek(e):
    n = type(e).__name__
    return n if n in ("TypeError", "OverflowError", "ValueError") else "OtherPy:" + n


def ev4(e):
    return [e.id, dt_pair(e.timestamp)[0] - (dt_pair(e.timestamp)[1] or 0), e.duration // US, canon_data(e.data)]


def nearest_ok(exact, r):
    """is the double r a correctly rounded (nearest, ties-to-even) image of the rational `exact`?"""
    fr = Fraction(r)
    err = abs(fr - exact)
    for nb in (math.nextafter(r, math.inf), math.nextafter(r, -math.inf)):
        if math.isinf(nb):
            continue
        e2 = abs(Fraction(nb) - exact)
        if e2 < err:
            return False
        if e2 == err and e2 != 0:
            m, _ = math.frexp(r)
            if int(m * 2**53) % 2 != 0:
                return False
    return True


class C13(Prop):
    ID = "C13"
    MODULE = "AwProofs.Props.C13"
    THEOREMS = [
        "AwProofs.C13.ms_floor_float",
        "AwProofs.C13.normalised",
        "AwProofs.C13.normalised_naive",
        "AwProofs.C13.init_normalised",
        "AwProofs.C13.duration_exact",
        "AwProofs.C13.duration_float_near",
        "AwProofs.C13.json_roundtrip",
        "AwProofs.C13.copy_roundtrip",
        "AwProofs.C13.json_shape",
        "AwProofs.C13.built_event_roundtrips",
    ]
    TRUSTED = [
        "iso8601.parse_date, datetime.isoformat, json.dumps/loads (float repr round trip) and the jsonschema "
        "date-time format checker are stated parameters: the harness converts timestamp strings to "
        "(wall-clock µs, utcoffset µs) with its own integer arithmetic and runs the real libraries on every case",
        "CPython's datetime C implementation is modelled from its source (timedelta(seconds=float): modf, "
        "fraction*1e6 in double arithmetic, round-half-even; total_seconds: correctly rounded int/int division); "
        "the fl sub-stream compares each of these with the running interpreter",
        "binary64 model: normal range only (no overflow/subnormals), compared with the hardware on every run",
    ]
    ASSUMPTIONS = [
        "a naive datetime and a string without offset are read as UTC (the 'tz default' of the anchored mechanism; "
        "iso8601.parse_date's default_timezone for strings); the check runs with a non-UTC process-local zone so that "
        "code consulting the local zone is observed",
        "UTC offsets are whole milliseconds (every ISO-8601 offset is whole minutes); with a sub-millisecond "
        "timezone(timedelta(microseconds=..)) the code floors in local time and the stored instant is not "
        "ms-aligned - observed, outside the quantifier, sent through the correspondence check only",
        "durations in the JSON round trip: |D| <= 2^43 µs (101 days); ids are ints or None; data is a JSON object",
    ]
    LEVEL_TEXT = (
        "Machine-checked Lean 4 theorems (ms_floor_float from the rounding-error bound for every microsecond "
        "value; normalised/init_normalised for every instant and every whole-millisecond offset; duration_exact, "
        "duration_float_near for every double; json_roundtrip for |D| <= 2^43 µs, copy_roundtrip, json_shape) over a "
        "statement-for-statement model of models.py with IEEE-754 binary64 arithmetic modelled on rationals; "
        "model compared with the real Event/jsonschema/json on every run"
    )
    LEVEL_NOTE = (
        "trusts: Lean kernel + 3 standard axioms; model-code tie is differential; timestamp text syntax "
        "(iso8601/isoformat/jsonschema format) is a stated parameter exercised on every case"
    )
    TECHNIQUE = "Lean 4 proof over executable model (binary64 on Rat) + differential correspondence check"
    RULE = (
        "ev: instants 1970..2100 x microsecond classes (0,1,499,500,999,1000,x999,999999,random) x offsets "
        "-14h..+14h (whole hours, :30/:45, single minutes, seconds and milliseconds for datetimes; sub-ms as "
        "out-of-scope correspondence-only) x forms (aware datetime, ISO string with offset in 3 spellings, Z, naive "
        "datetime, naive string; 0-9 fraction digits) x durations (timedelta, int, float incl. rounding ties, "
        "fl(D/1e6), negative, overflow, wrong type) x ids x JSON data (unicode, nesting, floats, null); "
        "msrange: boundary microsecond values k*1000-1,k*1000,k*1000+1 and random (thorough: all 10^6 values) "
        "through the real Event; fl: / * + - int/int timedelta(seconds=) fromtimestamp total_seconds on ties, "
        "binade edges, the C01 witness and random operands; non-trivial = ev with non-zero sub-ms part or non-zero "
        "offset or float duration, every msrange, every fl"
    )

    # ---- generation -----------------------------------------------------------------------------
    US_CLASSES = [0, 1, 499, 500, 501, 999, 1000, 1001, 1999, 123456, 499999, 500000, 500500, 998999,
                  999000, 999001, 999499, 999500, 999999]
    OFF_MIN = [0, 0, 60, -60, 330, 345, -570, 765, 840, -840, -720, 1, -1, 59, -59, 839, -839]
    DATAS = [None, {}, {"a": 1}, {"label": "test", "number": 1.1}, {"app": "Füß", "title": 'q"uo\\te', "n": None},
             {"k": [1, 2, {"x": [True, False]}], "e": {}, "f": 1e-7, "big": 2**60},
             {"": "", "☃": "\U0001F600", "url": "http://a/b?c=d"}]

    def _us(self, rng):
        r = rng.random()
        if r < 0.5:
            return rng.choice(self.US_CLASSES)
        if r < 0.75:
            k = rng.randint(0, 999)
            return min(M - 1, max(0, k * 1000 + rng.choice([-1, 0, 1, 499, 500, 999])))
        return rng.randint(0, M - 1)

    def _instant(self, rng):
        r = rng.random()
        if r < 0.08:
            sec = rng.choice([0, 1, 59, 86399, 86400, 2**31 - 1, 2**31, 2**32 - 1, 2250741852, 4102444799,
                              951782400, 1582934400, 1483228799])  # leap days, 2038, 2041, end of range
        elif r < 0.14:
            sec = rng.randint(-14 * 3600, 14 * 3600)  # local dates in 1970 whose UTC instant lies before the epoch
        else:
            sec = rng.randint(0, 4102444799)
        return sec * M + self._us(rng)

    def _off(self, rng, form):
        """offset in µs"""
        r = rng.random()
        if r < 0.6:
            m = rng.choice(self.OFF_MIN)
        else:
            m = rng.randint(-840, 840)
        off = m * 60 * M
        if form == "dt":
            q = rng.random()
            if q < 0.12:  # seconds
                off = max(-840 * 60 * M, min(840 * 60 * M, off + rng.randint(-59, 59) * M))
            elif q < 0.2:  # milliseconds
                off = max(-840 * 60 * M, min(840 * 60 * M, off + rng.randint(-59999, 59999) * 1000))
        return off

    def _dur(self, rng):
        r = rng.random()
        if r < 0.3:
            return ["td", rng.choice([0, 1, 999, 1000, 1500, M, 60 * M, 30 * 86400 * M, D43, D43 - 1,
                                      # durations of centuries with an odd microsecond (a double cannot hold them)
                                      2**53 + 1, 2**62 + 1, -(2**55) - 1, 150_000 * 86400 * M + 1, 86_399_999_999_999_999_999,
                                       rng.randint(0, D43), rng.randint(0, 10 * M), -1, -M, -rng.randint(0, D43)])]
        if r < 0.5:
            return ["int", rng.choice([0, 1, 2, 60, 3600, 86400 * 30, D43 // M, rng.randint(0, D43 // M), -1,
                                        -rng.randint(0, 10**6)])]
        if r < 0.95:
            q = rng.random()
            if q < 0.3:  # the JSON image of a whole number of microseconds
                D = rng.choice([0, 1, 2, 999, 1000, M - 1, M, M + 1, D43, D43 - 1, rng.randint(0, D43),
                                rng.randint(0, 10 * M), rng.randint(0, 2**32) * 1000])
                f = D / M
            elif q < 0.5:  # near rounding ties of timedelta(seconds=.)
                k = rng.choice([0, 1, 2, 3, rng.randint(0, 10**6), rng.randint(0, 10**9)])
                f = (2 * k + 1) / (2 * M)
                f = rng.choice([f, math.nextafter(f, math.inf), math.nextafter(f, -math.inf),
                                rng.randint(0, 10**6) + f])
            elif q < 0.6:
                f = rng.choice([0.0, -0.0, 0.001, 1e-6, 0.5e-6, 1.5e-6, 2.5e-6, 0.1, 0.2, 0.3, 1 / 3, 3.13, 1e-7,
                                1e-9, 5e-324, 2.0**-30, 8796093.022208, 1.9999995, 0.9999995, 0.9999999999])
            elif q < 0.8:
                f = rng.random() * rng.choice([1e-6, 1e-3, 1, 60, 3600, 86400, 8e6])
            elif q < 0.9:
                f = -rng.random() * rng.choice([1e-6, 1, 3600, 8e6])
            else:
                f = rng.choice([rng.randint(0, 10**6) / 1000, float(rng.randint(0, 10**7)),
                                rng.randint(0, 10**12) / 2**20])
            return ["float", float(f).hex()]
        if r < 0.975:
            return ["other", rng.choice(["str", "none", "list", "fraction", "decimal"])]
        return rng.choice([["int", 10**15], ["float", (1e300).hex()], ["float", (8.64e13).hex()],
                           ["int", -86400 * 10**9 - 1], ["int", 86400 * 10**9 - 1], ["int", 86400 * 10**9],
                           ["int", -86400 * 999999999]])

    def _ev_case(self, rng, form=None, exotic=False):
        form = form or rng.choice(["dt", "dt", "iso", "iso", "iso", "z", "naive-dt", "naive-iso"])
        T = self._instant(rng)
        if form in ("z",):
            off = 0
        elif form in ("naive-dt", "naive-iso"):
            off = None
        else:
            off = self._off(rng, form)
        if exotic:
            form = "dt"
            off = self._off(rng, "dt") + rng.choice([1, -1, 500, 999, rng.randint(-999, 999)])
        zone = rng.choice(["Africa/Abidjan", "Europe/London", "Atlantic/Reykjavik"]) if form == "dt" and rng.random() < 0.15 else None
        if zone:
            off = 0
        fold = 0
        if form == "dt" and not zone and not exotic and rng.random() < 0.12:
            # an aware datetime in a real zone with daylight saving: summer and winter instants of the same tzinfo object, and
            # the repeated hour at the end of daylight saving (fold = 1 is the second pass)
            from zoneinfo import ZoneInfo

            zone = rng.choice(["Europe/Berlin", "America/New_York", "Australia/Lord_Howe", "Europe/Berlin"])
            ends = {"Europe/Berlin": 1635642000, "America/New_York": 1636264800, "Australia/Lord_Howe": 1617462000}
            if rng.random() < 0.5:
                T = (ends[zone] + rng.randint(-3600, 3599)) * M + rng.randint(0, M - 1)
            d = datetime.fromtimestamp(T // M, ZoneInfo(zone))
            off = (d.utcoffset() // timedelta(microseconds=1))
            fold = d.fold
        case = {"k": "ev", "form": form, "loc": T + (off or 0), "off": off, "dur": self._dur(rng), "zone": zone, "fold": fold,
                "id": rng.choice([None, None, 0, 1, rng.randint(0, 2**40)]), "data": rng.choice(self.DATAS)}
        if form in ("iso", "z", "naive-iso"):
            us = case["loc"] % M
            digits = rng.choice([6, 6, 6, 7, 9])
            if us == 0 and rng.random() < 0.7:
                digits = 0
            elif us % 1000 == 0 and rng.random() < 0.5:
                digits = 3
            case["fmt"] = {"sep": rng.choice(["T", "T", " "]), "dot": rng.choice([".", ".", ","]),
                           "digits": digits, "offstyle": rng.choice(["hh:mm", "hh:mm", "hhmm", "hh"])}
            if rng.random() < 0.08:
                case["fmt"]["basic"] = True
            if digits > 6:
                case["extra"] = "".join(rng.choice("0123456789") for _ in range(digits - 6))
                if rng.random() < 0.3:
                    case["extra"] = "9" * (digits - 6)
        return case

    def _fl_cases(self, rng, n):
        out = []

        def f(x):
            return float(x).hex()

        # the C01 witness and fixed adversarial operands
        fixed = [("idiv", 2250741852732000, M), ("mul", f(2250741852732000 / 1e6), f(1e6)),
                 ("idiv", 2193231764772, M), ("add", f(2250741852731999.75), f(2193231764772.0)),
                 ("add", f(2252935084496771.0), f(0.5)), ("add", f(2.0**53), f(1.0)), ("add", f(2.0**53), f(3.0)),
                 ("add", f(1.0), f(2.0**-53)), ("add", f(1.0), f(2.0**-53 + 2.0**-80)), ("sub", f(1.0), f(2.0**-54)),
                 ("add", f(0.1), f(0.2)), ("sub", f(0.3), f(0.1)), ("mul", f(0.1), f(3.0)), ("div", f(1.0), f(3.0)),
                 ("div", f(1.0), f(10.0)), ("idiv", 1, 3), ("idiv", 999999, 1000), ("idiv", 2**53 + 1, 1),
                 ("idiv", 2**54 + 2, 2**54 - 2), ("idiv", 10**30, 10**7 + 1), ("idiv", 0, 5), ("idiv", -7, 1000),
                 ("add", f(1.5), f(-1.5)), ("mul", f(0.0), f(5.0)), ("td", f(0.5e-6)), ("td", f(1.5e-6)),
                 ("td", f(2.5e-6)), ("td", f(-0.5e-6)), ("td", f(-1.5e-6)), ("td", f(0.9999995)), ("td", f(1.9999995)),
                 ("td", f(-1.9999995)), ("td", f(5e-324)), ("td", f(8796093.022208)), ("dec", 2250741852732000),
                 ("dec", 0), ("dec", -1), ("dec", -999999), ("dec", -1000000), ("dec", -1800000000), ("dec", -4294967295999999), ("dec", -2250741852732000), ("dec", 4294967295999999), ("dec", 2**32 * M - 1), ("dec", 999999), ("dec", 1), ("tot", D43), ("tot", D43 - 1), ("tot", 1), ("tot", 0),
                 ("tot", -1), ("ms", 999999), ("ms", 0), ("ms", 1000), ("ms", 999)]
        for c in fixed:
            out.append({"k": "fl", "op": c[0], "a": c[1], "b": c[2] if len(c) > 2 else None})

        def rfloat():
            q = rng.random()
            if q < 0.25:  # binade edges
                e = rng.randint(-60, 60)
                x = math.ldexp(1.0, e)
                for _ in range(rng.randint(0, 3)):
                    x = math.nextafter(x, rng.choice([math.inf, -math.inf]))
                return x
            if q < 0.45:  # few significant bits (ties under + and *)
                return math.ldexp(rng.randint(1, 2**rng.randint(1, 30)), rng.randint(-60, 30))
            if q < 0.6:
                return math.ldexp(rng.getrandbits(53) | 2**52, rng.randint(-110, 10))
            if q < 0.8:
                return rng.randint(0, T_MAX) / rng.choice([1, 1000, M, 1e6])
            return rng.random() * 10 ** rng.randint(-9, 16)

        for _ in range(n):
            op = rng.choice(["div", "mul", "add", "sub", "idiv", "idiv", "td", "dec", "tot", "ms", "tie"])
            if op in ("div", "mul", "add", "sub"):
                a, b = rfloat(), rfloat()
                if rng.random() < 0.3:
                    a = -a
                if rng.random() < 0.3:
                    b = -b
                if op in ("add", "sub") and rng.random() < 0.5:
                    # make an exact tie: b is half an ulp of a (plus possibly a sticky bit)
                    u = math.ulp(a)
                    b = rng.choice([u / 2, -u / 2, u * 1.5, u / 2 + u / 2**20, u / 4, u * 0.75])
                out.append({"k": "fl", "op": op, "a": f(a), "b": f(b)})
            elif op == "tie":
                # a product with an exact tie: (2^26+1)*(2^27+1)-like small-bit operands
                a = float(rng.randint(2**26, 2**27))
                b = float(rng.randint(2**26, 2**27) | 1)
                out.append({"k": "fl", "op": "mul", "a": f(a), "b": f(b)})
            elif op == "idiv":
                q = rng.random()
                if q < 0.4:
                    a, b = rng.randint(0, T_MAX), rng.choice([M, 1000, M, 10**3])
                elif q < 0.6:
                    a, b = rng.randint(0, 999999), 1000
                elif q < 0.8:
                    b = rng.randint(1, 2**rng.randint(1, 70))
                    a = rng.randint(-(2**rng.randint(1, 120)), 2**rng.randint(1, 120))
                else:  # quotient at/near a tie: (2k+1) * 2^j / 2^(j+1) patterns
                    k = rng.getrandbits(53) | 2**52
                    b = rng.choice([2, 6, 10, 2**20 * 3])
                    a = (2 * k + 1) * (b // 2) + rng.choice([0, 0, 1, -1])
                out.append({"k": "fl", "op": "idiv", "a": a, "b": b})
            elif op == "td":
                q = rng.random()
                if q < 0.4:
                    k = rng.randint(0, 10**7)
                    x = (2 * k + 1) / (2 * M)
                    x = rng.choice([x, math.nextafter(x, math.inf), math.nextafter(x, -math.inf), -x])
                elif q < 0.7:
                    x = rng.randint(0, D43) / M
                else:
                    x = (rng.random() - 0.3) * 10 ** rng.randint(-7, 7)
                out.append({"k": "fl", "op": "td", "a": f(x), "b": None})
            elif op == "dec":
                m = rng.choice([rng.randint(0, 2**32 * M - 1), rng.randint(0, T_MAX), rng.randint(0, 2**32 - 1) * M + rng.choice([0, 1, 999999, 500000])])
                if rng.random() < 0.35:
                    # readings before the epoch (the decoder mirrors them): down to -2^32 s, and the first hours before 1970
                    m = -rng.choice([m, rng.randint(1, 14 * 3600 * M), rng.randint(0, 50000) * M + rng.choice([1, 499999, 500000, 500001, 999999])])
                out.append({"k": "fl", "op": "dec", "a": m, "b": None})
            elif op == "tot":
                out.append({"k": "fl", "op": "tot", "a": rng.choice([rng.randint(0, D43), rng.randint(-D43, 0), rng.randint(0, 2**60)]), "b": None})
            else:
                out.append({"k": "fl", "op": "ms", "a": rng.randint(0, M - 1), "b": None})
        return out

    def gen(self, ctx):
        _set_tz()
        out = []
        rng = ctx.rng("c13")
        # suite-like and hand-picked cases first
        base = {"k": "ev", "id": None, "data": {"label": "test"}, "dur": ["int", 0]}
        out.append(("corpus", {**base, "form": "iso", "loc": (datetime(1937, 1, 1, 12, 0, 27, 870000) - NAIVE_EPOCH) // US, "off": 1200 * M,
                               "fmt": {"digits": 2}}))  # 1937-01-01T12:00:27.87+00:20 of tests/test_schemas.py
        for us in self.US_CLASSES:
            for form, off in (("dt", 0), ("dt", 330 * 60 * M), ("iso", -570 * 60 * M), ("z", 0), ("naive-dt", None),
                              ("naive-iso", None), ("dt", 840 * 60 * M), ("iso", -840 * 60 * M), ("dt", 7 * M + 3000)):
                out.append(("boundary", {**base, "form": form, "loc": 1577836800 * M + us + (off or 0), "off": off,
                                         "dur": ["float", (1.5).hex()], "id": 7}))
        for T in (0, 999, 1000, T_MAX - 1, T_MAX - 1000, 2**31 * M - 1, 2**31 * M):
            for off in (0, 840 * 60 * M, -840 * 60 * M):
                out.append(("boundary", {**base, "form": "dt", "loc": T + off, "off": off, "dur": ["td", D43]}))
        for d in (["td", 0], ["td", 1], ["td", -1], ["td", D43], ["int", 0], ["int", 1], ["int", 8796093],
                  ["float", (0.0).hex()], ["float", (0.5e-6).hex()], ["float", (1.5e-6).hex()],
                  ["float", (2.5e-6).hex()], ["float", (8796093.022208).hex()], ["float", (-1.9999995).hex()],
                  ["float", (3.13).hex()], ["other", "str"], ["other", "none"], ["other", "fraction"], ["other", "decimal"], ["int", 10**15],
                  ["float", (1e300).hex()], ["int", 86400 * 10**9 - 1], ["int", 86400 * 10**9]):
            out.append(("boundary", {**base, "form": "z", "loc": 1600000000123456, "off": 0, "dur": d}))
        for data in self.DATAS:
            out.append(("boundary", {**base, "form": "iso", "loc": 1600000000123456, "off": 3600 * M, "data": data,
                                     "id": 3, "dur": ["float", (0.1).hex()]}))
        for _ in range(ctx.pick(20000, 400000)):
            out.append(("random-ev", self._ev_case(rng)))
        for _ in range(ctx.pick(300, 5000)):
            out.append(("exotic-offset", self._ev_case(rng, exotic=True)))
        # the millisecond floor through the real Event
        r2 = ctx.rng("c13-ms")
        edge = sorted({min(M - 1, max(0, k * 1000 + d)) for k in range(0, 1001) for d in (-1, 0, 1)})
        for i in range(0, len(edge), 1000):
            off = r2.choice(self.OFF_MIN) * 60 * M
            out.append(("ms-edges", {"k": "msrange", "base": r2.randint(0, 4102444799) * M, "off": off,
                                     "us": edge[i:i + 1000]}))
        if ctx.quick:
            for _ in range(3):
                out.append(("ms-random", {"k": "msrange", "base": r2.randint(0, 4102444799) * M,
                                          "off": r2.choice(self.OFF_MIN) * 60 * M,
                                          "us": sorted(r2.sample(range(M), 1000))}))
        else:
            for lo in range(0, M, 1000):
                out.append(("ms-all", {"k": "msrange", "base": r2.randint(0, 4102444799) * M,
                                       "off": r2.choice(self.OFF_MIN) * 60 * M, "lo": lo, "hi": lo + 1000}))
        r3 = ctx.rng("c13-fl")
        for c in self._fl_cases(r3, ctx.pick(30000, 1000000)):
            out.append(("fl", c))
        return out

    # ---- the real code ----------------------------------------------------------------------------
    def _ts_input(self, case):
        form = case["form"]
        if form == "dt":
            if case.get("zone") and case["off"] == 0:
                # an aware datetime in a real zone whose offset happens to be zero at that instant
                from zoneinfo import ZoneInfo

                d = mk_aware(case["loc"], 0).replace(tzinfo=ZoneInfo(case["zone"]))
                if d.utcoffset() == timedelta(0):
                    return d
            elif case.get("zone"):
                from zoneinfo import ZoneInfo

                d = mk_aware(case["loc"], case["off"]).replace(tzinfo=_zone(case["zone"]), fold=case.get("fold", 0))
                if d.utcoffset() == timedelta(microseconds=case["off"]):
                    return d  # the same tzinfo object for every case of the process, as an application would have
            return mk_aware(case["loc"], case["off"])
        if form == "naive-dt":
            return wall_fields(case["loc"])
        return iso_text(case)

    def impl(self, case):
        _set_tz()
        k = case["k"]
        if k == "fl":
            return self._impl_fl(case)
        from aw_core.models import Event

        if k == "msrange":
            us = case.get("us") or range(case["lo"], case["hi"])
            res = []
            for u in us:
                try:
                    e = Event(timestamp=mk_aware(case["base"] + case["off"] + u, case["off"]))
                    ts = e.timestamp
                except Exception as ex:  # the real code raised: an outcome, judged by the oracle
                    res.append(["raised", ek(ex)])
                    continue
                loc, off = dt_pair(ts)
                res.append(loc - off if off == 0 else ["not-utc", loc, off])
            return res
        import jsonschema

        try:
            e = Event(id=case["id"], timestamp=self._ts_input(case), duration=dur_value(case["dur"]),
                      data=copy.deepcopy(case["data"]))
        except Exception as ex:  # the real code raised: an outcome, judged by the oracle
            return ["err", ek(ex)]
        ts = e.timestamp
        loc, off = dt_pair(ts)
        out = {"ev": ev4(e), "utc": ts.tzinfo is not None and off == 0 and ts.tzinfo == timezone.utc,
               "types": [type(e["timestamp"]).__name__, type(e["duration"]).__name__, type(e["data"]).__name__]}
        try:
            jd = e.to_json_dict()
            text = e.to_json_str()
        except Exception as ex:
            return ["err", "to_json:" + ek(ex)]
        loaded = json.loads(text)
        schemas, fc = _validator()
        ok = True
        for schema in schemas:
            for obj in (jd, loaded):
                try:
                    jsonschema.validate(obj, schema, format_checker=fc)
                except jsonschema.ValidationError:
                    ok = False
        d = loaded.get("duration")
        out["json"] = {
            "ts": parse_out_ts(loaded["timestamp"]) if isinstance(loaded.get("timestamp"), str) else ["not-str"],
            "dur": list(d.as_integer_ratio()) if isinstance(d, float) else ["not-float", repr(d)],
            "schema": ok,
            "kinds": [type(loaded.get(x)).__name__ for x in ("timestamp", "duration", "data")],
            "keys": sorted(loaded.keys()),
            "same_text": json.loads(json.dumps(jd)) == loaded,
        }
        for name, build in (("rt", lambda: Event(**json.loads(text))), ("copy", lambda: Event(**e))):
            try:
                e2 = build()
                out[name] = ["R", ev4(e2), bool(e2 == e) and bool(e == e2), e2.id == e.id and type(e2.id) is type(e.id)]
            except Exception as ex:
                out[name] = ["E", ek(ex)]
        # the JSON form is the form of the event as it is NOW: change the event (its data in place, as the transforms do;
        # through dict.update; through a setter) and serialise again - rebuilding must give the changed event
        changes = []
        for how in ("data-in-place", "update", "setter"):
            try:
                if how == "data-in-place":
                    e.data["verif_added"] = [how]
                elif how == "update":
                    e.update({"data": {"verif_replaced": 1}})
                else:
                    e.duration = e.duration + timedelta(seconds=1)
                e3 = Event(**json.loads(e.to_json_str()))
                changes.append(bool(e3 == e) and ev4(e3) == ev4(e) and json.loads(json.dumps(e.to_json_dict())) == json.loads(e.to_json_str()))
            except Exception as ex:
                changes.append("E:" + ek(ex))
        out["after_change"] = changes
        return out

    def _impl_fl(self, case):
        op, a, b = case["op"], case["a"], case["b"]
        try:
            if op in ("div", "mul", "add", "sub"):
                x, y = float.fromhex(a), float.fromhex(b)
                if op == "div" and y == 0:
                    return ["range"]
                r = x / y if op == "div" else x * y if op == "mul" else x + y if op == "add" else x - y
                if op in ("div", "mul") and r == 0 and x != 0:
                    return ["range"]
            elif op == "idiv":
                r = a / b
                if r == 0 and a != 0:
                    return ["range"]
            elif op == "tot":
                r = timedelta(microseconds=a).total_seconds()
            elif op == "td":
                return timedelta(seconds=float.fromhex(a)) // US
            elif op == "dec":
                return (datetime.fromtimestamp(a / 1e6, timezone.utc) - datetime(1970, 1, 1, tzinfo=timezone.utc)) // US
            elif op == "ms":
                return int(a / 1000) * 1000
            else:
                raise KeyError(op)
        except OverflowError:
            return ["range"]
        if math.isinf(r) or math.isnan(r) or (r != 0 and abs(Fraction(r)) < FL_MIN):
            return ["range"]
        return [str(v) for v in r.as_integer_ratio()]

    # ---- the model ----------------------------------------------------------------------------------
    @staticmethod
    def _rat(h):
        n, d = float.fromhex(h).as_integer_ratio()
        return f"{n} {d}"

    def _dur_tok(self, d):
        if d[0] == "float":
            return "float " + self._rat(d[1])
        if d[0] == "other":
            return "other"
        return f"{d[0]} {d[1]}"

    def model_lines(self, case):
        k = case["k"]
        if k == "fl":
            op, a, b = case["op"], case["a"], case["b"]
            if op in ("div", "mul", "add", "sub"):
                if op == "div" and float.fromhex(b) == 0:
                    return ["fl rnd 0 1"]
                return [f"fl {op} {self._rat(a)} {self._rat(b)}"]
            if op == "idiv":
                return [f"fl div {a} 1 {b} 1"]
            if op == "tot":
                return [f"fl tot {a}"]
            if op == "ms":
                return [f"ev msfloor {a}"]
            if op == "dec":
                return [f"fl dec {a} 1"]
            return [f"fl {op} {self._rat(a)}"]
        if k == "msrange":
            us = case.get("us") or range(case["lo"], case["hi"])
            return [f"ev mk N {case['base'] + case['off'] + u} S {case['off']} td 0 N" for u in us]
        data = case["data"]
        off = case["off"]
        if case["form"] == "naive-iso":
            off = 0  # iso8601.parse_date(default_timezone=UTC): the string denotes a UTC reading
        return [f"ev mk {p_opt(case['id'])} {case['loc']} {p_opt(off)} {self._dur_tok(case['dur'])} "
                f"{p_opt(data, lambda d: hx(canon_data(d)))}"]

    def model_out(self, case, answers):
        k = case["k"]
        if k == "fl":
            t = answer(answers[0])
            if case["op"] in ("td", "dec", "ms"):
                return t.int()
            return [t.tok(), t.tok()]
        if k == "msrange":
            res = []
            for a in answers:
                t = answer(a)
                res.append(t.ev()[1])
            return res
        line = answers[0]
        if line.startswith("err "):
            return ["err", line.split()[1]]
        t = answer(line)
        ev = t.ev()
        jloc = t.int()
        joff = t.opt(t.int)
        num, den = t.int(), t.int()
        schema = t.tok() == "1"
        out = {"ev": ev, "utc": True, "types": ["datetime", "timedelta", "dict"],
               "json": {"ts": [jloc, joff], "dur": [num, den], "schema": schema, "kinds": ["str", "float", "dict"],
                        "keys": ["data", "duration", "id", "timestamp"], "same_text": True}}
        for name in ("rt", "copy"):
            tag = t.tok()
            if tag == "E":
                out[name] = ["E", t.tok()]
            else:
                e2 = t.ev()
                eq = t.tok() == "1"
                out[name] = ["R", e2, eq, e2[0] == ev[0]]
        assert t.done(), line
        return out

    def same(self, case, impl_out, model_out):
        if case["k"] == "fl" and impl_out == ["range"]:
            return True  # result outside the normal range of the model: not compared
        if isinstance(impl_out, dict) and "after_change" in impl_out:
            impl_out = {k: v for k, v in impl_out.items() if k != "after_change"}  # judged by the oracle only
        return impl_out == model_out

    # ---- the property, stated directly --------------------------------------------------------------
    def oracle(self, case, out):
        k = case["k"]
        if k == "fl":
            return self._oracle_fl(case, out)
        if k == "msrange":
            us = case.get("us") or range(case["lo"], case["hi"])
            for u, ts in zip(us, out):
                want = case["base"] + u - u % 1000
                if ts != want:
                    return f"microsecond {u}: stored instant {ts}, millisecond floor is {want}"
            return None
        d = case["dur"]
        if out and isinstance(out, list) and out[0] == "err":
            if d[0] == "other" or self._huge(d):
                return None  # outside "durations (int, float, timedelta)" representable as timedelta
            return f"Event(...) raised {out[1]}"
        if not in_scope(case):
            return None
        # 1. same instant floored to the millisecond, UTC-aware
        T = true_instant(case)
        want = (T.numerator // T.denominator) // 1000 * 1000
        if out["ev"][1] != want:
            return f"timestamp {out['ev'][1]} µs, instant floored to ms is {want}"
        if not out["utc"]:
            return "timestamp is not UTC-aware"
        if out["types"] != ["datetime", "timedelta", "dict"]:
            return f"field types {out['types']}"
        # 2. duration to the microsecond
        du = out["ev"][2]
        if d[0] == "td" and du != d[1]:
            return f"duration {du} µs for timedelta of {d[1]} µs"
        if d[0] == "int" and du != d[1] * M:
            return f"duration {du} µs for {d[1]} s"
        if d[0] == "float":
            f = float.fromhex(d[1])
            exact = Fraction(f) * M
            if abs(du - exact) > HALF_PLUS:
                return f"duration {du} µs for {f!r} s (exact {float(exact)!r} µs)"
            D0 = round(exact)
            if abs(D0) < 2**32 * M and D0 / M == f and du != D0:
                return f"duration {du} µs for the float image {f!r} of {D0} µs"
        if d[0] == "other":
            return "a duration of the wrong type was accepted"
        if out["ev"][0] != case["id"] or out["ev"][3] != canon_data(case["data"] or {}):
            return f"id/data held {out['ev'][0]!r} {out['ev'][3]} differ from those given"
        # 3. JSON form
        j = out["json"]
        if not j["schema"]:
            return "JSON form does not validate against schemas/event.json"
        if j["kinds"] != ["str", "float", "dict"]:
            return f"JSON kinds {j['kinds']}"
        if not j["same_text"]:
            return "to_json_str differs from to_json_dict"
        # 4. rebuilding
        small = abs(du) <= D43
        if small and abs(du + M) <= D43 and any(c is not True for c in out.get("after_change", [])):
            return f"after the event was changed (data in place / update / setter) its JSON form does not rebuild it: {out['after_change']}"
        for name in ("rt", "copy"):
            r = out[name]
            if name == "rt" and not small:
                continue
            if r[0] != "R":
                return f"{name}: rebuilding raised {r[1]}"
            if not r[2]:
                return f"{name}: rebuilt event is not equal: {r[1]} vs {out['ev']}"
            if not r[3]:
                return f"{name}: id changed: {r[1][0]!r} vs {out['ev'][0]!r}"
            if r[1] != out["ev"]:
                return f"{name}: rebuilt event differs in a field: {r[1]} vs {out['ev']}"
        return None

    @staticmethod
    def _huge(d):
        if d[0] == "int":
            return not (-86400 * 999999999 <= d[1] < 86400 * 10**9)
        if d[0] == "float":
            return not (-86400 * 999999999 <= float.fromhex(d[1]) < 86400e9)
        return False

    def _oracle_fl(self, case, out):
        if out == ["range"]:
            return None
        op, a, b = case["op"], case["a"], case["b"]
        if op in ("div", "mul", "add", "sub", "idiv", "tot"):
            if op == "idiv":
                exact = Fraction(a, b)
            elif op == "tot":
                exact = Fraction(a, M)
            else:
                x, y = Fraction(float.fromhex(a)), Fraction(float.fromhex(b))
                exact = x / y if op == "div" else x * y if op == "mul" else x + y if op == "add" else x - y
            r = Fraction(int(out[0]), int(out[1]))
            if not nearest_ok(exact, float(r)) or Fraction(float(r)) != r:
                return f"{op}: {r} is not the correctly rounded value of {exact}"
            return None
        if op == "td":
            exact = Fraction(float.fromhex(a)) * M
            if abs(out - exact) > HALF_PLUS:
                return f"timedelta(seconds={float.fromhex(a)!r}) = {out} µs"
            return None
        if op == "dec":
            if -2**32 * M < a < 2**32 * M and out != a:
                return f"fromtimestamp({a}/1e6) = {out} µs"
            return None
        if op == "ms":
            if out != a // 1000 * 1000:
                return f"int({a}/1000)*1000 = {out}"
        return None

    # ---- bookkeeping ----------------------------------------------------------------------------------
    def nontrivial(self, case, out):
        if case["k"] != "ev":
            return True
        if isinstance(out, list):
            return False
        return case["loc"] % 1000 != 0 or bool(case["off"]) or case["dur"][0] == "float"

    def features(self, case, out):
        k = case["k"]
        if k == "fl":
            return ["fl:" + case["op"] + (":out-of-range" if out == ["range"] else "")]
        if k == "msrange":
            return ["msrange"]
        fs = ["form:" + case["form"], "dur:" + case["dur"][0]]
        if isinstance(out, list):
            fs.append("raises:" + out[1])
        else:
            off = case["off"] or 0
            fs.append("offset:" + ("sub-ms(out of scope)" if off % 1000 else "zero" if off == 0 else
                                   "whole-minutes" if off % (60 * M) == 0 else "seconds-or-ms"))
            u = case["loc"] % M
            fs.append("us:" + ("0" if u == 0 else "ms-aligned" if u % 1000 == 0 else "x999" if u % 1000 == 999 else "other"))
            if case.get("extra"):
                fs.append("sub-microsecond digits")
        return fs

    def shrink(self, case):
        if case["k"] == "msrange":
            us = list(case.get("us") or range(case["lo"], case["hi"]))
            if len(us) > 1:
                h = len(us) // 2
                yield {"k": "msrange", "base": case["base"], "off": case["off"], "us": us[:h]}
                yield {"k": "msrange", "base": case["base"], "off": case["off"], "us": us[h:]}
            if case["off"]:
                yield {**case, "off": 0}
            return
        if case["k"] != "ev":
            return
        if case["data"] is not None:
            yield {**case, "data": None}
        if case["id"] is not None:
            yield {**case, "id": None}
        if case["dur"] != ["td", 0]:
            yield {**case, "dur": ["td", 0]}
        if case.get("extra"):
            c = {k: v for k, v in case.items() if k != "extra"}
            c["fmt"] = {**case["fmt"], "digits": 6}
            yield c
        if case["form"] in ("iso", "z") and case["off"] is not None:
            yield {k: v for k, v in {**case, "form": "dt"}.items() if k not in ("fmt", "extra")}
        if case["off"]:
            yield {**case, "loc": case["loc"] - case["off"], "off": 0, "form": "dt" if case["form"] == "iso" else case["form"]}
        sec = case["loc"] // M
        if sec != 1577836800:
            yield {**case, "loc": 1577836800 * M + case["loc"] % M}

    def extra_search(self, ctx, around):
        out = []
        for s in (1, 2):
            out += [c for c in self.gen(Ctx("quick", ctx.seed + s)) if c[1]["k"] != "fl"]
        return out


PROP = C13()
