"""C11 - a query means what its text says: literals, variables and calls compose
(aw_query/query2.py, aw_query/functions.py)"""
import json

from .. import qlang as Q
from ..base import Ctx, Prop

# hand-written programs (abstract syntax), always run first
def _s(x):
    return ["s", x]


def _c(f, *a):
    return ["c", f, list(a)]


CORPUS = [
    # F10 witness: a second/third argument after a bracketed first argument
    [["RETURN", _c("filter_keyvals", _c("query_bucket", _s("b")), _s("app"), ["l", [_s("a0")]])]],
    [["RETURN", _c("concat", ["l", []], ["l", [["i", 1]]])]],
    [["RETURN", _c("limit_events", ["l", [["i", 1], ["i", 2]]], ["i", 1])]],
    [["RETURN", _c("find_bucket", _s("a"), _s("h"))]],
    [["RETURN", _c("find_bucket", _s("a"))]],
    [["RETURN", _c("nop")]],
    [["RETURN", ["l", [_c("nop"), _c("nop"), ["l", [_c("nop")]], ["d", [["k", _c("nop")]]]]]]],
    [["RETURN", ["d", [["a", ["d", [["b", ["l", [["i", 1], ["d", []]]]]]]], ["c", ["l", []]]]]]],
    [["a", ["i", 1]], ["b", ["v", "a"]], ["a", ["i", 2]], ["RETURN", ["l", [["v", "a"], ["v", "b"]]]]],
    [["x", _c("query_bucket", _s("b"))], ["x", _c("sort_by_timestamp", ["v", "x"])], ["RETURN", ["v", "x"]]],
    [["RETURN", ["i", 1]], ["RETURN", ["l", [["v", "RETURN"], ["v", "RETURN"]]]]],
    [["RETURN", _s("a,b)c]d}e(f[g{h=i:j 'k'")]],
    [["RETURN", _s('say "hi" (ok), [1] = {2}')]],
    [["RETURN", ["l", [_s("'"), _s('"'), _s("'\""), _s("("), _s("]"), _s("}{"), _s(","), _s("=")]]]],
    [["RETURN", ["d", [["'", _s('"')], ['"', _s("'")], ["=", _s(":")], [":", _s(",")], ["", _s("")]]]]],
    [["RETURN", _c("merge_events_by_keys", _c("flood", _c("query_bucket", _c("find_bucket", _s("w")))), ["l", [_s("app"), _s("title")]])]],
    [["RETURN", _c("categorize", _c("query_bucket", _s("b")), ["l", [["l", [["l", [_s("Work")]], ["d", [["type", _s("regex")], ["regex", _s("a|b")]]]]]]])]],
    [["RETURN", ["l", [["v", "True"], ["v", "false"], ["v", "NAME"], ["v", "STARTTIME"], ["v", "ENDTIME"]]]]],
    [["RETURN", _c("limit_events", ["l", []], ["v", "True"])]],
    [["RETURN", ["i", 0]]],
    [["RETURN", ["i", 2**80]]],
    # integer literals up to the runtime's int() limit of 4300 digits are well-formed
    [["RETURN", ["l", [["i", 10**4298], ["i", 10**4299], ["i", 10**4299 + 7]]]]],
    [["x", ["i", 10**4300 - 1]], ["RETURN", ["c", "limit_events", [["l", []], ["v", "x"]]]]],
    [["events", ["l", []]], ["RETURN", _c("period_union", ["v", "events"], _c("filter_period_intersect", ["v", "events"], ["v", "events"]))]],
]


def _q(b):
    return _c("query_bucket", _s(b))


# programs run with the REAL builtin bodies on a populated in-memory store
REAL = [
    [["RETURN", _q("win")]],
    [["RETURN", _c("query_bucket_eventcount", _s("win"))]],
    [["RETURN", _c("filter_keyvals", _q("win"), _s("app"), ["l", [_s("a0"), _s("a2")]])]],
    [["RETURN", _c("exclude_keyvals", _q("win"), _s("app"), ["l", [_s("a0")]])]],
    [["RETURN", _c("filter_keyvals_regex", _q("win"), _s("title"), _s("t1"))]],
    [["e", _q("win")], ["a", _c("filter_keyvals", _q("afk"), _s("status"), ["l", [_s("not-afk")]])],
     ["RETURN", _c("filter_period_intersect", ["v", "e"], ["v", "a"])]],
    [["RETURN", _c("merge_events_by_keys", _q("win"), ["l", [_s("app")]])]],
    [["RETURN", _c("merge_events_by_keys", _c("flood", _q("win")), ["l", [_s("app"), _s("title")]])]],
    [["RETURN", _c("limit_events", _c("sort_by_duration", _c("merge_events_by_keys", _q("win"), ["l", [_s("app")]])), ["i", 2])]],
    [["RETURN", _c("sort_by_timestamp", _c("concat", _q("afk"), _q("win")))]],
    [["RETURN", _c("chunk_events_by_key", _q("win"), _s("app"))]],
    [["RETURN", _c("sum_durations", _q("win"))]],
    [["RETURN", _c("period_union", _q("win"), _q("afk"))]],
    [["RETURN", _c("union_no_overlap", _q("afk"), _q("win"))]],
    [["RETURN", _c("split_url_events", _q("win"))]],
    [["RETURN", _c("simplify_window_titles", _q("win"), _s("title"))]],
    [["RETURN", _c("query_bucket", _c("find_bucket", _s("wi")))]],
    [["RETURN", _c("query_bucket", _c("find_bucket", _s("af"), _s("host1")))]],
    [["RETURN", _c("categorize", _q("win"), ["l", [["l", [["l", [_s("Work")]], ["d", [["type", _s("regex")], ["regex", _s("a0|a2")]]]]]]])]],
    [["RETURN", _c("tag", _q("win"), ["l", [["l", [_s("zero"), ["d", [["type", _s("regex")], ["regex", _s("a0")]]]]]]])]],
    [["RETURN", ["d", [["n", _c("nop")], ["events", _c("limit_events", _q("win"), ["i", 1])], ["k", ["l", [["v", "NAME"], ["v", "true"]]]]]]]],
    # the key argument of simplify_window_titles names the field that is simplified
    [["RETURN", _c("simplify_window_titles", _q("win"), _s("app"))]],
    [["k", _s("app")], ["RETURN", ["l", [_c("simplify_window_titles", _q("win"), ["v", "k"]), _c("simplify_window_titles", _q("win"), _s("title"))]]]],
    # the same filter string with different hostnames, in one program and across programs of the same process
    [["a", _c("find_bucket", _s("win"), _s("host1"))], ["b", _c("find_bucket", _s("win"), _s("host2"))], ["RETURN", ["l", [["v", "a"], ["v", "b"]]]]],
    [["a", _c("find_bucket", _s("win"), _s("host2"))], ["b", _c("find_bucket", _s("win"))], ["RETURN", ["l", [["v", "b"], ["v", "a"], _c("query_bucket", ["v", "a"])]]]],
    [["RETURN", _c("query_bucket", _c("find_bucket", _s("win"), _s("host2")))]],
    # the same bucket read twice with an annotating transform applied to the first result only
    [["a", _q("win")], ["c", _c("categorize", ["v", "a"], ["l", [["l", [["l", [_s("Work")]], ["d", [["type", _s("regex")], ["regex", _s("a0|a2")]]]]]]])],
     ["d", _q("win")], ["RETURN", ["v", "d"]]],
    [["a", _q("win")], ["c", _c("tag", ["v", "a"], ["l", [["l", [_s("zero"), ["d", [["type", _s("regex")], ["regex", _s("a0")]]]]]]])],
     ["RETURN", ["l", [_c("query_bucket_eventcount", _s("win")), _q("win")]]]],
    # rules that share their regex text and differ in the keys they look at (or in letter case handling), side by side in one
    # literal and in successive calls
    [["RETURN", _c("categorize", _q("win"), ["l", [["l", [["l", [_s("T")]], ["d", [["type", _s("regex")], ["regex", _s("a0")], ["select_keys", ["l", [_s("title")]]]]]]],
                                                   ["l", [["l", [_s("A")]], ["d", [["type", _s("regex")], ["regex", _s("a0")], ["select_keys", ["l", [_s("app")]]]]]]]]])]],
    [["x", _c("tag", _q("win"), ["l", [["l", [_s("on-app"), ["d", [["type", _s("regex")], ["regex", _s("t1")], ["select_keys", ["l", [_s("app")]]]]]]]]])],
     ["y", _c("tag", _q("win"), ["l", [["l", [_s("anywhere"), ["d", [["type", _s("regex")], ["regex", _s("t1")]]]]]]])],
     ["RETURN", ["l", [["v", "x"], ["v", "y"]]]]],
    [["x", _c("categorize", _q("win"), ["l", [["l", [["l", [_s("lower")]], ["d", [["type", _s("regex")], ["regex", _s("A0")]]]]]]])],
     ["y", _c("categorize", _q("win"), ["l", [["l", [["l", [_s("any-case")]], ["d", [["type", _s("regex")], ["regex", _s("A0")], ["ignore_case", ["v", "true"]]]]]]]])],
     ["RETURN", ["l", [["v", "x"], ["v", "y"]]]]],
    # an empty list of values: filter keeps nothing, exclude keeps everything
    [["RETURN", _c("filter_keyvals", _q("win"), _s("app"), ["l", []])]],
    [["v", ["l", []]], ["RETURN", ["l", [_c("filter_keyvals", _q("win"), _s("app"), ["v", "v"]), _c("exclude_keyvals", _q("win"), _s("app"), ["v", "v"])]]]],
    [["RETURN", _c("exclude_keyvals", _q("win"), _s("app"), ["l", []])]],
]


# builtins that do not annotate their argument in place: after `b = f(a, …)` the variable `a` still holds what it was
# assigned (categorize, tag and split_url_events annotate the events they are given, period_union clears their data:
# known behaviour of the transforms, outside C11)
ARGKEEP = [
    ("concat", [_q("afk")]), ("filter_keyvals", [_s("app"), ["l", [_s("a0")]]]), ("exclude_keyvals", [_s("app"), ["l", [_s("a0")]]]),
    ("filter_keyvals_regex", [_s("title"), _s("t1")]), ("sort_by_timestamp", []), ("sort_by_duration", []), ("limit_events", [["i", 2]]),
    ("merge_events_by_keys", [["l", [_s("app")]]]), ("chunk_events_by_key", [_s("app")]), ("flood", []), ("sum_durations", []),
    ("union_no_overlap", [_q("afk")]), ("filter_period_intersect", [_q("afk")]), ("simplify_window_titles", [_s("title")]),
]



# ---- whole queries over the modelled builtin bodies (`q pipe`: AwModel/Query/Pipeline.lean) -----------------
MS = 1000
SEC = 1_000_000
T0_US = 1577836800 * SEC  # Q.T0


def _jv(v):
    """a value inside event data / a query result as the model's `Val` prints it"""
    from aw_core.models import Event

    if isinstance(v, str):
        return ["s", v]
    if isinstance(v, list) and all(isinstance(x, str) for x in v):
        return ["l", [["s", x] for x in v]]
    if isinstance(v, list) and v and all(isinstance(x, Event) for x in v):
        return ["l", [_pipe_canon(x) for x in v]]
    from ..common import canon_data

    return ["c", "j", canon_data(v), []]


def _pipe_canon(v):
    from datetime import timedelta

    from aw_core.models import Event

    from ..common import dt_to_us, td_to_us

    if isinstance(v, Event):
        return ["c", "e", "", [["none"] if v.id is None else ["i", v.id], ["i", dt_to_us(v.timestamp)], ["i", td_to_us(v.duration)],
                               ["d", [[k, _jv(x)] for k, x in v.data.items()]]]]
    if isinstance(v, timedelta):
        return ["c", "t", "", [["i", td_to_us(v)]]]
    if isinstance(v, bool):
        return ["b", v]
    if isinstance(v, int):
        return ["i", v]
    if isinstance(v, str):
        return ["s", v]
    if isinstance(v, (list, tuple)):
        return ["l", [_pipe_canon(x) for x in v]]
    if isinstance(v, dict):
        return ["d", [[k, _pipe_canon(x)] for k, x in v.items()]]
    if v is None:
        return ["none"]
    return ["o", type(v).__name__, str(v)]


def _pipe_store(store):
    """a real in-memory datastore holding `store` = [[bucket, hostname, [[ts, dur, data]…]]…]; returns it and the ids"""
    from aw_core.models import Event
    from aw_datastore import Datastore
    from aw_datastore.storages import MemoryStorage

    from ..common import us_to_dt, us_to_td

    ds = Datastore(MemoryStorage, testing=True)
    ids = []
    for b, host, evs in store:
        ds.create_bucket(b, "t", "c", host)
        row = []
        for ts, dur, data in evs:
            e = ds[b].insert(Event(timestamp=us_to_dt(ts), duration=us_to_td(dur), data=json.loads(json.dumps(data))))
            row.append(e.id)
        ids.append(row)
    return ds, ids


def _pipe_line(case, text, ids):
    from ..common import hx, p_list, p_opt

    def pj(v):
        if isinstance(v, str):
            return "s " + hx(v)
        if isinstance(v, list) and all(isinstance(x, str) for x in v):
            return "l " + p_list(v, hx)
        from ..common import canon_data

        return "o " + hx(canon_data(v))

    def pe(e, i):
        ts, dur, data = e
        return f"{p_opt(i)} {ts} {dur} " + p_list(list(data.items()), lambda kv: hx(kv[0]) + " " + pj(kv[1]))

    bs = p_list(list(zip(case["store"], ids)),
                lambda si: f"{hx(si[0][0])} {hx(si[0][1])} " + p_list(list(zip(si[0][2], si[1])), lambda ei: pe(ei[0], ei[1])))
    return f"q pipe {T0_US} {T0_US + 86400 * SEC} {bs} {Q.p_env()} {hx(text)}"


def _pipe_events(rng, n, keys, step=None):
    """n events inside the query window: ms-aligned instants on a coarse grid (ties, overlaps, gaps around the 5 s
    default pulsetime), data dicts with keys in one fixed order"""
    out = []
    t = T0_US + rng.randrange(0, 3600) * SEC
    for _ in range(n):
        t += rng.choice([0, 1, 2, 4, 5, 6, 30, 300]) * SEC + rng.choice([0, 0, 1, 250, 999]) * MS
        dur = rng.choice([0, 1, 2, 5, 10, 60, 600]) * SEC + rng.choice([0, 0, 0, 500 * MS, 1500])
        data = {}
        for k in keys:
            r = rng.random()
            if r < 0.15:
                continue
            data[k] = rng.choice(["a0", "a1", "a2", ["x", "y"], ["x"], 1, 2, "1", "", {"n": 1}, None]) if r < 0.5 else rng.choice(["a0", "a1"])
        out.append([t, dur, data])
    if rng.random() < 0.3:
        rng.shuffle(out)  # storage order need not be time order
    return out


def _gen_pipe(rng):
    keys = ["app", "title"]
    store = [["win", "host1", _pipe_events(rng, rng.randrange(0, 9), keys)],
             ["afk", rng.choice(["host1", "host2"]), _pipe_events(rng, rng.randrange(0, 6), ["status"])]]
    if rng.random() < 0.3:
        store.append(["win2", "host2", _pipe_events(rng, rng.randrange(0, 5), keys)])
    srcs = [_q("win"), _q("afk"), _c("query_bucket", _c("find_bucket", _s("wi"))), ["l", []]] + ([_q("win2")] if len(store) > 2 else [])
    vals = [_s("a0"), _s("a1"), _s(""), _s("1"), ["i", 1], ["i", 2], ["l", [_s("x"), _s("y")]], ["l", [_s("x")]]]

    def ev(d):
        if d == 0 or rng.random() < 0.25:
            return rng.choice(srcs)
        f = rng.choice(["concat", "limit_events", "sort_by_timestamp", "sort_by_duration", "filter_keyvals", "exclude_keyvals",
                        "merge_events_by_keys", "period_union", "filter_period_intersect", "flood", "union_no_overlap"])
        a = ev(d - 1)
        if f in ("concat", "period_union", "filter_period_intersect", "union_no_overlap"):
            return _c(f, a, ev(d - 1))
        if f == "limit_events":
            return _c(f, a, ["i", rng.choice([0, 1, 2, 3, 100])])
        if f in ("filter_keyvals", "exclude_keyvals"):
            return _c(f, a, _s(rng.choice(keys + ["status", "nokey"])), ["l", rng.sample(vals, rng.randrange(0, 4))])
        if f == "merge_events_by_keys":
            return _c(f, a, ["l", [_s(k) for k in rng.sample(keys + ["status", "nokey"], rng.randrange(0, 3))]])
        return _c(f, a)

    top = rng.random()
    e = ev(rng.randrange(1, 4))
    if top < 0.15:
        e = _c("sum_durations", e)
    elif top < 0.25:
        e = _c("chunk_events_by_key", e, _s(rng.choice(keys)))
    elif top < 0.35:
        e = ["d", [["n", _c("nop")], ["count", _c("query_bucket_eventcount", _s(rng.choice(["win", "afk"])))], ["events", e]]]
    if rng.random() < 0.3:
        prog = [["events", ev(1)], ["events", _c("sort_by_timestamp", ["v", "events"])], ["RETURN", ["l", [["v", "events"], e]]]]
    else:
        prog = [["RETURN", e]]
    return {"k": "pipe", "prog": prog, "store": store}


class C11(Prop):
    ID = "C11"
    MODULE = "AwProofs.Props.C11"
    THEOREMS = [
        "AwProofs.C11.expr_parse_render",
        "AwProofs.C11.stmt_parse_render",
        "AwProofs.C11.query_means_text",
        "AwProofs.C11.layout_independent",
        "AwProofs.C11.call_denotes",
        "AwProofs.C11.args_in_order",
        "AwProofs.C11.builtin_nop",
        "AwProofs.C11.builtin_concat",
        "AwProofs.C11.builtin_sum_durations",
        "AwProofs.C11.builtin_limit_events",
        "AwProofs.C11.builtin_sort_by_timestamp",
        "AwProofs.C11.builtin_sort_by_duration",
        "AwProofs.C11.builtin_filter_keyvals",
        "AwProofs.C11.builtin_exclude_keyvals",
        "AwProofs.C11.builtin_merge_events_by_keys",
        "AwProofs.C11.builtin_chunk_events_by_key",
        "AwProofs.C11.builtin_filter_period_intersect",
        "AwProofs.C11.builtin_period_union",
        "AwProofs.C11.builtin_flood",
        "AwProofs.C11.builtin_union_no_overlap",
        "AwProofs.C11.builtin_rejects_non_list",
        "AwProofs.C11.total_of_merged",
        "AwProofs.C11.total_of_merged_text",
        "AwProofs.C11.flood_of_read",
    ]
    TRUSTED = [
        "harness/registry_dump.py generates AwModel/Query/RegistryGen.lean from aw_query.functions on every run",
        "stream `pipeline`: whole queries with the REAL builtin bodies on a real in-memory datastore vs the model's `q pipe` (generated registry + Pipeline.fullApply: the three store readers over the memory-store model and 14 q2_* wrappers over the transform models of C09/C10/C15/C16); categorize, tag, split_url_events, simplify_window_titles, filter_keyvals_regex have no body in that model",
        "builtin bodies are recording stubs in the real registry (the real q2_function / q2_typecheck wrappers stay), so a call's value is the term name(args...) on both sides; the Python reference parser/evaluator and renderer (harness/qlang.py) are independent of the model and compared with the model's render/denote on every case",
    ]
    ASSUMPTIONS = [
        "ASCII text; string values without ';' and backslash; dict literals with distinct keys; identifiers [A-Za-z_][A-Za-z0-9_]*; integer literals of at most 4300 digits (CPython's int() limit, model parameter maxIntDigits)",
        "whitespace only around , : = ; (not directly inside brackets)",
        "builtins do not mutate the namespace dict they are handed; nesting below CPython's recursion limit",
    ]
    LEVEL_TEXT = (
        "Machine-checked Lean 4 theorems over a branch-for-branch model of the repaired query2 parser/interpreter: "
        "query_means_text (for every well-formed program and every layout - arbitrary ASCII whitespace around , : = ; "
        "and either quote style with escaped quotes - running the rendered text gives exactly what the program denotes, "
        "for arbitrary builtin bodies over the registry generated from the source), expr_parse_render, stmt_parse_render, "
        "layout_independent, call_denotes, args_in_order; builtin_<name> (14 registered builtins, called through the generated registry's call protocol, equal their transform models for every argument list; builtin_rejects_non_list); total_of_merged(_text): the query sum_durations(merge_events_by_keys(query_bucket(b), keys)), as text under any layout, yields the total duration of the windowed read (reads, call protocol, wrappers and C16's conservation law composed); all three planned stages reached, no _partial theorem; the "
        "model, its render and its denote are compared with the real code and an independent Python reference on every run"
    )
    LEVEL_NOTE = "trusts: Lean kernel + propext/Quot.sound; model-code tie is differential (programs x layouts); ASCII, strings without ; and backslash; builtin bodies arbitrary in the parser theorems, 14 of them identified with the transform models (builtin_*), the 5 regex/URL ones parameters"
    TECHNIQUE = "Lean 4 proof over executable model + differential correspondence check + independent reference parser/evaluator"
    RULE = (
        "hand-written programs; programs generated from the grammar (nesting <= 4, every builtin of the generated "
        "registry with well-typed and ill-typed arguments, 0-3 arguments, rebinding/aliasing, bracketed first "
        "arguments, strings with brackets/commas/quotes/'='), each rendered under >= 3 seeded layouts (one without "
        "any whitespace, others with blanks/newlines/control-space around , : = ; and both quote styles); "
        "non-trivial = program with at least one call, list or dict"
    )

    def __init__(self):
        self._prepared = False

    def prepare(self):
        if self._prepared:
            return
        from ..registry_dump import write_lean

        write_lean()
        self._prepared = True

    # ---- generation ---------------------------------------------------------------------------
    def lays(self, rng, n=3):
        out = [[rng.randrange(1 << 30), 0]]
        while len(out) < n:
            out.append([rng.randrange(1 << 30), rng.randrange(1, len(Q.TABLES))])
        return out

    def gen(self, ctx):
        self.prepare()
        reg = Q.registry()
        dret = Q.default_ret()
        out = []
        rng = ctx.rng("c11corpus")
        for p in CORPUS:
            out.append(("corpus", {"k": "prog", "prog": p, "lays": self.lays(rng, 4), "ret": dret}))
        rng = ctx.rng("c11real")
        for p in REAL:
            out.append(("real-builtins", {"k": "real", "prog": p, "lays": self.lays(rng, 4)}))
        for name, extra in ARGKEEP:
            for first in (True, False):
                args = [["v", "a"]] + extra if first else (extra[:1] + [["v", "a"]] if extra and extra[0][0] == "c" else None)
                if args is None:
                    continue
                src = _q("win")
                p = [["a", src], ["b", ["c", name, args]], ["RETURN", ["l", [["v", "a"], ["v", "b"]]]]]
                out.append(("real-argkeep", {"k": "real", "prog": p, "lays": self.lays(rng, 3), "value_semantics": True}))
        # whole queries over random bucket contents: every modelled builtin body composed (model: `q pipe`)
        rng = ctx.rng("c11pipe")
        for _ in range(ctx.pick(700, 12000)):
            c = _gen_pipe(rng)
            c["lays"] = self.lays(rng, 2)
            out.append(("pipeline", c))
        # every builtin, well-typed, with bracketed arguments everywhere
        rng = ctx.rng("c11builtins")
        for name in sorted(reg):
            for _ in range(ctx.pick(6, 60)):
                e = Q.gen_call(rng, rng.randrange(1, 4), ["a"], name, reg, dret, 1.0)
                p = [["a", ["l", []]], ["RETURN", e]]
                out.append(("builtins", {"k": "prog", "prog": p, "lays": self.lays(rng), "ret": dret}))
        # general programs
        rng = ctx.rng("c11progs")
        for _ in range(ctx.pick(2500, 50000)):
            p = Q.gen_prog(rng, maxdepth=4, typed=rng.choice([0.5, 0.9, 1.0]))
            ret = dret if rng.random() < 0.8 else {n: rng.choice("lsio") for n in reg}
            out.append(("progs", {"k": "prog", "prog": p, "lays": self.lays(rng, ctx.pick(3, 5)), "ret": ret}))
        # a program means the same whatever the process has parsed before: first a long run of rejected queries (errors deep
        # inside nested values, literals nested far beyond the ordinary), then the program
        rng = ctx.rng("c11after")
        bad = ["RETURN = [[[[1, 2,]]]];", 'RETURN = {"a": {"b": [1,, 2]}};', "RETURN = nop([1, [2, (]]);", "RETURN = [[[[[[[[1 2]]]]]]]];",
               'RETURN = concat([[["a]]], []);', "RETURN = [" * 3 + "]", "RETURN = " + "[" * 140 + "1 2" + "]" * 140 + ";",
               "RETURN = " + "[" * 130 + "]" * 130 + ";", "x = [[[{]]];", "RETURN = nop(nop(nop(nop(,))));"]
        for _ in range(ctx.pick(12, 150)):
            p = Q.gen_prog(rng, maxdepth=3, typed=1.0)
            prelude = [rng.choice(bad) for _ in range(rng.choice([40, 130, 260]))]
            out.append(("after-errors", {"k": "prog", "prog": p, "lays": self.lays(rng, 3), "ret": dret, "prelude": prelude}))
        # bracketed first arguments followed by more arguments
        rng = ctx.rng("c11first")
        names = sorted(reg)
        for _ in range(ctx.pick(600, 10000)):
            first = rng.choice([
                lambda: Q.gen_call(rng, 2, [], rng.choice(names), reg, dret, 0.9),
                lambda: ["l", [Q.gen_expr(rng, 1, []) for _ in range(rng.randrange(0, 3))]],
                lambda: ["d", [["k", Q.gen_expr(rng, 1, [])]]],
                lambda: ["s", rng.choice(["(", ")", "[a]", "{", "f(x)", "a,b", "'", '"'])],
            ])()
            more = [Q.gen_expr(rng, rng.randrange(0, 3), []) for _ in range(rng.randrange(1, 3))]
            shape = rng.random()
            if shape < 0.5:
                e = ["c", rng.choice(names), [first] + more]
            elif shape < 0.8:
                e = ["l", [first] + more]
            else:
                e = ["d", [["a", first]] + [[f"k{i}", m] for i, m in enumerate(more)]]
            out.append(("first-arg", {"k": "prog", "prog": [["RETURN", e]], "lays": self.lays(rng), "ret": dret}))
        # the same call text twice with its variable re-assigned in between ("a variable evaluates to its most
        # recent assignment", also for a call that was already seen), and RETURN assigned before the last statement
        rng = ctx.rng("c11rebind")
        for _ in range(ctx.pick(400, 6000)):
            call = Q.gen_call(rng, 1, ["a"], rng.choice(names), reg, dret, 1.0)
            if rng.random() < 0.6:
                call = ["c", rng.choice(names), [["v", "a"]] + [Q.gen_expr(rng, 1, ["a"]) for _ in range(rng.randrange(0, 2))]]
            e1 = Q.gen_expr(rng, 2, [])
            e2 = Q.gen_expr(rng, 2, [])
            wrap = rng.choice([lambda c: c, lambda c: ["l", [c]], lambda c: ["c", rng.choice(names), [c]]])
            prog = [["a", e1], ["x", wrap(call)], ["a", e2], ["y", wrap(call)]]
            if rng.random() < 0.4:
                prog += [["RETURN", ["v", "x"]], ["z", call], ["RETURN", ["l", [["v", "RETURN"], ["v", "y"], ["v", "z"]]]]]
            else:
                prog += [["RETURN", ["l", [["v", "x"], ["v", "y"]]]]]
            out.append(("rebind", {"k": "prog", "prog": prog, "lays": self.lays(rng), "ret": dret}))
        # strings
        rng = ctx.rng("c11strings")
        for _ in range(ctx.pick(500, 10000)):
            strs = [["s", Q.gen_string(rng, 8)] for _ in range(rng.randrange(1, 4))]
            e = rng.choice([
                lambda: ["l", strs],
                lambda: ["c", "concat", strs],
                lambda: ["d", [[s[1] + str(i), s] for i, s in enumerate(strs)]],
                lambda: strs[0],
            ])()
            out.append(("strings", {"k": "prog", "prog": [["x", e], ["RETURN", ["l", [["v", "x"], e]]]],
                                    "lays": self.lays(rng), "ret": dret}))
        return out

    def extra_search(self, ctx, around):
        return self.gen(Ctx("thorough", ctx.seed + 1))[:40000]

    # ---- both sides ----------------------------------------------------------------------------
    def texts(self, case):
        return [Q.render_prog(case["prog"], seed, Q.TABLES[ti]) for seed, ti in case["lays"]]

    def impl(self, case):
        texts = self.texts(case)
        if case["k"] == "pipe":
            return {"outs": [self.run_pipe(case, t)[0] for t in texts]}
        if case["k"] == "real":
            return {"texts": texts, "outs": [Q.run_text_real(t) for t in texts]}
        for t in case.get("prelude") or []:
            Q.run_text(t, case["ret"], kind_only=True)  # outcome irrelevant here (C17 judges it)
        return {
            "texts": texts,
            "outs": [Q.run_text(t, case["ret"]) for t in texts],
            "denote": Q.ref_eval(case["prog"], Q.registry(), case["ret"]),
        }

    def run_pipe(self, case, text):
        import aw_query.query2 as q2

        Q.install_stubs()
        Q.Mode.real = True
        try:
            ds, ids = _pipe_store(case["store"])
            return Q.guarded(lambda: _pipe_canon(q2.query("n", text, Q.T0, Q.T1, ds))), ids
        finally:
            Q.Mode.real = False

    def same(self, case, impl_out, model_out):
        if case["k"] == "pipe":
            return impl_out["outs"] == model_out["outs"]
        if case["k"] == "real":  # real builtin bodies: no model, the oracle evaluates directly
            return True
        if "\\" in json.dumps(case["prog"]):
            # a string value with a backslash is outside the grammar of the Lean renderer (WFProg: no backslash in values;
            # the harness renders it with the other quote as delimiter): the texts are the harness's, everything computed
            # from them is compared
            return impl_out["outs"] == model_out["outs"] and impl_out["denote"] == model_out["denote"]
        return impl_out == model_out

    def model_lines(self, case):
        if case["k"] == "pipe":
            ids = [list(range(len(evs))) for _, _, evs in case["store"]]  # the memory store numbers a fresh bucket 0, 1, 2, …
            return [_pipe_line(case, t, ids) for t in self.texts(case)]
        if case["k"] == "real":
            return []
        ls = []
        for seed, ti in case["lays"]:
            ls.append(Q.line_render(case["prog"], seed, Q.TABLES[ti]))
        for t in self.texts(case):
            ls.append(Q.line_run(t, case["ret"]))
        ls.append(Q.line_denote(case["prog"], case["ret"]))
        return ls

    def model_out(self, case, answers):
        if case["k"] == "pipe":
            return {"outs": [Q.r_result(a, Q.r_val) for a in answers]}
        if case["k"] == "real":
            return None
        n = len(case["lays"])
        texts = [Q.r_result(a, lambda t: t.str()) for a in answers[:n]]
        outs = [Q.r_result(a, Q.r_val) for a in answers[n : 2 * n]]
        return {"texts": texts, "outs": outs, "denote": Q.r_result(answers[2 * n], Q.r_val)}

    # ---- the property --------------------------------------------------------------------------
    def oracle(self, case, out):
        texts = self.texts(case)
        if case["k"] == "pipe":
            # judged by the correspondence with the model (whose transforms carry the theorems of C09/C10/C15/C16 and whose reads
            # those of C03/C12); here: both layouts mean the same, and the store numbers events as the model line assumes
            if out is None:
                return None
            if any(o != out["outs"][0] for o in out["outs"]):
                return "spacing around separators changed the result"
            return None
        if case["k"] == "real":
            if out is None:
                return None
            want = Q.ref_eval_real(case["prog"], value_semantics=bool(case.get("value_semantics")))
            if want[0] == "err":
                raise RuntimeError(f"reference evaluation of a real-builtins program failed: {want}")
            for t, o in zip(texts, out["outs"]):
                if Q.ref_parse(t) != case["prog"]:
                    raise RuntimeError(f"reference parser does not read back the rendered program: {t!r}")
                if o != want:
                    return f"text {t!r}: result of query() differs from applying the builtins to the argument values directly"
            return None
        want = Q.ref_eval(case["prog"], Q.registry(), case["ret"])
        for t, o, (seed, ti) in zip(texts, out["outs"], case["lays"]):
            back = Q.ref_parse(t)
            if back != case["prog"]:
                raise RuntimeError(f"reference parser does not read back the rendered program: {t!r}")
            lay = "without whitespace" if ti == 0 else f"layout table {ti}"
            if want[0] == "err":
                # the program denotes an error (unknown name, argument count/type): which error
                # kind is C17's subject; here only: it must not produce a value
                if o[0] != "err":
                    return f"text {t!r} ({lay}): a value although the program denotes {want[1]}"
            elif o != want:
                if o[0] == "err":
                    return f"text {t!r} ({lay}): {o[1]} instead of the value the text denotes"
                return f"text {t!r} ({lay}): result differs from the value the text denotes"
        if want[0] != "err" and any(o != out["outs"][0] for o in out["outs"]):
            return "spacing around separators changed the result"
        return None

    def nontrivial(self, case, out):
        return any(Q.depth(e) >= 1 for _, e in case["prog"])

    def features(self, case, out):
        fs = []
        if case["k"] == "pipe":
            o = out["outs"][0]
            return ["pipe:" + (("err:" + o[1]) if o[0] == "err" else "value")]
        if case["k"] == "real":
            return ["real:" + case["prog"][-1][1][1] if case["prog"][-1][1][0] == "c" else "real:other"]
        o = out["outs"][0]
        fs.append("result:" + (("err:" + o[1]) if o[0] == "err" else "value"))
        d = max([Q.depth(e) for _, e in case["prog"]], default=0)
        fs.append(f"depth:{d}")
        fs.append(f"stmts:{len(case['prog'])}")
        return fs

    def shrink(self, case):
        for p in Q.shrink_prog(case["prog"]):
            if p:
                yield {**case, "prog": p}
        if len(case["lays"]) > 1:
            for i in range(len(case["lays"])):
                yield {**case, "lays": case["lays"][:i] + case["lays"][i + 1 :]}


PROP = C11()
if "aw_query" in __import__("sys").modules:  # loaded by the runner (after import_repo), not by tools/gen_manifest.py
    PROP.prepare()
