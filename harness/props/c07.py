"""C07 - heartbeat ingestion through the store equals heartbeat_reduce of the stream"""
import itertools
import json

from ..base import Ctx, Prop
from ..common import answer, ev_tuple, hx, mk_event, p_ev, p_list, pulsetime_us
from .. import storegen, storelib

U = 1_000_000
T0 = storegen.T0
LA, LB = storegen.lab("a"), storegen.lab("b")


def streams_grid(nmax):
    """all streams of <= nmax heartbeats with strictly increasing starts on 0..5 and non-decreasing
    ends, two labels"""
    opts = []
    for k in range(1, nmax + 1):
        for starts in itertools.combinations(range(6), k):
            def rec(i, prev_end, acc):
                if i == k:
                    yield list(acc)
                    return
                for d in (0, 1, 2, 3):
                    e = starts[i] + d
                    if e < prev_end:
                        continue
                    for l in (LA, LB):
                        yield from rec(i + 1, e, acc + [[None, T0 + starts[i] * U, d * U, l]])
            yield from rec(0, -1, [])


class C07(Prop):
    ID = "C07"
    MODULE = "AwProofs.Props.C07"
    THEOREMS = ["AwProofs.C07.earlier_events_untouched_Memory", "AwProofs.C07.earlier_events_untouched_Peewee", "AwProofs.C07.earlier_events_untouched_Sqlite", "AwProofs.C07.earlier_events_untouched_loop_Memory", "AwProofs.C07.earlier_events_untouched_loop_Peewee", "AwProofs.C07.earlier_events_untouched_loop_Sqlite", "AwProofs.C07.earlier_events_untouched_spec", "AwProofs.C07.loop_eq_reduce_Memory", "AwProofs.C07.loop_eq_reduce_Peewee", "AwProofs.C07.loop_eq_reduce_Sqlite", "AwProofs.C07.loop_eq_reduce_spec", "AwProofs.C07.sqlite_before_epoch_now_read"]
    WORKERS = 10
    LEVEL_TEXT = 'Lean 4 theorems: loop_eq_reduce_B for B in {sqlite, memory, peewee} (the ingestion loop over the backend model leaves exactly heartbeat_reduce of the stream, other buckets untouched), earlier_events_untouched_B, loop_eq_reduce_spec on the list model; sqlite_before_epoch_now_read (history of repair F22: the former counterexample, heartbeats ending before 1970, is now merged like any other stream); loop run on the real backends beside a populated bucket, also into a re-created bucket'
    LEVEL_NOTE = 'trusts: Lean kernel + 3 standard axioms; backend models as validated by C02/C04; hypotheses: strictly increasing timestamps (in the property); none about 1970 any more (sqlite repaired, F22)'
    TECHNIQUE = "Lean 4 loop-invariant proof (store loop = heartbeat_reduce) + differential correspondence on heartbeat streams"
    RULE = (
        "every heartbeat stream of <=n events with strictly increasing starts on a 6-point 1 s grid, durations 0..3 s, "
        "non-decreasing ends, two labels, pulsetimes {0,1,2} s, plus seeded random longer streams; ingested by the "
        "standard loop on each real backend beside a second populated bucket with coinciding instants; "
        "non-trivial = stream where at least one heartbeat merged and one did not"
    )

    def gen(self, ctx):
        out = []
        rng = ctx.rng("c07")
        other = [[None, T0 + k * U, d * U, LA] for k, d in ((0, 1), (2, 3), (5, 0), (3, 2))]
        n = ctx.pick(3, 4)
        grid = list(streams_grid(n))
        if ctx.quick:
            grid = grid[:: max(1, len(grid) // 1500)]
        for s in grid:
            pt = rng.choice([0, 1, 2])
            be = storelib.BACKENDS
            for b in be:
                out.append(("grid-stream", {"backend": b, "pt": pt, "stream": s, "other": other}))
        for _ in range(ctx.pick(100, 3000)):
            m = rng.randint(2, 25)
            t, end = 0, 0
            s = []
            for _ in range(m):
                t += rng.choice([1, 1, 2, 5]) * rng.choice([1000, 500_000, U])
                d = max(end - t, 0) + rng.choice([0, 0, 1, 1000, U, 3 * U])
                end = t + d
                s.append([None, T0 + t, d, rng.choice([LA, LA, LB])])
            pt = rng.choice([0, 0.001, 0.5, 1, 2.5, 10])
            oth = [[None, e[1], e[2], LB] for e in rng.sample(s, min(3, len(s)))]
            one = rng.random() < 0.4
            for b in storelib.BACKENDS:
                out.append(("random-stream", {"backend": b, "pt": pt, "stream": s, "other": oth, "one_dict": one}))
        # the bucket id was used, deleted and re-created before the stream arrives; and streams that begin at the epoch
        for s_ in grid[:: max(1, len(grid) // ctx.pick(150, 2000))]:
            for b in storelib.BACKENDS:
                out.append(("reuse-stream", {"backend": b, "pt": rng.choice([0, 1, 2]), "stream": s_, "other": other, "reuse": True}))
        for _ in range(ctx.pick(60, 1500)):
            m = rng.randint(1, 6)
            t, end, s_ = 0, 0, []
            for i in range(m):
                if i:
                    t += rng.choice([1000, U, 2 * U])
                d = max(end - t, 0) + rng.choice([0, 0, 1000, U])
                end = t + d
                s_.append([None, t, d, rng.choice([LA, LA, LB])])
            for b in storelib.BACKENDS:
                out.append(("epoch-stream", {"backend": b, "pt": rng.choice([0, 1, 2]), "stream": s_, "other": [[None, 0, 0, LB], [None, U, U, LA]]}))
        # streams that begin before the epoch (negative instants) and run across it
        for _ in range(ctx.pick(60, 1500)):
            m = rng.randint(1, 7)
            t, end, s_ = rng.choice([-20, -6, -3, -1]) * U, None, []
            for i in range(m):
                if i:
                    t += rng.choice([1000, U, 2 * U, 5 * U])
                d = max((end if end is not None else t) - t, 0) + rng.choice([0, 0, 1000, U, 3 * U])
                end = t + d
                s_.append([None, t, d, rng.choice([LA, LA, LB])])
            for b in storelib.BACKENDS:
                out.append(("pre-epoch-stream", {"backend": b, "pt": rng.choice([0, 1, 2, 10]), "stream": s_,
                                                 "other": [[None, -30 * U, U, LB], [None, -2 * U, 4 * U, LA]]}))
        # refused bucket operations of other clients between the heartbeats (re-registering an existing bucket, addressing
        # a bucket that does not exist): none of them may undo or alter what was ingested
        for _ in range(ctx.pick(80, 1500)):
            m = rng.randint(2, 10)
            t, end, s = 0, 0, []
            for _ in range(m):
                t += rng.choice([1000, 500_000, U, 2 * U])
                d = max(end - t, 0) + rng.choice([0, 0, 1000, U])
                end = t + d
                s.append([None, T0 + t, d, rng.choice([LA, LA, LB])])
            noise = {}
            for i in range(1, m):
                if rng.random() < 0.5:
                    noise[str(i)] = [rng.choice(["create-hb", "create-other", "delete-ghost", "update-ghost", "insert-ghost", "other-same-instant", "other-same-instant"])
                                     for _ in range(rng.randint(1, 2))]
            for b in storelib.BACKENDS:
                # (creating an id that exists is refused by the SQL backends; the memory backend replaces the bucket, which
                # the bucket-lifecycle property excludes from its quantifier - no such noise there)
                nz = noise if b != "memory" else {k: [x for x in v if not x.startswith("create-")] for k, v in noise.items()}
                out.append(("noisy-stream", {"backend": b, "pt": rng.choice([0, 1, 2.5]), "stream": s, "other": other, "noise": nz}))
        # day-scale durations, gaps and pulsetimes (timedelta keeps days, seconds and microseconds apart)
        DAY = 86_400 * U
        for _ in range(ctx.pick(60, 1500)):
            m = rng.randint(2, 8)
            t, end, s = 0, 0, []
            for _ in range(m):
                t += rng.choice([U, 3600 * U, DAY - U, DAY, DAY + U, 3 * DAY])
                d = max(end - t, 0) + rng.choice([0, U, DAY - U, DAY, DAY + 1000, 2 * DAY + 1500])
                end = t + d
                s.append([None, T0 + t, d, rng.choice([LA, LA, LB])])
            pt = rng.choice([0, 1, 3600, 86400, 86401, 200000])
            for b in storelib.BACKENDS:
                out.append(("day-scale-stream", {"backend": b, "pt": pt, "stream": s, "other": []}))
        # heartbeats as a server receives them: the timestamp is an ISO-8601 text, and the clients sit in different UTC
        # offsets, so that the instants increase while their texts do not
        for _, c in list(out):
            if rng.random() < 0.15:
                c["iso"] = [rng.choice([-600, -120, 0, 0, 180, 330]) for _ in c["stream"]]
        return out

    def impl(self, case):
        from aw_transform.heartbeats import heartbeat_merge, heartbeat_reduce

        store = storelib.Store(case["backend"])
        try:
            ds = store.ds
            m = {"type": "t", "client": "c", "hostname": "h", "created_us": T0}
            for b in ("hb", "other"):
                ds.create_bucket(b, m["type"], m["client"], m["hostname"], created=storelib.us_to_dt(T0))
            if case.get("reuse"):
                # the bucket id had an earlier life: written to, deleted, created again
                ds["hb"].insert(mk_event([None, T0, 1000, LA]))
                ds["hb"].insert([mk_event([None, T0 + U, 0, LB])])
                ds.delete_bucket("hb")
                ds.create_bucket("hb", m["type"], m["client"], m["hostname"], created=storelib.us_to_dt(T0))
            ds["other"].insert([mk_event(e) for e in case["other"]])
            other_before = storelib.dump(store)["other"]
            # a second memory store of the same process holds a bucket of the same id (two independent Datastore objects)
            twin = twin_before = None
            if case["backend"] == "memory":
                from aw_datastore import Datastore
                from aw_datastore.storages import MemoryStorage

                twin = Datastore(MemoryStorage, testing=True)
                twin.create_bucket("hb2", "t", "c", "h", created=storelib.us_to_dt(T0))
                twin["hb2"].insert(mk_event([None, T0 - 5 * U, U, LB]))
                twin_before = [ev_tuple(e) for e in twin["hb2"].get(-1)]
                if "hb2" in ds.buckets():
                    return {"final": [], "ids": [], "other_same": False, "steps": [], "reduce": [],
                            "twin": "a bucket created in another MemoryStorage object shows up in this one"}
            bucket = ds["hb"]
            state = {}
            steps = []
            other_extra = []
            rng_data = lambda k: [LA, LB][k % 2]
            noise = case.get("noise") or {}
            for n_hb, hb in enumerate(case["stream"]):
                # between two heartbeats other clients may (re-)register their buckets or address buckets that do not
                # exist: the store refuses, and nothing that was ingested so far may change
                for kind in noise.get(str(n_hb), []):
                    try:
                        if kind == "create-hb":
                            ds.create_bucket("hb", "t", "c", "h", created=storelib.us_to_dt(T0))
                        elif kind == "create-other":
                            ds.create_bucket("other", "t", "c", "h", created=storelib.us_to_dt(T0))
                        elif kind == "delete-ghost":
                            ds.delete_bucket("ghost")
                        elif kind == "update-ghost":
                            ds.update_bucket("ghost", name="x")
                        elif kind == "insert-ghost":
                            ds.storage_strategy.insert_one("ghost", mk_event([None, T0, 0, LA]))
                        elif kind == "other-same-instant":
                            # another watcher stamps the same instants: the other bucket gets an event that starts exactly when
                            # this bucket's newest event does, written after it
                            ds["other"].insert(mk_event([None, case["stream"][n_hb - 1][1], 1000, rng_data(n_hb)]))
                            other_extra.append(1)
                    except Exception:
                        pass
                heartbeat = mk_event(hb)
                if case.get("one_dict"):
                    # the watcher keeps ONE data dict, refills it in place and wraps it in a fresh Event for every heartbeat
                    from aw_core.models import Event

                    state.clear()
                    state.update(json.loads(hb[3]) if hb[3] else {})
                    heartbeat = Event(timestamp=heartbeat.timestamp, duration=heartbeat.duration, data=state)
                if case.get("iso"):
                    from aw_core.models import Event

                    heartbeat = Event(timestamp=storelib.us_to_dt(hb[1], case["iso"][n_hb]).isoformat(),
                                      duration=heartbeat.duration, data=heartbeat.data)
                last = bucket.get(limit=1)
                merged = heartbeat_merge(last[0], heartbeat, case["pt"]) if last else None
                if merged is not None:
                    bucket.replace_last(merged)
                else:
                    bucket.insert(heartbeat)
                if not noise:
                    # (a stream with refused operations in between is observed at its end only: a read here would flush
                    # the write that the refused operation must not undo)
                    steps.append(sorted((ev_tuple(e)[1:] for e in bucket.get(-1))))
            d = storelib.dump(store)
            red = heartbeat_reduce([mk_event(e) for e in case["stream"]], case["pt"])
            other_same = d["other"] == other_before if not other_extra else len(d["other"]["events"]) == len(other_before["events"]) + len(other_extra)
            if twin is not None and ([ev_tuple(e) for e in twin["hb2"].get(-1)] != twin_before or "hb" in twin.buckets()):
                other_same = False
            return {"final": [e[1:] for e in sorted(d["hb"]["events"], key=lambda e: e[1])],
                    "ids": sorted(e[0] for e in d["hb"]["events"]),
                    "other_same": other_same, "steps": steps,
                    "reduce": [ev_tuple(e)[1:] for e in red]}
        finally:
            store.close()

    def model_lines(self, case):
        be = case["backend"]
        pre = f"store {be} "
        m = {"type": "t", "client": "c", "hostname": "h", "created_us": T0}
        reuse = []
        if case.get("reuse"):
            reuse = [pre + f"insert {hx('hb')} {p_ev([None, T0, 1000, LA])}", pre + f"bulk {hx('hb')} {p_list([[None, T0 + U, 0, LB]], p_ev)}",
                     pre + f"delbucket {hx('hb')}", pre + f"create {hx('hb')} {storelib.p_meta(m)}"]
        return ["store reset", pre + f"create {hx('hb')} {storelib.p_meta(m)}", pre + f"create {hx('other')} {storelib.p_meta(m)}"] + reuse + [
                pre + f"bulk {hx('other')} {p_list(case['other'], p_ev)}",
                pre + f"hbloop {hx('hb')} {pulsetime_us(case['pt'])} {p_list(case['stream'], p_ev)}",
                pre + "dump",
                f"hb reduce {pulsetime_us(case['pt'])} {p_list(case['stream'], p_ev)}"]

    def model_out(self, case, answers):
        if not answers[-3].startswith("ok"):
            return {"err": answers[-3]}
        d = storelib.parse_dump(answers[-2])
        t = answer(answers[-1])
        red = t.list(t.ev)
        return {"final": [e[1:] for e in sorted(d["hb"]["events"], key=lambda e: e[1])],
                "ids": sorted(e[0] for e in d["hb"]["events"]), "reduce": [e[1:] for e in red]}

    def same(self, case, io, mo):
        # (writes of another watcher into the other bucket take ids from the same sequence on the SQL backends: the ids of
        # this bucket's events are then not the model's, which is run without that traffic)
        shifted = any("other-same-instant" in v for v in (case.get("noise") or {}).values())
        return "err" not in mo and io["final"] == mo["final"] and (shifted or io["ids"] == mo["ids"]) and io["reduce"] == mo["reduce"]

    def oracle(self, case, out):
        if "err" in out:
            return "model loop raised " + out["err"]
        if out["final"] != out["reduce"]:
            return f"bucket holds {out['final']} but heartbeat_reduce gives {out['reduce']}"
        if "other_same" in out and not out["other_same"]:
            return "the other bucket changed"
        if "steps" in out:
            prev = []
            for i, cur in enumerate(out["steps"]):
                # all but the newest event of the previous step must still be there, unchanged
                for e in prev[:-1]:
                    if e not in cur:
                        return f"heartbeat {i} altered or lost the earlier event {e}"
                prev = cur
        return None

    def nontrivial(self, case, out):
        return 1 < len(out["final"]) < len(case["stream"])

    def features(self, case, out):
        n, m = len(case["stream"]), len(out["final"])
        return [case["backend"] + ":" + ("all-merged" if m == 1 else "none-merged" if m == n else "some-merged")]

    def shrink(self, case):
        s = case["stream"]
        for i in range(len(s)):
            yield {**case, "stream": s[:i] + s[i + 1 :]}
        if case["other"]:
            yield {**case, "other": case["other"][:-1]}

    def extra_search(self, ctx, around):
        return self.gen(Ctx("thorough", ctx.seed + 1))[:6000]


PROP = C07()
