"""C19 - annotating transforms: categorize, tag, Rule.match (aw_transform/classify.py),
split_url_events (split_url_events.py), simplify_string (simplify.py)

A case is one call:
  {"k": "categorize", "rules": [[category(list of str), spec], ...], "events": [[id, ts_us, dur_us, data], ...]}
  {"k": "tag",        "rules": [[tag(str), spec], ...],              "events": ...}
  {"k": "match",      "rules": [spec, ...],                          "events": ...}   # Rule.match matrix
  {"k": "spliturl",   "events": ...}
  {"k": "simplify",   "key": str, "events": ...}
spec is the dict given to Rule(...) (keys regex / ignore_case / select_keys, each possibly absent).

`re.search`, `urlparse` and the three substitutions of simplify_string are parameters of the Lean
model; the harness evaluates the real ones and sends the result tables with the request.
"""
import copy
import itertools
import json
import re
from urllib.parse import urlparse

from ..base import Prop
from ..common import answer, canon_data, hx, p_list, p_opt, us_to_dt, us_to_td, dt_to_us, td_to_us, err_kind

WRITTEN = {
    "categorize": ["$category"],
    "tag": ["$tags"],
    "spliturl": ["$protocol", "$domain", "$path", "$params", "$options", "$identifier"],
}

# ---- encoding ---------------------------------------------------------------------------------


def enc(v):
    """value classes the transforms can tell apart: string / list of strings / anything else"""
    if isinstance(v, str):
        return ["s", v]
    if isinstance(v, list) and all(isinstance(x, str) for x in v):
        return ["l", list(v)]
    return ["o", canon_data(v)]


def enc_data(d):
    return [[k, enc(v)] for k, v in d.items()]


def p_val(e):
    if e[0] == "l":
        return "l " + p_list(e[1], hx)
    return e[0] + " " + hx(e[1])


def p_event(ev):
    i, ts, dur, data = ev
    return f"{p_opt(i)} {ts} {dur} " + p_list(enc_data(data), lambda kv: hx(kv[0]) + " " + p_val(kv[1]))


def p_rule(spec):
    sk = spec.get("select_keys")
    return (
        p_opt(spec.get("regex"), hx)
        + " "
        + ("1" if spec.get("ignore_case", False) else "0")
        + " "
        + ("N" if sk is None else "S " + p_list(sk, hx))
    )


def t_val(t):
    k = t.tok()
    if k == "l":
        return ["l", t.list(t.str)]
    return [k, t.str()]


def t_event(t):
    i = t.opt(t.int)
    ts = t.int()
    dur = t.int()
    return [i, ts, dur, t.list(lambda: [t.str(), t_val(t)])]


def mk(ev):
    from aw_core.models import Event

    return Event(id=ev[0], timestamp=us_to_dt(ev[1]), duration=us_to_td(ev[2]), data=copy.deepcopy(ev[3]))


def canon(e):
    return [e.id, dt_to_us(e.timestamp), td_to_us(e.duration), enc_data(e.data)]


def canon_in(ev):
    return [ev[0], ev[1], ev[2], enc_data(ev[3])]


# ---- the external parameters, evaluated for real ----------------------------------------------------


def search(p, ic, s):
    return re.compile(p, (re.IGNORECASE if ic else 0) | re.UNICODE).search(s) is not None


def str_values(events):
    out = []
    for ev in events:
        for v in ev[3].values():
            if isinstance(v, str) and v not in out:
                out.append(v)
    return out


def p_table(specs, events):
    pats = []
    for s in specs:
        r = s.get("regex")
        if r and r not in pats:
            pats.append(r)
    subs = str_values(events)
    bits = "".join("1" if search(p, ic, s) else "0" for ic in (False, True) for p in pats for s in subs)
    return f"{p_list(pats, hx)} {p_list(subs, hx)} {bits or '-'}"


def url_parts(u):
    try:
        r = urlparse(u)
        return [r.scheme, r.netloc, r.path, r.params, r.query, r.fragment]
    except ValueError:
        return None


class _Pat:
    def __init__(self, real, log):
        self._real, self._log = real, log

    def sub(self, repl, string, *a, **k):
        self._log.append((self._real, repl))
        return self._real.sub(repl, string, *a, **k)

    def __getattr__(self, n):
        return getattr(self._real, n)


class _Re:
    """stands in for the `re` module while simplify.py is executed: patterns it compiles (at import time or inside
    the function) and direct `re.sub` calls are logged when they substitute"""

    def __init__(self, log):
        self._log = log

    def compile(self, *a, **k):
        return _Pat(re.compile(*a, **k), self._log)

    def sub(self, pattern, repl, string, *a, **k):
        real = pattern._real if isinstance(pattern, _Pat) else re.compile(pattern)
        self._log.append((real, repl))
        return real.sub(repl, string, *a, **k)

    def __getattr__(self, n):
        return getattr(re, n)


_SUBS = None
SUBS_NOTE = None


def learned_subs():
    """the three (compiled pattern, replacement) pairs simplify_string applies to a window title, in
    the order it applies them, observed on one probe call of the real function (so that editing a
    pattern in the source changes the parameter, not the model). The probe runs a private copy of
    simplify.py executed with `re` replaced, so patterns compiled at module level are seen as well.
    None when the probe does not see exactly three substitutions (the code was restructured): the
    exact strings are then not predicted by the model - the correspondence on what the property is
    about (shape, untouched keys, a string under the key) does not need them."""
    global _SUBS, SUBS_NOTE
    if _SUBS is None:
        import importlib.util
        import sys

        import aw_transform.simplify as S

        log = []
        real = sys.modules["re"]
        sys.modules["re"] = _Re(log)
        try:
            spec = importlib.util.spec_from_file_location("aw_transform._simplify_probe", S.__file__)
            mod = importlib.util.module_from_spec(spec)
            spec.loader.exec_module(mod)
        except Exception as exc:  # noqa: BLE001 - the probe is best effort
            mod, SUBS_NOTE = None, f"probe copy of simplify.py could not be executed: {type(exc).__name__}"
        finally:
            sys.modules["re"] = real
        del log[:]
        if mod is not None:
            try:
                mod.simplify_string([mk([None, 0, 0, {"title": "(1) * t FPS: 1.0", "app": "a"}])], "title")
            except Exception as exc:  # noqa: BLE001
                SUBS_NOTE = f"probe call of simplify_string raised {type(exc).__name__}"
                del log[:]
        if len(log) == 3:
            _SUBS = list(log)
        else:
            _SUBS = False
            SUBS_NOTE = SUBS_NOTE or f"simplify_string applied {len(log)} observable substitutions to the probe title, the model has 3"
            print("note: C19 " + SUBS_NOTE + ": exact strings written by simplify_string are not predicted")
    return _SUBS or None


def p_subtables(case):
    subs = learned_subs()
    cur = []
    for ev in case["events"]:
        v = ev[3].get(case["key"])
        if isinstance(v, str) and v not in cur:
            cur.append(v)
    parts = []
    for pat, repl in subs or [(None, None)] * 3:
        nxt = [pat.sub(repl, s) if pat is not None else s for s in cur]
        parts.append(p_list(list(zip(cur, nxt)), lambda ab: hx(ab[0]) + " " + hx(ab[1])))
        cur = list(dict.fromkeys(nxt))
    return " ".join(parts)


# ---- the rule, stated directly --------------------------------------------------------------------


def rule_matches(spec, data):
    """non-empty regex found in any selected string value, case-insensitively if asked"""
    rx = spec.get("regex")
    if not rx:
        return False
    sk = spec.get("select_keys")
    vals = [data[k] for k in sk if k in data] if sk else list(data.values())
    flags = re.UNICODE | (re.IGNORECASE if spec.get("ignore_case", False) else 0)
    return any(isinstance(v, str) and re.search(rx, v, flags) is not None for v in vals)


def deepest_last(cats):
    best = ["Uncategorized"]
    depth = max([len(c) for c in cats], default=0)
    if depth >= 1:
        best = [c for c in cats if len(c) == depth][-1]
    return best


def shape(kind, written, ins, outs):
    if isinstance(outs, list) and len(outs) == 2 and outs[0] == "err" and isinstance(outs[1], str):
        return f"{kind}: raised {outs[1]} on an input inside the function's domain"
    if not isinstance(outs, list) or len(outs) != len(ins):
        return f"{kind}: returned {outs if not isinstance(outs, list) else len(outs)} for {len(ins)} events"
    for n, (a, b) in enumerate(zip(ins, outs)):
        if [a[0], a[1], a[2]] != b[:3]:
            return f"{kind}: event {n} id/timestamp/duration changed: {a[:3]} -> {b[:3]}"
        da = [kv for kv in enc_data(a[3]) if kv[0] not in written]
        db = [kv for kv in b[3] if kv[0] not in written]
        if da != db:
            return f"{kind}: event {n} unrelated data changed: {da} -> {db}"
    return None


# ---- generation pools ---------------------------------------------------------------------------

STRS = ["Firefox", "firefox", "FIREFOX - YouTube", "", "é", "É", "straße", "STRASSE", "x", "a b", "123",
        "(2) Facebook", "● file.py", "* gedit", "Cemu - FPS: 59.2 - x", "日本語", "\n", "fire\nfox", "𝔘nicode",
        "İstanbul", "ǆ", "-", "Uncategorized", "fox fox trot", "a a b", "1123", "x x"]
NONSTR = [5, None, True, 1.5, ["Firefox"], ["a", 1], {"x": "Firefox"}, [], {}, 0, False]
KEYS = ["app", "title", "url", "$category", "$tags", "k", "é", "status"]
REGEX = ["MISSING", None, "", "fire", "Fire", "FIREFOX", "fox$", "^$", "é", "É", "strasse", "ß", ".", "x*", "\\d+",
         "a|b", "(?i)you", "^\\(", "日本", "[A-Z]+", "\\s", "^.$", "i", "ǅ", "Uncat", "\\bfire", "(?s).fox",
         # groups and references to them (a rule's regex is its own: numbering starts at 1 in every rule)
         "(fire|x)\\b", "\\b(\\w+) \\1\\b", "(\\d)\\1", "(?P<w>a) (?P=w)?b", "(a)|(b)\\2"]
SELECT = ["MISSING", None, [], ["title"], ["app"], ["app", "title"], ["missing"], ["k"], ["title", "missing"],
          ["$category"], ["é"], ["title", "title"], ["$tags", "app"]]
CATS = [["A"], ["B"], ["A", "x"], ["B", "y"], ["A", "x", "z"], [], ["Uncategorized"], ["Ü", "ü"], ["", ""]]
TAGS = ["t1", "t2", "t1", "", "ü", "T 3"]
URLS = ["http://www.example.com/a;p?q=1#f", "https://example.com", "www.x.com", "", "HTTP://WWW.X.com/",
        "http://www.", "http://www", "http://ww.x.com", "http://www.www.x.com", "//www.é.com/ü", "mailto:a@b",
        "http://www.a.com:80/", "http://user@www.a.com", "http://[::1]/x", "http://[::1", "http://a]b/",
        "http://a\u2100b.com", "file:///www.x", "http://wwwx.com", "http://www.x", "x://www.?#", "http://w",
        "about:blank", "chrome://newtab/", "http://www.日本.jp/パス?く=1#ふ", "http://WwW.x.com", "http://.www.x.com"]
TITLES = ["(2) Facebook", "(1) YouTube", "● file.py - VSCode", "* gedit", "*gedit", "Cemu - FPS: 59.2 - x",
          "(3) ● FPS: 1 FPS:  22.5.", "plain", "", "( 2) x", "(2)(3) y", "  (2) z", "FPS:59", "FPS: ...", "●", "(12)\t\nq",
          "* (2) w", "●* v", "é (2)"]


def spec_of(rx, ic, sk):
    s = {}
    if rx != "MISSING":
        s["regex"] = rx
    if ic != "MISSING":
        s["ignore_case"] = ic
    if sk != "MISSING":
        s["select_keys"] = sk
    return s


def rnd_data(rng, strs=STRS, keys=KEYS):
    d = {}
    for _ in range(rng.choice([0, 1, 2, 2, 3, 4, 5])):
        k = rng.choice(keys)
        d[k] = rng.choice(strs) if rng.random() < 0.7 else copy.deepcopy(rng.choice(NONSTR))
    return d


def rnd_events(rng, mk_data, lo=0, hi=5):
    evs, t = [], rng.randint(0, 10**6) * 1000
    for _ in range(rng.randint(lo, hi)):
        t += rng.choice([0, 1000, rng.randint(-5000, 5000) * 1000])
        evs.append([rng.choice([None, None, rng.randint(0, 99)]), t, rng.choice([0, 1000, rng.randint(-10**6, 10**7)]), mk_data()])
    return evs


def rnd_spec(rng):
    return spec_of(rng.choice(REGEX), rng.choice(["MISSING", False, False, True, True]), rng.choice(SELECT))


def ev0(d, n=0):
    return [None, 1_000_000 * n, 1_000_000, d]


class C19(Prop):
    ID = "C19"
    MODULE = "AwProofs.Props.C19"
    THEOREMS = [
        "AwProofs.C19.shape_preserved_categorize",
        "AwProofs.C19.shape_preserved_tag",
        "AwProofs.C19.shape_preserved_split_url_events",
        "AwProofs.C19.shape_preserved_simplify_string",
        "AwProofs.C19.shape_preserved",
        "AwProofs.C19.categorize_deepest_last",
        "AwProofs.C19.tag_exact_in_rule_order",
        "AwProofs.C19.rule_match_iff",
        "AwProofs.C19.rule_match_iff_constructed",
        "AwProofs.C19.deepestLast_unique",
        "AwProofs.C19.categorize_nonempty_categories",
        "AwProofs.C19.simplify_string_returns_iff",
        "AwProofs.C19.shape_spelled_out",
    ]
    TRUSTED = [
        "re (CPython's regex engine) is a parameter: re.compile(p, IGNORECASE?|UNICODE).search(v) is evaluated by the harness for every (pattern, flag, string value) of a case and sent to the model as a table",
        "urllib.parse.urlparse is a parameter (six strings or ValueError per url, evaluated by the harness)",
        "the three Pattern.sub calls of simplify_string are parameters: the (pattern, replacement) pairs are observed on a probe call of the real function and evaluated by the harness with re",
        "copy.deepcopy returns an equal, disjoint copy (simplify_string)",
        "JSON values are told apart as string / list of strings / other (canonical JSON text); non-string values are opaque to the model",
    ]
    ASSUMPTIONS = [
        "rule patterns compile (re.compile raising in Rule.__init__ happens before any transform is called)",
        "select_keys is absent/None or a list of strings, ignore_case is absent or a bool, regex is absent/None or a string",
        "input lists contain distinct event objects (the three classify/split functions annotate the objects they are given)",
        "simplify_string: the key is present in every event (else KeyError; the model agrees) with a string value (else TypeError; the model agrees)",
        "split_url_events: a present 'url' value is a string (CPython's urlparse on other values is not modelled; not generated)",
        "timestamps are whole milliseconds (Event truncates on construction; that is C13's subject)",
    ]
    LEVEL_TEXT = (
        "Machine-checked Lean 4 theorems (shape_preserved for categorize/tag/split_url_events/simplify_string, "
        "categorize_deepest_last, tag_exact_in_rule_order, rule_match_iff) for all event lists, rule lists and all "
        "behaviours of the regex engine / urlparse / substitutions (they are universally quantified parameters) over a "
        "branch-for-branch model of classify.py, split_url_events.py and simplify.py; the model is compared with the "
        "real functions on exhaustive small rule lists and random cases on every run"
    )
    LEVEL_NOTE = "trusts: Lean kernel + 3 standard axioms; model-code tie is differential; regex engine, urlparse, deepcopy are parameters"
    TECHNIQUE = "Lean 4 proof over executable model (external functions as parameters) + differential correspondence check"
    RULE = (
        "hand-written boundary cases; every list of <=2 (thorough: <=3 over a smaller pool) (category|tag, rule) pairs "
        "over {empty, two patterns} x ignore_case x select_keys{none, hit, miss/non-string} x categories of depth 0..2 "
        "on four fixed events; the full Rule.match matrix of the rule pool x string/non-string/unicode data; seeded "
        "random rule lists (0..12 rules, ties, equal depths, duplicate tags, empty/None/absent regex, select_keys "
        "None/[]/missing/non-string hits, unicode case pairs) x random event lists; url pool + random urls incl. www. "
        "variants and urlparse errors; title pool x key x app presence incl. missing key / non-string value; "
        "non-trivial = some rule matched and some did not / url present / substitution changed the value"
    )

    # ---- generation ---------------------------------------------------------------------------
    def gen(self, ctx):
        learned_subs()
        out = []
        add = lambda s, c: out.append((s, c))
        R = lambda rx, ic=False, sk=None: spec_of(rx, ic, sk)
        win = [ev0({"app": "Firefox", "title": "ActivityWatch - Mozilla Firefox"}, 0),
               ev0({"app": "gedit", "title": "test.py"}, 1),
               ev0({"app": "Code", "title": "● aw-core - Visual Studio Code", "url": "http://www.github.com/x"}, 2),
               ev0({}, 3), ev0({"status": "afk", "n": 5, "l": ["Firefox"], "d": {"title": "Firefox"}}, 4)]
        # the suite's example, then ties / depths / empties
        add("boundary", {"k": "categorize", "events": win, "rules": [
            [["Test"], R("^just")], [["Test", "Subtest"], R("subtest$")], [["Test", "Ignorecase"], R("ignorecase", True)]]})
        tie = [[["A"], R("Firefox")], [["B"], R("fire", True)], [["A", "x"], R("Mozilla")], [["B", "y"], R("Activity")],
               [["C"], R(".")], [[], R(".")], [["Uncategorized"], R("gedit")]]
        add("boundary", {"k": "categorize", "events": win, "rules": tie})
        add("boundary", {"k": "categorize", "events": win, "rules": tie[::-1]})
        add("boundary", {"k": "categorize", "events": win, "rules": [[[], R(".")], [[], R("x*")]]})
        add("boundary", {"k": "categorize", "events": win, "rules": []})
        add("boundary", {"k": "categorize", "events": [], "rules": tie})
        add("boundary", {"k": "categorize", "events": win, "rules": [[["E"], R("")], [["N"], R(None)], [["M"], {}],
                                                                     [["S"], R("test", False, ["app"])], [["T"], R("test", False, ["title", "nope"])],
                                                                     [["U"], R("Firefox", False, ["l", "d", "n"])], [["V"], R("firefox", True, [])]]})
        pre = [ev0({"$category": "Firefox", "$tags": "gedit", "app": "x"}, 0), ev0({"app": "y", "$category": ["A", "x"], "$tags": ["t"]}, 1),
               ev0({"$tags": 5, "z": "gedit", "$category": None}, 2)]
        add("boundary", {"k": "categorize", "events": pre, "rules": [[["A"], R("Firefox")], [["G"], R("gedit")]]})
        add("boundary", {"k": "tag", "events": pre, "rules": [["a", R("Firefox")], ["g", R("gedit")], ["g", R("gedit")]]})
        add("boundary", {"k": "tag", "events": win, "rules": [["ff", R("firefox", True)], ["code", R("Code$")], ["ff", R("Mozilla")],
                                                              ["none", R("")], ["all", R("x*")], ["", R("^$")], ["py", R("\\.py", False, ["title"])]]})
        add("boundary", {"k": "tag", "events": win, "rules": []})
        uni = [ev0({"t": "straße"}), ev0({"t": "STRASSE"}), ev0({"t": "É"}), ev0({"t": "é"}), ev0({"t": "ǆ"}), ev0({"t": "İstanbul"}), ev0({"t": ""})]
        add("boundary", {"k": "match", "events": uni, "rules": [R(p, ic) for p in ["ß", "ss", "é", "É", "ǅ", "i", "^$", "\\w"] for ic in (False, True)]})
        add("boundary", {"k": "spliturl", "events": [ev0({"url": u, "title": "t"}, n) for n, u in enumerate(URLS) if url_parts(u)] + [ev0({"title": "no url"}, 99)]})
        add("boundary", {"k": "spliturl", "events": [ev0({"$domain": "old", "url": "http://www.a.b/c", "$path": 5, "z": 1})]})
        for u in URLS:
            add("boundary", {"k": "spliturl", "events": [ev0({"a": 1}), ev0({"url": u, "x": "y"}, 1), ev0({"url": "http://www.b.c"}, 2)]})
        for key, app in itertools.product(["title", "name"], [True, False]):
            add("boundary", {"k": "simplify", "key": key,
                             "events": [ev0({**({"app": "a"} if app else {}), key: t, "other": t}, n) for n, t in enumerate(TITLES)]})
        add("boundary", {"k": "simplify", "key": "title", "events": [ev0({"title": "(1) a"}), ev0({"app": "x"}, 1)]})
        add("boundary", {"k": "simplify", "key": "title", "events": [ev0({"title": 5, "app": "x"})]})
        add("boundary", {"k": "simplify", "key": "title", "events": []})
        add("boundary", {"k": "simplify", "key": "app", "events": [ev0({"app": "(1) * a", "title": "(2) t"})]})

        # exhaustive small scope -----------------------------------------------------------------
        e4 = [ev0({"app": "Firefox", "title": "fire"}, 0), ev0({"app": 5, "title": "FIRE"}, 1), ev0({"k": "fire"}, 2), ev0({}, 3)]
        rules_small = [R(rx, ic, sk) for rx in ("", "fire", "F") for ic in (False, True) for sk in (None, ["title"], ["app", "zz"])]
        add("grid-match", {"k": "match", "events": e4, "rules": rules_small})
        add("grid-match", {"k": "match", "events": [ev0({"a": s, "b": copy.deepcopy(n)}) for s in STRS for n in NONSTR[:4]][:40],
                           "rules": [R(rx, ic, sk) for rx in REGEX[2:] for ic in (False, True) for sk in (None, ["a"], ["b", "a"])]})
        cats_small = [["A"], ["B"], ["A", "x"], []]
        pairs = [[c, r] for c in cats_small for r in rules_small]
        for k in range(0, 3):
            for combo in itertools.product(pairs, repeat=k):
                add("grid-categorize", {"k": "categorize", "events": e4, "rules": [list(x) for x in combo]})
        tpairs = [[t, r] for t in ("t1", "t2") for r in rules_small]
        for k in range(0, 3):
            for combo in itertools.product(tpairs, repeat=k):
                add("grid-tag", {"k": "tag", "events": e4, "rules": [list(x) for x in combo]})
        if not ctx.quick:
            rules3 = [R(rx, ic, sk) for rx in ("", "fire") for ic in (False, True) for sk in (None, ["title"])]
            pairs3 = [[c, r] for c in (["A"], ["B"], ["A", "x"]) for r in rules3]
            for combo in itertools.product(pairs3, repeat=3):
                add("grid-categorize", {"k": "categorize", "events": e4, "rules": [list(x) for x in combo]})

        # seeded random -----------------------------------------------------------------------------
        rng = ctx.rng("c19")
        for _ in range(ctx.pick(2500, 60000)):
            evs = rnd_events(rng, lambda: rnd_data(rng))
            n = rng.choice([0, 1, 2, 3, 4, 5, 7, 12])
            kind = rng.choice(["categorize", "categorize", "tag", "match"])
            if kind == "categorize":
                rules = [[list(rng.choice(CATS)), rnd_spec(rng)] for _ in range(n)]
            elif kind == "tag":
                rules = [[rng.choice(TAGS), rnd_spec(rng)] for _ in range(n)]
            else:
                rules = [rnd_spec(rng) for _ in range(n)]
            add("random-" + kind, {"k": kind, "events": evs, "rules": rules})
        # rules aimed at the events: patterns cut out of the events' own strings, case-flipped
        for _ in range(ctx.pick(1500, 40000)):
            evs = rnd_events(rng, lambda: rnd_data(rng), 1, 4)
            svals = [v for v in str_values(evs) if v] or ["x"]
            ks = [k for ev in evs for k in ev[3]] or ["k"]
            rules = []
            for _ in range(rng.randint(1, 6)):
                v = rng.choice(svals)
                a = rng.randint(0, len(v) - 1)
                frag = v[a : a + rng.randint(1, 4)]
                frag = rng.choice([frag, frag.upper(), frag.lower(), frag.swapcase()])
                sk = rng.choice([None, None, [rng.choice(ks)], [rng.choice(ks), "nope"], []])
                rules.append([list(rng.choice(CATS)), spec_of(re.escape(frag), rng.choice([False, True]), sk)])
            kind = rng.choice(["categorize", "tag"])
            if kind == "tag":
                rules = [[rng.choice(TAGS), r] for _, r in rules]
            add("random-aimed-" + kind, {"k": kind, "events": evs, "rules": rules})
        for _ in range(ctx.pick(800, 20000)):
            def ud():
                d = rnd_data(rng, keys=["title", "$domain", "$path", "k", "$protocol"])
                if rng.random() < 0.75:
                    if rng.random() < 0.5:
                        u = rng.choice(URLS)
                    else:
                        u = (rng.choice(["http", "https", "", "ftp", "HTTP", "x-y"]) + rng.choice(["://", ":", "", "//"])
                             + rng.choice(["www.", "WWW.", "www", "ww.", "", "www.www.", ".www.", "w"]) + rng.choice(["a.com", "", "é.fr", "b:8080", "u@c.d", "[::1]", "[x"])
                             + rng.choice(["", "/", "/p/q;r", "/ü"]) + rng.choice(["", "?a=1&b=2", "?"]) + rng.choice(["", "#frag", "#"]))
                    ins = rng.randint(0, len(d))
                    items = list(d.items())
                    items.insert(ins, ("url", u))
                    d = dict(items)
                return d
            add("random-spliturl", {"k": "spliturl", "events": rnd_events(rng, ud)})
        for _ in range(ctx.pick(800, 20000)):
            key = rng.choice(["title", "title", "title", "name", "app"])
            def sd():
                d = rnd_data(rng, strs=TITLES, keys=["app", "k", "title", "name", "$category"])
                r = rng.random()
                if r < 0.9:
                    t = rng.choice(TITLES) if rng.random() < 0.6 else "".join(rng.choice(["(", ")", "1", "23", " ", "*", "●", "FPS:", "FPS: ", "4.5", ".", "a", "\t"]) for _ in range(rng.randint(0, 8)))
                    d[key] = t
                elif r < 0.95:
                    d.pop(key, None)
                else:
                    d[key] = copy.deepcopy(rng.choice(NONSTR))
                return d
            add("random-simplify", {"k": "simplify", "key": key, "events": rnd_events(rng, sd)})
        return out

    # ---- both sides ---------------------------------------------------------------------------------
    def impl(self, case):
        from aw_transform.classify import Rule, categorize, tag
        from aw_transform.simplify import simplify_string
        from aw_transform.split_url_events import split_url_events

        k = case["k"]
        evs = [mk(e) for e in case["events"]]
        if k == "match":
            rules = [Rule(copy.deepcopy(s)) for s in case["rules"]]
            out = [[bool(r.match(e)) for e in evs] for r in rules]
            return {"out": out, "inp": [canon(e) for e in evs]}
        try:
            if k == "categorize":
                r = categorize(evs, [(list(c), Rule(copy.deepcopy(s))) for c, s in case["rules"]])
            elif k == "tag":
                r = tag(evs, [(t, Rule(copy.deepcopy(s))) for t, s in case["rules"]])
            elif k == "spliturl":
                r = split_url_events(evs)
            elif k == "simplify":
                r = simplify_string(evs, case["key"])
            else:
                raise RuntimeError("unknown case kind " + k)
        except (KeyError, TypeError, ValueError, AttributeError) as exc:
            return {"out": ["err", err_kind(exc)], "inp": [canon(e) for e in evs]}
        return {"out": [canon(e) for e in r], "inp": [canon(e) for e in evs]}

    def model_lines(self, case):
        k = case["k"]
        evs = p_list(case["events"], p_event)
        if k == "categorize":
            rl = p_list(case["rules"], lambda cr: p_list(cr[0], hx) + " " + p_rule(cr[1]))
            return [f"cls categorize {p_table([s for _, s in case['rules']], case['events'])} {rl} {evs}"]
        if k == "tag":
            rl = p_list(case["rules"], lambda cr: hx(cr[0]) + " " + p_rule(cr[1]))
            return [f"cls tag {p_table([s for _, s in case['rules']], case['events'])} {rl} {evs}"]
        if k == "match":
            return [f"cls match {p_table(case['rules'], case['events'])} {p_list(case['rules'], p_rule)} {evs}"]
        if k == "spliturl":
            urls = list(dict.fromkeys(e[3]["url"] for e in case["events"] if isinstance(e[3].get("url"), str)))
            tb = p_list(urls, lambda u: hx(u) + " " + ("N" if url_parts(u) is None else "S " + " ".join(hx(x) for x in url_parts(u))))
            return [f"cls spliturl {tb} {evs}"]
        if k == "simplify":
            return [f"cls simplify {hx(case['key'])} {p_subtables(case)} {evs}"]
        raise RuntimeError("unknown case kind " + k)

    def model_out(self, case, answers):
        t = answer(answers[0])
        k = case["k"]
        ins = [canon_in(e) for e in case["events"]]
        if k == "match":
            return {"out": t.list(lambda: t.list(lambda: t.tok() == "1")), "inp": ins}
        if k in ("categorize", "tag"):
            out = t.list(lambda: t_event(t))
            return {"out": out, "inp": out}  # annotated in place: the caller's objects are the returned ones
        tag_ = t.tok()
        if tag_ == "X":
            return {"out": ["err", t.tok()], "inp": None}  # which events were already annotated is not modelled
        out = t.list(lambda: t_event(t))
        return {"out": out, "inp": out if k == "spliturl" else ins}

    def in_domain(self, case):
        """the inputs the property speaks about (split_url_events: urlparse accepts every url;
        simplify_string: the key is present with a string value)"""
        k = case["k"]
        if k == "spliturl":
            return all("url" not in e[3] or (isinstance(e[3]["url"], str) and url_parts(e[3]["url"]) is not None) for e in case["events"])
        if k == "simplify":
            return all(isinstance(e[3].get(case["key"]), str) for e in case["events"])
        return True

    def same(self, case, impl_out, model_out):
        """The correspondence is compared on what the property is about: the returned events - id,
        timestamp, duration, the entries under unwritten keys in dict order, and the written keys
        (categorize/tag/match: their exact values; split_url_events/simplify_string: present, with a
        string). The exact strings written by split_url_events/simplify_string, the behaviour outside
        the functions' domain, and what happens to the caller's objects are compared too but only
        recorded in the evidence histogram (see `features`): the property does not speak about them,
        so a change there must not raise an alarm."""
        k = case["k"]
        a, b = impl_out["out"], model_out["out"]
        self._exact = (id(case), a == b)
        if k == "match" or a == b:
            return a == b
        if not self.in_domain(case):
            return True
        written = WRITTEN.get(k) or [case["key"]]
        exact_vals = k in ("categorize", "tag")

        def proj(o):
            if not isinstance(o, list) or o[:1] == ["err"]:
                return o
            return [[e[0], e[1], e[2], [kv for kv in e[3] if kv[0] not in written],
                     sorted([kk, v if exact_vals else v[0]] for kk, v in e[3] if kk in written)] for e in o]

        return proj(a) == proj(b)

    # ---- the property -------------------------------------------------------------------------------
    def oracle(self, case, out):
        k = case["k"]
        o = out["out"]
        ins = case["events"]
        if k == "match":
            for spec, row in zip(case["rules"], o):
                for e, got in zip(ins, row):
                    if got != rule_matches(spec, e[3]):
                        return f"Rule({spec}).match on data {e[3]} gave {got}, the rule says {not got}"
            if len(o) != len(case["rules"]):
                return "match matrix has the wrong size"
            return None
        if k in ("categorize", "tag"):
            key = WRITTEN[k][0]
            w = shape(k, [key], ins, o)
            if w:
                return w
            for n, (a, b) in enumerate(zip(ins, o)):
                hit = [c for c, spec in case["rules"] if rule_matches(spec, a[3])]
                exp = ["l", deepest_last(hit)] if k == "categorize" else ["l", hit]
                got = [v for kk, v in b[3] if kk == key]
                if got != [exp]:
                    return f"{k}: event {n} data {a[3]}: {key} = {got}, the rule says {exp[1]}"
            return None
        if k == "spliturl":
            if any("url" in e[3] and (not isinstance(e[3]["url"], str) or url_parts(e[3]["url"]) is None) for e in ins):
                return None  # outside the function's domain (urlparse raises)
            w = shape(k, WRITTEN[k], ins, o)
            if w:
                return w
            for n, (a, b) in enumerate(zip(ins, o)):
                if "url" not in a[3]:
                    if b[3] != enc_data(a[3]):
                        return f"spliturl: event {n} without url changed"
                else:
                    d = dict((kk, v) for kk, v in b[3])
                    for kk in WRITTEN[k]:
                        if kk not in d or d[kk][0] != "s":
                            return f"spliturl: event {n}: {kk} not set to a string"
            return None
        if k == "simplify":
            if any(not isinstance(e[3].get(case["key"]), str) for e in ins):
                return None  # key present (with a string) is the function's precondition
            w = shape(k, [case["key"]], ins, o)
            if w:
                return w
            for n, b in enumerate(o):
                got = [v for kk, v in b[3] if kk == case["key"]]
                if len(got) != 1 or got[0][0] != "s":
                    return f"simplify: event {n}: {case['key']} is not a string afterwards"
            return None
        return "unknown case kind"

    def nontrivial(self, case, out):
        k, o = case["k"], out["out"]
        if k == "match":
            flat = [x for row in o for x in row]
            return True in flat and False in flat
        if k in ("categorize", "tag"):
            hits = [[rule_matches(s, e[3]) for _, s in case["rules"]] for e in case["events"]]
            flat = [x for row in hits for x in row]
            return True in flat and False in flat
        if k == "spliturl":
            return isinstance(o, list) and o[:1] != ["err"] and any("url" in e[3] for e in case["events"])
        return isinstance(o, list) and o[:1] != ["err"] and [canon_in(e) for e in case["events"]] != o

    def features(self, case, out):
        k, o = case["k"], out["out"]
        fs = []
        if o[:1] == ["err"] and len(o) == 2 and isinstance(o[1], str):
            ex = getattr(self, "_exact", None)
            return [f"{k}:raises-{o[1]}"] + (["model-vs-code:" + ("identical-output" if ex[1] else "DIFFERS-only-where-the-property-is-silent") + "(outside-domain)"]
                                             if ex and ex[0] == id(case) else [])
        if k in ("categorize", "tag", "match"):
            specs = case["rules"] if k == "match" else [s for _, s in case["rules"]]
            for s in specs:
                if not s.get("regex"):
                    fs.append("rule:empty-or-missing-regex")
                if s.get("select_keys"):
                    for e in case["events"]:
                        for key in s["select_keys"]:
                            fs.append("select_keys:" + ("missing" if key not in e[3] else "string" if isinstance(e[3][key], str) else "non-string"))
                elif "select_keys" in s:
                    fs.append("select_keys:None-or-[]")
                if s.get("ignore_case"):
                    fs.append("rule:ignore-case")
        if k == "match":
            for spec, row in zip(case["rules"], o):
                for e, got in zip(case["events"], row):
                    fs.append("match:" + str(got))
                    if spec.get("ignore_case") and got and spec.get("regex") and not rule_matches({**spec, "ignore_case": False}, e[3]):
                        fs.append("match:only-because-ignore-case")
        if k == "categorize":
            for e in case["events"]:
                hit = [c for c, s in case["rules"] if rule_matches(s, e[3])]
                d = max([len(c) for c in hit], default=0)
                top = [c for c in hit if len(c) == d]
                fs.append("categorize:" + ("uncategorized-no-match" if not hit else "uncategorized-only-empty-categories" if d == 0
                                           else "unique-deepest" if len(top) == 1 else "tie-same-category" if all(c == top[0] for c in top) else "tie-later-wins"))
                if "$category" in e[3]:
                    fs.append("categorize:overwrites-existing")
        if k == "tag":
            for e in case["events"]:
                n = sum(1 for t, s in case["rules"] if rule_matches(s, e[3]))
                fs.append("tag:" + ("none" if n == 0 else "all" if n == len(case["rules"]) else "some"))
        if k == "spliturl":
            for e in case["events"]:
                u = e[3].get("url")
                fs.append("spliturl:" + ("no-url" if "url" not in e[3] else "www-stripped" if isinstance(u, str) and url_parts(u) and url_parts(u)[1][:4] == "www." else "url"))
        if k == "simplify" and isinstance(o, list):
            for a, b in zip(case["events"], o):
                fs.append("simplify:" + ("changed" if canon_in(a) != b else "unchanged") + ("+app" if "app" in a[3] and case["key"] == "title" else ""))
        # what happened to the caller's objects (not part of the property; recorded only)
        ex = getattr(self, "_exact", None)
        if ex and ex[0] == id(case):
            fs.append(("model-vs-code:identical-output" if ex[1] else "model-vs-code:DIFFERS-only-where-the-property-is-silent")
                      + ("" if self.in_domain(case) else "(outside-domain)"))
        if k != "match":
            ins = [canon_in(e) for e in case["events"]]
            if k == "simplify":
                fs.append("caller-objects:" + ("untouched-as-modelled" if out["inp"] == ins else "MUTATED-unlike-model"))
            elif isinstance(o, list) and o[:1] != ["err"]:
                fs.append("caller-objects:" + ("annotated-in-place-as-modelled" if out["inp"] == o else "NOT-annotated-unlike-model"))
        return fs

    def shrink(self, case):
        evs = case["events"]
        for i in range(len(evs)):
            yield {**case, "events": evs[:i] + evs[i + 1 :]}
        if "rules" in case:
            rs = case["rules"]
            for i in range(len(rs)):
                yield {**case, "rules": rs[:i] + rs[i + 1 :]}
            for i, r in enumerate(rs):
                spec = r if case["k"] == "match" else r[1]
                for key in ("select_keys", "ignore_case"):
                    if key in spec:
                        s2 = {kk: v for kk, v in spec.items() if kk != key}
                        yield {**case, "rules": rs[:i] + [s2 if case["k"] == "match" else [r[0], s2]] + rs[i + 1 :]}
        for i, e in enumerate(evs):
            for key in list(e[3]):
                d = {kk: v for kk, v in e[3].items() if kk != key}
                yield {**case, "events": evs[:i] + [[e[0], e[1], e[2], d]] + evs[i + 1 :]}
            if e[0] is not None:
                yield {**case, "events": evs[:i] + [[None, e[1], e[2], e[3]]] + evs[i + 1 :]}

    def extra_search(self, ctx, around):
        from ..base import Ctx

        return self.gen(Ctx("thorough" if ctx.quick else "quick", ctx.seed + 1))


PROP = C19()
