"""C01 - stored events come back exactly as inserted, and the store owns its copy"""
import copy
import json

from ..base import Ctx, Prop
from ..common import answer, canon_data, dt_to_us, ev_tuple, hx, mk_event, p_ev, p_list, p_opt, td_to_us, us_to_dt
from .. import storegen, storelib

T0 = storegen.T0
DAY = 86_400_000_000
Y2100 = 4_102_444_800_000_000
P51 = 2**51
P31S = 2**31 * 10**6

DATAS = [
    "{}",
    json.dumps({"app": "x", "title": "ü\"'\\ ☃ \U0001F600"}, ensure_ascii=False),
    json.dumps({"n": [1, 2.5, None, {"deep": {"k": [True, "s"]}}], "f": 1e-7, "neg": -3}),
    json.dumps({"quote": "a 'b' \"c\"", "nl": "line1\nline2", "empty": "", "zero": 0}),
]


def canon(t):
    return canon_data(json.loads(t))


class C01(Prop):
    ID = "C01"
    MODULE = "AwProofs.Props.C01"
    THEOREMS = [
        "AwProofs.C01." + n
        for n in (
            "sqlite_roundtrip", "peewee_duration_roundtrip", "peewee_roundtrip", "memory_roundtrip",
            "insert_assigns_fresh_id_sqlite", "ids_nodup_sqlite", "get_after_insert_sqlite", "bulk_insert_sqlite",
            "insert_assigns_fresh_id_memory", "ids_nodup_memory", "get_after_insert_memory", "bulk_insert_memory",
            "insert_assigns_fresh_id_peewee", "ids_nodup_peewee", "get_after_insert_peewee", "bulk_insert_peewee",
            "separated", "api_preserves_separation", "mutation_preserves_separation", "reachable_separated",
            "store_owns_copy", "store_owns_copy_step", "client_holds_data",
            "heap_insert_refines_value_model", "heap_insert_returns",
        )
    ]
    WORKERS = 10
    MODEL_NEEDS_IMPL = True  # ownership traces: mutation steps send the mutated object's observed state
    LEVEL_TEXT = 'Lean 4 theorems over the codec, store and heap models: sqlite_roundtrip (every ms-aligned instant, every duration) / peewee_duration_roundtrip (binary64 on Rat, every duration up to 2^43 us), insert_assigns_fresh_id_B, get_after_insert_B, bulk_insert_B (listing and lookup return the inserted event), store_owns_copy / separated / api_preserves_separation (no client mutation changes an observation, for every reachable heap state); the models are compared with the three real backends on every run (codec cases incl. the 2038-2041 / 2^51 us window, id histories with deletions, ownership traces against the heap model)'
    LEVEL_NOTE = "trusts: Lean kernel + 3 standard axioms; binary64 model vs hardware (compared every run by C13's fl stream); JSON text and peewee timestamp-text round trips; nested data below the data dict is one heap cell; hypotheses: 1000 | T (sqlite: nothing else since rows are decoded with integers, F24); peewee: D <= 2^43 us"
    TECHNIQUE = "Lean 4 proof (float error bounds on Rat, heap-separation invariant) + differential correspondence"
    RULE = (
        "codec: events with instants uniform over 1970..2100, in the 2038-2041 / 2^51 µs windows, at ms edges, offsets "
        "in [-14h,+14h], durations 0 / 1 µs / random µs / 30 d, nested unicode JSON data, single and bulk insertion, each "
        "read back by listing and by id on all three real backends; ownership: random traces of API calls interleaved "
        "with client mutations of passed-in events, handed-out events and metadata, and dicts given to create/update; "
        "non-trivial = codec case with a non-zero sub-millisecond duration part, or ownership trace with a mutation after a write"
    )

    # ---- generation ------------------------------------------------------------------------------
    def gen(self, ctx):
        out = []
        rng = ctx.rng("c01")

        def instant():
            k = rng.random()
            if k < 0.45:
                t = rng.randrange(0, Y2100 // 1000) * 1000
            elif k < 0.65:
                t = rng.randrange(P31S // 1000, P51 // 1000) * 1000
            elif k < 0.75:
                t = (P51 // 1000 + rng.randint(-5, 5)) * 1000
            elif k < 0.85:
                t = rng.randrange(0, Y2100 // 10**6) * 10**6 + rng.choice([0, 1000, 999000, 500000])
            else:
                t = T0 + rng.randrange(0, 10**6) * 1000
            return min(max(t, 0), Y2100 - 1000)

        def early_1970():
            """a wall-clock instant in the first day of 1970 at a positive UTC offset: the UTC instant precedes the epoch"""
            off = rng.choice([60, 345, 765, 840])
            local = rng.randrange(0, off * 60 * 1000) * 1000  # wall-clock µs since 1970-01-01T00:00 local
            return local - off * 60 * 10**6, off

        def duration(t):
            k = rng.random()
            if k < 0.04:
                # an event may be given a negative duration (the schema allows it, heartbeat_merge has a rule for it): it is
                # stored and returned like any other
                return -rng.choice([1, 999, 1500, 250_000, 10**6, 3 * 10**6 + 1, DAY, 30 * DAY - 7])
            if k < 0.15:
                return 0
            if k < 0.25:
                return 1
            if k < 0.35:
                return 30 * DAY
            if k < 0.55 and t < P51:
                return max(0, P51 - t + rng.randint(-3, 10**7))
            if k < 0.8:
                return rng.randrange(0, 30 * DAY)
            return rng.randrange(0, 10**7)

        for _ in range(ctx.pick(700, 20000)):
            n = rng.choice([1, 1, 2, 5])
            evs = []
            for _ in range(n):
                t = instant()
                evs.append([None, t, min(duration(t), 31 * DAY), rng.choice(DATAS)])
            case = {"k": "codec", "bulk": rng.random() < 0.5, "events": evs, "off": rng.choice([0, 0, 60, -300, 345, 840, -840, 765])}
            for be in storelib.BACKENDS:
                out.append(("codec", {**case, "backend": be}))
        # wall-clock dates of 1970 east of Greenwich whose UTC instant precedes the epoch (negative instants)
        for _ in range(ctx.pick(60, 1500)):
            t, off = early_1970()
            evs = [[None, t, rng.choice([0, 1, 1500, 10**6, rng.randrange(0, 3 * 86_400 * 10**6)]), rng.choice(DATAS)]]
            if rng.random() < 0.4:
                t2, _ = early_1970()
                evs.append([None, t2, rng.choice([0, 999, 60 * 10**6]), rng.choice(DATAS)])
            case = {"k": "codec", "bulk": rng.random() < 0.5, "events": evs, "off": off}
            for be in storelib.BACKENDS:
                out.append(("codec-before-epoch", {**case, "backend": be}))
        # data values that Python's == cannot tell apart (1, True, 1.0; 0, False) next to each other in one call
        JT = storegen.LABELS_JSON_TYPES
        for _ in range(ctx.pick(40, 600)):
            n = rng.choice([2, 3, 5])
            first = rng.randrange(len(JT))
            evs = [[None, T0 + k * 1000, 1000, JT[(first + k * rng.choice([1, 1, 2])) % len(JT)]] for k in range(n)]
            case = {"k": "codec", "bulk": rng.random() < 0.7, "events": evs, "off": 0}
            for be in storelib.BACKENDS:
                out.append(("codec-json-types", {**case, "backend": be}))
        # bulk inserts larger than any batch the stores use internally (100), of sizes no batch size divides
        for n in ((101, 257) if ctx.quick else (101, 199, 250, 257, 1001)):
            evs = [[None, T0 + j * 1000, 1000 + j, DATAS[j % len(DATAS)]] for j in range(n)]
            for be in storelib.BACKENDS:
                out.append(("codec-big-bulk", {"k": "codec", "bulk": True, "events": evs, "off": 0, "backend": be}))
        # texts that JSON carries only escaped (half of a surrogate pair: a title cut in the middle of an emoji; NUL) or that some
        # tools take for line ends; the model's strings are UTF-8, so these are judged on the real stores alone
        ODD = ["\ud83d", "half \ude00 pair", "nul\x00char", "line\u2028sep\u2029", "\x7f\x80\ufffe", "caf\u00e9 \U0001f600"]
        for k in range(ctx.pick(12, 120)):
            txt = ODD[k % len(ODD)]
            evs = [[None, T0 + j * 1000, 1000, json.dumps({"title": txt, txt: j, "nested": {"l": [txt]}}, ensure_ascii=True)] for j in range(rng.choice([1, 3]))]
            case = {"k": "codec", "bulk": k % 2 == 0, "events": evs, "off": 0, "no_model": True}
            for be in storelib.BACKENDS:
                out.append(("codec-odd-text", {**case, "backend": be}))
        # directed at the region the float-encoding proof has to exclude: instants in 2038..2041 whose
        # double encoding (T / 1e6) * 1e6 is off by a quarter microsecond, ending beyond 2^51 µs
        for _ in range(ctx.pick(150, 5000)):
            while True:
                t = rng.randrange(P31S // 1000, P51 // 1000) * 1000
                if (t / 1e6) * 1e6 != t:
                    break
            d = P51 - t + rng.randrange(0, 20 * DAY)
            case = {"k": "codec", "bulk": rng.random() < 0.3, "events": [[None, t, d, "{}"]], "off": 0}
            for be in storelib.BACKENDS:
                out.append(("codec-2^51", {**case, "backend": be}))
        # ids stay unique (and listing / lookup stay right) when inserts are interleaved with deletions
        for _ in range(ctx.pick(120, 2000)):
            g = storegen.HistGen(rng, nbuckets=2, grid=5)
            if g.base == storegen.FUTURE_BASE or g.base in storegen.FAR_BASES:
                g.base = storegen.T0  # this property speaks about dates from 1970 to 2100
            g.start()
            for _ in range(rng.randint(4, 25)):
                b = rng.choice(g.buckets)
                r = rng.random()
                if r < 0.5:
                    g.op_insert(b)
                elif r < 0.62:
                    g.op_bulk(b)
                elif r < 0.87:
                    g.op_delete(b)
                else:
                    g.op_read(b)
            for be in storelib.BACKENDS:
                out.append(("ids-history", {"k": "hist", "backend": be, "ops": g.ops}))
        for _ in range(ctx.pick(300, 4000)):
            tr = self._trace(rng)
            for be in storelib.BACKENDS:
                out.append(("ownership", {"k": "own", "backend": be, "trace": tr}))
        return out

    def _trace(self, rng):
        tr = [["create", json.dumps({"k": [1, {"z": 2}]})]]
        nobj = 0
        nh = 0
        wrote = False
        for _ in range(rng.randint(3, 14)):
            r = rng.random()
            if r < 0.2 or nobj == 0:
                tr.append(["new", [None, T0 + rng.randrange(5) * 10**6, rng.choice([0, 10**6, 1500]), rng.choice(DATAS[1:])]])
                nobj += 1
            elif r < 0.35:
                src = rng.randrange(nobj)
                tr.append(["insert", src])
                nobj += 1  # the returned event is a client-held object too
                wrote = True
                if rng.random() < 0.5:  # change the passed-in or the returned event right after the call
                    tr.append(["mut", rng.choice([src, nobj - 1]), rng.choice(["data-top", "data-nested", "data-nested", "data-assign", "ts", "id"])])
            elif r < 0.42:
                tr.append(["bulk", [rng.randrange(nobj) for _ in range(rng.randint(1, 3))]])
                wrote = True
            elif r < 0.62:
                tr.append(["mut", rng.randrange(nobj), rng.choice(["data-top", "data-nested", "data-assign", "ts", "dur", "id", "data-clear"])])
            elif r < 0.70 and wrote:
                tr.append(["get"])
                nobj += 1  # first returned event (if any) becomes addressable
                if rng.random() < 0.6:  # ... and is what a client is most likely to change
                    tr.append(["mut", nobj - 1, rng.choice(["data-top", "data-nested", "data-nested", "data-clear", "ts", "dur", "id"])])
            elif r < 0.75 and wrote:
                tr.append(["getbyid"])
                nobj += 1
                if rng.random() < 0.6:
                    tr.append(["mut", nobj - 1, rng.choice(["data-top", "data-nested", "data-nested", "data-clear", "ts", "dur", "id"])])
            elif r < 0.82:
                tr.append([rng.choice(["meta", "buckets"])])
                nh += 1
            elif r < 0.9 and nh:
                tr.append(["mutmeta", rng.randrange(nh), rng.choice(["name", "data-top", "data-nested", "type"])])
            elif r < 0.94:
                tr.append(["mutcreate", rng.choice(["top", "nested"])])
            elif r < 0.97:
                tr.append(["update", json.dumps({"u": [1, {"w": 3}]})])
                tr.append(["mutupdate", rng.choice(["top", "nested"])])
            elif wrote:
                tr.append([rng.choice(["replacelast", "replace"]), rng.randrange(nobj)])
        return tr

    # ---- real code ---------------------------------------------------------------------------------
    def impl(self, case):
        if case["k"] == "hist":
            r = storelib.Runner(case["backend"]).run(case["ops"])
            r["outs"] = [storelib.norm_err(case["backend"], o) for o in r["outs"]]
            return r
        store = storelib.Store(case["backend"])
        try:
            if case["k"] == "codec":
                return self._impl_codec(store, case)
            return self._impl_own(store, case)
        finally:
            store.close()

    def _impl_codec(self, store, case):
        ds = store.ds
        ds.create_bucket("c", "t", "cl", "h", created=us_to_dt(T0))
        b = ds["c"]
        evs = [mk_event(e, case["off"]) for e in case["events"]]
        ids = []
        if case["bulk"]:
            b.insert(evs)
        else:
            for e in evs:
                r = b.insert(e)
                ids.append(r.id)
        listed = sorted((ev_tuple(e) for e in b.get(-1)), key=lambda e: e[0])
        byid = []
        for e in listed:
            g = b.get_by_id(e[0])
            byid.append(None if g is None else ev_tuple(g))
        return {"ids": ids, "listed": listed, "byid": byid}

    def _observe(self, store):
        d = storelib.dump(store)
        return d

    def _impl_own(self, store, case):
        ds = store.ds
        objs, handles = [], []
        create_data, update_data = None, None
        steps = []
        for op in case["trace"]:
            k = op[0]
            before = self._observe(store) if k.startswith("mut") else None
            try:
                if k == "create":
                    create_data = json.loads(op[1])
                    ds.create_bucket("o", "t", "cl", "h", created=us_to_dt(T0), name="nm", data=create_data)
                    bucket = ds["o"]
                elif k == "new":
                    objs.append(mk_event(op[1]))
                elif k == "insert":
                    r = bucket.insert(objs[op[1]])
                    objs.append(r if r is not None else mk_event([None, T0, 0, "{}"]))
                elif k == "bulk":
                    bucket.insert([objs[i] for i in op[1]])
                elif k == "mut":
                    e = objs[op[1]]
                    w = op[2]
                    if w == "data-top":
                        e.data["mutated"] = "top"
                    elif w == "data-nested":
                        for v in e.data.values():
                            if isinstance(v, list):
                                v.append("nested-mutation")
                                break
                        else:
                            e.data["mutated2"] = "top"
                    elif w == "data-assign":
                        e.data = {"assigned": True}
                    elif w == "data-clear":
                        e.data.clear()
                    elif w == "ts":
                        e.timestamp = e.timestamp + storelib.us_to_dt(1_000_000).__sub__(storelib.us_to_dt(0))
                    elif w == "dur":
                        e.duration = e.duration + storelib.us_to_dt(7).__sub__(storelib.us_to_dt(0))
                    elif w == "id":
                        e.id = 424242
                elif k == "get":
                    r = bucket.get(-1)
                    objs.append(r[0] if r else mk_event([None, T0, 0, "{}"]))
                elif k == "getbyid":
                    r = bucket.get(1)
                    g = bucket.get_by_id(r[0].id) if r else None
                    objs.append(g if g is not None else mk_event([None, T0, 0, "{}"]))
                elif k == "meta":
                    handles.append(bucket.metadata())
                elif k == "buckets":
                    handles.append(ds.buckets()["o"])
                elif k == "mutmeta":
                    m = handles[op[1]]
                    w = op[2]
                    if w == "name":
                        m["name"] = "client-renamed"
                    elif w == "type":
                        m["type"] = "client-type"
                    elif w == "data-top":
                        m["data"]["client"] = 1
                    else:
                        for v in m["data"].values():
                            if isinstance(v, list):
                                v.append("nested-mutation")
                                break
                        else:
                            m["data"]["client2"] = 2
                elif k == "mutcreate":
                    if op[1] == "top":
                        create_data["client"] = 1
                    else:
                        create_data["k"].append("nested-mutation")
                elif k == "update":
                    update_data = json.loads(op[1])
                    ds.update_bucket("o", data=update_data)
                elif k == "mutupdate":
                    if op[1] == "top":
                        update_data["client"] = 1
                    else:
                        update_data["u"].append("nested-mutation")
                elif k == "replacelast":
                    bucket.replace_last(objs[op[1]])
                elif k == "replace":
                    r = bucket.get(1)
                    if r:
                        bucket.replace(r[0].id, objs[op[1]])
                res = "ok"
            except Exception as ex:
                res = "err:" + type(ex).__name__
            after = self._observe(store) if k.startswith("mut") else None
            steps.append({"res": res, "changed": (before != after) if before is not None else None,
                          "before": before if before != after else None, "after": after if before != after else None,
                          "cell": self._cell(op, objs, handles, create_data, update_data)})
        return {"steps": steps, "final": self._observe(store),
                "objs": [ev_tuple(o) for o in objs], "handles": [storelib.meta_tuple(h) for h in handles]}

    @staticmethod
    def _cell(op, objs, handles, create_data, update_data):
        """state of the client object a mutation step touched, as observed on the real object after the
        step (what the heap model is told the mutation did); None for other steps"""
        k = op[0]
        try:
            if k == "mut":
                return ev_tuple(objs[op[1]])
            if k == "mutmeta":
                return storelib.meta_tuple(handles[op[1]])
            if k == "mutcreate":
                return canon_data(create_data)
            if k == "mutupdate":
                return canon_data(update_data)
        except Exception:
            return None
        return None

    # ---- model ---------------------------------------------------------------------------------------
    FALLBACK = [None, T0, 0, "{}"]

    def model_lines(self, case, io=None):
        if case["k"] == "hist":
            return storelib.model_lines(case["backend"], io["resolved"])[0]
        if case["k"] == "own":
            return self._own_lines(case, io) if case["backend"] == "memory" else []
        if case.get("no_model"):
            return []
        pre = f"store {case['backend']} "
        m = {"type": "t", "client": "cl", "hostname": "h", "created_us": T0}
        L = ["store reset", pre + f"create {hx('c')} {storelib.p_meta(m)}"]
        evs = [[e[0], e[1], e[2], canon(e[3])] for e in case["events"]]
        if case["bulk"]:
            L.append(pre + f"bulk {hx('c')} {p_list(evs, p_ev)}")
        else:
            for e in evs:
                L.append(pre + f"insert {hx('c')} {p_ev(e)}")
        L.append(pre + "dump")
        return L

    def _own_lines(self, case, io):
        """one request per trace step for the heap model of the memory backend (driver area `heap`);
        a mutation step carries the state of the mutated object as observed on the real object"""
        b = hx("o")
        fb = p_ev(self.FALLBACK)
        L = ["heap reset"]
        for op, st in zip(case["trace"], io["steps"]):
            k = op[0]
            cell = st.get("cell")
            if k == "create":
                m = {"name": "nm", "type": "t", "client": "cl", "hostname": "h", "created_us": T0, "data": op[1]}
                L.append(f"heap create {b} {storelib.p_meta(m)}")
            elif k == "new":
                e = op[1]
                L.append("heap new " + p_ev([e[0], e[1], e[2], canon(e[3])]))
            elif k == "insert":
                L.append(f"heap insert {b} {op[1]}")
            elif k == "bulk":
                L.append(f"heap bulk {b} {p_list(op[1], str)}")
            elif k == "mut":
                w = op[2]
                if cell is None:  # the real side failed before touching an object (bad index)
                    L.append(f"heap mut {op[1]} ts 0")
                elif w in ("data-top", "data-nested", "data-clear"):
                    L.append(f"heap mut {op[1]} data {hx(cell[3])}")
                elif w == "data-assign":
                    L.append(f"heap mut {op[1]} assign {hx(cell[3])}")
                elif w == "ts":
                    L.append(f"heap mut {op[1]} ts {cell[1]}")
                elif w == "dur":
                    L.append(f"heap mut {op[1]} dur {cell[2]}")
                else:
                    L.append(f"heap mut {op[1]} id {p_opt(cell[0])}")
            elif k == "get":
                L.append(f"heap get {b} {fb}")
            elif k == "getbyid":
                L.append(f"heap getbyid {b} {fb}")
            elif k == "meta":
                L.append(f"heap meta {b}")
            elif k == "buckets":
                L.append(f"heap buckets {b}")
            elif k == "mutmeta":
                if cell is None:
                    L.append(f"heap mutmeta {op[1]} data -")
                elif op[2] in ("name", "type"):
                    L.append(f"heap mutmeta {op[1]} scalars " + " ".join([p_opt(cell[0], hx)] + [hx(storelib.created_iso(x) if isinstance(x, int) else x) for x in cell[1:5]]))
                else:
                    L.append(f"heap mutmeta {op[1]} data {hx(cell[5])}")
            elif k == "mutcreate":
                L.append(f"heap mutcreate {hx(cell if cell is not None else '{}')}")
            elif k == "update":
                L.append(f"heap update {b} {hx(canon(op[1]))}")
            elif k == "mutupdate":
                L.append(f"heap mutupdate {hx(cell if cell is not None else '{}')}")
            elif k in ("replacelast", "replace"):
                L.append(f"heap {k} {b} {op[1]}")
            else:
                raise RuntimeError("unknown ownership op " + k)
        L += ["heap dump", "heap objs", "heap handles", "heap held"]
        return L

    def model_out(self, case, answers, io=None):
        if case["k"] == "hist":
            _, idx = storelib.model_lines(case["backend"], io["resolved"])
            return storelib.model_out(case["backend"], io["resolved"], answers, idx)
        if case["k"] == "own":
            return self._own_out(case, answers) if case["backend"] == "memory" else None
        if case.get("no_model"):
            return None
        ids = []
        if not case["bulk"]:
            for a in answers[2:-1]:
                t = answer(a)
                tok = t.tok()
                ids.append(int(t.tok()) if tok == "S" else int(tok))
        d = storelib.parse_dump(answers[-1])["c"]["events"]
        return {"ids": ids, "listed": d, "byid": d}

    def _own_out(self, case, answers):
        n = len(case["trace"])
        steps = []
        for op, a in zip(case["trace"], answers[1 : 1 + n]):
            if a.startswith("err "):
                steps.append({"res": "err:" + a.split()[1], "changed": False if op[0].startswith("mut") else None,
                              "held": None, "before": None, "after": None})
            else:
                t = answer(a)
                if op[0].startswith("mut"):
                    held = t.tok() == "1"
                    steps.append({"res": "ok", "changed": t.tok() == "1", "held": held, "before": None, "after": None})
                else:
                    steps.append({"res": "ok", "changed": None, "held": None, "before": None, "after": None})
        tail = answers[1 + n :]
        t = answer(tail[1])
        objs = t.list(t.ev)
        t = answer(tail[2])
        handles = [storelib.read_meta(t) for _ in range(t.int())]
        return {"steps": steps, "final": storelib.parse_dump(tail[0]), "objs": objs, "handles": handles,
                "all_held": answer(tail[3]).tok() == "1"}

    def same(self, case, io, mo):
        if case.get("no_model"):
            return True
        if case["k"] == "hist":
            return storelib.same_history(case["backend"], io, mo)
        if case["k"] == "own":
            if case["backend"] != "memory":
                return True  # rows hold values, not references: no heap model (see Props/C01.lean)
            if len(io["steps"]) != len(mo["steps"]):
                return False
            for a, b in zip(io["steps"], mo["steps"]):
                if a["res"] != b["res"] or a["changed"] != b["changed"]:
                    return False
                if b["held"] is False:  # the model says the client mutated an object it does not hold
                    return False
            return (io["final"] == mo["final"] and io["objs"] == mo["objs"] and io["handles"] == mo["handles"]
                    and mo["all_held"])
        return io == mo

    # ---- the property --------------------------------------------------------------------------------
    def oracle(self, case, out):
        if out is None:
            return None
        if case["k"] == "hist":
            if "resolved" not in out:
                return None
            # unique ids, listing and lookup-by-id: the reference list model of C02 restricted to inserts/deletes
            return storegen.RefModel().check(out["resolved"], out["outs"], out["dumps"])
        if case["k"] == "codec":
            want = sorted([e[1], e[2], canon(e[3])] for e in case["events"])
            ids = [e[0] for e in out["listed"]]
            if len(set(ids)) != len(ids) or None in ids:
                return f"ids not unique: {ids}"
            if not case["bulk"] and sorted(out["ids"]) != sorted(ids):
                return f"ids returned by insert {out['ids']} differ from the ids listed {ids}"
            got = sorted(e[1:] for e in out["listed"])
            if got != want:
                bad = [(w, g) for w, g in zip(want, got) if w != g]
                return f"listing returns {bad[0][1] if bad else got}, inserted {bad[0][0] if bad else want}"
            if out["byid"] != out["listed"]:
                return "lookup by id differs from the listing"
            return None
        for n, (op, st) in enumerate(zip(case["trace"], out["steps"])):
            if st["changed"]:
                return (f"client mutation {op} (step {n}) changed what the store returns: "
                        f"{json.dumps(st['before'], ensure_ascii=False)[:300]} -> {json.dumps(st['after'], ensure_ascii=False)[:300]}")
        return None

    def nontrivial(self, case, out):
        if case["k"] == "hist":
            return any(o[0] == "delete" for o in case["ops"])
        if case["k"] == "codec":
            return any(e[2] % 1000 for e in case["events"])
        ks = [o[0] for o in case["trace"]]
        return any(k.startswith("mut") for k in ks)

    def features(self, case, out):
        if case["k"] == "hist":
            return [f"{case['backend']}:hist:{o[0]}" for o in case["ops"]]
        if case["k"] == "codec":
            fs = []
            for e in case["events"]:
                w = "lt2038" if e[1] < P31S else "2038-2041" if e[1] < P51 else "ge2041"
                fs.append(f"{case['backend']}:codec:{w}:{'end>=2^51' if e[1] + e[2] >= P51 else 'end<2^51'}")
            return fs
        return [f"{case['backend']}:own:{o[0]}" + (":" + str(o[2]) if o[0] in ("mut", "mutmeta") else "") for o in case["trace"]]

    def shrink(self, case):
        if case["k"] == "hist":
            for ops in storegen.shrink_history(case["ops"]):
                yield {**case, "ops": ops}
            return
        if case["k"] == "codec":
            evs = case["events"]
            for i in range(len(evs)):
                if len(evs) > 1:
                    yield {**case, "events": evs[:i] + evs[i + 1 :]}
            for i, e in enumerate(evs):
                if e[3] != "{}":
                    yield {**case, "events": evs[:i] + [[e[0], e[1], e[2], "{}"]] + evs[i + 1 :]}
            if case["off"]:
                yield {**case, "off": 0}
        # ownership traces index earlier objects positionally: only drop trailing ops
        elif len(case["trace"]) > 2:
            yield {**case, "trace": case["trace"][:-1]}

    def extra_search(self, ctx, around):
        return self.gen(Ctx("thorough", ctx.seed + 1))[:6000]


PROP = C01()
