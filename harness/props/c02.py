"""C02 - every backend behaves like one per-bucket event list under any history"""
import json

from ..base import Ctx, Prop
from .. import storegen, storelib


class C02(Prop):
    ID = "C02"
    MODULE = "AwProofs.Props.C02"
    THEOREMS = ["AwProofs.C02.backends_equal_events", "AwProofs.C02.backends_equal_sqlite_peewee", "AwProofs.C02.backends_interchangeable", "AwProofs.C02.delete_exact_memory", "AwProofs.C02.delete_exact_peewee", "AwProofs.C02.delete_exact_sqlite", "AwProofs.C02.history_refines_memory", "AwProofs.C02.history_refines_peewee", "AwProofs.C02.history_refines_sqlite", "AwProofs.C02.ids_unique_memory", "AwProofs.C02.ids_unique_peewee", "AwProofs.C02.ids_unique_sqlite", "AwProofs.C02.lookup_by_id_memory", "AwProofs.C02.lookup_by_id_peewee", "AwProofs.C02.lookup_by_id_sqlite", "AwProofs.C02.no_live_id_reuse_memory", "AwProofs.C02.no_live_id_reuse_peewee", "AwProofs.C02.no_live_id_reuse_sqlite", "AwProofs.C02.refines_memory", "AwProofs.C02.refines_peewee", "AwProofs.C02.refines_sqlite", "AwProofs.C02.replaceLast_exact_peewee", "AwProofs.C02.replaceLast_hits_limit1_memory", "AwProofs.C02.replaceLast_hits_limit1_peewee", "AwProofs.C02.replaceLast_hits_limit1_sqlite"]
    MODEL_NEEDS_IMPL = True
    WORKERS = 10
    LEVEL_TEXT = "Lean 4 refinement theorems for each backend model B in {sqlite, memory, peewee}: refines_B / history_refines_B (the view after every operation of every history that respects the property's precondition is a step of the per-bucket list model), replaceLast_hits_limit1_B, delete_exact_B, no_live_id_reuse_B, lookup_by_id_B, backends_interchangeable, backends_equal_events; models compared with the real backends after every write of random histories (public Bucket API, re-used Event objects, tied instants)"
    LEVEL_NOTE = 'trusts: Lean kernel + 3 standard axioms; SQL statement semantics as modelled statement by statement (validated differentially); the sqlite read conjunct of replaceLast_hits_limit1_sqlite is unconditional since the repair F22 (a read without a start bound has no lower bound; the former pre-1970 counterexample is now read)'
    TECHNIQUE = "Lean 4 refinement proof (backend tables -> per-bucket lists) + differential correspondence on random histories"
    RULE = (
        "seeded random histories over two buckets sharing one database (timestamps on an 8-point grid so that start "
        "and end instants tie, zero-length events), ops insert/bulk+upsert/replace/replace_last/delete(live|absent)/reads, "
        "respecting the property's precondition; run on each of the three real backends with a full dump after every "
        "write; non-trivial = history with at least one replace_last on a bucket with tied newest end instants or a delete"
    )

    def gen(self, ctx):
        out = []
        rng = ctx.rng("c02")
        n = ctx.pick(150, 2500)
        length = ctx.pick(35, 100)
        for i in range(n):
            g = storegen.HistGen(rng, nbuckets=2, grid=rng.choice([3, 8]))
            g.start()
            for _ in range(rng.randint(5, length)):
                g.step()
                if rng.random() < 0.03:
                    g.ops.append(["reopen"])  # the client restarts: a new Datastore object on the same database file
            for be in storelib.BACKENDS:
                out.append(("random-history", {"backend": be, "ops": g.ops}))
        # histories of single-event writes with NOTHING read in between (a read would flush the lazily committing store):
        # only the final contents are observed - e.g. a delete of an id that never existed must not lose the writes before it
        for i in range(ctx.pick(120, 2000)):
            g = storegen.HistGen(rng, nbuckets=2, grid=rng.choice([3, 8]))
            g.start()
            for _ in range(rng.randint(3, 30)):
                b = rng.choice(g.buckets)
                r = rng.random()
                if r < 0.45:
                    g.op_insert(b)
                elif r < 0.6:
                    g.op_replace(b)
                elif r < 0.75:
                    g.op_replacelast(b)
                else:
                    g.op_delete(b)
            for be in storelib.BACKENDS:
                out.append(("quiet-history", {"backend": be, "ops": g.ops, "quiet": True}))
        # the client looked at the newest event some time ago (limit-1 read), then newer events arrived in bulk, then it
        # rewrites "the last" event without looking again: the newest one must be rewritten
        for i in range(ctx.pick(30, 400)):
            b = rng.choice(["b0", "b1"])
            T = storegen.T0
            ops = [["create", "b0", storegen.mk_meta(rng, "b0")], ["create", "b1", storegen.mk_meta(rng, "b1")]]
            for k in range(rng.randint(1, 3)):
                ops.append(["insert", b, [None, T + k * 10**6, 10**6, storegen.LABELS[k % 2]]])
            ops.append(["get", b, 1, None, None])
            newer = [[None, T + (10 + k) * 10**6, rng.choice([0, 10**6]), storegen.LABELS[k % 2]] for k in range(rng.randint(1, 3))]
            ops.append(rng.choice([["bulk", b, newer], ["bulk", b, newer], ["insert", b, newer[0]]]))
            if rng.random() < 0.3:
                ops.append(["get", b, 1, None, None])
                ops.append(["bulk", b, [[None, T + 30 * 10**6, 0, storegen.LABELS[0]]]])
            ops.append(["replacelast", b, [None, T + 40 * 10**6, 10**6, storegen.LABELS[1]], "blind"])
            ops.append(["get", b, -1, None, None])
            for be in storelib.BACKENDS:
                out.append(("stale-last", {"backend": be, "ops": ops}))
        # bulk inserts larger than any internal batch size (100, 500, ...), with sizes just around the multiples
        for n in (99, 100, 101, 150, 199, 200, 201, 250, 501) if ctx.quick else (99, 100, 101, 102, 150, 199, 200, 201, 250, 499, 500, 501, 999, 1001):
            evs = [[None, storegen.T0 + k * 1000, 1000, storegen.LABELS[k % 2]] for k in range(n)]
            ops = [["create", "b0", storegen.mk_meta(rng, "b0")], ["insert", "b0", storegen.rand_ev(rng)],
                   ["bulk", "b0", [[["ref", 0]] + storegen.rand_ev(rng)[1:]] + evs], ["count", "b0", None, None],
                   ["delete", "b0", ["ref", n]], ["replacelast", "b0", storegen.rand_ev(rng)]]
            for be in storelib.BACKENDS:
                out.append(("big-bulk", {"backend": be, "ops": ops}))
        return out

    def impl(self, case):
        r = storelib.Runner(case["backend"], with_dumps="last" if case.get("quiet") else True).run(case["ops"])
        r["outs"] = [storelib.norm_err(case["backend"], o) for o in r["outs"]]
        return r

    def model_lines(self, case, impl_out):
        lines, _ = storelib.model_lines(case["backend"], impl_out["resolved"], "last" if case.get("quiet") else True)
        return lines

    def model_out(self, case, answers, impl_out):
        _, idx = storelib.model_lines(case["backend"], impl_out["resolved"], "last" if case.get("quiet") else True)
        return storelib.model_out(case["backend"], impl_out["resolved"], answers, idx)

    def same(self, case, io, mo):
        return storelib.same_history(case["backend"], io, mo)

    def nontrivial(self, case, out):
        ks = [o[0] for o in case["ops"]]
        return "replacelast" in ks or "delete" in ks

    def features(self, case, out):
        fs = [case["backend"] + ":" + o[0] + ":" + r[0] + (":" + r[1] if r[0] == "err" else "")
              for o, r in zip(case["ops"], out["outs"])]
        return fs

    def shrink(self, case):
        for ops in storegen.shrink_history(case["ops"]):
            yield {**case, "ops": ops}

    def extra_search(self, ctx, around):
        return self.gen(Ctx("thorough", ctx.seed + 1))[:3000]

    def oracle(self, case, out):
        if "resolved" not in out:
            return None
        return storegen.RefModel().check(out["resolved"], out["outs"], out["dumps"])


PROP = C02()
