"""C17 - any query text either parses or is rejected with a query error, and terminates
(aw_query/query2.py, aw_query/functions.py, aw_query/exceptions.py)"""
import itertools

from .. import qlang as Q
from ..base import Ctx, Prop
from ..common import Toks, answer

ARG_TEXT = {"L": "[]", "S": '"b"', "I": "1", "D": "{}", "B": "True", "C": "nop()", "V": "undefined_v"}

BOUNDARY = [
    "", ";", ";;;", " ", "=", "a=", "=1", "a==1", "a = 1", "RETURN", "RETURN=", "RETURN = ", "RETURN = 1",
    "RETURN = 1;", "RETURN = nop( );", "RETURN = nop();", "RETURN = nop(,);", "RETURN = nop(1,);",
    "RETURN = nop(,1);", "RETURN = nop( , );", 'RETURN = {"a"};', 'RETURN = {"a":};', 'RETURN = {"a" 1};',
    "RETURN = {:1};", "RETURN = { };", "RETURN = {,};", 'RETURN = {"a":1,};', 'RETURN = {"a":1 ,  };',
    'RETURN = {1:1};', "RETURN = [ ];", "RETURN = [,];", "RETURN = [1,];", "RETURN = [1 , ];", "RETURN = [1,,2];",
    "RETURN = [1 2];", "RETURN = [", "RETURN = ]", "RETURN = [[];", "RETURN = {", "RETURN = (", "RETURN = nop(",
    "RETURN = nop)", 'RETURN = "', "RETURN = '", 'RETURN = "a', "RETURN = 'a\\'", 'RETURN = "a\\"', 'RETURN = "\\',
    "RETURN = \\", "RETURN = 1a;", "RETURN = a1;", "RETURN = 1 1;", "RETURN = a b;", "1 = 2;", '"a" = 2;', "nop() = 2;",
    "a b = 2;", "a = b = 2;", "RETURN = undefined;", "RETURN = undefined();", "RETURN = nop(1);", "RETURN = nop(1,2,3);",
    "RETURN = limit_events([1]);", "RETURN = limit_events();", "RETURN = limit_events(1,1);",
    "RETURN = limit_events([1],[1]);", "RETURN = limit_events([1],1,1);", "RETURN = query_bucket();",
    "RETURN = query_bucket(1);", 'RETURN = query_bucket("b","c");', "RETURN = find_bucket();",
    'RETURN = find_bucket("a","b","c");', "RETURN = find_bucket(1);", 'RETURN = find_bucket("a",1);',
    "a = nop(); a = ;", "a = 1; RETURN = a(1);", "RETURN = f(g(),a,b);", 'RETURN = concat([1],[2]);',
    "RETURN = True;", "RETURN = limit_events([], True);", "RETURN=1;;RETURN=2", "RETURN\n=\n1\n;", "\x1cRETURN = 1\x1f;",
    "RETURN = 00012;", "RETURN = [1]x;", "RETURN = [1]];", "RETURN = {}};", "RETURN = nop());", 'RETURN = "a";b";',
    "RETURN = [';'];", "RETURN = nop(;);", "x = 1; RETURN = [x, y];", "RETURN = [RETURN];",
    'RETURN = {"a": {"b": [nop(), {"c": nop( )}]}};', "RETURN = nop ();", "RETURN = 1nop();", "RETURN = _();", "RETURN = _;",
]

NON_ASCII = [
    "RETURN = ²;", "RETURN = 1²;", "RETURN = ٣;", "RETURN = é;", "é = 1; RETURN = é;", "RETURN = é();",
    "RETURN\xa0=\xa01;", "RETURN = [1, 2];", "RETURN = nop(\xa0);", 'RETURN = "é²";', "RETURN = x²;", "RETURN = f²();",
    "RETURN = [²];", "RETURN = nop(²);", 'RETURN = {"a": ²};', "RETURN = １２;", "RETURN = Ⅰ;", "RETURN = ½;",
]


# the real builtin bodies on a populated in-memory store: unknown bucket -> function error
REAL = [
    ('RETURN = query_bucket("nosuch");', "QueryFunction"),
    ('RETURN = query_bucket_eventcount("nosuch");', "QueryFunction"),
    ('RETURN = find_bucket("nosuch");', "QueryFunction"),
    ('RETURN = find_bucket("win", "otherhost");', "QueryFunction"),
    ('RETURN = query_bucket(find_bucket("nosuch"));', "QueryFunction"),
    ('x = "nosuch"; RETURN = [1, {"a": query_bucket(x)}];', "QueryFunction"),
    ('RETURN = query_bucket(find_bucket("wi"));', "value"),
    ('RETURN = query_bucket_eventcount("afk");', "value"),
    ('RETURN = query_bucket(1);', "QueryFunction"),
    ('RETURN = query_bucket();', "QueryInterpret"),
    ('RETURN = query_bucket("win", "afk");', "QueryInterpret"),
    ('RETURN = query_bucket(nosuch);', "QueryInterpret"),
    # a name that differs from a bucket id only in letter case (or case-folds to it) is an unknown bucket
    ('RETURN = query_bucket("WIN");', "QueryFunction"),
    ('RETURN = query_bucket("Win");', "QueryFunction"),
    ('RETURN = query_bucket_eventcount("AFK");', "QueryFunction"),
    ('RETURN = query_bucket("win-HOST2");', "QueryFunction"),
    ('RETURN = query_bucket(find_bucket("WIN"));', "QueryFunction"),
    ('RETURN = query_bucket("win-host2");', "value"),
    # a long list where a string or an integer is expected: a function error like any other wrong top-level type
    ('RETURN = query_bucket([' + ", ".join(str(i) for i in range(40)) + ']);', "QueryFunction"),
    ('RETURN = query_bucket(query_bucket("win"));', "QueryFunction"),
    ('RETURN = limit_events(query_bucket("win"), [' + ", ".join('"x"' for i in range(33)) + ']);', "QueryFunction"),
    # a program may rebind the reserved names of its own window; when they no longer hold dates the two reading
    # built-ins refuse with a function error, like for any other argument they cannot use
    ('STARTTIME = "yesterday"; RETURN = query_bucket("win");', "QueryFunction"),
    ('STARTTIME = "yesterday"; RETURN = query_bucket_eventcount("win");', "QueryFunction"),
    ('ENDTIME = "2020-13-45"; RETURN = query_bucket_eventcount(find_bucket("wi"));', "QueryFunction"),
    ('ENDTIME = "2020-13-45"; RETURN = sort_by_timestamp(query_bucket("afk"));', "QueryFunction"),
    ('STARTTIME = 5; RETURN = query_bucket_eventcount("win");', "QueryFunction"),
    ('ENDTIME = [1, 2]; RETURN = query_bucket("win");', "QueryFunction"),
    ('STARTTIME = {"a": 1}; RETURN = query_bucket_eventcount("afk");', "QueryFunction"),
    ('STARTTIME = ENDTIME; ENDTIME = NAME; RETURN = query_bucket(find_bucket("wi"));', "QueryFunction"),
    ('STARTTIME = ENDTIME; ENDTIME = NAME; RETURN = query_bucket_eventcount("win");', "QueryFunction"),
    ('STARTTIME = "yesterday"; RETURN = query_bucket_eventcount("nosuch");', "QueryFunction"),
    ('STARTTIME = "2020-01-01"; ENDTIME = "2020-01-02T00:00:00+01:00"; RETURN = query_bucket_eventcount("win");', "value"),
    ('STARTTIME = "2020-01-01T00:00:00Z"; RETURN = query_bucket("win");', "value"),
    ('e = query_bucket("win"); RETURN = filter_keyvals(e, concat(e, concat(e, concat(e, concat(e, concat(e, e))))), ["a"]);', "QueryFunction"),
]


def case_variants(name):
    """spellings that differ from a registered name only in letter case: upper, capitalised, mixed"""
    mixed = "".join(c.upper() if i % 2 else c.lower() for i, c in enumerate(name))
    title = "_".join(w.capitalize() for w in name.split("_"))
    out = []
    for v in (name.upper(), name.capitalize(), title, mixed, name[:-1] + name[-1].upper()):
        if v != name and v not in out:
            out.append(v)
    return out


def vary_call_names(rng, e, reg, p):
    """the expression with some call names replaced by a case variant; returns (expression, changed?)"""
    k = e[0]
    if k == "c":
        ch = False
        args = []
        for a in e[2]:
            a2, c2 = vary_call_names(rng, a, reg, p)
            args.append(a2)
            ch = ch or c2
        name = e[1]
        if rng.random() < p:
            vs = [v for v in case_variants(name) if v not in reg]
            if vs:
                name, ch = rng.choice(vs), True
        return ["c", name, args], ch
    if k == "l":
        xs = [vary_call_names(rng, a, reg, p) for a in e[1]]
        return ["l", [x for x, _ in xs]], any(c for _, c in xs)
    if k == "d":
        xs = [(kk, vary_call_names(rng, a, reg, p)) for kk, a in e[1]]
        return ["d", [[kk, x] for kk, (x, _) in xs]], any(c for _, (_, c) in xs)
    return e, False


def int_limit_cases():
    """integer literals around CPython's int() limit of 4300 digits, alone and inside a list / call argument / dict"""
    out = []
    for n in (4299, 4300, 4301, 5000):
        for lit in ("1" * n, "0" * n, "9" + "0" * (n - 1)):
            want = "value" if n <= Q.MAX_INT_DIGITS else "QueryParse"
            for t in (f"RETURN = {lit};", f"RETURN = [{lit}];", f"RETURN = [1, {lit} , 2];", f"x = {lit}; RETURN = x;",
                      f'RETURN = {{"a": {lit}}};'):
                out.append({"k": "run", "text": t, "ret": {}, "want": want})
            # as a call argument: the argument count / type decide when the literal is readable
            out.append({"k": "run", "text": f"RETURN = limit_events([], {lit});", "ret": {}, "want": want})
            out.append({"k": "run", "text": f"RETURN = nop({lit});", "ret": {},
                        "want": "QueryInterpret" if n <= Q.MAX_INT_DIGITS else "QueryParse"})
    return out


def deep_cases():
    """bracket nesting far beyond what programs use: search-only (the depth at which CPython's recursion limit is
    hit - reported as a parse error since F21 - depends on the caller's stack, so it is not modelled)"""
    out = []
    for d in list(range(860, 1012, 2)) + [300, 700]:
        # a call (an argument-less one, and one with a string argument) at the bottom of a literal nested about as deep as the
        # interpreter's stack allows: building the tokens needs fewer frames than evaluating them
        out.append("RETURN = " + "[" * d + "nop()" + "]" * d + ";")
        out.append("RETURN = " + "[" * d + 'sort_by_timestamp([])' + "]" * d + ";")
        out.append("RETURN = " + '{"a": ' * (d // 2) + "[" * (d // 2) + "nop()" + "]" * (d // 2) + "}" * (d // 2) + ";")
    for d in (200, 600, 1000, 1200, 1500, 5000):
        out.append("RETURN = " + "[" * d + "]" * d + ";")
        out.append("RETURN = " + "[1, " * d + "2" + "]" * d + ";")
        out.append("RETURN = " + '{"a": ' * d + "1" + "}" * d + ";")
        out.append("RETURN = " + "nop(" * d + ")" * d + ";")
    cases = [{"k": "run", "text": t, "ret": {}} for t in out]
    # flat text whose VALUE is nested deeply: one more level per statement
    for d in (150, 900, 1100, 1500, 3000, 6000):
        cases.append({"k": "run", "ret": {}, "deep_value": True, "want": "value", "text": "a = [1]; " + "a = [a]; " * d + "RETURN = a;"})
        cases.append({"k": "run", "ret": {}, "deep_value": True, "want": "value", "text": 'a = {"k": 1}; ' + 'a = {"k": a}; ' * d + "RETURN = [a, a];"})
        cases.append({"k": "run", "ret": {}, "deep_value": True, "want": "value", "text": "a = nop(); " + "a = [a, 1]; " * d + "b = a; RETURN = b;"})
    return cases


class C17(Prop):
    ID = "C17"
    MODULE = "AwProofs.Props.C17"
    THEOREMS = [
        "AwProofs.C17.parse_total",
        "AwProofs.C17.parse_error_kind",
        "AwProofs.C17.resolve_error_kind",
        "AwProofs.C17.run_error_kind",
        "AwProofs.C17.run_error_kind_with_bodies",
        "AwProofs.C17.reads_of_listed_buckets_succeed",
    ]
    TRUSTED = [
        "harness/registry_dump.py (introspection of aw_query.functions: signatures, annotations, decorator chain) generates AwModel/Query/RegistryGen.lean on every run",
        "builtin bodies are replaced by recording stubs in the real registry (the real q2_function / q2_typecheck wrappers stay); what the bodies themselves raise (unknown bucket -> QueryFunctionException) is not part of the model",
        "termination of the real interpreter is observed (20 s alarm per case), termination of the model is the Lean theorem",
    ]
    ASSUMPTIONS = [
        "ASCII input: Python's isdigit/isalpha/strip are Unicode-aware, the model is ASCII; non-ASCII text is a search-only stream (oracle on the real code, no model)",
        "bracket nesting depth <= 150: deeper text can exhaust CPython's recursion limit, which query() reports as a parse error since the repair F21 (the depth at which that happens depends on the caller's stack; the model has no depth limit) - deeper text is a search-only stream: the oracle runs on the real code, no model answer is compared",
        "CPython's int() limit of 4300 digits (sys.get_int_max_str_digits() default) is a parameter of the model (maxIntDigits): a longer integer literal is a parse error",
        "builtins do not mutate the namespace dict they are handed",
    ]
    LEVEL_TEXT = (
        "Machine-checked Lean 4 theorems over a branch-for-branch model of the repaired query2 parser and the "
        "functions.py call protocol: parse_total (fuel of the mutually recursive parse methods is never exhausted), "
        "parse_error_kind (for every ASCII text only QueryParseException can leave parsing), resolve_error_kind "
        "(over the registry generated from the source: unknown name / unbindable argument count -> QueryInterpret, "
        "wrong top-level argument type -> QueryFunction, nothing else); model compared with the real code on every run"
    )
    LEVEL_NOTE = "trusts: Lean kernel + 3 standard axioms; model-code tie is differential; ASCII only; builtin bodies symbolic"
    TECHNIQUE = "Lean 4 proof over executable model + differential correspondence check + generated registry"
    RULE = (
        "hand-written malformed inputs; every registry entry x 0..4 arguments x argument kinds (list/str/int/dict/bool/"
        "call/undefined); blank-argument variants; random strings over the token alphabet; generated valid programs "
        "corrupted by deleting/duplicating/swapping/inserting characters; single statements compared as token trees; "
        "integer literals of 4299/4300/4301/5000 digits alone and inside list/dict/call; letter-case variants "
        "(upper/capitalised/mixed) of every registered name in calls and inside generated programs; "
        "non-ASCII strings and texts nested 200-1500 brackets deep on the real code only. non-trivial = text contains a bracket, quote or separator"
    )

    def __init__(self):
        self._prepared = False

    def prepare(self):
        """regenerate RegistryGen.lean from the repository under check (a `prepare(ctx)` hook in the
        runner would be the clean place; this is called when the module is loaded, i.e. before the
        runner builds the driver and the proofs, and again at the start of gen())"""
        if self._prepared:
            return
        from ..registry_dump import write_lean

        write_lean()
        self._prepared = True

    # ---- generation ---------------------------------------------------------------------------
    def gen(self, ctx):
        self.prepare()
        reg = Q.registry()
        dret = Q.default_ret()
        out = [("registry", {"k": "registry"})]
        for t in BOUNDARY:
            out.append(("boundary", {"k": "run", "text": t, "ret": {}}))
            if t.strip() and ";" not in t.strip():
                out.append(("boundary-parse", {"k": "parse", "text": t.strip()}))
        for t in NON_ASCII:
            out.append(("nonascii", {"k": "run", "text": t, "ret": {}}))
        for t, want in REAL:
            out.append(("real-builtins", {"k": "real", "text": t, "want": want}))
        for c in int_limit_cases():
            out.append(("int-limit", c))
        rng = ctx.rng("c17deep")
        for c in deep_cases():
            out.append(("deep-nesting", c))
            for _ in range(ctx.pick(2, 20)):
                # the same with a character deleted / duplicated / swapped / inserted somewhere
                out.append(("deep-nesting", {**{k: v for k, v in c.items() if k != "want"}, "text": Q.corrupt(rng, c["text"], 1)}))
        # the same queries repeated on one store while buckets are deleted and re-created: an unknown bucket is a
        # function error every time, whatever was looked up before
        rng = ctx.rng("c17seq")
        qs = [('RETURN = query_bucket("{b}");', ), ('RETURN = query_bucket_eventcount("{b}");', ),
              ('e = query_bucket("{b}"); RETURN = sort_by_timestamp(e);', ), ('RETURN = query_bucket(find_bucket("{b}", "host1"));', )]
        for _ in range(ctx.pick(40, 600)):
            steps = []
            for _ in range(rng.randint(3, 8)):
                r = rng.random()
                b = rng.choice(["win", "afk"])
                if r < 0.6:
                    steps.append(["q", rng.choice(qs)[0].replace("{b}", b), b])
                elif r < 0.85:
                    steps.append(["del", b])
                else:
                    steps.append(["create", b])
            out.append(("sequence", {"k": "seq", "steps": steps}))
        # a name that differs from a registered one only in letter case is an unknown function: QueryInterpret,
        # whatever its arguments are (the existence test precedes their evaluation)
        rng = ctx.rng("c17case")
        for name in sorted(reg):
            good = Q.gen_call(rng, 2, [], name, reg, dret, 1.0)
            for v in case_variants(name):
                if v in reg:
                    continue
                for args in ("", ",".join(Q.render_expr(a, Q.Layout(1, [""])) for a in good[2]), "[], 1", '"x"', "undefined_v", "nop(1)"):
                    out.append(("case-variant", {"k": "run", "text": f"RETURN = {v}({args});", "ret": dret, "want": "QueryInterpret"}))
                out.append(("case-variant", {"k": "run", "text": f"x = {name}; RETURN = {v}(x);", "ret": dret, "want": "QueryInterpret"}))
                out.append(("case-variant", {"k": "run", "text": f"RETURN = [{Q.render_expr(good, Q.Layout(2, ['', ' ']))}, {{\"k\": {v}()}}];",
                                             "ret": dret, "want": "QueryInterpret" if Q.ref_eval([["RETURN", good]], reg, dret)[0] != "err" else None}))
        for _ in range(ctx.pick(1500, 40000)):
            p = Q.gen_prog(rng, maxdepth=3, typed=0.95)
            changed, p2 = False, []
            for n, e in p:
                e2, c2 = vary_call_names(rng, e, reg, 0.35)
                p2.append([n, e2])
                changed = changed or c2
            if changed:
                txt = Q.render_prog(p2, rng.randrange(1 << 30), rng.choice(Q.TABLES))
                out.append(("case-progs", {"k": "run", "text": txt, "ret": dret}))
        # arity / type grid
        kinds4 = "LSID"
        for name in sorted(reg):
            for n in range(0, 5):
                combos = list(itertools.product(kinds4, repeat=n))
                if n == 4 and ctx.quick:
                    rng = ctx.rng("c17grid" + name)
                    combos = rng.sample(combos, 24)
                for combo in combos:
                    txt = "RETURN = %s(%s);" % (name, ",".join(ARG_TEXT[c] for c in combo))
                    out.append(("grid", {"k": "run", "text": txt, "ret": {}}))
            rng = ctx.rng("c17grid2" + name)
            for _ in range(ctx.pick(12, 200)):
                n = rng.randrange(0, 5)
                combo = [rng.choice("LSIDBCV") for _ in range(n)]
                ret = {"nop": rng.choice("lsifo")}
                sep = rng.choice([",", " , ", ", ", " ,"])
                txt = "RETURN = %s(%s);" % (name, sep.join(ARG_TEXT[c] for c in combo))
                out.append(("grid-mixed", {"k": "run", "text": txt, "ret": ret}))
        # blank arguments
        rng = ctx.rng("c17blank")
        opens = [("nop(", ")"), ("concat(", ")"), ("[", "]"), ("{", "}"), ('{"k":', "}"), ('{"k":[', "]}"), ("f([", "])")]
        fill = ["", " ", ",", " ,", ", ", " , ", "1,", "1, ", ",1", " ,1", "1,,1", "1, ,1", "\t", "\n", "1 ", " 1", '"a":', '"a": ', ":", '"a"', '"a" ']
        for (o, c), f in itertools.product(opens, fill):
            out.append(("blank", {"k": "run", "text": f"RETURN = {o}{f}{c};", "ret": {}}))
            out.append(("blank", {"k": "run", "text": f"x = [1]; RETURN = [x, {o}{f}{c}];", "ret": {}}))
        # random strings
        rng = ctx.rng("c17random")
        for _ in range(ctx.pick(12000, 400000)):
            t = "".join(rng.choice(Q.ALPHABET) for _ in range(rng.randrange(0, 28)))
            if rng.random() < 0.5:
                t = "RETURN = " + t
            out.append(("random", {"k": "run", "text": t, "ret": {}}))
        # corrupted valid programs
        rng = ctx.rng("c17corrupt")
        for _ in range(ctx.pick(8000, 200000)):
            p = Q.gen_prog(rng, maxdepth=3)
            table = rng.choice(Q.TABLES)
            txt = Q.render_prog(p, rng.randrange(1 << 30), table)
            out.append(("corrupt", {"k": "run", "text": Q.corrupt(rng, txt), "ret": dret}))
        # single statements as token trees (valid, corrupted, random)
        rng = ctx.rng("c17parse")
        for _ in range(ctx.pick(6000, 100000)):
            r = rng.random()
            e = Q.gen_expr(rng, rng.randrange(0, 4), ["a", "NAME", "True"], typed=0.3)
            s = rng.choice(Q.IDENTS) + rng.choice(["", " "]) + "=" + rng.choice(["", " "]) + Q.render_expr(
                e, Q.Layout(rng.randrange(1 << 30), rng.choice(Q.TABLES))
            )
            if r < 0.4:
                s = Q.corrupt(rng, s)
            elif r < 0.55:
                s = "".join(rng.choice(Q.ALPHABET) for _ in range(rng.randrange(0, 20)))
            s = s.strip()  # query() strips statements before parse()
            if s and ";" not in s:
                out.append(("parse", {"k": "parse", "text": s}))
        # non-ASCII (search only)
        rng = ctx.rng("c17nonascii")
        extra = list("²٣é\xa0 ½１Ⅰß")
        for _ in range(ctx.pick(300, 5000)):
            p = Q.gen_prog(rng, maxdepth=2)
            txt = list(Q.render_prog(p, rng.randrange(1 << 30), rng.choice(Q.TABLES)))
            for _ in range(rng.randrange(1, 3)):
                txt.insert(rng.randrange(len(txt) + 1), rng.choice(extra))
            out.append(("nonascii", {"k": "run", "text": "".join(txt), "ret": dret}))
        return out

    def extra_search(self, ctx, around):
        out = self.gen(Ctx("thorough" if ctx.quick else "thorough", ctx.seed + 1))[:60000]
        rng = ctx.rng("c17around")
        for c in around:
            if isinstance(c, dict) and "text" in c:
                for _ in range(2000):
                    out.append(("around", {**c, "text": Q.corrupt(rng, c["text"], 1)}))
        return out

    # ---- both sides ----------------------------------------------------------------------------
    def impl(self, case):
        k = case["k"]
        if k == "run":
            return Q.run_text(case["text"], case.get("ret"), kind_only=Q.bracket_depth(case["text"]) > Q.MAX_DEPTH or bool(case.get("deep_value")))
        if k == "parse":
            return Q.parse_text(case["text"])
        if k == "real":
            o = Q.run_text_real(case["text"])
            return o if o[0] == "err" else ["value"]
        if k == "seq":
            return Q.run_sequence_real(case["steps"])
        if k == "registry":
            from ..registry_dump import describe

            return [[e["name"], e["min"], e["max"], e["takes_ds"], e["takes_ns"], e["typechecked"],
                     [[p["kind"], p["required"]] for p in e["params"]]] for e in describe()]
        raise ValueError(k)

    def model_lines(self, case):
        k = case["k"]
        if k == "registry":
            return ["q registry"]
        if k == "seq" or k == "real" or case.get("deep_value") or not Q.is_ascii(case["text"]) or Q.bracket_depth(case["text"]) > Q.MAX_DEPTH:
            return []  # search-only streams: real builtin bodies, non-ASCII text, nesting beyond MAX_DEPTH
        if k == "run":
            return [Q.line_run(case["text"], case.get("ret"))]
        return [Q.line_parse(case["text"])]

    def model_out(self, case, answers):
        k = case["k"]
        if k == "registry":
            t = answer(answers[0])
            return t.list(lambda: [t.str(), t.int(), t.opt(t.int), t.tok() == "1", t.tok() == "1", t.tok() == "1",
                                   t.list(lambda: [t.tok(), t.tok() == "1"])])
        if not answers:
            return None
        if k == "run":
            return Q.r_result(answers[0], Q.r_val)
        return Q.r_result(answers[0], lambda t: [t.str(), Q.r_tok(t)])

    def same(self, case, impl_out, model_out):
        if model_out is None and case["k"] != "registry":
            return True  # search-only stream (non-ASCII, deep nesting): no model
        return impl_out == model_out

    def scope(self, case, out):
        """no open finding (the RecursionError of deeply nested text was repaired: F21)"""
        return None

    # ---- the property --------------------------------------------------------------------------
    def oracle(self, case, out):
        k = case["k"]
        if k == "registry":
            return None
        if k == "seq":
            live = {"win", "afk"}
            for st, o in zip(case["steps"], out):
                if st[0] == "del":
                    live.discard(st[1])
                elif st[0] == "create":
                    live.add(st[1])
                else:
                    if o[0] == "err" and o[1] not in Q.QUERY_ERRS:
                        return f"{o[1]} escaped from {st[1]!r} instead of a query error"
                    want = "value" if st[2] in live else "QueryFunction"
                    got = o[1] if o[0] == "err" else "value"
                    if got != want:
                        return f"{st[1]!r} with bucket {st[2]} {'present' if st[2] in live else 'deleted'}: {got}, expected {want}"
            return None
        if isinstance(out, list) and out and out[0] == "err":
            if out[1] not in Q.QUERY_ERRS:
                return f"{out[1]} escaped instead of a query error"
            if k == "parse" and out[1] != "QueryParse":
                return f"parse() raised {out[1]}"
        if k == "real":
            got = out[1] if out[0] == "err" else "value"
            if got != case["want"]:
                return f"real builtins: {got}, expected {case['want']}"
            return None
        elif isinstance(out, list) and out and out[0] == "?":
            return f"unexpected value {out}"
        if k == "run" and case.get("want"):
            got = out[1] if out[0] == "err" else "value"
            if got != case["want"]:
                return f"{got}, expected {case['want']}"
        if k == "run" and not case.get("deep_value"):
            # text that is well-formed by the strict grammar must get exactly the outcome the
            # reference evaluation defines: a value, QueryInterpret for an unknown name or a wrong
            # argument count, QueryFunction for a wrong top-level argument type
            p = Q.ref_parse(case["text"])
            if p is not None and max([Q.depth(e) for _, e in p], default=0) <= 40:
                want = Q.ref_eval(p, Q.registry(), case.get("ret") or {})
                if out != want:
                    if out[0] == "err" or want[0] == "err":
                        return f"well-formed text: outcome {out[:2] if out[0]=='err' else 'value'} but the language defines {want[:2] if want[0]=='err' else 'a value'}"
                    return "well-formed text evaluates to a value other than the one it denotes"
        return None

    def nontrivial(self, case, out):
        if case["k"] == "seq":
            return True
        return case["k"] != "registry" and any(c in case["text"] for c in "()[]{}\"',:=")

    def features(self, case, out):
        if case["k"] == "registry":
            return ["registry"]
        if case["k"] == "seq":
            return ["seq:" + (o[1] if o[0] == "err" else o[0]) for o in out]
        o = ("err:" + out[1]) if isinstance(out, list) and out and out[0] == "err" else "value"
        return [f"{case['k']}:{o}"]

    def shrink(self, case):
        if case["k"] == "seq":
            for i in range(len(case["steps"])):
                yield {**case, "steps": case["steps"][:i] + case["steps"][i + 1 :]}
            return
        if "text" in case:
            base = {k: v for k, v in case.items() if k != "want"}  # an expectation belongs to the original text only
            for t in Q.shrink_text(case["text"]):
                yield {**base, "text": t}
            if case.get("ret"):
                yield {**case, "ret": {}}


PROP = C17()
if "aw_query" in __import__("sys").modules:  # loaded by the runner (after import_repo), not by tools/gen_manifest.py
    PROP.prepare()
