"""C04 - operations addressed to one bucket never change any other bucket"""
import json

from ..base import Ctx, Prop
from .. import storegen, storelib


commitlib_ops = {"create", "update", "delbucket", "insert", "bulk", "replace", "replacelast", "delete", "read"}


class MalGen(storegen.HistGen):
    """histories that also break C02's precondition on purpose: ids of other buckets, ids that never
    existed, single inserts carrying an id, operations through stale handles of deleted buckets"""

    def any_ref(self, b):
        others = [r for x in self.buckets if x != b for r in self.live[x]]
        mine = self.live[b]
        c = self.rng.random()
        if others and c < 0.6:
            return ["ref", self.rng.choice(others)]
        if mine and c < 0.85:
            return ["ref", self.rng.choice(mine)]
        return ["ref", 10**5 + self.rng.randint(0, 9)]

    def carrying(self, b):
        """the Event object handed to replace / replace_last: it may itself carry the id of an event of another
        bucket (an object read from there), of this bucket, or one that never existed - only the addressed id counts"""
        e = storegen.rand_ev(self.rng, self.grid)
        if self.rng.random() < 0.5:
            e[0] = self.any_ref(b)
        return e

    def step(self):
        b = self.rng.choice(self.buckets)
        r = self.rng.random()
        if r < 0.25:
            self.op_insert(b)
        elif r < 0.33:
            e = storegen.rand_ev(self.rng, self.grid)
            e[0] = self.any_ref(b)
            self.ops.append(["insert", b, e])
        elif r < 0.43:
            evs = []
            for _ in range(self.rng.randint(0, 3)):
                e = storegen.rand_ev(self.rng, self.grid)
                if self.rng.random() < 0.6:
                    e[0] = self.any_ref(b)
                evs.append(e)
            self.ops.append(["bulk", b, evs])
            for e in evs:
                if e[0] is None:
                    self.live[b].append(self.nrefs)
                    self.nrefs += 1
        elif r < 0.55:
            self.ops.append(["replace", b, self.any_ref(b), self.carrying(b)])
        elif r < 0.67:
            self.ops.append(["replacelast", b, self.carrying(b)])
        elif r < 0.79:
            ref = self.any_ref(b)
            if ref[1] in self.live[b]:
                self.live[b].remove(ref[1])
            self.ops.append(["delete", b, ref])
        elif r < 0.84:
            self.ops.append(["update", b, self.rng.choice([{"name": "n2"}, {"type": "t2", "data": "{\"z\": 1}"},
                                                            {"hostname": "h2", "client": "c2"}, {}])])
        elif r < 0.89:
            self.ops.append(["delbucket", b])
            self.live[b] = []
        elif r < 0.93:
            self.ops.append(["create", b, storegen.mk_meta(self.rng, b)])
        elif r < 0.96:
            self.ops.append(["lookup", b])  # also of a bucket that does not exist at the moment (and may be created next)
        else:
            self.ops.append(["getbyid", b, self.any_ref(b)])


class C04(Prop):
    ID = "C04"
    MODULE = "AwProofs.Props.C04"
    THEOREMS = ["AwProofs.C04.foreign_id_noop_memory", "AwProofs.C04.foreign_id_noop_peewee", "AwProofs.C04.foreign_id_noop_sqlite", "AwProofs.C04.frame_memory", "AwProofs.C04.frame_peewee", "AwProofs.C04.frame_run_memory", "AwProofs.C04.frame_run_peewee", "AwProofs.C04.frame_run_sqlite", "AwProofs.C04.frame_spec", "AwProofs.C04.frame_sqlite", "AwProofs.C04.inv_step_memory", "AwProofs.C04.inv_step_peewee", "AwProofs.C04.inv_step_sqlite", "AwProofs.C04.reachable_inv_memory", "AwProofs.C04.reachable_inv_peewee", "AwProofs.C04.reachable_inv_sqlite", "AwProofs.C04.rejected_unchanged_memory", "AwProofs.C04.rejected_unchanged_peewee", "AwProofs.C04.rejected_unchanged_sqlite"]
    MODEL_NEEDS_IMPL = True
    WORKERS = 10
    LEVEL_TEXT = "Lean 4 frame theorems for each backend model: frame_B / frame_run_B (for every operation with every argument - foreign ids, never-existing ids, missing buckets - the view of every other bucket is unchanged), inv_step_B, reachable_inv_B, rejected_unchanged_B, foreign_id_noop_B; models compared with the real backends on histories that break C02's precondition on purpose, incl. a stream observed without committing"
    LEVEL_NOTE = 'trusts: Lean kernel + 3 standard axioms; SQL statement semantics as modelled; no hypothesis beyond the backend invariant (proved for all reachable states)'
    TECHNIQUE = "Lean 4 frame/invariant proof over table models + differential correspondence on malformed histories"
    RULE = (
        "seeded random multi-bucket histories that break C02's precondition on purpose (ids of other buckets, never-existing "
        "ids, single inserts carrying ids, stale handles, equal instants across buckets, update/delete/re-create bucket); "
        "after every write all buckets are dumped; non-trivial = history containing a foreign-id or stale-handle operation"
    )

    def gen(self, ctx):
        out = []
        rng = ctx.rng("c04")
        n = ctx.pick(150, 2500)
        length = ctx.pick(35, 100)
        for i in range(n):
            g = MalGen(rng, nbuckets=rng.choice([2, 3]), grid=rng.choice([2, 4]))
            g.start()
            for _ in range(rng.randint(5, length)):
                g.step()
            for be in storelib.BACKENDS:
                out.append(("malformed-history", {"backend": be, "ops": g.ops}))
        # a bulk insert with more than a hundred id-carrying events (upserts), one of which carries the id of another bucket's event
        for n in (101, 150) if ctx.quick else (100, 101, 150, 501):
            evs = [[None, storegen.T0 + k * 1000, 1000, storegen.LABELS[k % 2]] for k in range(n)]
            ups = [[["ref", k + 1]] + storegen.rand_ev(rng)[1:] for k in range(n)]
            ups.insert(rng.randrange(n), [["ref", 0]] + storegen.rand_ev(rng)[1:])
            ops = [["create", "b1", storegen.mk_meta(rng, "b1")], ["create", "b0", storegen.mk_meta(rng, "b0")],
                   ["insert", "b1", storegen.rand_ev(rng)], ["bulk", "b0", evs], ["bulk", "b0", ups], ["get", "b1", -1, None, None]]
            for be in storelib.BACKENDS:
                out.append(("big-upsert", {"backend": be, "ops": ops}))
        # a bucket of several hundred events is deleted while the buckets around it hold events written before, between
        # and after its own
        for n in (501, 1203) if ctx.quick else (499, 500, 501, 1000, 1203, 2500):
            evs = [[None, storegen.T0 + k * 1000, 1000, storegen.LABELS[k % 2]] for k in range(n)]
            ops = [["create", "b0", storegen.mk_meta(rng, "b0")], ["create", "b1", storegen.mk_meta(rng, "b1")],
                   ["create", "bü-2", storegen.mk_meta(rng, "bü-2")],
                   ["insert", "b0", storegen.rand_ev(rng)], ["bulk", "bü-2", [storegen.rand_ev(rng) for _ in range(3)]],
                   ["bulk", "b1", evs[: n // 2]], ["insert", "b0", storegen.rand_ev(rng)], ["bulk", "b1", evs[n // 2 :]],
                   ["insert", "bü-2", storegen.rand_ev(rng)], ["delbucket", "b1"], ["get", "b0", -1, None, None]]
            for be in storelib.BACKENDS:
                out.append(("big-delete", {"backend": be, "ops": ops}))
        # the same kind of histories on the lazily committing sqlite store observed WITHOUT committing (raw SELECTs on
        # the store's own connection): a write that is only buffered must survive a rejected operation on another bucket
        for i in range(ctx.pick(60, 800)):
            g = MalGen(rng, nbuckets=rng.choice([2, 3]), grid=rng.choice([2, 4]))
            g.start()
            for _ in range(rng.randint(5, length)):
                g.step()
                if rng.random() < 0.1:
                    g.ops.append(rng.choice([["delbucket", "ghost"], ["update", "ghost", {"name": "x"}], ["update", g.buckets[0], {}],
                                             ["insert", "ghost", storegen.rand_ev(rng)], ["bulk", "ghost", [storegen.rand_ev(rng)]],
                                             ["create", g.buckets[0], storegen.mk_meta(rng, "x")]]))
            out.append(("malformed-history-raw", {"backend": "sqlite", "raw": True, "ops": [[0] + o for o in g.ops]}))
        return out

    def impl(self, case):
        if case.get("raw"):
            from .. import commitlib

            r = commitlib.run_history({"lazy": True, "ops": [o for o in case["ops"] if o[1] in commitlib_ops]})
            return {"resolved": r["resolved"], "outs": [s["out"] for s in r["steps"]],
                    "dumps": [commitlib.norm_view(s["own"]) for s in r["steps"]], "raw": r}
        r = storelib.Runner(case["backend"]).run(case["ops"])
        r["outs"] = [storelib.norm_err(case["backend"], o) for o in r["outs"]]
        return r

    def model_lines(self, case, impl_out):
        if case.get("raw"):
            from .. import commitlib

            return commitlib.model_lines({"lazy": True}, impl_out["raw"])
        return storelib.model_lines(case["backend"], impl_out["resolved"])[0]

    def model_out(self, case, answers, impl_out):
        if case.get("raw"):
            from .. import commitlib

            m = commitlib.model_out({"lazy": True}, answers, impl_out["raw"])
            return {"resolved": impl_out["resolved"], "outs": [s["out"] for s in m["steps"]],
                    "dumps": [s["own"] for s in m["steps"]], "raw": m}
        _, idx = storelib.model_lines(case["backend"], impl_out["resolved"])
        return storelib.model_out(case["backend"], impl_out["resolved"], answers, idx)

    def same(self, case, io, mo):
        if case.get("raw"):
            from .. import commitlib

            return commitlib.same(io["raw"], mo["raw"])
        return storelib.same_history(case["backend"], io, mo)

    def oracle(self, case, out):
        prev = {}
        for n, (op, o, d) in enumerate(zip(out["resolved"], out["outs"], out["dumps"])):
            if d is None:
                continue
            a = op[1]
            for b in set(prev) | set(d):
                if b == a:
                    continue
                if prev.get(b) != d.get(b):
                    return (f"op {n} {json.dumps(op, ensure_ascii=False)[:160]} on bucket {a} changed bucket {b}: "
                            f"{json.dumps(prev.get(b), ensure_ascii=False)[:300]} -> {json.dumps(d.get(b), ensure_ascii=False)[:300]}")
            prev = d
        return None

    def nontrivial(self, case, out):
        return True

    def features(self, case, out):
        if case.get("raw"):
            return ["sqlite-raw:" + o[0] + ":" + r[0] for o, r in zip(out["resolved"], out["outs"])]
        return [case["backend"] + ":" + o[0] + ":" + r[0] + (":" + r[1] if r[0] == "err" else "")
                for o, r in zip(case["ops"], out["outs"])]

    def shrink(self, case):
        if case.get("raw"):
            for ops in storegen.shrink_history([o[1:] for o in case["ops"]]):
                yield {**case, "ops": [[0] + o for o in ops]}
            return
        for ops in storegen.shrink_history(case["ops"]):
            yield {**case, "ops": ops}

    def extra_search(self, ctx, around):
        return self.gen(Ctx("thorough", ctx.seed + 1))[:3000]


PROP = C04()
