"""C03 - time-window reads return exactly the intersecting events, newest first, limited"""
import json

from ..base import Ctx, Prop
from ..common import answer, ev_tuple, hx, mk_event, p_ev, p_list, p_opt, us_to_dt
from .. import storegen, storelib

T0 = storegen.T0
MS = 1000
TOL = 2 * MS
DAY = 86_400_000_000
LA, LB = storegen.lab("a"), storegen.lab("b")


def floor_ms(t):
    return t - t % 1000


def resolve_rewrites(case):
    """the in-place rewrites of a case as [kind, index of the target in insertion order, new event]; contents after them"""
    expect = [list(e) for e in case["events"]]
    for idx, ev in case.get("replace", []):
        expect[idx] = list(ev)
    out = []
    for kind, idx, dur in case.get("rewrites") or []:
        if kind == "last":
            top = max(e[1] for e in expect)
            cands = [i for i, e in enumerate(expect) if e[1] == top]
            if len(cands) > 1:
                continue  # which of several newest events is "the last" is C02's subject
            idx = cands[0]
        ev = [None, expect[idx][1], dur, expect[idx][3]]
        expect[idx] = ev
        out.append([kind, idx, ev])
    return out, expect


class C03(Prop):
    ID = "C03"
    MODULE = "AwProofs.Props.C03"
    THEOREMS = ["AwProofs.C03." + n for n in (
        "round_start", "round_end", "window_tolerance", "sound_sqlite", "complete_sqlite", "sorted_desc_sqlite",
        "limit_sqlite", "count_agrees_sqlite", "sqlite_before_epoch_now_read", "sound_memory", "complete_memory", "sorted_desc_memory", "limit_memory",
        "count_agrees_memory", "missing_memory", "sound_peewee", "complete_peewee", "peewee_clip", "sorted_desc_peewee",
        "limit_peewee", "count_agrees_peewee")]
    WORKERS = 10
    LEVEL_TEXT = 'Lean 4 theorems on the read functions of the three backend models: sound_B, complete_B (sqlite: unconditional since the repair F22, a read without a start bound has no lower bound; sqlite_before_epoch_now_read: the former pre-1970 counterexample is now read; peewee: events up to 24 h, as the property says), sorted_desc_B, limit_B, count_agrees_B, peewee_clip, window_tolerance (the Bucket.get rounding costs at most 1 ms at either edge); models compared with the real backends on random windows (edges placed around event edges, epoch, several UTC offsets)'
    LEVEL_NOTE = "trusts: Lean kernel + 3 standard axioms; SQLite's julianday/strftime arithmetic in the peewee range filter is a bounded-error parameter: reads within 1 ms of the window start are compared tolerantly"
    TECHNIQUE = "Lean 4 proof over read models + differential correspondence on windowed reads"
    RULE = (
        "buckets of 1..7 events on a 100 ms grid with sub-ms duration jitter (overlapping, nested, adjacent, zero-length, "
        "one 24 h event), windows open on either side / zero-width / sub-millisecond / edges placed 0, 1 µs, 999 µs, 1, 2, 3 ms "
        "around event edges, given in several UTC offsets, limits {-1,0,1,2,3,100}; each read and count on each real "
        "backend; non-trivial = read whose window excludes at least one event and includes at least one"
    )

    def gen(self, ctx):
        out = []
        rng = ctx.rng("c03")
        for _ in range(ctx.pick(120, 2500)):
            n = rng.randint(1, 7)
            evs = []
            for _ in range(n):
                ts = T0 + rng.randrange(0, 20) * 100 * MS
                dur = rng.choice([0, 0, 100 * MS, 250 * MS, 1000 * MS, 3000 * MS]) + rng.choice([0, 0, 1, 500, 999])
                if rng.random() < 0.03:
                    dur = DAY - rng.choice([0, 1, MS])
                evs.append([None, ts, dur, rng.choice([LA, LB])])
            edges = sorted({e[1] for e in evs} | {e[1] + e[2] for e in evs})
            reads = []
            for _ in range(ctx.pick(6, 12)):
                def pick_edge():
                    return rng.choice(edges) + rng.choice([0, 0, 1, -1, 999, -999, MS, -MS, 2 * MS, -2 * MS, 3 * MS, -3 * MS,
                                                           rng.randint(-500 * MS, 500 * MS)])
                k = rng.random()
                if k < 0.2:
                    s, e = pick_edge(), None
                elif k < 0.4:
                    s, e = None, pick_edge()
                elif k < 0.5:
                    s = pick_edge()
                    e = s + rng.choice([0, 1, 500])
                else:
                    s = pick_edge()
                    e = s + rng.choice([0, MS, 100 * MS, rng.randint(0, 3000 * MS)])
                reads.append([rng.choice([-1, -1, 0, 1, 2, 3, 100, -2, -3, -100]), s, e, rng.choice([0, 0, 60, -300, 345, 840, -720])])
            # some buckets are rewritten before they are read: replace moves events in time
            repl = []
            if rng.random() < 0.4:
                for _ in range(rng.randint(1, 3)):
                    repl.append([rng.randrange(n), [None, T0 + rng.randrange(0, 20) * 100 * MS, rng.choice([0, 100 * MS, 1000 * MS]), rng.choice([LA, LB])]])
            reopen = rng.random() < 0.2 and not repl
            # after all the reads and counts some events are rewritten IN PLACE (same instant, another duration: what a heartbeat
            # does to the newest event) and every read and count is asked again
            rew = []
            if rng.random() < 0.35:
                for _ in range(rng.randint(1, 2)):
                    if rng.random() < 0.5:
                        rew.append(["last", None, rng.choice([0, 100 * MS, 1000 * MS, 3000 * MS, 5000 * MS])])
                    else:
                        rew.append(["id", rng.randrange(n), rng.choice([0, 100 * MS, 1000 * MS, 3000 * MS, 5000 * MS])])
            # the bucket id had an earlier life on this storage object: written to, READ, deleted - then created again
            recreate = (not repl and not rew and not reopen and rng.random() < 0.25)
            for be in storelib.BACKENDS:
                out.append(("random-window", {"backend": be, "events": evs, "reads": reads, "replace": repl, "reopen": reopen, "rewrites": rew,
                                              "recreate": recreate}))
        # buckets and windows at the very start of the time range (the epoch itself is instant 0)
        for _ in range(ctx.pick(40, 600)):
            evs = [[None, rng.choice([0, 0, MS, 100 * MS, 1000 * MS]), rng.choice([0, 0, 1, MS, 500 * MS]), rng.choice([LA, LB])]
                   for _ in range(rng.randint(1, 4))]
            reads = []
            for _ in range(5):
                s0 = rng.choice([None, -2000 * MS, -MS, -1, 0, 1, MS])
                e0 = rng.choice([None, -500, -1, 0, 1, 999, MS, 2000 * MS])
                if s0 is not None and e0 is not None and e0 < s0:
                    s0, e0 = e0, s0
                reads.append([rng.choice([-1, 1, 2]), s0, e0, rng.choice([0, 60, -300])])
            for be in storelib.BACKENDS:
                out.append(("epoch-window", {"backend": be, "events": evs, "reads": reads, "replace": []}))
        # windows whose edges are given in a zone with daylight saving, around the hour that the clocks repeat
        ENDS = {"Europe/Berlin": 1635642000, "America/New_York": 1636264800, "Australia/Lord_Howe": 1617462000}
        for _ in range(ctx.pick(40, 600)):
            zone = rng.choice(sorted(ENDS))
            base = ENDS[zone] * 1_000_000
            evs = [[None, base + rng.randrange(-7200, 7200) * 1_000_000, rng.choice([0, 60_000_000, 600_000_000]), rng.choice([LA, LB])]
                   for _ in range(rng.randint(1, 5))]
            reads = []
            for _ in range(5):
                s0 = rng.choice([None, base + rng.randrange(-7200, 3600) * 1_000_000 + rng.choice([0, 0, 1, 999, 500_000])])
                e0 = rng.choice([None, base + rng.randrange(-3600, 7200) * 1_000_000 + rng.choice([0, 999, 500_000])])
                if s0 is not None and e0 is not None and e0 < s0:
                    s0, e0 = e0, s0
                reads.append([rng.choice([-1, -1, 1, 2]), s0, e0, zone])
            for be in storelib.BACKENDS:
                out.append(("dst-window", {"backend": be, "events": evs, "reads": reads, "replace": []}))
        # buckets that begin before the epoch (negative instants): events that end before it, reach across it, touch it;
        # windows open on either side, wholly before it, across it
        for _ in range(ctx.pick(60, 900)):
            evs = [[None, rng.choice([-5000, -3000, -2000, -1000, -1, 0, 1000]) * MS // (1 if rng.random() < 0.8 else 1),
                    rng.choice([0, MS, 500 * MS, 1000 * MS, 2000 * MS, 7000 * MS]), rng.choice([LA, LB])]
                   for _ in range(rng.randint(1, 5))]
            evs = [[e[0], (e[1] // MS) * MS, e[2], e[3]] for e in evs]
            reads = []
            for _ in range(6):
                s0 = rng.choice([None, None, -9000 * MS, -4000 * MS, -2500 * MS, -MS, -1, 0, MS])
                e0 = rng.choice([None, None, -4500 * MS, -1500 * MS, -1, 0, 999, 3000 * MS])
                if s0 is not None and e0 is not None and e0 < s0:
                    s0, e0 = e0, s0
                reads.append([rng.choice([-1, -1, 1, 2]), s0, e0, rng.choice([0, 60, -300, 840])])
            for be in storelib.BACKENDS:
                out.append(("pre-epoch-window", {"backend": be, "events": evs, "reads": reads, "replace": []}))
        return out

    def impl(self, case):
        store = storelib.Store(case["backend"])
        try:
            ds = store.ds
            if case.get("recreate"):
                ds.create_bucket("w", "t", "c", "h", created=us_to_dt(T0))
                ds["w"].insert([mk_event([None, T0, 1000, LA])])
                ds["w"].get(-1)
                ds["w"].get(1, us_to_dt(T0 - 1000), us_to_dt(T0 + 5000))
                ds["w"].get_eventcount(us_to_dt(T0 - 1000), us_to_dt(T0 + 5000))
                ds.delete_bucket("w")
            ds.create_bucket("w", "t", "c", "h", created=us_to_dt(T0))
            b = ds["w"]
            if case.get("reopen") and len(case["events"]) >= 2:
                # the events were written by an earlier run of the client; this run opens the database again and writes one
                # more event before it reads anything
                b.insert([mk_event(e) for e in case["events"][:-1]])
                store.reopen()
                ds = store.ds
                b = ds["w"]
                b.insert(mk_event(case["events"][-1]))
            else:
                b.insert([mk_event(e) for e in case["events"]])
            ids = sorted(x[0] for x in storelib.dump(store)["w"]["events"])
            for idx, ev in case.get("replace", []):
                b.replace(ids[idx], mk_event(ev))
            stored = storelib.dump(store)["w"]["events"]

            def do_reads():
                outs = []
                for lim, s, e, off in case["reads"]:
                    outs.append(one_read(lim, s, e, off))
                return outs

            def one_read(lim, s, e, off):
                if isinstance(off, str):
                    # window edges given in a real zone with daylight saving (zoneinfo sets the fold of an ambiguous wall time)
                    from zoneinfo import ZoneInfo

                    sd = us_to_dt(s, 0).astimezone(ZoneInfo(off)) if s is not None else None
                    ed = us_to_dt(e, 0).astimezone(ZoneInfo(off)) if e is not None else None
                else:
                    sd = us_to_dt(s, off) if s is not None else None
                    ed = us_to_dt(e, off) if e is not None else None
                r = [ev_tuple(x) for x in b.get(lim, sd, ed)]
                c = b.get_eventcount(sd, ed)
                return {"get": r, "count": c}

            res = {"stored": stored, "reads": do_reads()}
            rws, _ = resolve_rewrites(case)
            if rws:
                for kind, idx, ev in rws:
                    if kind == "last":
                        b.replace_last(mk_event(ev))
                    else:
                        b.replace(ids[idx], mk_event(ev))
                res["round2"] = {"stored": storelib.dump(store)["w"]["events"], "reads": do_reads()}
            return res
        finally:
            store.close()

    def model_lines(self, case):
        pre = f"store {case['backend']} "
        m = {"type": "t", "client": "c", "hostname": "h", "created_us": T0}
        L = ["store reset"]
        if case.get("recreate"):
            L += [pre + f"create {hx('w')} {storelib.p_meta(m)}", pre + f"bulk {hx('w')} {p_list([[None, T0, 1000, LA]], p_ev)}",
                  pre + f"delbucket {hx('w')}"]
        L += [pre + f"create {hx('w')} {storelib.p_meta(m)}",
              pre + f"bulk {hx('w')} {p_list(case['events'], p_ev)}"]
        first = {"memory": 0, "sqlite": 1, "peewee": 1}[case["backend"]]
        for idx, ev in case.get("replace", []):
            L.append(pre + f"replace {hx('w')} {first + idx} {p_ev(ev)}")
        L.append(pre + "dump")
        self._nrep = len(case.get("replace", []))
        for lim, s, e, off in case["reads"]:
            L.append(pre + f"get {hx('w')} {lim} {p_opt(s)} {p_opt(e)}")
            L.append(pre + f"count {hx('w')} {p_opt(s)} {p_opt(e)}")
        rws, _ = resolve_rewrites(case)
        if rws:
            for kind, idx, ev in rws:
                if kind == "last":
                    L.append(pre + f"replacelast {hx('w')} S {first + idx} {p_ev(ev)}")
                else:
                    L.append(pre + f"replace {hx('w')} {first + idx} {p_ev(ev)}")
            L.append(pre + "dump")
            for lim, s, e, off in case["reads"]:
                L.append(pre + f"get {hx('w')} {lim} {p_opt(s)} {p_opt(e)}")
                L.append(pre + f"count {hx('w')} {p_opt(s)} {p_opt(e)}")
        return L

    def model_out(self, case, answers):
        k = 3 + len(case.get("replace", [])) + (3 if case.get("recreate") else 0)
        stored = storelib.parse_dump(answers[k])["w"]["events"]
        outs = []
        for i in range(len(case["reads"])):
            t = answer(answers[k + 1 + 2 * i])
            c = answer(answers[k + 2 + 2 * i])
            outs.append({"get": t.list(t.ev), "count": c.int()})
        res = {"stored": stored, "reads": outs}
        rws, _ = resolve_rewrites(case)
        if rws:
            k2 = k + 1 + 2 * len(case["reads"]) + len(rws)
            outs2 = []
            for i in range(len(case["reads"])):
                t = answer(answers[k2 + 1 + 2 * i])
                c = answer(answers[k2 + 2 + 2 * i])
                outs2.append({"get": t.list(t.ev), "count": c.int()})
            res["round2"] = {"stored": storelib.parse_dump(answers[k2])["w"]["events"], "reads": outs2}
        return res

    def same(self, case, io, mo):
        if ("round2" in io) != ("round2" in mo):
            return False
        if "round2" in io and not self.same_round(case, io["round2"], mo["round2"]):
            return False
        return self.same_round(case, io, mo)

    def same_round(self, case, io, mo):
        if io["stored"] != mo["stored"]:
            return False
        be = case["backend"]
        for (lim, s, e, off), a, b in zip(case["reads"], io["reads"], mo["reads"]):
            # the property leaves events within about 2 ms of a window edge free to go either way (on every backend): they
            # are left out of the comparison; everything else must agree exactly
            amb = set()
            if s is not None:
                s1 = floor_ms(s)
                amb |= {x[0] for x in io["stored"] if abs(x[1] + x[2] - s1) <= TOL or abs(x[1] + x[2] - s) <= TOL}
            if e is not None:
                amb |= {x[0] for x in io["stored"] if abs(x[1] - e) <= TOL}
            if not amb:
                if not storelib.legal_read(be, a["get"], b["get"]) or a["count"] != b["count"]:
                    return False
            else:
                # (peewee: SQLite computes timestamp+duration through julianday doubles and formats it to ms)
                if abs(a["count"] - b["count"]) > len(amb):
                    return False
                if lim < 0:
                    ra = sorted(json.dumps(x) for x in a["get"] if x[0] not in amb)
                    rb = sorted(json.dumps(x) for x in b["get"] if x[0] not in amb)
                    if ra != rb:
                        return False
        return True

    def oracle(self, case, out):
        expect = [list(e[1:]) for e in case["events"]]
        for idx, ev in case.get("replace", []):
            expect[idx] = list(ev[1:])
        msg = self.oracle_round(case, out, expect)
        if msg is None and "round2" in out:
            _, exp2 = resolve_rewrites(case)
            msg = self.oracle_round(case, out["round2"], [list(e[1:]) for e in exp2])
            if msg is not None:
                msg = "after events were rewritten in place (same instant, another duration) and the same reads were asked again: " + msg
        return msg

    def oracle_round(self, case, out, expect):
        stored = out["stored"]
        byid = {x[0]: x for x in stored}
        be = case["backend"]
        if [x[1:] for x in sorted(stored, key=lambda x: x[0])] != expect:
            return "stored events differ from the inserted (and replaced) ones"
        for (lim, s, e, off), r in zip(case["reads"], out["reads"]):
            where = f"read limit={lim} start={s} end={e}"
            got = r["get"]

            def clearly_in(x):
                return (s is None or x[1] + x[2] >= s + TOL) and (e is None or x[1] <= e - TOL)

            def clearly_out(x):
                return (s is not None and x[1] + x[2] < s - TOL) or (e is not None and x[1] > e + TOL)

            must = [x for x in stored if clearly_in(x)]
            may = [x for x in stored if not clearly_out(x)]
            if lim == 0:
                if got:
                    return f"{where}: limit 0 returned events"
            else:
                ts = [x[1] for x in got]
                if ts != sorted(ts, reverse=True):
                    return f"{where}: not ordered by timestamp descending: {ts}"
                ids = [x[0] for x in got]
                if len(set(ids)) != len(ids):
                    return f"{where}: an event was returned twice"
                for x in got:
                    src = byid.get(x[0])
                    if src is None or src not in may:
                        return f"{where}: returned {x} which lies outside the window (stored: {src})"
                    if be == "peewee":
                        s1 = floor_ms(s) if s is not None else None
                        e1 = floor_ms(e) + MS if e is not None else None
                        lo = max(src[1], s1) if s1 is not None else src[1]
                        hi = min(src[1] + src[2], e1) if e1 is not None else src[1] + src[2]
                        exp = [src[0], lo, hi - lo, src[3]]
                        if x != exp:
                            return f"{where}: returned {x}, expected the stored event cut to the window {exp}"
                    elif x != src:
                        return f"{where}: returned {x} differs from the stored event {src}"
                if lim < 0 or len(got) < lim:
                    for x in must:
                        if x[0] not in ids:
                            return f"{where}: event {x} reaches into the window but was not returned"
                else:
                    if len(got) > lim:
                        return f"{where}: more than {lim} events returned"
                    last_ts = min(byid[i][1] for i in ids)
                    for x in must:
                        if x[1] > last_ts and x[0] not in ids:
                            return f"{where}: limit kept {ids} but the newer event {x} was left out"
            if not (len(must) <= r["count"] <= len(may)):
                return f"{where}: count {r['count']} but between {len(must)} and {len(may)} events intersect the window"
        return None

    def nontrivial(self, case, out):
        n = len(out["stored"])
        return any(0 < len(r["get"]) < n for r in out["reads"])

    def features(self, case, out):
        fs = []
        for (lim, s, e, off), r in zip(case["reads"], out["reads"]):
            kind = ("open-end" if e is None else "open-start" if s is None else "zero-width" if e == s else
                    "sub-ms" if e - s < MS else "closed")
            fs.append(f"{case['backend']}:{kind}:limit{'-' if lim < 0 else '0' if lim == 0 else '+'}")
        return fs

    def shrink(self, case):
        for i in range(len(case["reads"])):
            if len(case["reads"]) > 1:
                yield {**case, "reads": case["reads"][:i] + case["reads"][i + 1 :]}
        for i in range(len(case["events"])):
            yield {**case, "events": case["events"][:i] + case["events"][i + 1 :]}

    def extra_search(self, ctx, around):
        return self.gen(Ctx("thorough", ctx.seed + 1))[:4000]


PROP = C03()
