"""C12 - queries only read: bucket data is unchanged and scoped to the query window"""
import json

from ..base import Ctx, Prop
from ..common import answer, canon_data, err_kind, ev_tuple, hx, mk_event, p_ev, p_list, us_to_dt
from .. import storegen, storelib

T0 = storegen.T0
SEC = 1_000_000
FUTURE = 5_680_000_000_000_000  # an instant in 2149, in µs

DATAS = [
    json.dumps({"app": "Firefox", "title": "ActivityWatch - Mozilla Firefox (Private)", "url": "http://www.example.com/a?b=c#d"}),
    json.dumps({"app": "Terminal", "title": "● vim 60 FPS", "url": "https://github.com/ActivityWatch"}),
    json.dumps({"app": "Firefox", "title": "ü title", "status": "afk"}),
    json.dumps({"app": "x", "title": "t", "status": "not-afk", "url": "chrome://newtab"}),
]

DATAS = [canon_data(json.loads(d)) for d in DATAS]

TRANSFORMS = [
    'x = filter_keyvals(events, "app", ["Firefox"]);',
    'x = exclude_keyvals(events, "app", ["Firefox", "x"]);',
    'x = filter_keyvals_regex(events, "title", "vim|ü");',
    'x = merge_events_by_keys(events, ["app"]);',
    'x = merge_events_by_keys(events, ["app", "status"]);',
    'x = chunk_events_by_key(events, "app");',
    'x = sort_by_timestamp(events);',
    'x = sort_by_duration(events);',
    'x = limit_events(events, 2);',
    'x = flood(events);',
    'x = period_union(events, other);',
    'x = filter_period_intersect(events, other);',
    'x = filter_period_intersect(events, period_union(other, events));',
    'x = union_no_overlap(events, other);',
    'x = concat(events, other);',
    'x = sum_durations(events);',
    'x = split_url_events(events);',
    'x = simplify_window_titles(events, "title");',
    'x = categorize(events, [[["Work"], {"type": "regex", "regex": "vim"}], [["Web", "Fx"], {"type": "regex", "regex": "firefox", "ignore_case": true}]]);',
    'x = tag(events, [["t1", {"type": "regex", "regex": "Fire"}], ["t2", {"type": "regex", "regex": "title"}]]);',
    'x = query_bucket_eventcount("b0");',
    'x = find_bucket("b");',
    'x = nop();',
]
FAILING = [
    'x = no_such_function(events);',
    'x = filter_keyvals(events, 5, ["a"]);',
    'x = query_bucket("missing-bucket");',
    'x = undefined_variable;',
    'x = simplify_window_titles(events, "no-such-key");',
    'x = limit_events(events);',
    'x = filter_keyvals_regex(events, "title", "(");',
    'x = ;',
]


DST_ENDS = {"Europe/Berlin": 1635642000, "America/New_York": 1636264800, "Australia/Lord_Howe": 1617462000}


class C12(Prop):
    ID = "C12"
    MODULE = "AwProofs.Props.C12"
    THEOREMS = ["AwProofs.C12.datastore_builtins_registered", "AwProofs.C12.eventcount_matches_memory", "AwProofs.C12.eventcount_matches_peewee", "AwProofs.C12.eventcount_matches_sqlite", "AwProofs.C12.find_bucket_returns_listed", "AwProofs.C12.listed_iff_exists_memory", "AwProofs.C12.listed_iff_exists_peewee", "AwProofs.C12.listed_iff_exists_sqlite", "AwProofs.C12.only_three_builtins_take_the_datastore", "AwProofs.C12.others_receive_exactly_their_arguments", "AwProofs.C12.others_receive_values_only", "AwProofs.C12.queries_only_read_heap", "AwProofs.C12.queries_only_read_heap_held", "AwProofs.C12.query_bucket_complete_memory", "AwProofs.C12.query_bucket_complete_peewee", "AwProofs.C12.query_bucket_complete_sqlite", "AwProofs.C12.query_bucket_eventcount_in_query", "AwProofs.C12.query_bucket_eventcount_is_count_memory", "AwProofs.C12.query_bucket_eventcount_is_count_peewee", "AwProofs.C12.query_bucket_eventcount_is_count_sqlite", "AwProofs.C12.query_bucket_in_query", "AwProofs.C12.query_bucket_is_windowed_get_memory", "AwProofs.C12.query_bucket_is_windowed_get_peewee", "AwProofs.C12.query_bucket_is_windowed_get_sqlite", "AwProofs.C12.query_bucket_sound_memory", "AwProofs.C12.query_bucket_sound_peewee", "AwProofs.C12.query_bucket_sound_sqlite", "AwProofs.C12.query_bucket_total_memory", "AwProofs.C12.query_bucket_total_peewee", "AwProofs.C12.query_is_a_function_of_reads", "AwProofs.C12.query_is_a_function_of_reads_ext", "AwProofs.C12.query_steps_stay_reachable", "AwProofs.C12.read_api_only_reads", "AwProofs.C12.reads_hand_out_fresh_copies", "AwProofs.C12.reads_stable_during_query", "AwProofs.C12.window_is_bucket_get_rounding"]
    WORKERS = 10
    LEVEL_TEXT = 'Lean 4 theorems: only_three_builtins_take_the_datastore (decided over the registry generated from aw_query.functions on every run), query_is_a_function_of_reads, query_bucket_is_windowed_get_B / query_bucket_eventcount_is_count_B for the three backend models, queries_only_read_heap (any sequence of reads and in-place mutations of handed-out objects leaves every observation unchanged); real queries run on the three backends with full dumps before and after'
    LEVEL_NOTE = 'trusts: Lean kernel + 3 standard axioms; builtin bodies other than the three datastore-taking ones are parameters; a program that rebinds STARTTIME/ENDTIME moves its own window (outside the property)'
    TECHNIQUE = "Lean 4 proof (read-only interpreter + heap separation) + differential correspondence with full store dumps around real queries"
    RULE = (
        "generated programs that read two buckets, apply 1..4 builtins (annotating, clearing, re-timing, merging, "
        "classifying transforms) to the results, and optionally raise midway (unknown function/variable, wrong type, "
        "missing bucket, bad regex, parse error), run on each real backend for several query windows with a full dump "
        "of every bucket before and after; non-trivial = program that applies an in-place transform to query_bucket output"
    )

    def gen(self, ctx):
        out = []
        rng = ctx.rng("c12")
        for _ in range(ctx.pick(120, 2500)):
            evs = {}
            # some stores hold events without any data (an empty dict is falsy: "if data:" guards skip it)
            datas = DATAS + ["{}", "{}"] if rng.random() < 0.3 else DATAS
            for b in ("b0", "b1"):
                n = rng.randint(0, 6)
                l, t = [], rng.randrange(0, 5) * SEC
                for _ in range(n):
                    d = rng.choice([0, SEC, 2 * SEC, 1500])
                    l.append([None, T0 + t, d, rng.choice(datas)])
                    t += (d + 999) // 1000 * 1000 + rng.choice([0, 0, SEC, 3 * SEC])
                if rng.random() < 0.3:
                    rng.shuffle(l)  # written out of time order
                evs[b] = l
            k = rng.randint(1, 4)
            stmts = ['events = query_bucket("b0");', 'other = query_bucket(find_bucket("b1"));']
            for i in range(k):
                s = rng.choice(TRANSFORMS)
                if rng.random() < 0.3:
                    s = s.replace("x =", "events =") if "sum_durations" not in s and "eventcount" not in s and "nop" not in s and "find_bucket" not in s else s
                stmts.append(s)
            if rng.random() < 0.3:
                stmts.insert(rng.randint(2, len(stmts)), rng.choice(FAILING))
            double = rng.random() < 0.25
            again_bucket = "b0"
            if rng.random() < 0.12:
                # the same statement text twice, with the variable it mentions bound to another bucket in between
                stmts = ['b = "b0";', 'again = query_bucket(b);', 'n = query_bucket_eventcount(b);'] + stmts + \
                        ['b = "b1";', 'again = query_bucket(b);', 'n = query_bucket_eventcount(b);', "RETURN = again;"]
                again_bucket = "b1"
            elif double:
                # read the same bucket again after the first result was transformed in place: the second read must
                # still be the direct windowed read
                stmts.append('again = query_bucket("b0");')
                stmts.append("RETURN = again;")
            else:
                stmts.append("RETURN = events;")
            w0 = T0 + rng.choice([-5, 0, 1, 3]) * SEC + rng.choice([0, 1, 999, 500_000])
            w1 = w0 + rng.choice([0, 1, 2, 6, 20]) * SEC + rng.choice([0, 1, 1000])
            if rng.random() < 0.08:
                # "everything so far": a window that begins in the year 500 (years below 1000 have three-digit %Y on glibc)
                w0 = storegen.FAR_BASES[0] + rng.choice([0, 999, 500_000])
            if rng.random() < 0.12:
                # a window that reaches from the past far into the future, over events dated after today (legal: the
                # library only warns about timestamps after 2100)
                for b in evs:
                    evs[b] = evs[b] + [[None, FUTURE + rng.randrange(0, 5) * SEC, rng.choice([0, SEC]), rng.choice(DATAS)]
                                       for _ in range(rng.randint(1, 2))]
                w1 = FUTURE + rng.choice([0, 2, 10]) * SEC
            if rng.random() < 0.12:
                # events of more than a day (a status that lasted a weekend) which began more than a day before the window and
                # reach into it or beyond it
                for b in evs:
                    evs[b] = evs[b] + [[None, (w0 - rng.choice([25, 30, 49, 73]) * 3600 * SEC) // 1000 * 1000, rng.choice([26, 50, 80, 200]) * 3600 * SEC, rng.choice(DATAS)]
                                       for _ in range(rng.randint(1, 2))]
            off = rng.choice([0, 120, -300])
            if rng.random() < 0.12:
                # a window whose edges are wall-clock times of a zone with daylight saving, inside the hour that repeats
                off = rng.choice(sorted(DST_ENDS))
                base = DST_ENDS[off] * 1_000_000
                for b in evs:
                    evs[b] = [[None, base + rng.randrange(-7200, 7200) * 1_000_000, rng.choice([0, 60_000_000, 600_000_000]), rng.choice(DATAS)]
                              for _ in range(rng.randint(1, 4))]
                w0 = base + rng.randrange(-7200, 3600) * 1_000_000 + rng.choice([0, 1, 999, 500_000])
                w1 = max(w0, base + rng.randrange(-3600, 7200) * 1_000_000 + rng.choice([0, 999, 500_000]))
            first = rng.random() < 0.5
            for be in storelib.BACKENDS:
                out.append(("program", {"backend": be, "events": evs, "prog": "\n".join(stmts), "start": w0, "end": w1,
                                        "off": off, "again_bucket": again_bucket, "program_first": first}))
        # more events inside the window than any internal limit (10 000)
        n = 10_001
        evs = {"b0": [[None, T0 + k * 1000, 1000, DATAS[k % 2]] for k in range(n)], "b1": [[None, T0, SEC, DATAS[0]]]}
        out.append(("huge-window", {"backend": "sqlite", "events": evs, "prog": 'again = query_bucket("b0");\nRETURN = again;',
                                    "start": T0 - SEC, "end": T0 + 20 * SEC, "off": 0, "again_bucket": "b0"}))
        return out

    def impl(self, case):
        out = self._impl(case)
        if out.get("twin"):
            t_store = storelib.Store(case["backend"])
            try:
                for b in ("b0", "b1"):
                    t_store.ds.create_bucket(b, "t", "c", "h", created=us_to_dt(T0), data={"k": [1]})
                    t_store.ds[b].insert([mk_event(e) for e in case["events"][b]])
                self._afterwards(t_store, case)
                out["twin"][1] = storelib.dump(t_store)
            finally:
                t_store.close()
        return out

    @staticmethod
    def _afterwards(store, case):
        """what the client does after the queries, the same on the store that served them and on its twin: re-time the
        oldest event so that it ties with the newest one, then rewrite "the last" event"""
        top = max(e[1] for e in case["events"]["b0"])
        b = store.ds["b0"]
        # ids are assigned in insertion order by all backends: the k-th inserted event of a fresh bucket has a known id
        first_id = {"memory": 0}.get(store.backend, 1)
        order = sorted(range(len(case["events"]["b0"])), key=lambda i: case["events"]["b0"][i][1])
        lo = order[0]
        if case["events"]["b0"][lo][1] < top:
            b.replace(first_id + lo, mk_event([None, top, 1000, DATAS[1]]))
        b.replace_last(mk_event([None, top + 7 * SEC, 1000, DATAS[0]]))

    def _impl(self, case):
        from aw_query import query2

        store = storelib.Store(case["backend"])
        try:
            ds = store.ds
            for b in ("b0", "b1"):
                ds.create_bucket(b, "t", "c", "h", created=us_to_dt(T0), data={"k": [1]})
                ds[b].insert([mk_event(e) for e in case["events"][b]])
            before = storelib.dump(store)
            if isinstance(case["off"], str):
                from zoneinfo import ZoneInfo

                sd, ed = (us_to_dt(case[k], 0).astimezone(ZoneInfo(case["off"])) for k in ("start", "end"))
            else:
                sd, ed = us_to_dt(case["start"], case["off"]), us_to_dt(case["end"], case["off"])

            def run_program():
                ret = None
                try:
                    r = query2.query("q", case["prog"], sd, ed, ds)
                    res = ["ok", type(r).__name__]
                    if case["prog"].rstrip().endswith("RETURN = again;") and isinstance(r, list):
                        ret = [ev_tuple(e) for e in r]
                except Exception as e:
                    res = ["err", err_kind(e)]
                return res, ret, storelib.dump(store)

            ran = None
            if case.get("program_first"):
                # the program is the first thing that reads this window: nothing has been read (or remembered) before it
                ran = run_program()
            direct = {}
            for b in ("b0", "b1"):
                direct[b] = {"get": [ev_tuple(e) for e in ds[b].get(-1, sd, ed)], "count": ds[b].get_eventcount(sd, ed)}
            mid = storelib.dump(store)
            qb = {}
            for b in ("b0", "b1"):
                r = query2.query("q", f'RETURN = query_bucket("{b}");', sd, ed, ds)
                c = query2.query("q", f'RETURN = query_bucket_eventcount("{b}");', sd, ed, ds)
                qb[b] = {"get": [ev_tuple(e) for e in r], "count": c}
            res, ret, after = ran if ran is not None else run_program()
            # what the store does NEXT must not depend on the reads and queries it has served: rewrite the newest event
            # here and on a twin store that was filled the same way and never read
            twin = None
            if case["events"]["b0"]:
                self._afterwards(store, case)
                twin = [storelib.dump(store), None]  # the twin runs when this store is closed (peewee: one database per process)
            # the same query text and window again after the bucket has changed: it must show the bucket as it is now
            rerun = None
            if case["events"]["b0"]:
                mid_ev = case["events"]["b0"][0]
                ds["b0"].insert(mk_event([None, mid_ev[1], mid_ev[2] + 1000, DATAS[0]]))
                r2 = query2.query("q", 'RETURN = query_bucket("b0");', sd, ed, ds)
                c2 = query2.query("q", 'RETURN = query_bucket_eventcount("b0");', sd, ed, ds)
                rerun = {"qb": {"get": [ev_tuple(e) for e in r2], "count": c2},
                         "direct": {"get": [ev_tuple(e) for e in ds["b0"].get(-1, sd, ed)], "count": ds["b0"].get_eventcount(sd, ed)}}
            return {"before": before, "mid": mid, "after": after, "direct": direct, "qb": qb, "res": res, "second_read": ret,
                    "rerun": rerun, "twin": twin}
        finally:
            store.close()

    def model_lines(self, case):
        pre = f"store {case['backend']} "
        m = {"type": "t", "client": "c", "hostname": "h", "created_us": T0, "data": json.dumps({"k": [1]})}
        L = ["store reset"]
        for b in ("b0", "b1"):
            L.append(pre + f"create {hx(b)} {storelib.p_meta(m)}")
            L.append(pre + f"bulk {hx(b)} {p_list(case['events'][b], p_ev)}")
        L.append(pre + "dump")
        for b in ("b0", "b1"):
            L.append(pre + f"get {hx(b)} -1 S {case['start']} S {case['end']}")
            L.append(pre + f"count {hx(b)} S {case['start']} S {case['end']}")
        L.append(pre + "dump")
        return L

    def model_out(self, case, answers):
        before = storelib.parse_dump(answers[5])
        qb = {}
        for i, b in enumerate(("b0", "b1")):
            t = answer(answers[6 + 2 * i])
            c = answer(answers[7 + 2 * i])
            qb[b] = {"get": t.list(t.ev), "count": c.int()}
        after = storelib.parse_dump(answers[10])
        return {"before": before, "after": after, "qb": qb}

    def same(self, case, io, mo):
        if io["before"] != mo["before"] or io["after"] != mo["after"]:
            return False
        be = case["backend"]
        for b in ("b0", "b1"):
            amb = any(abs(x[1] + x[2] - (case["start"] - case["start"] % 1000)) <= 1000 for x in io["before"][b]["events"]) and be == "peewee"
            if amb:
                continue
            if not storelib.legal_read(be, io["qb"][b]["get"], mo["qb"][b]["get"]) or io["qb"][b]["count"] != mo["qb"][b]["count"]:
                return False
        return True

    def oracle(self, case, out):
        if "mid" not in out:
            return None
        if out["mid"] != out["before"]:
            return "a direct windowed read changed the store"
        if out.get("twin") and out["twin"][0] != out["twin"][1]:
            return ("after the reads and queries a replace_last rewrote a different event than on a store filled the same way and "
                    f"never read: {json.dumps(out['twin'][0]['b0']['events'], ensure_ascii=False)[:300]} vs "
                    f"{json.dumps(out['twin'][1]['b0']['events'], ensure_ascii=False)[:300]}")
        if out["after"] != out["before"]:
            for b in out["before"]:
                if out["after"].get(b) != out["before"][b]:
                    return (f"the query ({out['res']}) changed bucket {b}: {json.dumps(out['before'][b], ensure_ascii=False)[:300]} -> "
                            f"{json.dumps(out['after'].get(b), ensure_ascii=False)[:300]}")
            return "the query changed the set of buckets"
        if out.get("second_read") is not None and out["second_read"] != out["direct"][case.get("again_bucket", "b0")]["get"]:
            ab = case.get("again_bucket", "b0")
            return (f"the last query_bucket({ab}) inside the query returned {json.dumps(out['second_read'], ensure_ascii=False)[:300]}, "
                    f"the direct windowed read of {ab} {json.dumps(out['direct'][ab]['get'], ensure_ascii=False)[:300]}")
        if out.get("rerun") and out["rerun"]["qb"] != out["rerun"]["direct"]:
            return (f"after an insert the same query_bucket(b0) query returned {json.dumps(out['rerun']['qb'], ensure_ascii=False)[:300]}, "
                    f"the direct windowed read {json.dumps(out['rerun']['direct'], ensure_ascii=False)[:300]}")
        for b in ("b0", "b1"):
            # "query_bucket_eventcount(b) the matching count": the number of events the windowed read returns, unless an
            # event lies within the edge tolerance (about 2 ms) of a window edge
            s0, e0 = case["start"], case["end"]
            near = [x for x in out["before"][b]["events"] if abs(x[1] + x[2] - s0) <= 3000 or abs(x[1] - e0) <= 3000]
            if not near and out["qb"][b]["count"] != len(out["qb"][b]["get"]):
                return (f"query_bucket_eventcount({b}) = {out['qb'][b]['count']} but query_bucket({b}) returns "
                        f"{len(out['qb'][b]['get'])} events over the same window (no event near an edge)")
            if out["qb"][b] != out["direct"][b]:
                return (f"query_bucket({b}) / eventcount {json.dumps(out['qb'][b])[:300]} differs from the direct windowed "
                        f"read / count {json.dumps(out['direct'][b])[:300]}")
        return None

    def nontrivial(self, case, out):
        return any(k in case["prog"] for k in ("period_union", "categorize", "tag(", "split_url", "flood", "merge_events"))

    def features(self, case, out):
        fs = [f"{case['backend']}:result:{out['res'][0]}:{out['res'][1]}"]
        for k in ("period_union", "categorize", "tag(", "split_url_events", "simplify", "flood", "merge_events_by_keys", "union_no_overlap",
                  "filter_period_intersect", "chunk_events"):
            if k in case["prog"]:
                fs.append("uses:" + k.strip("("))
        return fs

    def shrink(self, case):
        lines = case["prog"].split("\n")
        for i in range(2, len(lines) - 1):
            yield {**case, "prog": "\n".join(lines[:i] + lines[i + 1 :])}
        for b in ("b0", "b1"):
            l = case["events"][b]
            for i in range(len(l)):
                yield {**case, "events": {**case["events"], b: l[:i] + l[i + 1 :]}}

    def extra_search(self, ctx, around):
        return self.gen(Ctx("thorough", ctx.seed + 1))[:3000]


PROP = C12()
