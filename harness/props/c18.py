"""C18 - buffered writes are flushed once they are about ten seconds old"""
import json

from ..base import Ctx, Prop
from .. import commitlib, storegen
from .c06 import C06

TEN = 10_000_000


def trickle_history(rng, n):
    g = storegen.HistGen(rng, nbuckets=2, grid=6)
    g.start()
    ops = [[0] + o for o in g.ops]
    g.ops = []
    mode = rng.choice(["burst", "trickle", "mixed", "edge"])
    big = rng.random() < 0.12
    for _ in range(n):
        b = rng.choice(g.buckets)
        q = rng.random()
        if q < 0.52:
            g.op_insert(b)
        elif q < 0.58:
            g.op_insert_carrying(b)
        elif q < 0.63:
            g.op_bulk_unknown_ids(b)
        elif q < 0.7:
            g.op_bulk(b)
        elif q < 0.8:
            g.op_replace(b)
        elif q < 0.9:
            g.op_replacelast(b)
        else:
            g.op_delete(b)
        for o in g.ops:
            if mode == "burst":
                dt = rng.choice([0, 1000, 50000])
            elif mode == "trickle":
                dt = rng.choice([500_000, 2_000_000, 4_000_000, 6_000_000])
            elif mode == "edge":
                dt = rng.choice([TEN - 1, TEN, TEN + 1, TEN + 1000, 5_000_000, 4_999_999, 5_000_001, 0])
            else:
                dt = rng.choice([0, 1000, 300_000, 3_000_000, 11_000_000, 60_000_000, 3_600_000_000])
            ops.append([dt] + o)
        g.ops = []
        if rng.random() < 0.06:
            # the heartbeat loop's limit-1 read, then possibly a long pause before the next write
            ops.append([rng.choice([0, 1000, 11_000_000]), "read1", rng.choice(g.buckets)])
        if big and rng.random() < 0.1:
            # a bulk insert larger than any batch size, issued after a pause (at most one per history: every later
            # observation lists all of it)
            big = False
            b = rng.choice(g.buckets)
            n = rng.choice([101, 120, 150])
            ops.append([rng.choice([11_000_000, 60_000_000, 2_000_000]), "bulk", b, [storegen.rand_ev(rng) for _ in range(n)]])
            g.live[b] += list(range(g.nrefs, g.nrefs + n))
            g.nrefs += n
        if rng.random() < 0.05:
            # a rejected write (stale handle of a bucket that does not exist) in between: it must not leave the store
            # in a state in which later writes are no longer flushed. (The references it would have created stay unassigned.)
            if rng.random() < 0.5:
                ops.append([rng.choice([0, 1000, 3_000_000]), "bulk", "ghost", [storegen.rand_ev(rng), storegen.rand_ev(rng)]])
                g.nrefs += 2
            else:
                ops.append([rng.choice([0, 1000, 3_000_000]), "insert", "ghost", storegen.rand_ev(rng)])
                g.nrefs += 1
    # the process's local time zone must not matter (datetime.now() is naive local time)
    case = {"lazy": True, "ops": ops, "tz": rng.choice([None, None, "America/New_York", "Asia/Tokyo", "UTC"])}
    if rng.random() < 0.25:
        # another store of the same process (another database file) is written to right before some of the operations
        case["neighbour"] = sorted(rng.sample(range(len(ops)), min(len(ops), rng.randint(1, 8))))
    return case


class C18(C06):
    ID = "C18"
    MODULE = "AwProofs.Props.C18"
    THEOREMS = ["AwProofs.C18.age_flush", "AwProofs.C18.age_flush_includes_write", "AwProofs.C18.age_flush_insertMany_whole", "AwProofs.C18.at_risk_bounded", "AwProofs.C18.pending_young"]
    LEVEL_TEXT = 'Lean 4 theorems on the commit machine with the clock reading as an input of every operation: age_flush (EVERY event write - insert_one, insert_many with any mixture of upserts and new rows, replace, replace_last, delete - that returns more than 10 s after the last commit ends durable, itself included), age_flush_includes_write / age_flush_insertMany_whole (the durable state is the state after all elementary writes of the call), pending_young (every pending write was issued within 10 s after the last commit, monotone clock), at_risk_bounded; real store driven with a controllable clock in several process time zones, second-connection view after every write'
    LEVEL_NOTE = 'trusts: Lean kernel + 3 standard axioms; the clock is datetime.now() as read by the store (replaced by a controllable clock); SQLite commit durability'
    TECHNIQUE = "Lean 4 invariant proof over the commit machine with clock input + differential correspondence with a fake clock"
    RULE = (
        "seeded random write histories with inter-arrival times in bursts (0..50 ms), trickles (0.5..6 s), long idle periods "
        "(11 s..1 h) and edges (10 s -1/0/+1 µs, 5 s ±1 µs) on the real lazily committing store under a controllable clock; "
        "after every write the view of a second connection is compared with the model; non-trivial = history in which a "
        "write arrives more than 10 s after the previous flush"
    )

    def gen(self, ctx):
        out = []
        rng = ctx.rng("c18")
        for i in range(ctx.pick(150, 1200)):
            out.append(("clock", {"k": "view", **trickle_history(rng, rng.randint(8, ctx.pick(50, 150)))}))
        return out

    def oracle(self, case, out):
        if out is None or "resolved" not in out:
            return None
        t_flush = out["start"]
        for j, (op, now, s) in enumerate(zip(out["resolved"], out["nows"], out["steps"])):
            durable = commitlib.norm_view(s["own"]) == commitlib.norm_view(s["second"])
            if commitlib.n_writes(op) > 0 and s["out"][0] == "ok" and now - t_flush > TEN and not durable:
                return (f"op {j} {json.dumps(op, ensure_ascii=False)[:120]} was issued {(now - t_flush) / 1e6:.6f} s after the "
                        f"previous flush but is not durable when it returns")
            if durable:
                # (equal views without a flush - a write that changed nothing - only make the estimate of the last
                # flush later than the real one, i.e. the demand above weaker, never wrong)
                t_flush = now
        return None

    def nontrivial(self, case, out):
        t = out["start"]
        for now, s in zip(out["nows"], out["steps"]):
            if now - t > TEN:
                return True
            if s["own"] == s["second"]:
                t = now
        return False

    def extra_search(self, ctx, around):
        return self.gen(Ctx("thorough", ctx.seed + 1))[:400]


PROP = C18()
