"""C08 - heartbeat merge rule and reduce normal form (aw_transform/heartbeats.py)"""
import itertools
import json

from ..base import Prop
from ..common import answer, ev_tuple, mk_event, p_ev, p_list, pulsetime_us

U = 500_000  # grid unit: 0.5 s, so that pulsetimes 0, 0.5, 1, 2 s fall on grid points


def lab(x):
    return json.dumps({"l": x}, sort_keys=True, separators=(",", ":"))


def _c(d):
    return json.dumps(d, sort_keys=True, separators=(",", ":"))


# data dicts that are different but easy to confuse: None against a missing key, equal sizes with different key sets,
# equal values under different keys, nested differences, int against string
TRICKY = [_c({"app": "b", "title": None}), _c({"app": "b", "url": "u"}), _c({"app": "b"}), _c({"app": "b", "title": None, "url": None}),
          _c({"app": None}), _c({}), _c({"title": "b"}), _c({"app": "b", "n": {"k": [1, 2]}}), _c({"app": "b", "n": {"k": [1, 3]}}),
          _c({"app": 1}), _c({"app": "1"}), _c({"app": "b", "title": ""})]


def mergeable(pt, a, b):
    return a[3] == b[3] and a[1] <= b[1] <= a[1] + a[2] + pt and a[2] >= 0


def ref_reduce(pt, evs):
    out = []
    for e in evs:
        if out and mergeable(pt, out[-1], e):
            l = out[-1]
            out[-1] = [l[0], l[1], max(l[1] + l[2], e[1] + e[2]) - l[1], l[3]]
        else:
            out.append(list(e))
    return out


class C08(Prop):
    ID = "C08"
    MODULE = "AwProofs.Props.C08"
    THEOREMS = [
        "AwProofs.C08.merge_iff",
        "AwProofs.C08.merge_result",
        "AwProofs.C08.reduce_eq_foldl",
        "AwProofs.C08.reduce_no_adjacent_mergeable",
        "AwProofs.C08.reduce_idempotent",
        "AwProofs.C08.reduce_covers",
    ]
    TRUSTED = [
        "timedelta(seconds=pulsetime) -> microseconds is computed by Python at the harness boundary",
        "dict equality of event data is modelled as equality of the canonical JSON text (generators avoid 1/1.0/True mixing)",
    ]
    LEVEL_TEXT = (
        "Machine-checked Lean 4 theorems (merge_iff, merge_result, reduce_eq_foldl, reduce_no_adjacent_mergeable, "
        "reduce_idempotent, reduce_covers) for all event pairs/lists and all integer-microsecond pulsetimes over a "
        "branch-for-branch model of heartbeats.py; the model is compared with the real functions on an exhaustive grid "
        "and random lists on every run"
    )
    LEVEL_NOTE = "trusts: Lean kernel + 3 standard axioms; model-code tie is differential (grid + random); dict equality as canonical JSON text"
    TECHNIQUE = "Lean 4 proof over executable model + differential correspondence check"
    RULE = (
        "merge: every ordered pair on a 0.5 s grid (start 0..3 / 0..5, durations -1..3, two labels) x pulsetimes "
        "{0,0.5,1,2}; reduce: every list of <=n events on the grid (two labels, durations 0..2) x pulsetimes, plus "
        "seeded random lists at microsecond granularity incl. negative durations and fractional pulsetimes; "
        "non-trivial = merge pair, or reduce case where some but not all neighbours merged"
    )

    def gen(self, ctx):
        out = []
        pts = [0, 0.5, 1, 2]
        for pt in pts:
            for ats, ad, bts, bd, bl in itertools.product(range(4), range(-1, 4), range(6), (-1, 0, 1, 3), "AB"):
                out.append(("grid-merge", {"k": "merge", "pt": pt, "a": [None, ats * U, ad * U, lab("A")],
                                           "b": [None, bts * U, bd * U, lab(bl)]}))
        n = ctx.pick(3, 4)
        opts = [(ts, d, l) for ts in range(4) for d in range(3) for l in "AB"]
        for pt in (0, 0.5, 1):
            for k in range(0, n + 1):
                for combo in itertools.product(opts, repeat=k):
                    out.append(("grid-reduce", {"k": "reduce", "pt": pt,
                                                "l": [[None, ts * U, d * U, lab(l)] for ts, d, l in combo]}))
        rng = ctx.rng("c08")
        for _ in range(ctx.pick(1500, 100000)):
            m = rng.randint(1, 30)
            t = rng.randint(0, 10**4) * 1000
            l = []
            for _ in range(m):
                t += 1000 * rng.choice([0, 0, 1, rng.randint(0, 3000), rng.randint(-1000, 1000)])
                d = rng.choice([0, 1, rng.randint(0, 2 * 10**6), rng.randint(-10**5, 10**6)])
                l.append([rng.choice([None, rng.randint(0, 99)]), t, d, lab(rng.choice("AAB"))])
            pt = rng.choice([0, 1e-6, 0.3, 1, 1.5, rng.random() * 3, rng.randint(0, 5)])
            out.append(("random-reduce", {"k": "reduce", "pt": pt, "l": l}))
        for _ in range(ctx.pick(2000, 100000)):
            a = [rng.choice([None, 7]), rng.randint(0, 10**4) * 1000, rng.randint(-10**6, 3 * 10**6), lab(rng.choice("AB"))]
            pt = rng.choice([0, 1e-6, 0.3, 1, rng.random() * 3])
            ptus = pulsetime_us(pt)
            b_ts = (a[1] + a[2] + ptus) // 1000 * 1000 + 1000 * rng.choice([-2, -1, 0, 1, 2, rng.randint(-1000, 1000)])
            b = [None, rng.choice([b_ts, b_ts, a[1], a[1] - 1000, a[1] + 1000]), rng.randint(-10**6, 3 * 10**6), lab(rng.choice("AB"))]
            out.append(("random-merge", {"k": "merge", "pt": pt, "a": a, "b": b}))
        # long streams (hundreds to a few thousand heartbeats, around powers of two and round numbers): mostly merging
        # neighbours; and one long event followed by many contained heartbeats spaced wider than the pulsetime
        for n in ([255, 256, 257, 300, 513, 600, 1025] if ctx.quick else [127, 128, 129, 255, 256, 257, 300, 511, 512, 513, 600, 1000, 1023, 1025, 2049, 4097]):
            for shape in range(3):
                t = rng.randint(0, 1000) * 1000
                l = []
                if shape == 0:
                    for _ in range(n):
                        t += 1000 * rng.choice([0, 1, 1, 500, 999, 1000, 1001, 2500])
                        l.append([None, t, rng.choice([0, 0, 1000, 10**6]), lab(rng.choice("AAAAB"))])
                    pt = rng.choice([1, 1.5])
                elif shape == 1:
                    l.append([None, t, (n + 5) * 3 * U, lab("A")])
                    for i in range(n - 1):
                        l.append([None, t + (i + 1) * 3 * U, 0, lab("A")])
                    pt = rng.choice([0, 1, 2])
                else:
                    for i in range(n):
                        t += rng.choice([U, U, 2 * U, 3 * U])
                        l.append([None, t, rng.choice([0, U // 2, 5 * U]), lab("A" if (i // rng.choice([1, 3, 200])) % 2 == 0 else "B")])
                    pt = rng.choice([1, 2, 3])
                out.append(("long-reduce", {"k": "reduce", "pt": pt, "l": l}))
        # pairs and short lists over confusable data dicts, always inside the pulse window
        for da in TRICKY:
            for db in TRICKY:
                out.append(("tricky-data-merge", {"k": "merge", "pt": 5, "a": [None, 0, U, da], "b": [None, U, U, db]}))
        for _ in range(ctx.pick(300, 5000)):
            l = [[None, i * U, U, rng.choice(TRICKY)] for i in range(rng.randint(2, 5))]
            out.append(("tricky-data-reduce", {"k": "reduce", "pt": 5, "l": l}))
        # gaps of whole days (and longer) plus/minus a little: timedelta has separate days/seconds/microseconds fields
        DAY = 86_400_000_000
        for _ in range(ctx.pick(1500, 50000)):
            a = [None, rng.randint(0, 10**4) * 1000, rng.choice([0, 1000, 10 * U, rng.randint(0, 3 * DAY)]), lab(rng.choice("AB"))]
            pt = rng.choice([0, 0.5, 1, 5, 60, rng.random() * 10])
            ptus = pulsetime_us(pt)
            k = rng.choice([1, 1, 2, 7, 30, 365, rng.randint(1, 1000)])
            delta = rng.choice([0, 0, 1000, -1000, ptus // 1000 * 1000, ptus // 1000 * 1000 + 1000, rng.randint(-5, 5) * 1000, rng.randint(0, 10**6) * 1000])
            b = [None, a[1] + a[2] // 1000 * 1000 + k * DAY + delta, rng.choice([0, U, rng.randint(0, 2 * DAY)]), lab(rng.choice("AAB"))]
            out.append(("day-gap-merge", {"k": "merge", "pt": pt, "a": a, "b": b}))
            out.append(("day-gap-reduce", {"k": "reduce", "pt": pt, "l": [a, b, [None, b[1] + b[2] // 1000 * 1000 + rng.choice([0, 1000, DAY]), U, b[3]]]}))
        # heartbeats stamped with aware datetimes of a zone that is at UTC+0 in winter, around the night its clocks go forward:
        # an event is an interval of absolute time whatever zone its instant was given in
        from ..common import DST_SPRING

        for zone, ls in DST_SPRING:
            for back in (600, 1800, 3000):
                for dur in (3600, 7200, 2 * 3600 + 1800):
                    a = [None, (ls - back) * 1_000_000, dur * 1_000_000, lab("A")]
                    for where in (dur - 3000, dur - 1, dur, dur + 1, dur + 3):
                        if where < 0:
                            continue
                        b = [None, a[1] + where * 1_000_000, 1_000_000, lab("A")]
                        out.append(("dst-zone-merge", {"k": "merge", "pt": 2, "a": a, "b": b, "tz": zone}))
                        out.append(("dst-zone-reduce", {"k": "reduce", "pt": 2, "l": [a, b, [None, b[1] + 2_000_000, 0, lab("A")]], "tz": zone}))
        return out

    def impl(self, case):
        from aw_transform.heartbeats import heartbeat_merge, heartbeat_reduce

        if case["k"] == "merge":
            r = heartbeat_merge(mk_event(case["a"], case.get("tz", 0)), mk_event(case["b"], case.get("tz", 0)), case["pt"])
            return None if r is None else ev_tuple(r)
        evs = [mk_event(e, case.get("tz", 0)) for e in case["l"]]
        r = heartbeat_reduce(evs, case["pt"])
        out = [ev_tuple(e) for e in r]
        again = heartbeat_reduce([mk_event(e) for e in out], case["pt"])
        return {"out": out, "again": [ev_tuple(e) for e in again]}

    def model_lines(self, case):
        pt = pulsetime_us(case["pt"])
        if case["k"] == "merge":
            return [f"hb merge {pt} {p_ev(case['a'])} {p_ev(case['b'])}"]
        return [f"hb reduce {pt} {p_list(case['l'], p_ev)}"]

    def model_out(self, case, answers):
        t = answer(answers[0])
        if case["k"] == "merge":
            return t.opt(t.ev)
        out = t.list(t.ev)
        return {"out": out, "again": t.list(t.ev)}

    def oracle(self, case, out):
        pt = pulsetime_us(case["pt"])
        if case["k"] == "merge":
            a, b = case["a"], case["b"]
            should = mergeable(pt, a, b)
            if (out is not None) != should:
                return f"merge decision {out is not None} but rule says {should}"
            if out is not None:
                exp = [a[0], a[1], max(a[1] + a[2], b[1] + b[2]) - a[1], a[3]]
                if out != exp:
                    return f"merged event {out} expected {exp}"
                if out[2] < a[2]:
                    return "merge shortened the event"
            return None
        l = case["l"]
        o = out["out"]
        ref = ref_reduce(pt, l)
        if o != ref:
            return f"reduce differs from the left fold of the rule: {o} vs {ref}"
        for x, y in zip(o, o[1:]):
            if mergeable(pt, x, y):
                return f"adjacent mergeable events in output: {x} {y}"
        if out["again"] != o:
            return "reduce is not idempotent"
        for e in l:
            if e[2] >= 0 and not any(x[1] <= e[1] and e[1] + e[2] <= x[1] + x[2] for x in o):
                return f"input interval {e} not covered"
        return None

    def nontrivial(self, case, out):
        if case["k"] == "merge":
            return True
        return 1 < len(out["out"]) < len(case["l"]) or (len(case["l"]) >= 2)

    def features(self, case, out):
        if case["k"] == "merge":
            return ["merge:merged" if out is not None else "merge:refused"]
        n, m = len(case["l"]), len(out["out"])
        return ["reduce:" + ("empty" if n == 0 else "none-merged" if m == n else "all-merged" if m == 1 else "some-merged")]

    def shrink(self, case):
        if case["k"] == "reduce":
            l = case["l"]
            for i in range(len(l)):
                yield {**case, "l": l[:i] + l[i + 1 :]}
            for i, e in enumerate(l):
                if e[0] is not None:
                    yield {**case, "l": l[:i] + [[None] + e[1:]] + l[i + 1 :]}

    def extra_search(self, ctx, around):
        from ..base import Ctx

        return self.gen(Ctx("thorough", ctx.seed + 1))


PROP = C08()
