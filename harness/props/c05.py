"""C05 - bucket lifecycle behaves as a keyed map"""
import json

from ..base import Ctx, Prop
from ..common import canon_data
from .. import storegen, storelib


class LifeGen(storegen.HistGen):
    def __init__(self, rng):
        super().__init__(rng, nbuckets=3, grid=4)
        self.alive = set()

    def late_write(self, b):
        """a write through a handle the client still holds of a bucket that does not exist (any more): it must be refused and
        leave no trace - in particular nothing that a later bucket of the same id would start with"""
        if self.rng.random() < 0.6:
            self.ops.append(["insert", b, storegen.rand_ev(self.rng, self.grid, self.base)])
            self.nrefs += 1  # (a refused insert still takes a reference number in the runner)
        else:
            evs = [storegen.rand_ev(self.rng, self.grid, self.base) for _ in range(self.rng.randint(1, 3))]
            self.ops.append(["bulk", b, evs])
            self.nrefs += len(evs)

    def step(self):
        b = self.rng.choice(self.buckets)
        r = self.rng.random()
        if b not in self.alive:
            if r < 0.55:
                self.ops.append(["create", b, storegen.mk_meta(self.rng, b)])
                self.alive.add(b)
                self.live[b] = []
            elif r < 0.60:
                self.ops.append(["create_bad", b, self.rng.choice(["created", "null-field"])])
                self.ops.append(["lookup", b])
            elif r < 0.65:
                self.ops.append(["lookup", b])
            elif r < 0.75:
                self.ops.append(["metadata", b])
            elif r < 0.85:
                self.ops.append(["update", b, {"name": "x"}])
            elif r < 0.93:
                self.late_write(b)
            else:
                self.ops.append(["delbucket", b])
            return
        if r < 0.04:
            self.ops.append(["reopen"])  # the client restarts: a new Datastore object on the same file
        elif r < 0.25:
            self.op_insert(b)
        elif r < 0.32:
            self.op_bulk(b)
        elif r < 0.40:
            self.op_replacelast(b)
        elif r < 0.60:
            u = {}
            for f, vals in (("type", ["t2", "tü3"]), ("client", ["c2"]), ("hostname", ["h2", "hö3"]),
                            ("name", ["n2", "nü3"]), ("data", ['{"k": 1}', '{"k": true}', '{"k": 1.0}', '{"k": [0, 1]}', '{"k": [false, true]}',
                                                                '{"n": {"m": [1, null]}}', '{"n": {"m": [true, null]}}'])):
                if self.rng.random() < 0.4:
                    u[f] = self.rng.choice(vals)
            if not u:
                u = {"name": "n4"}
            self.ops.append(["update", b, u])
        elif r < 0.75:
            self.ops.append(["delbucket", b])
            self.alive.discard(b)
            self.live[b] = []
        elif r < 0.82:
            self.ops.append(["lookup", b])
        elif r < 0.89:
            self.ops.append(["metadata", b])
        elif r < 0.95:
            self.ops.append(["buckets"])
        else:
            self.ops.append(["get", b, -1, None, None])


def given_meta(b, m):
    return {"type": m["type"], "client": m["client"], "hostname": m["hostname"],
            "created": m["created_us"], "name": m.get("name"),
            "data": canon_data(json.loads(m["data"]) if m.get("data") else {})}


class C05(Prop):
    ID = "C05"
    MODULE = "AwProofs.Props.C05"
    THEOREMS = ["AwProofs.C05.handle_cache_coherent", "AwProofs.C05.listing_preserved_sqlite", "AwProofs.C05.create_existing_rejected_peewee", "AwProofs.C05.create_existing_rejected_sqlite", "AwProofs.C05.create_listed_memory", "AwProofs.C05.create_listed_peewee", "AwProofs.C05.create_listed_sqlite", "AwProofs.C05.delete_removes_bucket_and_events_memory", "AwProofs.C05.delete_removes_bucket_and_events_peewee", "AwProofs.C05.delete_removes_bucket_and_events_sqlite", "AwProofs.C05.describe_is_view_memory", "AwProofs.C05.describe_is_view_peewee", "AwProofs.C05.describe_is_view_sqlite", "AwProofs.C05.listing_is_view_memory", "AwProofs.C05.listing_is_view_peewee", "AwProofs.C05.listing_is_view_sqlite", "AwProofs.C05.listing_keys_unique_memory", "AwProofs.C05.listing_keys_unique_peewee", "AwProofs.C05.listing_keys_unique_sqlite", "AwProofs.C05.missing_raises_and_unchanged_memory", "AwProofs.C05.missing_raises_and_unchanged_peewee", "AwProofs.C05.missing_raises_and_unchanged_sqlite", "AwProofs.C05.peewee_keys_coherent", "AwProofs.C05.peewee_keys_coherent_reachable", "AwProofs.C05.recreate_is_empty_memory", "AwProofs.C05.recreate_is_empty_peewee", "AwProofs.C05.recreate_is_empty_sqlite", "AwProofs.C05.stored_meta_memory", "AwProofs.C05.update_empty_rejected_sqlite", "AwProofs.C05.update_fields_memory", "AwProofs.C05.update_fields_sql", "AwProofs.C05.update_none_unchanged_memory", "AwProofs.C05.update_none_unchanged_sql", "AwProofs.C05.update_only_supplied_memory", "AwProofs.C05.update_only_supplied_peewee", "AwProofs.C05.update_only_supplied_sqlite"]
    MODEL_NEEDS_IMPL = True
    WORKERS = 10
    LEVEL_TEXT = 'Lean 4 theorems for each backend model: create_listed_B, update_only_supplied_B (+ field-wise update_fields_*), delete_removes_bucket_and_events_B, recreate_is_empty_B, missing_raises_and_unchanged_B, peewee_keys_coherent, handle_cache_coherent (Datastore.bucket_instances never holds a stale handle); models compared with the real backends on lifecycle histories incl. delete/re-create with writes and rejected creations'
    LEVEL_NOTE = 'trusts: Lean kernel + 3 standard axioms; metadata strings opaque; create only on a fresh id (memory replaces, SQL backends reject: both stated as theorems)'
    TECHNIQUE = "Lean 4 invariant/refinement proof over backend models + differential correspondence on lifecycle histories"
    RULE = (
        "seeded random histories of create/update/delete/lookup/describe on three bucket ids mixed with event writes, "
        "including operations on missing buckets and delete-then-recreate; all three real backends; non-trivial = "
        "history with a delete followed by a re-create or an operation on a missing bucket"
    )

    def gen(self, ctx):
        out = []
        rng = ctx.rng("c05")
        for i in range(ctx.pick(150, 2500)):
            g = LifeGen(rng)
            for _ in range(rng.randint(5, ctx.pick(30, 80))):
                g.step()
            for be in storelib.BACKENDS:
                out.append(("lifecycle-history", {"backend": be, "ops": g.ops}))
        # every kind of write, then delete the bucket, re-create the same id and write again the same way: anything a
        # backend remembers about the old bucket (row numbers, keys, handles) must be gone
        for i in range(ctx.pick(40, 600)):
            g = LifeGen(rng)
            b = rng.choice(g.buckets)
            other = [x for x in g.buckets if x != b][0]
            g.ops.append(["create", b, storegen.mk_meta(rng, b)])
            g.ops.append(["create", other, storegen.mk_meta(rng, other)])
            g.alive |= {b, other}

            def writes():
                for _ in range(rng.randint(1, 4)):
                    k = rng.random()
                    if k < 0.35:
                        g.op_insert(b)
                    elif k < 0.7:
                        g.op_bulk(b)
                    elif k < 0.85:
                        g.op_replacelast(b)
                    else:
                        g.op_insert(other)
            writes()
            g.ops.append(["delbucket", b])
            g.live[b] = []
            if rng.random() < 0.3:
                g.ops.append(["lookup", b])
            if rng.random() < 0.5:
                g.late_write(b)  # the client's old handle is used once more before the id is created again
            g.ops.append(["create", b, storegen.mk_meta(rng, b)])
            writes()
            g.ops.append(["get", b, -1, None, None])
            g.ops.append(["buckets"])
            for be in storelib.BACKENDS:
                out.append(("recreate-history", {"backend": be, "ops": g.ops}))
        # a bucket holding more events than any internal batch (10 000) is deleted and its id created again
        if True:
            n = 10_500
            evs = [[None, storegen.T0 + k * 1000, 1000, storegen.LABELS[k % 2]] for k in range(n)]
            ops = [["create", "b0", storegen.mk_meta(rng, "b0")], ["create", "b1", storegen.mk_meta(rng, "b1")],
                   ["bulk", "b1", evs], ["delbucket", "b1"], ["create", "b1", storegen.mk_meta(rng, "b1")],
                   ["insert", "b1", storegen.rand_ev(rng)], ["buckets"]]
            for be in ("sqlite", "peewee"):  # (the memory backend drops the whole list object; its inserts are quadratic)
                out.append(("huge-bucket-recreate", {"backend": be, "ops": ops}))
        # a restart right after the buckets exist, then every kind of bucket and event operation on the existing buckets
        for i in range(ctx.pick(30, 400)):
            g = LifeGen(rng)
            for b in g.buckets[:2]:
                g.ops.append(["create", b, storegen.mk_meta(rng, b)])
                g.alive.add(b)
            if rng.random() < 0.5:
                g.op_insert(g.buckets[0])
            g.ops.append(["reopen"])
            for _ in range(rng.randint(1, 8)):
                g.step()
            g.ops.append(["buckets"])
            for be in storelib.BACKENDS:
                out.append(("reopen-history", {"backend": be, "ops": g.ops}))
        # event writes with nothing read in between, then a bucket operation that must be refused (missing bucket, existing
        # id, malformed creation) - "raises and changes nothing" includes the writes that are still buffered; only the
        # final contents are observed
        for i in range(ctx.pick(60, 800)):
            g = LifeGen(rng)
            for b in g.buckets[:2]:
                g.ops.append(["create", b, storegen.mk_meta(rng, b)])
                g.alive.add(b)
            for _ in range(rng.randint(1, 3)):
                for _ in range(rng.randint(1, 6)):
                    b = rng.choice(g.buckets[:2])
                    k = rng.random()
                    if k < 0.6:
                        g.op_insert(b)
                    elif k < 0.75:
                        g.op_replace(b)
                    elif k < 0.9:
                        g.op_delete(b)
                    else:
                        g.op_replacelast(b)
                g.ops.append(rng.choice([["delbucket", g.buckets[2]], ["update", g.buckets[2], {"name": "x"}], ["metadata", g.buckets[2]],
                                         ["create", g.buckets[0], storegen.mk_meta(rng, g.buckets[0])],
                                         ["create_bad", g.buckets[2], "created"], ["create_bad", g.buckets[2], "null-field"]]))
            for be in storelib.BACKENDS:
                # (the memory backend replaces a bucket that is created again - outside the quantifier: no such step there)
                ops = g.ops if be != "memory" else [["delbucket", g.buckets[2]] if o[0] == "create" and n >= 2 else o for n, o in enumerate(g.ops)]
                out.append(("quiet-refused", {"backend": be, "ops": ops, "quiet": True}))
        return out

    def impl(self, case):
        r = storelib.Runner(case["backend"], with_dumps="last" if case.get("quiet") else True).run(case["ops"])
        r["outs"] = [storelib.norm_err(case["backend"], o) for o in r["outs"]]
        return r

    def model_lines(self, case, impl_out):
        return storelib.model_lines(case["backend"], impl_out["resolved"], "last" if case.get("quiet") else True)[0]

    def model_out(self, case, answers, impl_out):
        _, idx = storelib.model_lines(case["backend"], impl_out["resolved"], "last" if case.get("quiet") else True)
        return storelib.model_out(case["backend"], impl_out["resolved"], answers, idx)

    def same(self, case, io, mo):
        return storelib.same_history(case["backend"], io, mo)

    def oracle(self, case, out):
        if "resolved" in out:
            # the events of a (re-)created bucket are exactly the ones written since it was created
            w = storegen.RefModel().check(out["resolved"], out["outs"], out["dumps"])
            if w:
                return w
        ref = {}  # bucket -> expected metadata fields (name None = not given)
        nev = {}
        prev = {}
        prev_seen = True  # was the store observed right before this operation (not in histories observed only at their end)
        for n, (op, o, d) in enumerate(zip(out["resolved"], out["outs"], out["dumps"])):
            k = op[0]
            where = f"op {n} {json.dumps(op, ensure_ascii=False)[:160]}"
            b = op[1] if len(op) > 1 else None
            missing = b is not None and b not in ref
            if k == "create":
                if not missing:
                    return None  # creating a live id: outside the property's quantifier
                if o[0] != "ok":
                    return f"{where}: create rejected {o}"
                ref[b] = given_meta(b, op[2])
                nev[b] = 0
                if d is not None and d[b]["events"]:
                    return f"{where}: new bucket is not empty: {d[b]['events']}"
            elif k == "create_bad":
                if o == ["accepted"]:
                    return f"{where}: a creation with invalid metadata was accepted"
            elif k == "update":
                if missing:
                    if o != ["err", "ValueError"]:
                        return f"{where}: update of a missing bucket gave {o}, expected ValueError"
                else:
                    if o[0] != "ok":
                        return f"{where}: update rejected {o}"
                    for f, v in op[2].items():
                        ref[b][f] = canon_data(json.loads(v)) if f == "data" else v
            elif k == "delbucket":
                if missing:
                    if o != ["err", "ValueError"]:
                        return f"{where}: delete of a missing bucket gave {o}, expected ValueError"
                else:
                    if o[0] != "ok":
                        return f"{where}: delete rejected {o}"
                    del ref[b]
            elif k == "lookup":
                if (o == ["ok"]) == missing or (missing and o != ["err", "KeyError"]):
                    return f"{where}: lookup gave {o}, bucket exists: {not missing}"
            elif k == "metadata":
                if missing:
                    if o != ["err", "ValueError"]:
                        return f"{where}: describe of a missing bucket gave {o}, expected ValueError"
                else:
                    w = self._meta_mismatch(ref[b], o[1])
                    if w:
                        return f"{where}: {w}"
            elif k == "buckets":
                if sorted(o[1]) != sorted(ref):
                    return f"{where}: listing {sorted(o[1])}, expected {sorted(ref)}"
                for x in ref:
                    w = self._meta_mismatch(ref[x], o[1][x])
                    if w:
                        return f"{where}: bucket {x}: {w}"
            if d is not None:
                if sorted(d) != sorted(ref):
                    return f"{where}: buckets {sorted(d)}, expected {sorted(ref)}"
                for x in ref:
                    w = self._meta_mismatch(ref[x], d[x]["meta"])
                    if w:
                        return f"{where}: bucket {x}: {w}"
                if o[0] == "err" and prev_seen and d != prev:
                    return f"{where}: raised {o} but the store changed"
                prev = d
                prev_seen = True
            elif k in storelib.WRITE_OPS:
                prev_seen = False  # a write that was not observed (history observed only at its end)
        return None

    @staticmethod
    def _meta_mismatch(exp, got):
        if len(got) != 6:
            return " ".join(str(x) for x in got)  # (the runner's note that a kept handle and the store disagree)
        name, typ, client, host, created, data = got
        if (typ, client, host, created, data) != (exp["type"], exp["client"], exp["hostname"], exp["created"], exp["data"]):
            return f"metadata {got} differs from what was given {exp}"
        if exp["name"] is not None and name != exp["name"]:
            return f"name {name!r} differs from the given {exp['name']!r}"
        return None

    def nontrivial(self, case, out):
        ks = [o[0] for o in case["ops"]]
        return "delbucket" in ks

    def features(self, case, out):
        return [case["backend"] + ":" + o[0] + ":" + r[0] + (":" + r[1] if r[0] == "err" else "")
                for o, r in zip(case["ops"], out["outs"])]

    def shrink(self, case):
        for ops in storegen.shrink_history(case["ops"]):
            yield {**case, "ops": ops}

    def extra_search(self, ctx, around):
        return self.gen(Ctx("thorough", ctx.seed + 1))[:3000]


PROP = C05()
