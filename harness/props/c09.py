"""C09 - interval intersection and union of event lists are exact
(aw_transform/filter_period_intersect.py and the timeslot library it uses)"""
import functools
import itertools
import json

from ..base import Prop
from ..common import answer, dt_to_us, ev_tuple, mk_event, p_ev, p_list, us_to_dt, warm_up

U = 1000  # grid unit: 1 ms (Event timestamps have millisecond resolution)
T0 = 1_600_000_000_000_000  # 2020-09-13T12:26:40Z, a multiple of 1 ms


@functools.lru_cache(maxsize=None)
def dat(tag, i):
    """data with a nested mutable value, so that a shallow copy is observable"""
    return json.dumps({"l": f"{tag}{i}", "n": [i]}, sort_keys=True, separators=(",", ":"))


def fin(e):
    return e[1] + e[2]


def nonoverlap(l):
    """no two events of the list share a positive amount of time (any order); zero-length events
    may sit on a boundary of another event, not strictly inside one"""
    for i, x in enumerate(l):
        for y in l[i + 1 :]:
            if not (fin(x) <= y[1] or fin(y) <= x[1]):
                return False
    return True


def judged_isect(case):
    a, f = case["a"], case["f"]
    return (
        not case.get("raw")
        and all(e[2] >= 0 for e in a + f)
        and all(e[1] % 1000 == 0 for e in a + f)
        and nonoverlap(a)
        and nonoverlap(f)
    )


def judged_union(case):
    l = case["a"] + case["b"]
    return not case.get("raw") and all(e[2] >= 0 for e in l) and all(e[1] % 1000 == 0 for e in l)


def canon_lists(R, n):
    """all lists of <= n pairwise non-overlapping grid intervals [s, e], 0 <= s <= e <= R, in
    time order (s1 <= e1 <= s2 <= e2 ...)"""
    out = [[]]

    def rec(prefix, lo):
        if len(prefix) == n:
            return
        for s in range(lo, R + 1):
            for e in range(s, R + 1):
                l = prefix + [(s, e)]
                out.append(l)
                rec(l, e)

    rec([], 0)
    return out


def orders(l, rng):
    """input orders of a list: if no two events share a timestamp every order sorts to the same
    list, one random shuffle is sent; with ties the stable sort keeps the input order inside the
    tie, so time order and its reverse are both sent"""
    if len({s for s, _ in l}) == len(l):
        l = list(l)
        rng.shuffle(l)
        return [l]
    return [list(l), list(reversed(l))]


def grid_events(l, tag, ids):
    return [[(10 * (k + 1) + (1 if tag == "a" else 2)) if ids else None, T0 + s * U, (e - s) * U, dat(tag, k)]
            for k, (s, e) in enumerate(l)]


def measure_common(a, f):
    """measure of (union of a) ∩ (union of f), half-open intervals, by coordinate compression"""
    pts = sorted({x for e in a + f for x in (e[1], fin(e))})
    tot = 0
    for p, q in zip(pts, pts[1:]):
        if any(e[1] <= p and q <= fin(e) for e in a) and any(e[1] <= p and q <= fin(e) for e in f):
            tot += q - p
    return tot


def measure_cover(l):
    pts = sorted({x for e in l for x in (e[1], fin(e))})
    tot = 0
    for p, q in zip(pts, pts[1:]):
        if any(e[1] <= p and q <= fin(e) for e in l):
            tot += q - p
    return tot


class _Rec:
    """stand-in for the module logger: counts the "Should be unreachable" reports"""

    def __init__(self):
        self.errors = 0

    def error(self, *a, **k):
        self.errors += 1

    def __getattr__(self, name):
        return lambda *a, **k: None


def _mutables(ev):
    """ids of the mutable objects an event owns (the event dict, its data dict, nested lists)"""
    out = {id(ev)}
    stack = [ev.data]
    while stack:
        x = stack.pop()
        if isinstance(x, dict):
            out.add(id(x))
            stack += list(x.values())
        elif isinstance(x, list):
            out.add(id(x))
            stack += x
    return out


def _mk(e, case, which):
    ev = mk_event(e, case.get("tz", 0) if which == "a" else 0)
    if case.get("raw"):
        # bypass the Event.timestamp setter: a sub-millisecond timestamp (outside the property's
        # quantifier; run for the correspondence of the setter's floor only)
        ev["timestamp"] = us_to_dt(e[1])
    return ev


class C09(Prop):
    ID = "C09"
    MODULE = "AwProofs.Props.C09"
    WORKERS = 12
    THEOREMS = [
        "AwProofs.C09.isect_sound",
        "AwProofs.C09.isect_complete",
        "AwProofs.C09.isect_no_double",
        "AwProofs.C09.isect_unreachable_branch_dead",
        "AwProofs.C09.isect_total_duration",
        "AwProofs.C09.isect_common_time",
        "AwProofs.C09.isect_total_duration_measure",
        "AwProofs.C09.union_never_raises",
        "AwProofs.C09.union_sorted_gapped",
        "AwProofs.C09.union_cover",
        "AwProofs.C09.union_dataless",
        "AwProofs.C09.union_total_duration",
    ]
    TRUSTED = [
        "the timeslot library (third party, site-packages/timeslot/timeslot.py) is modelled from its source; its four methods are compared with the model on a grid of slot pairs incl. start > end on every run",
        "sorted()/list.sort(key=) are stable sorts using only < on the timestamps (modelled by a stable insertion sort)",
        "copy.deepcopy yields an independent equal copy (the harness checks that no mutable object of an input is reachable from an output of filter_period_intersect, and that the inputs are unchanged by identity and value)",
        "Event.timestamp setter = floor to 1 ms is in the model of _replace_event_period; on timestamps that are multiples of 1 ms (hypothesis MsAligned, guaranteed by the Event constructor) it is the identity, which is what the theorems use",
        "Timeslot objects are always truthy (no __bool__/__len__), so `if ip` tests for None",
    ]
    ASSUMPTIONS = [
        "event durations >= 0 and timestamps multiples of 1 ms (what the Event constructor produces); negative durations and sub-ms timestamps are run for correspondence and recorded, not judged",
        "intersection: each input list is free of internal overlap (no two of its events share a positive amount of time); any input order",
        "an event object appears at most once in a list (the same list passed as both arguments is run and judged too)",
    ]
    LEVEL_TEXT = (
        "Machine-checked Lean 4 theorems over a branch-for-branch model of filter_period_intersect.py and of "
        "Timeslot.contains/intersection/gap/union: isect_sound, isect_complete, isect_no_double, "
        "isect_unreachable_branch_dead, isect_total_duration, isect_common_time, isect_total_duration_measure for all pairs of internally non-overlapping event lists "
        "in any order; union_never_raises, union_sorted_gapped, union_cover, union_dataless, union_total_duration for arbitrary lists "
        "with durations >= 0; the model is compared with the real functions on an exhaustive placement grid and "
        "random lists on every run"
    )
    LEVEL_NOTE = (
        "trusts: Lean kernel + 3 standard axioms; model-code tie is differential (exhaustive grid + random); "
        "timeslot library, sort stability and deepcopy as stated in trusted_base"
    )
    TECHNIQUE = "Lean 4 proof over executable model + differential correspondence check"
    RULE = (
        "isect: every pair of internally non-overlapping lists of <=2 and <=3 (quick; <=3 and <=3 thorough) events with "
        "endpoints on a 1 ms grid 0..5 (0..6), zero-length events included, input order shuffled (both tie orders where "
        "timestamps tie), ids set on one half; union: every pair of arbitrary lists of <=2 and <=2 grid events; slot: every "
        "pair of slots on 0..4 incl. start > end; seeded random lists at microsecond durations (adjacent, touching, "
        "zero-length, identical, nested, one spanning many; the same list as both arguments); zero-length pieces are not "
        "compared between model and code (set aside by the property) but each one returned by the code must be e∩f of a pair; not-judged streams (negative "
        "durations, internally overlapping lists, sub-ms timestamps): recorded, compared only on what the hypothesis-free "
        "theorems claim (unreachable branch not taken; union does not raise, clears data). non-trivial = at least two input events and a "
        "non-empty output"
    )

    # ---- generation -------------------------------------------------------------------------
    def gen(self, ctx):
        out = []
        rng = ctx.rng("c09")
        # boundary cases first (corpus-like): the layouts of the suite and of the docstrings
        E = lambda i, s, e, tag="a", k=0: [i, T0 + s * U, (e - s) * U, dat(tag, k)]
        hand = [
            ([E(1, 0, 10)], [E(None, 0, 10, "f")]),  # identical
            ([E(1, 0, 10)], [E(None, 10, 20, "f")]),  # touching
            ([E(1, 10, 20)], [E(None, 0, 10, "f")]),  # touching, other side
            ([E(1, 0, 10)], [E(None, 2, 4, "f"), E(None, 4, 6, "f", 1), E(None, 8, 12, "f", 2)]),  # one spanning many
            ([E(1, 2, 4), E(2, 4, 6, "a", 1), E(3, 8, 12, "a", 2)], [E(None, 0, 10, "f")]),
            ([E(1, 3, 9), E(2, 14, 22, "a", 1)], [E(None, 1, 7, "f"), E(None, 9, 12, "f", 1), E(None, 16, 20, "f", 2)]),
            ([E(1, 5, 5)], [E(None, 0, 10, "f")]),  # zero-length inside
            ([E(1, 0, 10)], [E(None, 5, 5, "f")]),
            ([E(1, 0, 0), E(2, 0, 5, "a", 1)], [E(None, 0, 5, "f")]),  # zero-length sharing a start
            ([E(2, 0, 5, "a", 1), E(1, 0, 0)], [E(None, 0, 5, "f")]),
            ([E(1, 0, 5)], [E(None, 0, 5, "f", 1), E(None, 0, 0, "f")]),
            ([], [E(None, 0, 5, "f")]),
            ([E(1, 0, 5)], []),
        ]
        for a, f in hand:
            out.append(("hand-isect", {"k": "isect", "a": a, "f": f}))
            out.append(("hand-union", {"k": "punion", "a": a, "b": f}))

        # Timeslot methods on every pair of grid slots, start > end included
        R = ctx.pick(4, 6)
        for a in itertools.product(range(R + 1), repeat=2):
            for b in itertools.product(range(R + 1), repeat=2):
                out.append(("grid-slot", {"k": "slot", "a": [T0 + a[0] * U, T0 + a[1] * U], "b": [T0 + b[0] * U, T0 + b[1] * U]}))

        # exhaustive small scope: intersection
        R, na, nf = ctx.pick((5, 2, 3), (6, 3, 3))
        # (the event lists are built once per list and id variant and shared between cases)
        la = [(grid_events(o, "a", False), grid_events(o, "a", True)) for l in canon_lists(R, na) for o in orders(l, rng)]
        lf = [(grid_events(o, "f", False), grid_events(o, "f", True)) for l in canon_lists(R, nf) for o in orders(l, rng)]
        i = 0
        for a in la:
            for f in lf:
                i += 1
                out.append(("grid-isect", {"k": "isect", "a": a[i % 2 == 0], "f": f[i % 4 == 1]}))

        # exhaustive small scope: union of arbitrary lists
        R = ctx.pick(4, 5)
        ivs = [(s, e) for s in range(R + 1) for e in range(s, R + 1)]
        lists = [[]] + [[x] for x in ivs] + [[x, y] for x in ivs for y in ivs]
        ua = [(grid_events(l, "a", False), grid_events(l, "a", True)) for l in lists]
        ub = [(grid_events(l, "f", False), grid_events(l, "f", True)) for l in lists]
        i = 0
        for a in ua:
            for b in ub:
                i += 1
                out.append(("grid-union", {"k": "punion", "a": a[i % 2 == 0], "b": b[i % 4 == 1]}))

        # seeded random, microsecond durations, structured
        def walk(n, tag, ids, touching):
            t = T0 + rng.randint(0, 5) * U
            l = []
            for k in range(n):
                t += rng.choice([0, 0, U, rng.randint(0, 30) * U]) if touching else rng.randint(0, 30) * U
                d = rng.choice([0, 1, 999, U, rng.randint(0, 40 * U), rng.randint(0, 40) * U])
                l.append([rng.choice([0, 0, 1, rng.randint(1, 10**6)]) if ids and rng.random() < 0.2 else rng.randint(1, 10**6) if ids else None, t, d, dat(tag, k)])
                t += d
                t = -(-t // U) * U  # next timestamp: first multiple of 1 ms at or after the end
            rng.shuffle(l)
            return l

        for _ in range(ctx.pick(4000, 150000)):
            a = walk(rng.randint(0, 8), "a", rng.random() < 0.7, rng.random() < 0.6)
            mode = rng.random()
            if mode < 0.15:
                f = [[None] + e[1:3] + [dat("f", k)] for k, e in enumerate(a)]  # identical periods
                rng.shuffle(f)
            elif mode < 0.3 and a:
                lo = min(e[1] for e in a) - rng.choice([0, U])
                hi = max(fin(e) for e in a) + rng.choice([0, 1, U])
                f = [[None, lo, hi - lo, dat("f", 0)]]  # one spanning many
            else:
                f = walk(rng.randint(0, 8), "f", rng.random() < 0.3, rng.random() < 0.6)
            c = {"k": "isect", "a": a, "f": f}
            if rng.random() < 0.3:
                c["tz"] = rng.choice([60, -330, 765])
            if rng.random() < 0.08:
                c["warm"] = True  # the same Event objects went through the function before, with other durations
            out.append(("random-isect", c))
            if rng.random() < 0.5:
                out.append(("random-isect", {"k": "isect", "a": f, "f": a}))

        # long lists (hundreds to a couple of thousand events, around powers of two)
        for n in ([257, 600, 1025] if ctx.quick else [129, 257, 513, 600, 1025, 2049]):
            a = walk(n, "a", True, True)
            f = walk(rng.choice([3, 40, n // 2]), "f", False, True)
            out.append(("long-isect", {"k": "isect", "a": a, "f": f}))
            out.append(("long-isect", {"k": "isect", "a": f, "f": a}))
            out.append(("long-union", {"k": "punion", "a": a, "b": f}))

        # the same list object passed as both arguments
        for _ in range(ctx.pick(300, 5000)):
            a = walk(rng.randint(0, 6), "a", rng.random() < 0.5, rng.random() < 0.6)
            out.append(("alias-isect", {"k": "isect", "a": a, "f": a, "alias": True}))

        def anylist(n, tag, neg):
            l = []
            for k in range(n):
                t = T0 + rng.randint(0, 60) * U
                d = rng.choice([0, 1, U, rng.randint(0, 30 * U), rng.randint(0, 30) * U])
                if neg and rng.random() < 0.4:
                    d = -rng.choice([1, U, rng.randint(0, 20) * U])
                l.append([rng.choice([None, rng.randint(1, 10**6)]), t, d, dat(tag, k)])
            return l

        for _ in range(ctx.pick(4000, 150000)):
            cu = {"k": "punion", "a": anylist(rng.randint(0, 7), "a", False), "b": anylist(rng.randint(0, 7), "f", False)}
            if rng.random() < 0.08:
                cu["warm"] = True
            out.append(("random-union", cu))

        for _ in range(ctx.pick(300, 5000)):
            a = anylist(rng.randint(0, 5), "a", False)
            out.append(("alias-union", {"k": "punion", "a": a, "b": a, "alias": True}))

        # correspondence only (not judged): overlapping lists, negative durations, sub-ms timestamps
        for _ in range(ctx.pick(2500, 60000)):
            neg = rng.random() < 0.6
            a, f = anylist(rng.randint(0, 5), "a", neg), anylist(rng.randint(0, 5), "f", neg)
            raw = rng.random() < 0.35
            if raw:
                for e in a + f:
                    e[1] += rng.choice([0, 1, 499, 999, rng.randint(0, 999)])
            c = {"k": rng.choice(["isect", "punion"]), "a": a}
            c["f" if c["k"] == "isect" else "b"] = f
            if raw:
                c["raw"] = True
            out.append(("unjudged", c))
        # events stamped in a zone that is at UTC+0 in winter, lasting across the night its clocks go forward
        from ..common import DST_SPRING

        for zone, ls in DST_SPRING:
            for back in (600, 1800):
                for off2 in (-900, 900, 3600, 5400, 6600):
                    a = [[None, (ls - back) * 1_000_000, 7200 * 1_000_000, dat("a", 0)]]
                    f = [[None, (ls + off2) * 1_000_000, 3600 * 1_000_000, dat("f", 0)]]
                    out.append(("dst-zone-isect", {"k": "isect", "a": a, "f": f, "tz": zone}))
                    out.append(("dst-zone-union", {"k": "punion", "a": a, "b": f, "tz": zone}))
        return out

    def extra_search(self, ctx, around):
        from ..base import Ctx

        return self.gen(Ctx("quick", ctx.seed + 1))

    # ---- real code --------------------------------------------------------------------------
    def impl(self, case):
        import sys

        import aw_transform  # noqa: F401  (the package re-exports a function of the same name)

        m = sys.modules["aw_transform.filter_period_intersect"]

        if case["k"] == "slot":
            from timeslot import Timeslot

            a = Timeslot(us_to_dt(case["a"][0]), us_to_dt(case["a"][1]))
            b = Timeslot(us_to_dt(case["b"][0]), us_to_dt(case["b"][1]))
            sl = lambda p: None if p is None else [dt_to_us(p.start), dt_to_us(p.end)]
            try:
                un = sl(a.union(b))
            except Exception as e:
                if type(e) is not Exception:
                    raise
                un = None
            return {"contains": bool(a.contains(b)), "isect": sl(a.intersection(b)), "gap": sl(a.gap(b)), "union": un}

        if case["k"] == "isect":
            A = [_mk(e, case, "a") for e in case["a"]]
            F = A if case.get("alias") else [_mk(e, case, "f") for e in case["f"]]
            A0, F0 = list(A), list(F)
            if case.get("warm"):
                warm_up(lambda: m.filter_period_intersect(A, F), list({id(o): o for o in A + F}.values()))
            owned = set()
            for ev in A + F:
                owned |= _mutables(ev)
            rec, old = _Rec(), m.logger
            m.logger = rec
            try:
                r = m.filter_period_intersect(A, F)
            finally:
                m.logger = old
            kept = (
                len(A) == len(A0) and all(x is y for x, y in zip(A, A0))
                and len(F) == len(F0) and all(x is y for x, y in zip(F, F0))
                and [ev_tuple(x) for x in A] == [list(e) for e in case["a"]]
                and [ev_tuple(x) for x in F] == [list(e) for e in case["f"]]
            )
            fresh = True
            for o in r:
                if _mutables(o) & owned:
                    fresh = False
            if len({id(o) for o in r}) != len(r):
                fresh = False
            return {"out": [ev_tuple(o) for o in r], "unreach": rec.errors, "kept": kept, "fresh": fresh}

        A = [_mk(e, case, "a") for e in case["a"]]
        B = A if case.get("alias") else [_mk(e, case, "b") for e in case["b"]]
        if case.get("warm"):
            warm_up(lambda: m.period_union(A, B), list({id(o): o for o in A + B}.values()))
        try:
            r = m.period_union(A, B)
        except Exception as e:
            if type(e) is not Exception:
                raise
            return {"out": ["err", "Exception"], "cleared": False, "lists_kept": False}
        cleared = [ev_tuple(x) for x in A + B] != [list(e) for e in case["a"] + case["b"]]
        lists_kept = len(A) == len(case["a"]) and len(B) == len(case["b"])
        return {"out": [ev_tuple(o) for o in r], "cleared": cleared, "lists_kept": lists_kept}

    # ---- model ------------------------------------------------------------------------------
    def model_lines(self, case):
        if case["k"] == "slot":
            return ["isect slot %d %d %d %d" % (*case["a"], *case["b"])]
        if case["k"] == "isect":
            return [f"isect run {p_list(case['a'], p_ev)} {p_list(case['f'], p_ev)}"]
        return [f"punion {p_list(case['a'], p_ev)} {p_list(case['b'], p_ev)}"]

    def model_out(self, case, answers):
        t = answer(answers[0])
        if case["k"] == "slot":
            sl = lambda: [t.int(), t.int()]
            return {"contains": t.tok() == "1", "isect": t.opt(sl), "gap": t.opt(sl), "union": t.opt(sl)}
        if case["k"] == "isect":
            out = t.list(t.ev)
            # the value model has no aliasing: inputs are values, every piece is a new value
            return {"out": out, "unreach": t.int(), "kept": True, "fresh": True}
        if answers[0].startswith("err "):
            t.tok()
            return {"out": ["err", t.tok()]}
        return {"out": t.list(t.ev)}

    def same(self, case, impl_out, model_out):
        """Inside the property's quantifier the outputs are compared in full (zero-length pieces
        aside, see below). Outside it (negative durations, internally overlapping lists, sub-ms
        timestamps: run and recorded, not judged) only what the hypothesis-free theorems claim is
        compared - the unreachable branch is not taken; the union does not raise and clears data -
        so that a change of behaviour on such inputs alone, under which the property still holds,
        does not raise an alarm."""
        if case["k"] == "punion":
            io, mo = impl_out["out"], model_out["out"]
            if judged_union(case):
                return io == mo
            if io[:1] == ["err"] or mo[:1] == ["err"]:
                return io[:1] == mo[:1]
            return {p[3] for p in io} == {p[3] for p in mo}
        if case["k"] == "isect":
            if not judged_isect(case):
                return impl_out["unreach"] == model_out["unreach"]
            # zero-length pieces are set aside by the property (which of them appear depends on which
            # pointer the sweep advances on equal ends); they are not compared between model and code.
            # The oracle still requires every zero-length piece of the real output to be e∩f of a pair.
            pos = lambda o: [p for p in o["out"] if p[2] != 0]
            return pos(impl_out) == pos(model_out) and all(impl_out[k] == model_out[k] for k in ("unreach", "kept", "fresh"))
        return impl_out == model_out

    # ---- the property, stated directly -------------------------------------------------------
    def oracle(self, case, out):
        if case["k"] == "slot":
            return self._oracle_slot(case, out)
        if case["k"] == "isect":
            if not judged_isect(case):
                return None
            return self._oracle_isect(case, out)
        if not judged_union(case):
            return None
        return self._oracle_union(case, out)

    def _oracle_slot(self, case, out):
        (as_, ae), (bs, be) = case["a"], case["b"]
        if out["contains"] != (as_ <= bs and be <= ae):
            return "contains is not start<=start and end<=end"
        g = [ae, bs] if ae < bs else [be, as_] if be < as_ else None
        if as_ <= ae and bs <= be:
            if out["gap"] != g:
                return f"gap {out['gap']} expected {g}"
            if out["union"] != (None if g else [min(as_, bs), max(ae, be)]):
                return f"union {out['union']} (None = raised) with gap {g}"
            lo, hi = max(as_, bs), min(ae, be)
            ip = out["isect"]
            if ip is None:
                if lo < hi:
                    return "slots overlapping for a positive time have no intersection"
                if not (ae <= bs or be <= as_):
                    return "no intersection although neither slot ends before the other starts"
            elif ip != [lo, hi] or lo > hi:
                return f"intersection {ip} is not [max start, min end] = [{lo}, {hi}]"
        return None

    def _oracle_isect(self, case, out):
        a, f = case["a"], case["f"]
        o = out["out"]
        if not out["kept"]:
            return "an input list or input event was modified"
        if not out["fresh"]:
            return "an output event shares a mutable object with an input (or with another output)"
        if out["unreach"]:
            return "the branch marked unreachable was taken"
        exp = []
        for e in a:
            for g in f:
                lo, hi = max(e[1], g[1]), min(fin(e), fin(g))
                if lo < hi:
                    exp.append([e[0], lo, hi - lo, e[3]])
        key = lambda p: (p[1], p[2], p[3], -1 if p[0] is None else p[0])
        pos = [p for p in o if p[2] > 0]
        if sorted(pos, key=key) != sorted(exp, key=key):
            missing = [p for p in exp if p not in pos]
            extra = [p for p in pos if p not in exp]
            return f"positive-length pieces differ from the set of e∩f: missing {missing[:2]} unexpected {extra[:2]} (or a piece counted twice)"
        for p in o:
            if p[2] < 0:
                return f"piece of negative duration {p}"
            if p[2] == 0 and not any(
                e[0] == p[0] and e[3] == p[3] and max(e[1], g[1]) == p[1] == min(fin(e), fin(g)) for e in a for g in f
            ):
                return f"zero-length piece {p} is not e∩f of any pair"
        for i, p in enumerate(pos):
            for q in pos[i + 1 :]:
                if not fin(p) <= q[1]:
                    return f"pieces {p} {q} overlap or are out of time order"
        tot = sum(p[2] for p in o)
        if tot != measure_common(a, f):
            return f"total duration {tot} is not the measure of the common time {measure_common(a, f)}"
        return None

    def _oracle_union(self, case, out):
        o = out["out"]
        if o[:1] == ["err"]:
            return "period_union raised"
        l = case["a"] + case["b"]
        for p in o:
            if p[3] != "{}":
                return f"output event carries data {p[3]}"
            if p[2] < 0:
                return f"output event of negative duration {p}"
        for p, q in zip(o, o[1:]):
            if not fin(p) < q[1]:
                return f"outputs {p} {q} are not separated by a strictly positive gap in time order"
        # cover, closed intervals, on doubled coordinates: every endpoint and every midpoint between
        # neighbouring endpoints (a sufficient set of test points for two finite unions of intervals)
        pts = sorted({2 * x for e in l + o for x in (e[1], fin(e))})
        pts += [(x + y) // 2 for x, y in zip(pts, pts[1:])]
        if pts:
            pts += [min(pts) - 1, max(pts) + 1]
        for t in pts:
            ci = any(2 * e[1] <= t <= 2 * fin(e) for e in l)
            co = any(2 * e[1] <= t <= 2 * fin(e) for e in o)
            if ci != co:
                return f"instant {t / 2} covered by inputs: {ci}, by outputs: {co}"
        tot = sum(p[2] for p in o)
        if tot != measure_cover(l):
            return f"total duration {tot} is not the measure of the covered time {measure_cover(l)}"
        return None

    # ---- evidence -----------------------------------------------------------------------------
    def nontrivial(self, case, out):
        if case["k"] == "slot":
            return True
        if case["k"] == "isect":
            return len(case["a"]) + len(case["f"]) >= 2 and len(out["out"]) >= 1
        return len(case["a"]) + len(case["b"]) >= 2 and len(out["out"]) >= 1

    def features(self, case, out):
        k = case["k"]
        if k == "slot":
            return ["slot:" + ("isect" if out["isect"] else "no-isect") + ("/gap" if out["gap"] else "/no-gap")]
        fs = []
        if k == "isect":
            j = judged_isect(case)
            fs.append("isect:judged" if j else "isect:not-judged" + (":raw" if case.get("raw") else ""))
            n = len(out["out"])
            fs.append("isect:pieces=" + (str(n) if n < 4 else "4+"))
            if any(p[2] == 0 for p in out["out"]):
                fs.append("isect:zero-length-piece")
            if out["unreach"]:
                fs.append("isect:unreachable-branch-logged" + ("" if not j else ":JUDGED"))
            ts = [e[1] for e in case["a"]]
            if len(set(ts)) < len(ts):
                fs.append("isect:timestamp-tie-in-events")
            return fs
        j = judged_union(case)
        fs.append("union:judged" if j else "union:not-judged" + (":raw" if case.get("raw") else ""))
        o = out["out"]
        if o[:1] == ["err"]:
            return fs + ["union:raised"]
        n = len(case["a"]) + len(case["b"])
        fs.append("union:" + ("empty" if n == 0 else "none-merged" if len(o) == n else "all-merged" if len(o) == 1 else "some-merged"))
        # recorded, not judged: period_union clears `data` of the caller's event objects
        if out.get("cleared"):
            fs.append("union:input-data-cleared(not-judged)")
        if any(p[0] is not None for p in o):
            fs.append("union:output-keeps-an-id(not-judged)")
        return fs

    def shrink(self, case):
        if case["k"] == "slot":
            return
        ka, kb = ("a", "f") if case["k"] == "isect" else ("a", "b")
        if case.get("alias"):
            l = case[ka]
            for i in range(len(l)):
                yield {**case, ka: l[:i] + l[i + 1 :], kb: l[:i] + l[i + 1 :]}
            return
        for key in (ka, kb):
            l = case[key]
            for i in range(len(l)):
                yield {**case, key: l[:i] + l[i + 1 :]}
        if case.get("tz"):
            yield {k: v for k, v in case.items() if k != "tz"}
        for key in (ka, kb):
            l = case[key]
            for i, e in enumerate(l):
                if e[0] is not None:
                    yield {**case, key: l[:i] + [[None] + e[1:]] + l[i + 1 :]}


PROP = C09()
