"""Generic check runner: ./check Cxx [--tier quick|thorough] [--replay FILE]"""
import importlib
import json
import multiprocessing
import os
import sys
import time
import traceback

from . import lean
from .base import Ctx
from .common import VERIF, ProtocolError, import_repo, run_driver

_PROP = None


def _impl_one(case):
    try:
        return _PROP.impl(case)
    except Exception as e:
        # impl() maps the exceptions a property expects itself. Anything else that was raised *inside the
        # repository's code* (e.g. while the harness was only observing the state) is an outcome of the real code,
        # reported as a failure of the property on this case; an exception raised in the harness is a machinery bug.
        import os as _os

        from .common import REPO

        tb = e.__traceback__
        in_repo = False
        while tb is not None:
            fn = _os.path.realpath(tb.tb_frame.f_code.co_filename)
            if fn.startswith(_os.path.realpath(REPO) + _os.sep):
                in_repo = True
            tb = tb.tb_next
        if in_repo:
            return {"__impl_exception__": type(e).__name__, "message": str(e)[:300], "trace": traceback.format_exc()[-1200:]}
        return ["harness-exception", type(e).__name__, str(e)[:300], traceback.format_exc()[-1500:]]


def _is_impl_exc(o):
    return isinstance(o, dict) and "__impl_exception__" in o


def _impl_safe(case):
    """impl on one case from the main process (shrinking, replay confirmation): in a child process with the per-case
    timeout, so that an input on which the real code hangs cannot hang the check itself"""
    return _one_with_timeout(multiprocessing.get_context("fork"), case)


def _impl_chunk(chunk):
    return [_impl_one(c) for c in chunk]


CASE_TIMEOUT = 40  # seconds a single case may take on the real code before it counts as "does not terminate"


_timeouts_seen = [0]


def _one_with_timeout(ctx, case):
    """run one case in its own process; a case that does not come back in time is an outcome of the real code
    (after three such cases the patience per case drops, so that a check facing many hanging inputs still ends)"""
    pool = ctx.Pool(1)
    limit = CASE_TIMEOUT if _timeouts_seen[0] < 3 else 8
    try:
        r = pool.apply_async(_impl_one, (case,))
        try:
            return r.get(timeout=limit)
        except multiprocessing.TimeoutError:
            _timeouts_seen[0] += 1
            return {"__impl_exception__": "Timeout", "message": f"the real code did not return within {limit} s", "trace": ""}
    finally:
        pool.terminate()
        pool.join()


def pmap(cases, workers):
    """run impl on every case in worker processes. A chunk that does not come back within the chunk timeout is re-run
    case by case, each in its own process with a per-case timeout, so that a hang in the real code (which no Python-level
    alarm can interrupt, e.g. inside the regex engine) is reported for the case that causes it instead of stalling the check."""
    if not cases:
        return []
    ctx = multiprocessing.get_context("fork")
    workers = max(1, workers)
    size = max(1, min(200, len(cases) // (workers * 4) or 1))
    chunks = [cases[i : i + size] for i in range(0, len(cases), size)]
    chunk_timeout = float(os.environ.get("VERIF_CHUNK_TIMEOUT", "150"))
    results = [None] * len(chunks)
    pool = ctx.Pool(workers)
    try:
        pending = [pool.apply_async(_impl_chunk, (ch,)) for ch in chunks]
        import time as _t

        last_progress = _t.time()
        done = 0
        while done < len(chunks):
            n = sum(1 for r in pending if r.ready())
            if n > done:
                done, last_progress = n, _t.time()
            elif _t.time() - last_progress > chunk_timeout:
                break  # nothing finished for a whole chunk timeout: the remaining workers hang
            else:
                _t.sleep(0.05)
        hung = []
        for i, r in enumerate(pending):
            if r.ready():
                results[i] = r.get()
            else:
                hung.append(i)
    finally:
        pool.terminate()
        pool.join()
    for i in hung:
        outs = []
        for c in chunks[i]:
            if _timeouts_seen[0] >= 5:
                # enough hanging inputs have been identified: the rest of the unfinished work is not run
                outs.append({"__skipped__": True})
            else:
                outs.append(_one_with_timeout(ctx, c))
        results[i] = outs
    return [o for ch in results for o in ch]


def run_model(prop, cases, impl_outs=None):
    reqs, spans = [], []
    for i, c in enumerate(cases):
        if impl_outs is not None and (_is_impl_exc(impl_outs[i]) or (isinstance(impl_outs[i], dict) and impl_outs[i].get("__skipped__"))):
            ls = []
        elif getattr(prop, "MODEL_NEEDS_IMPL", False):
            ls = prop.model_lines(c, impl_outs[i] if impl_outs is not None else prop.impl(c))
        else:
            ls = prop.model_lines(c)
        spans.append((len(reqs), len(ls)))
        reqs += ls
    ans = run_driver(reqs)
    outs = []
    for i, (c, (a, n)) in enumerate(zip(cases, spans)):
        if impl_outs is not None and (_is_impl_exc(impl_outs[i]) or (isinstance(impl_outs[i], dict) and impl_outs[i].get("__skipped__"))):
            outs.append(None)
        elif getattr(prop, "MODEL_NEEDS_IMPL", False):
            outs.append(prop.model_out(c, ans[a : a + n], impl_outs[i] if impl_outs is not None else prop.impl(c)))
        else:
            outs.append(prop.model_out(c, ans[a : a + n]))
    return outs


def load_known(pid):
    """entries of the committed known-findings file (and of per-property fragments under
    known_findings.d/ while a property is being built); never written at run time"""
    out = []
    p = os.path.join(VERIF, "known_findings.json")
    if os.path.exists(p):
        out += [f for f in json.load(open(p))["findings"] if f["property"] == pid]
    d = os.path.join(VERIF, "known_findings.d")
    if os.path.isdir(d):
        for fn in sorted(os.listdir(d)):
            if fn.endswith(".json"):
                out += [f for f in json.load(open(os.path.join(d, fn)))["findings"] if f["property"] == pid]
    return out


def load_corpus(pid):
    d = os.path.join(VERIF, "corpus", pid)
    out = []
    if os.path.isdir(d):
        for fn in sorted(os.listdir(d)):
            if fn.endswith(".jsonl"):
                for line in open(os.path.join(d, fn)):
                    line = line.strip()
                    if line and not line.startswith("#"):
                        out.append(("corpus:" + fn, json.loads(line)))
    return out


def shrink(prop, case, still_fails, budget=400, seconds=90):
    """greedy shrinking, bounded in attempts and in wall time (a failing case with thousands of events is reported as
    it is rather than shrunk for an hour)"""
    cur = case
    improved = True
    t_end = time.time() + seconds
    while improved and budget > 0:
        improved = False
        for cand in prop.shrink(cur):
            budget -= 1
            if budget <= 0 or time.time() > t_end:
                budget = 0
                break
            try:
                if still_fails(cand):
                    cur = cand
                    improved = True
                    break
            except Exception:
                continue
    return cur


def _clip(obj, limit=20000):
    """a sample for the evidence file: as it is when small, else its JSON text cut to `limit` characters"""
    try:
        t = json.dumps(obj, default=str, ensure_ascii=False)
    except Exception:  # noqa: BLE001
        t = repr(obj)
    return obj if len(t) <= limit else {"clipped_json": t[:limit], "full_length": len(t)}


def write_replay(pid, name, obj):
    d = os.environ.get("VERIF_REPLAY_DIR") or os.path.join(VERIF, "replays")
    os.makedirs(d, exist_ok=True)
    path = os.path.join(d, f"{pid}_{name}.json")
    with open(path, "w") as f:
        json.dump(obj, f, indent=1, sort_keys=True, default=str)
    return os.path.relpath(path, VERIF)


def get_prop(pid):
    mod = importlib.import_module(f"harness.props.{pid.lower()}")
    return mod.PROP


def replay(pid, path):
    global _PROP
    import_repo()
    prop = get_prop(pid)
    _PROP = prop
    obj = json.load(open(path))
    if "case" not in obj:
        print(f"replay file {path} names a broken proof/correspondence, no concrete input: {obj.get('what')}")
        return 1
    case = obj["case"]
    out = prop.impl(case)
    why = prop.oracle(case, out)
    print(json.dumps({"case": case, "impl_out": out, "oracle": why}, indent=1, default=str))
    if why:
        print(f"VIOLATION property={pid} replay={path}")
        return 1
    print("property holds on this case")
    return 0


def main(argv):
    global _PROP
    pid = argv[0]
    tier = os.environ.get("VERIF_TIER") or "quick"
    rp = None
    i = 1
    while i < len(argv):
        if argv[i] == "--tier":
            tier = argv[i + 1]
            i += 2
        elif argv[i] == "--replay":
            rp = argv[i + 1]
            i += 2
        else:
            print("unknown argument", argv[i])
            return 2
    if rp:
        return replay(pid, rp)
    seed = int(os.environ.get("VERIF_SEED", "0") or 0)
    t0 = time.time()
    for stale in ("violation", "unproved"):
        sp = os.path.join(VERIF, "replays", f"{pid}_{stale}.json")
        if os.path.exists(sp):
            os.remove(sp)
    import_repo()
    prop = get_prop(pid)
    _PROP = prop
    from . import fingerprint

    moved = fingerprint.changed_files(pid)
    ctx = Ctx(tier, seed, escalated=bool(moved))
    if moved:
        print(f"note: anchored source changed since the model was last validated ({', '.join(moved)}): escalating the search")

    # 1. proofs ------------------------------------------------------------------------------
    ok, log = lean.build(["awdriver"])
    if not ok:
        print("driver build failed:\n" + log[-3000:])
        return 2
    proof = lean.prove(prop.MODULE, prop.THEOREMS)
    if tier == "thorough" and proof["ok"]:
        okc, outc = lean.leanchecker([prop.MODULE])
        proof["leanchecker"] = "ok" if okc else outc
        if not okc:
            proof["ok"] = False
            proof["problems"].append("leanchecker rejected " + prop.MODULE)

    # 2./3. correspondence + oracle ------------------------------------------------------------
    known = load_known(pid)
    named = []
    for f in known:
        if "witness" in f:
            named.append((f"finding:{f['key']}", f["witness"]))
    named += load_corpus(pid)
    named += prop.gen(ctx)
    streams = [s for s, _ in named]
    cases = [c for _, c in named]
    impl_outs = pmap(cases, prop.WORKERS)
    for c, o in zip(cases, impl_outs):
        if isinstance(o, list) and o and o[0] == "harness-exception":
            print("harness exception on case", json.dumps(c, default=str)[:500], o[1:])
            return 2
    try:
        model_outs = [None] * len(cases) if prop.NO_MODEL else run_model(prop, cases, impl_outs)
    except ProtocolError as e:
        print("protocol error:", e)
        return 2

    disagreements, failures, model_failures = [], [], []
    seen, nontrivial = set(), 0
    hist, stream_hist = {}, {}
    for s, c, io, mo in zip(streams, cases, impl_outs, model_outs):
        sname = s.split(":")[0]
        stream_hist[sname] = stream_hist.get(sname, 0) + 1
        if isinstance(io, dict) and io.get("__skipped__"):
            continue
        if _is_impl_exc(io):
            failures.append((s, c, io, f"the real code raised {io['__impl_exception__']}: {io['message']}"))
            continue
        if not prop.NO_MODEL and not prop.same(c, io, mo):
            disagreements.append((s, c, io, mo))
        why = prop.oracle(c, io)
        if why:
            failures.append((s, c, io, why))
        if not prop.NO_MODEL:
            mwhy = prop.oracle(c, mo) if prop.same(c, io, mo) is False else why
            if mwhy:
                model_failures.append((s, c, mo, mwhy))
        k = prop.key(c)
        if k not in seen:
            seen.add(k)
            if prop.nontrivial(c, io):
                nontrivial += 1
        for ft in prop.features(c, io):
            hist[ft] = hist.get(ft, 0) + 1

    # known findings ------------------------------------------------------------------------------
    open_keys = {f["key"]: f for f in known if f.get("status") == "open"}
    new_failures, known_hits = [], {}
    for s, c, io, why in failures:
        k = prop.scope(c, io)
        if k is not None and k in open_keys:
            known_hits.setdefault(k, (c, why))
        else:
            new_failures.append((s, c, io, why))

    violations = []

    def fails_oracle(cand):
        o = _impl_safe(cand)
        if isinstance(o, list) and o and o[0] == "harness-exception":
            return False
        if _is_impl_exc(o):
            return True
        w = prop.oracle(cand, o)
        return bool(w) and not (prop.scope(cand, o) in open_keys)

    if new_failures:
        s, c, io, why = new_failures[0]
        is_timeout = _is_impl_exc(io) and io["__impl_exception__"] == "Timeout"
        small = c if is_timeout else shrink(prop, c, fails_oracle)  # a hanging input is reported as found
        so = _impl_safe(small)
        path = write_replay(
            pid,
            "violation",
            {
                "property": pid,
                "what": (f"the real code raised {so['__impl_exception__']}: {so['message']}" if _is_impl_exc(so)
                         else prop.oracle(small, so)) or why,
                "case": small,
                "impl_out": so,
                "original_case": c,
                "stream": s,
                "failing_cases_this_run": len(new_failures),
            },
        )
        violations.append(f"VIOLATION property={pid} replay={path}")

    broken = []
    if not proof["ok"]:
        broken.append({"kind": "proof", "problems": proof["problems"], "log": proof.get("log", "")})
    if disagreements:
        s, c, io, mo = disagreements[0]

        def differs(cand):
            o = _impl_safe(cand)
            if isinstance(o, list) and o and o[0] == "harness-exception":
                return False
            if _is_impl_exc(o):
                return False
            m = run_model(prop, [cand], [o])[0]
            return not prop.same(cand, o, m)

        small = shrink(prop, c, differs)
        so = _impl_safe(small)
        sm = run_model(prop, [small], [so])[0]
        broken.append(
            {
                "kind": "correspondence",
                "count": len(disagreements),
                "case": small,
                "impl_out": so,
                "model_out": sm,
                "stream": s,
            }
        )
    searched = 0
    if broken and not violations:
        # directed failing-input search on the real code
        around = [b["case"] for b in broken if "case" in b]
        extra = [c for _, c in prop.extra_search(ctx, around)]
        searched = len(extra)
        outs = pmap(extra, prop.WORKERS)
        hit = None
        for c, o in zip(extra, outs):
            if isinstance(o, list) and o and o[0] == "harness-exception":
                continue
            w = prop.oracle(c, o)
            if w and prop.scope(c, o) not in open_keys:
                hit = (c, o, w)
                break
        if hit:
            small = shrink(prop, hit[0], fails_oracle)
            so = _impl_safe(small)
            path = write_replay(
                pid,
                "violation",
                {"property": pid, "what": prop.oracle(small, so) or hit[2], "case": small, "impl_out": so,
                 "found_by": "directed search after broken " + ",".join(b["kind"] for b in broken),
                 "broken": broken},
            )
            violations.append(f"VIOLATION property={pid} replay={path}")
        else:
            what = "; ".join(
                ("theorems of " + prop.MODULE + " no longer check: " + "; ".join(b["problems"]))
                if b["kind"] == "proof"
                else f"model and implementation differ on {b['count']} case(s) (correspondence of {pid})"
                for b in broken
            )
            path = write_replay(pid, "unproved", {"property": pid, "what": what, "broken": broken,
                                                   "searched_cases": searched + len(cases)})
            violations.append(f"VIOLATION property={pid} replay={path} no-failing-input-found")

    # line coverage of the anchored source files on a sample of this run's cases (generator quality) ---------
    line_cov = {}
    try:
        import coverage

        from .common import REPO

        files = [os.path.join(REPO, f) for f in fingerprint.anchors(pid)]
        if files and cases and not any(_is_impl_exc(o) and o["__impl_exception__"] == "Timeout" for o in impl_outs):
            import ast

            cov = coverage.Coverage(include=files, data_file=None, config_file=False)
            per_stream, sample = {}, []
            for sname, c in zip(streams, cases):  # up to 40 cases of every stream
                k = sname.split(":")[0]
                if per_stream.get(k, 0) < 25:
                    per_stream[k] = per_stream.get(k, 0) + 1
                    sample.append(c)
            cov.start()
            try:
                for c in sample[:300]:
                    _impl_one(c)
            finally:
                cov.stop()
            for f in files:
                try:
                    _, executable, _, missing, _ = cov.analysis2(f)
                    # only lines inside function bodies count (module-level lines ran at import, before the measurement)
                    body = set()
                    for node in ast.walk(ast.parse(open(f).read())):
                        if isinstance(node, (ast.FunctionDef, ast.AsyncFunctionDef)):
                            for st in node.body:
                                body.update(range(st.lineno, (st.end_lineno or st.lineno) + 1))
                    ex = [l for l in executable if l in body]
                    ms = [l for l in missing if l in body]
                    line_cov[os.path.relpath(f, REPO)] = {"function_body_lines": len(ex), "executed": len(ex) - len(ms),
                                                           "not_executed": ms[:40]}
                except Exception:
                    pass
    except Exception as e:  # measurement only
        line_cov = {"error": str(e)[:200]}

    # evidence ---------------------------------------------------------------------------------
    wall = time.time() - t0
    samples = []
    for idx in sorted(set([0, len(cases) // 3, (2 * len(cases)) // 3, len(cases) - 1])):
        if 0 <= idx < len(cases):
            samples.append({"stream": streams[idx], "case": _clip(cases[idx]), "impl_out": _clip(impl_outs[idx])})
    for t in proof["theorems"][:3]:
        samples.append({"obligation": t["theorem"], "statement": t["statement"], "axioms": t["axioms"]})
    ev = {
        "property_id": pid,
        "tier": tier,
        "seed": seed,
        "level": "proof",
        "coverage": {
            "obligations": proof["obligations"],
            "discharged": proof["discharged"],
            "checker_cmd": lean.checker_cmd(prop.MODULE),
            "trusted_base": BASE_TRUSTED + list(prop.TRUSTED),
            "theorems": [{"name": t["theorem"], "axioms": t["axioms"]} for t in proof["theorems"]],
            "proof_problems": proof["problems"],
            "leanchecker": proof.get("leanchecker", "not run in this tier"),
            "evaluations": len(cases),
            "distinct_nontrivial": nontrivial,
            "rule": prop.RULE,
            "samples": samples,
            "streams": stream_hist,
            "histogram": dict(sorted(hist.items())),
            "traces_validated_against_impl": 0 if prop.NO_MODEL else len(cases) - len(disagreements),
            "correspondence_disagreements": len(disagreements),
            "oracle_failures_impl": len(failures),
            "oracle_failures_model": len(model_failures),
            "known_finding_hits": {k: True for k in known_hits},
            "directed_search_cases": searched,
            "anchored_line_coverage_sample": line_cov,
            "anchored_files_changed": moved,
            "escalated": bool(ctx.escalated),
        },
        "assumptions": list(prop.ASSUMPTIONS),
        "wall_s": round(wall, 2),
        "violations": len(violations),
    }
    # (evaluations of seeded changes and other experiments write their evidence elsewhere, so that the files under
    # evidence/ always describe a run against /repo itself)
    evdir = os.environ.get("VERIF_EVIDENCE_DIR") or os.path.join(VERIF, "evidence")
    os.makedirs(evdir, exist_ok=True)
    with open(os.path.join(evdir, f"{pid}.json"), "w") as f:
        json.dump(ev, f, indent=1, default=str)

    for k, (c, why) in known_hits.items():
        print(f"KNOWN-FINDING: property={pid} {open_keys[k].get('what', k)} [{k}]")
    print(
        f"{pid} tier={tier} seed={seed}: {len(cases)} cases ({nontrivial} distinct non-trivial), "
        f"theorems {proof['discharged']}/{proof['obligations']}, disagreements {len(disagreements)}, "
        f"oracle failures {len(failures)} (known {len(failures) - len(new_failures)}), {wall:.1f}s"
    )
    for v in violations:
        print(v)
    return 1 if violations else 0


BASE_TRUSTED = [
    "Lean 4.33 kernel; axioms propext, Classical.choice, Quot.sound only (audited per theorem on every run); no sorry/admit/native_decide/bv_decide/own axioms (source audit on every run)",
    "the hand-written Lean model is tied to /repo only by this run's correspondence check (same inputs on the real code and on the compiled model driver), whose reach is bounded by its generators",
    "harness boundary conversions: datetime<->integer microseconds since the epoch, timedelta<->integer microseconds, json.dumps(sort_keys) as canonical data text",
    "CPython, its datetime/json/sorted implementations; the Lean compiler for the model driver executable",
]

if __name__ == "__main__":
    try:
        rc = main(sys.argv[1:])
    except Exception:
        traceback.print_exc()
        rc = 2
    sys.exit(rc)
