#!/bin/sh
# MANIFEST.setup_cmd: build model, proofs and driver offline (nothing is fetched).
cd "$(dirname "$0")/lean" || exit 2
lake build awdriver AwProofs 2>&1 | tail -5
test -x .lake/build/bin/awdriver
