import Probe.FlP3
import Mathlib.Tactic.Linarith
import Mathlib.Tactic.NormNum
import Mathlib.Tactic.Positivity
import Mathlib.Algebra.Order.Floor.Ring
namespace Fl

theorem rne_of_near (p : Rat) (n : Int) (h : |p - n| < 1/2) : rne p = n := by
  unfold rne
  simp only [floor_eq]
  rw [abs_lt] at h
  have h1 : (⌊p⌋ : Rat) ≤ p := Int.floor_le p
  have h2 : p < ⌊p⌋ + 1 := Int.lt_floor_add_one p
  -- floor p is n or n-1
  have hf : ⌊p⌋ = n ∨ ⌊p⌋ = n - 1 := by
    have a1 : (n:Rat) - 1 < p := by linarith [h.1]
    have a2 : p < (n:Rat) + 1 := by linarith [h.2]
    have b1 : n - 1 ≤ ⌊p⌋ := by
      apply Int.le_floor.mpr; push_cast; linarith
    have b2 : ⌊p⌋ < n + 1 := by
      apply Int.floor_lt.mpr; push_cast; linarith
    omega
  rcases hf with hf | hf
  · have : p - (⌊p⌋:Rat) < 1/2 := by rw [hf]; linarith [h.2]
    rw [if_pos this]; exact hf
  · have hf' : (⌊p⌋ : Rat) = n - 1 := by rw [hf]; push_cast; ring
    have g1 : ¬ (p - (⌊p⌋:Rat) < 1/2) := by rw [hf']; linarith [h.1]
    have g2 : (1/2 : Rat) < p - (⌊p⌋:Rat) := by rw [hf']; linarith [h.1]
    simp only [g1, g2, if_false, if_true]
    omega

theorem rne_int (n : Int) : rne (n : Rat) = n := rne_of_near _ n (by simp)

/-- integers below 2^53 are fixed points of fl -/
theorem fl_exact_int (k : Int) (hk : 0 < k) (hlt : (k:Rat) < pow2 53) : fl (k : Rat) = k := by
  have hk' : (0:Rat) < k := by exact_mod_cast hk
  have hne : (k:Rat) ≠ 0 := ne_of_gt hk'
  unfold fl
  simp only [hne, if_false, not_lt.mpr hk'.le]
  have he : ilog2 (k:Rat) < 53 := ilog2_lt _ hk' 53 hlt
  have he0 : 0 ≤ 52 - ilog2 (k:Rat) := by omega
  -- k / 2^(e-52) = k * 2^(52-e), an integer
  have hs : pow2 (ilog2 (k:Rat) - 52) = 1 / ((2:Rat) ^ (52 - ilog2 (k:Rat)).toNat) := by
    rw [pow2_eq]
    have : ilog2 (k:Rat) - 52 = -(((52 - ilog2 (k:Rat)).toNat : Int)) := by
      rw [Int.toNat_of_nonneg he0]; ring
    rw [this, zpow_neg, zpow_natCast]; simp
  rw [hs]
  have hq : (k:Rat) / (1 / ((2:Rat) ^ (52 - ilog2 (k:Rat)).toNat)) = ((k * 2 ^ (52 - ilog2 (k:Rat)).toNat : Int) : Rat) := by
    push_cast; field_simp
  rw [hq, rne_int]
  push_cast; field_simp

/-- decoding an exactly stored integer microsecond count (sqlite _rows_to_events + datetime.fromtimestamp) -/
theorem decF_exact (m : Int) (h0 : 0 ≤ m) (h1 : m < 4294967296000000) : decF (m : Rat) = m := by
  -- q = m / 10^6, rho = m % 10^6
  set q : Int := m / 1000000 with hq
  set ρ : Int := m % 1000000 with hρ
  have hm : m = q * 1000000 + ρ := by rw [hq, hρ]; omega
  have hρ0 : 0 ≤ ρ := by omega
  have hρ1 : ρ < 1000000 := by omega
  have hq0 : 0 ≤ q := by omega
  have hq1 : q < 4294967296 := by omega
  have hx : (m:Rat) / 1000000 = q + (ρ:Rat) / 1000000 := by
    rw [hm]; push_cast; field_simp
  have p32 : pow2 32 = 4294967296 := by rw [pow2_eq]; norm_num
  have p22 : pow2 (32 - 54) = 1 / 4194304 := by rw [pow2_eq]; norm_num
  have p34 : pow2 (20 - 54) = 1 / 17179869184 := by rw [pow2_eq]; norm_num
  have p20 : pow2 20 = 1048576 := by rw [pow2_eq]; norm_num
  have p53 : pow2 53 = 9007199254740992 := by rw [pow2_eq]; norm_num
  have hq0' : (0:Rat) ≤ q := by exact_mod_cast hq0
  have hq1' : (q:Rat) ≤ 4294967295 := by exact_mod_cast (by omega : q ≤ 4294967295)
  have hρ0' : (0:Rat) ≤ ρ := by exact_mod_cast hρ0
  have hρ1' : (ρ:Rat) ≤ 999999 := by exact_mod_cast (by omega : ρ ≤ 999999)
  unfold decF
  simp only [floor_eq]
  by_cases hz : m = 0
  · subst hz; simp [fl, rne, floor_eq]
  have hmpos : (0:Rat) < m := by exact_mod_cast (by omega : 0 < m)
  have hxne : (m:Rat) / 1000000 ≠ 0 := by positivity
  have hxlt : |(m:Rat) / 1000000| < pow2 32 := by
    rw [abs_of_pos (by positivity), p32, hx]
    have : (ρ:Rat)/1000000 < 1 := by rw [div_lt_one (by norm_num)]; linarith
    linarith
  have herr := fl_err_lt _ hxne 32 hxlt
  rw [p22, abs_le] at herr
  set r := fl ((m:Rat) / 1000000) with hr
  by_cases hρz : ρ = 0
  · -- exact second
    have hxq : (m:Rat) / 1000000 = q := by rw [hx, hρz]; simp
    have hqpos : 0 < q := by omega
    have : r = q := by
      rw [hr, hxq]
      apply fl_exact_int q hqpos
      rw [p53]; linarith
    rw [this]
    have hz0 : rne 0 = 0 := by have := rne_int 0; simpa using this
    simp [fl, hz0]
    rw [hm, hρz]; ring
  · have hρ1'' : (1:Rat) ≤ ρ := by exact_mod_cast (by omega : 1 ≤ ρ)
    -- floor r = q
    have hfl : ⌊r⌋ = q := by
      rw [Int.floor_eq_iff]
      rw [hx] at herr
      constructor
      · have : (1:Rat)/1000000 ≤ (ρ:Rat)/1000000 := by
          apply div_le_div_of_nonneg_right hρ1'' (by norm_num)
        linarith [herr.1]
      · have : (ρ:Rat)/1000000 ≤ 999999/1000000 := by
          apply div_le_div_of_nonneg_right hρ1' (by norm_num)
        linarith [herr.2]
    rw [hfl]
    -- y = (r - q) * 10^6 within 0.2385 of rho
    set y := (r - (q:Rat)) * 1000000 with hy
    have hy1 : |y - ρ| ≤ 1000000 / 4194304 := by
      rw [hx] at herr
      rw [abs_le]
      constructor
      · have := herr.1
        rw [hy]; field_simp at this ⊢; linarith
      · have := herr.2
        rw [hy]; field_simp at this ⊢; linarith
    have hypos : 0 < y := by
      rw [abs_le] at hy1
      have : (1000000:Rat) / 4194304 < 1 := by norm_num
      linarith [hy1.1]
    have hyne : y ≠ 0 := ne_of_gt hypos
    have hylt : |y| < pow2 20 := by
      rw [abs_of_pos hypos, p20]
      rw [abs_le] at hy1
      have : (1000000:Rat) / 4194304 < 1 := by norm_num
      linarith [hy1.2]
    have herr2 := fl_err_lt y hyne 20 hylt
    rw [p34] at herr2
    have hnear : |fl y - (ρ:Rat)| < 1/2 := by
      calc |fl y - (ρ:Rat)| = |(fl y - y) + (y - ρ)| := by ring_nf
        _ ≤ |fl y - y| + |y - ρ| := abs_add_le _ _
        _ ≤ 1 / 17179869184 + 1000000 / 4194304 := add_le_add herr2 hy1
        _ < 1/2 := by norm_num
    rw [rne_of_near _ ρ hnear, hm]

#print axioms decF_exact
end Fl
