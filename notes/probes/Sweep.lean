namespace Sweep

structure Ev where
  s : Int
  e : Int
  tag : Nat
deriving DecidableEq, Repr

structure Iv where
  s : Int
  e : Int
deriving DecidableEq, Repr

/-- timeslot.Timeslot.intersection, branch for branch -/
def inter (a b : Ev) : Option Iv :=
  if a.s ≤ b.s ∧ b.e ≤ a.e then some ⟨b.s, b.e⟩
  else if a.s ≤ b.s ∧ b.s < a.e then some ⟨b.s, a.e⟩
  else if a.s < b.e ∧ b.e ≤ a.e then some ⟨a.s, b.e⟩
  else if b.s ≤ a.s ∧ a.e ≤ b.e then some ⟨a.s, a.e⟩
  else none

/-- _intersecting_eventpairs after the two sorts -/
def sweep : List Ev → List Ev → List (Ev × Ev × Iv)
  | [], _ => []
  | _ :: _, [] => []
  | a :: as, b :: bs =>
    match inter a b with
    | some ip =>
      (a, b, ip) :: (if a.e ≤ b.e then sweep as (b :: bs) else sweep (a :: as) bs)
    | none =>
      if a.e ≤ b.s then sweep as (b :: bs)
      else if b.e ≤ a.s then sweep (a :: as) bs
      else sweep as bs
termination_by l1 l2 => l1.length + l2.length

def WF (l : List Ev) : Prop := (∀ x ∈ l, x.s ≤ x.e) ∧ l.Pairwise (fun x y => x.e ≤ y.s)

def PosOverlap (a b : Ev) : Prop := a.s < b.e ∧ b.s < a.e ∧ a.s < a.e ∧ b.s < b.e

theorem inter_of_pos (a b : Ev) (h : PosOverlap a b) :
    inter a b = some ⟨max a.s b.s, min a.e b.e⟩ := by
  unfold inter PosOverlap at *
  grind

theorem inter_sound (a b : Ev) (ip : Iv) (ha : a.s ≤ a.e) (hb : b.s ≤ b.e) (h : inter a b = some ip) :
    ip.s = max a.s b.s ∧ ip.e = min a.e b.e ∧ ip.s ≤ ip.e := by
  unfold inter at h
  grind

theorem WF_tail {a : Ev} {l : List Ev} (h : WF (a :: l)) : WF l :=
  ⟨fun x hx => h.1 x (List.mem_cons_of_mem _ hx), (List.pairwise_cons.1 h.2).2⟩

theorem complete (A B : List Ev) (hA : WF A) (hB : WF B) (a b : Ev) (ha : a ∈ A) (hb : b ∈ B)
    (h : PosOverlap a b) : (a, b, (⟨max a.s b.s, min a.e b.e⟩ : Iv)) ∈ sweep A B := by
  fun_induction sweep A B
  case case1 => simp at ha
  case case2 => simp at hb
  case case3 a0 as b0 bs ip hi ih2 ih1 =>
    have hA' := WF_tail hA
    have hB' := WF_tail hB
    have ha0 := List.pairwise_cons.1 hA.2
    have hb0 := List.pairwise_cons.1 hB.2
    have wa0 := hA.1 a0 (by simp)
    have wb0 := hB.1 b0 (by simp)
    unfold PosOverlap at h
    by_cases hle : a0.e ≤ b0.e
    · simp only [hle, if_true]
      rcases List.mem_cons.1 ha with rfl | ha'
      · rcases List.mem_cons.1 hb with rfl | hb'
        · rw [inter_of_pos _ _ h] at hi; cases hi; simp
        · exfalso; have := hb0.1 b hb'; omega
      · exact List.mem_cons_of_mem _ (ih2 hA' hB ha' hb)
    · simp only [hle, if_false]
      rcases List.mem_cons.1 hb with rfl | hb'
      · rcases List.mem_cons.1 ha with rfl | ha'
        · rw [inter_of_pos _ _ h] at hi; cases hi; simp
        · exfalso; have := ha0.1 a ha'; omega
      · exact List.mem_cons_of_mem _ (ih1 hA hB' ha hb')
  case case4 a0 as b0 bs hi hle ih =>
    have hA' := WF_tail hA
    have hb0 := List.pairwise_cons.1 hB.2
    have wb0 := hB.1 b0 (by simp)
    unfold PosOverlap at h
    rcases List.mem_cons.1 ha with rfl | ha'
    · exfalso
      rcases List.mem_cons.1 hb with rfl | hb'
      · omega
      · have := hb0.1 b hb'; omega
    · exact ih hA' hB ha' hb
  case case5 a0 as b0 bs hi hn hle ih =>
    have hB' := WF_tail hB
    have ha0 := List.pairwise_cons.1 hA.2
    have wa0 := hA.1 a0 (by simp)
    unfold PosOverlap at h
    rcases List.mem_cons.1 hb with rfl | hb'
    · exfalso
      rcases List.mem_cons.1 ha with rfl | ha'
      · omega
      · have := ha0.1 a ha'; omega
    · exact ih hA hB' ha hb'
  case case6 a0 as b0 bs hi h1 h2 ih =>
    exfalso
    have wa0 := hA.1 a0 (by simp)
    have wb0 := hB.1 b0 (by simp)
    unfold inter at hi
    grind

/-- the "Should be unreachable" branch really is unreachable for well-formed events -/
theorem unreachable_dead (a b : Ev) (ha : a.s ≤ a.e) (hb : b.s ≤ b.e) (hi : inter a b = none) :
    a.e ≤ b.s ∨ b.e ≤ a.s := by
  unfold inter at hi
  grind

#print axioms complete
end Sweep
