import Probe.HB2
namespace HB
variable {D : Type} [DecidableEq D]

/-- NoAdj on the final (forward) list, from reversed accumulator invariant -/
theorem noAdj_reverse_aux (pt : Int) : ∀ (acc : List (Ev D)) (out : List (Ev D)),
    NoAdjRev pt acc → NoAdj pt out →
    (∀ a b, acc.head? = some a → out.head? = some b → ¬ Mergeable pt a b) →
    NoAdj pt (acc.reverseAux out)
  | [], out, _, h2, _ => by simpa [List.reverseAux] using h2
  | [a], out, _, h2, h3 => by
      cases out with
      | nil => simp [List.reverseAux, NoAdj]
      | cons b t => simp [List.reverseAux, NoAdj]; exact ⟨h3 a b rfl rfl, h2⟩
  | b :: a :: t, out, h1, h2, h3 => by
      simp only [List.reverseAux]
      apply noAdj_reverse_aux pt (a :: t) (b :: out)
      · exact h1.2
      · cases out with
        | nil => simp [NoAdj]
        | cons c t' => exact ⟨h3 b c rfl rfl, h2⟩
      · intro a' b' ha hb
        simp at ha hb; subst ha; subst hb; exact h1.1

theorem noAdj_reverse (pt : Int) (acc : List (Ev D)) (h : NoAdjRev pt acc) : NoAdj pt acc.reverse := by
  have := noAdj_reverse_aux pt acc [] h (by simp [NoAdj]) (by simp)
  exact this

theorem reduceAux_noAdj (pt : Int) : ∀ (es acc : List (Ev D)), NoAdjRev pt acc → NoAdj pt (reduceAux pt acc es)
  | [], acc, h => by simpa [reduceAux] using noAdj_reverse pt acc h
  | e :: es, [], _ => by
      simp only [reduceAux]; exact reduceAux_noAdj pt es [e] (by simp [NoAdjRev])
  | e :: es, l :: acc, h => by
      simp only [reduceAux]
      cases hm : merge pt l e with
      | none =>
        simp only
        apply reduceAux_noAdj pt es
        exact ⟨(merge_none_iff pt l e).1 hm, h⟩
      | some m =>
        simp only
        apply reduceAux_noAdj pt es
        have hm' := merge_eq' pt l e m hm
        cases acc with
        | nil => simp [NoAdjRev]
        | cons p t =>
          refine ⟨?_, h.2⟩
          rw [mergeable_congr pt p l m hm'.1 hm'.2.1]
          exact h.1

theorem reduce_noAdj (pt : Int) (l : List (Ev D)) : NoAdj pt (reduce pt l) :=
  reduceAux_noAdj pt l [] (by simp [NoAdjRev])

#print axioms reduce_noAdj
end HB
