import Probe.Scan
namespace Scan

/-- inside a double-quoted string every character except `"` and `\` leaves the scanner in the same quoted state -/
theorem dq_body (o c : Char) (body : Str) (hb : ∀ ch ∈ body, ch ≠ '"' ∧ ch ≠ '\\') :
    ∀ st : BrSt, st.sq = false → st.dq = true → 1 ≤ st.depth → st.prev ≠ some '\\' →
    ∃ st', st'.sq = false ∧ st'.dq = true ∧ st'.depth = st.depth ∧ st'.prev ≠ some '\\' ∧
      ∀ rest i, brScan o c st (body ++ rest) i = brScan o c st' rest (i + body.length) := by
  induction body with
  | nil => intro st a b d e; exact ⟨st, a, b, rfl, e, by intro rest i; simp⟩
  | cons ch t ih =>
    intro st a b d e
    have hch := hb ch (by simp)
    have ht : ∀ x ∈ t, x ≠ '"' ∧ x ≠ '\\' := fun x hx => hb x (by simp [hx])
    let s1 : BrSt := { st with prev := some ch }
    have hs1 : brStep o c st ch = s1 := by
      simp [brStep, a, b, hch.1, s1]
    obtain ⟨s2, a2, b2, d2, e2, f2⟩ := ih ht s1 a b d (by simp [s1, hch.2])
    refine ⟨s2, a2, b2, by rw [d2], e2, ?_⟩
    intro rest i
    show brScan o c st (ch :: (t ++ rest)) i = _
    rw [brScan]
    simp only [hs1]
    have : ¬ s1.depth = 0 := by simp [s1]; omega
    simp only [this, if_false]
    rw [f2]; congr 1; simp; omega

theorem passes_dq_string (o c : Char) (body : Str) (hb : ∀ ch ∈ body, ch ≠ '"' ∧ ch ≠ '\\') :
    Passes o c ('"' :: (body ++ ['"'])) := by
  intro st ⟨a, b, d, e⟩
  let s1 : BrSt := { st with dq := true, prev := some '"' }
  have hs1 : brStep o c st '"' = s1 := by
    simp [brStep, a, b, e, s1]
  obtain ⟨s2, a2, b2, d2, e2, f2⟩ := dq_body o c body hb s1 a rfl d (by simp [s1])
  let s3 : BrSt := { s2 with dq := false, prev := some '"' }
  have hs3 : brStep o c s2 '"' = s3 := by
    simp [brStep, a2, b2, e2, s3]
  have hd2 : s2.depth = st.depth := by rw [d2]
  refine ⟨s3, ⟨by simp [s3, a2], by simp [s3], by simp [s3]; omega, by simp [s3]⟩, by simp [s3]; omega, ?_⟩
  intro rest i
  show brScan o c st ('"' :: ((body ++ ['"']) ++ rest)) i = _
  rw [brScan]
  simp only [hs1]
  have : ¬ s1.depth = 0 := by simp [s1]; omega
  simp only [this, if_false]
  rw [List.append_assoc, f2]
  show brScan o c s2 ('"' :: rest) _ = _
  rw [brScan]
  simp only [hs3]
  have : ¬ s3.depth = 0 := by simp [s3]; omega
  simp only [this, if_false]
  congr 1; simp; omega

/-- QList.check on a string starting with `[`: token, remainder (repaired remainder = string[i:]) -/
def listCheck (s : Str) : Option (Str × Str) :=
  match s with
  | '[' :: rest =>
    let i := brScan '[' ']' ⟨1, false, false, none⟩ rest 1
    some (s.take i, s.drop i)
  | _ => none

theorem listCheck_rendered (inner k : Str) (h : Passes '[' ']' inner) :
    listCheck ('[' :: (inner ++ (']' :: k))) = some ('[' :: (inner ++ [']']), k) := by
  unfold listCheck
  obtain ⟨s2, ⟨a2, b2, dd2, p2⟩, d2, e2⟩ := h ⟨1, false, false, none⟩ ⟨rfl, rfl, by simp, by simp⟩
  simp only
  rw [e2]
  have hd : s2.depth = 1 := d2
  have : (brStep '[' ']' s2 ']').depth = 0 := by
    simp [brStep, a2, b2, hd]
  rw [brScan]
  simp only [this, if_true]
  have hlen : 1 + inner.length + 1 = ('[' :: (inner ++ [']'])).length := by simp; omega
  rw [hlen]
  have e : '[' :: (inner ++ ']' :: k) = ('[' :: (inner ++ [']'])) ++ k := by simp
  rw [e, List.take_left', List.drop_left']
  all_goals rfl

#print axioms listCheck_rendered
end Scan
