namespace Unov
structure Ev where
  ts : Int
  dur : Int
  tag : Nat
deriving DecidableEq, Repr
def Ev.fin (e : Ev) : Int := e.ts + e.dur

def split (e : Ev) (dt : Int) : Ev × Option Ev :=
  if e.ts < dt ∧ dt < e.fin then ({ e with dur := dt - e.ts }, some { e with ts := dt, dur := e.fin - dt })
  else (e, none)

def phase (e1 e2 : Ev) : Nat := if e2.ts < e1.ts then 2 else if e2.ts < e1.fin then 1 else 0

def measure : List Ev → List Ev → Nat
  | e1 :: r1, e2 :: r2 => 3 * (r1.length + r2.length + 2) + phase e1 e2
  | l1, l2 => 3 * (l1.length + l2.length)

/-- repaired union_no_overlap loop; output tagged with its origin (true = list one) -/
def unov : List Ev → List Ev → List (Bool × Ev)
  | [], l2 => l2.map (fun e => (false, e))
  | e1 :: r1, [] => (e1 :: r1).map (fun e => (true, e))
  | e1 :: r1, e2 :: r2 =>
    if e2.fin ≤ e1.ts then (false, e2) :: unov (e1 :: r1) r2
    else if e1.fin ≤ e2.ts then (true, e1) :: unov r1 (e2 :: r2)
    else if h3 : e2.ts < e1.ts then
      match hs : (split e2 e1.ts).2 with
      | some t => (false, (split e2 e1.ts).1) :: unov (e1 :: r1) (t :: r2)
      | none => (false, e2) :: unov (e1 :: r1) r2      -- unreachable: e2.ts < e1.ts < e2.fin here
    else
      match hs : (split e2 e1.fin).2 with
      | some t => unov (e1 :: r1) (t :: r2)
      | none => unov (e1 :: r1) r2
termination_by l1 l2 => measure l1 l2
decreasing_by
  · -- case 1: e2 emitted
    simp_wf; cases r2 <;> simp [measure, phase] <;> (try split) <;> (try split) <;> omega
  · -- case 2: e1 emitted
    simp_wf; cases r1 <;> simp [measure, phase] <;> (try split) <;> (try split) <;> omega
  · -- case 3: e2 cut at e1.ts, tail starts at e1.ts
    simp_wf
    have ht : t.ts = e1.ts := by
      unfold split at hs; split at hs <;> simp at hs; subst hs; rfl
    simp [measure, phase, ht, h3]
    split <;> omega
  · -- case 3, unreachable branch
    simp_wf; cases r2 <;> simp [measure, phase] <;> (try split) <;> (try split) <;> omega
  · -- case 4: e2 cut at e1.fin, tail starts at e1.fin
    simp_wf
    have ht : t.ts = e1.fin ∧ e2.ts < e1.fin := by
      unfold split at hs; split at hs <;> simp at hs
      subst hs; rename_i h; exact ⟨rfl, h.1⟩
    simp [measure, phase, ht.1, h3, ht.2]
    omega
  · -- case 4: e2 entirely covered, dropped
    simp_wf; cases r2 <;> simp [measure, phase] <;> (try split) <;> (try split) <;> omega

#eval (unov [⟨0,2,1⟩] [⟨0,1,2⟩,⟨1,1,3⟩]).map (fun p => (p.1, p.2.ts, p.2.fin))
#eval (unov [⟨5,0,1⟩] [⟨0,10,2⟩]).map (fun p => (p.1, p.2.ts, p.2.fin))
#eval (unov [⟨2,2,1⟩,⟨6,2,1⟩] [⟨0,10,2⟩]).map (fun p => (p.1, p.2.ts, p.2.fin))
end Unov
