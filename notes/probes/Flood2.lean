import Probe.Flood
namespace Flood
variable {D : Type} [DecidableEq D]

theorem shortGap_congr (pt : Int) (c c' : Ev D) (es : List (Ev D)) (t : Int) (h : c'.fin = c.fin) :
    shortGap pt c' es t ↔ shortGap pt c es t := by
  cases es with
  | nil => simp [shortGap]
  | cons e es => simp [shortGap, h]

theorem chain_congr (c c' : Ev D) (es : List (Ev D)) (h : c'.fin = c.fin) : Chain c' es ↔ Chain c es := by
  cases es with
  | nil => simp [Chain]
  | cons e es => simp [Chain, h]

/-- C10.cover_iff at the level of the sweep (zero-length outputs cover nothing, so the final filter is immaterial) -/
theorem sweep_cover (pt : Int) (hpt : 0 ≤ pt) : ∀ (es : List (Ev D)) (c : Ev D), 0 ≤ c.dur → Chain c es → ∀ t,
    (cov (sweep pt c es) t ↔ (c.ts ≤ t ∧ t < c.fin) ∨ cov es t ∨ shortGap pt c es t)
  | [], c, _, _, t => by simp [sweep, cov, shortGap]
  | e :: es, c, hc, hch, t => by
    obtain ⟨hg, he, hrest⟩ := hch
    have sf := step_fin pt c e hc he hg
    have sc := step_cover pt hpt c e hc he hg t
    have ih := sweep_cover pt hpt es (step pt c e).2 sf.2.2.1 ((chain_congr e _ es sf.1).2 hrest) t
    have sg := shortGap_congr pt e (step pt c e).2 es t sf.1
    simp only [sweep, cov, List.mem_cons, shortGap] at *
    constructor
    · rintro ⟨x, hx | hx, h1, h2⟩
      · subst hx
        have := sc.1 (Or.inl ⟨h1, h2⟩)
        rcases this with h | h | h
        · exact Or.inl h
        · exact Or.inr (Or.inl ⟨e, Or.inl rfl, h⟩)
        · exact Or.inr (Or.inr (Or.inl h))
      · have := ih.1 ⟨x, hx, h1, h2⟩
        rcases this with h | ⟨y, hy, hy2⟩ | h
        · have := sc.1 (Or.inr h)
          rcases this with h | h | h
          · exact Or.inl h
          · exact Or.inr (Or.inl ⟨e, Or.inl rfl, h⟩)
          · exact Or.inr (Or.inr (Or.inl h))
        · exact Or.inr (Or.inl ⟨y, Or.inr hy, hy2⟩)
        · exact Or.inr (Or.inr (Or.inr (sg.1 h)))
    · rintro (h | ⟨y, hy | hy, hy2⟩ | h | h)
      · rcases sc.2 (Or.inl h) with h' | h'
        · exact ⟨_, Or.inl rfl, h'⟩
        · obtain ⟨x, hx, hx2⟩ := ih.2 (Or.inl h'); exact ⟨x, Or.inr hx, hx2⟩
      · subst hy
        rcases sc.2 (Or.inr (Or.inl hy2)) with h' | h'
        · exact ⟨_, Or.inl rfl, h'⟩
        · obtain ⟨x, hx, hx2⟩ := ih.2 (Or.inl h'); exact ⟨x, Or.inr hx, hx2⟩
      · obtain ⟨x, hx, hx2⟩ := ih.2 (Or.inr (Or.inl ⟨y, hy, hy2⟩)); exact ⟨x, Or.inr hx, hx2⟩
      · rcases sc.2 (Or.inr (Or.inr h)) with h' | h'
        · exact ⟨_, Or.inl rfl, h'⟩
        · obtain ⟨x, hx, hx2⟩ := ih.2 (Or.inl h'); exact ⟨x, Or.inr hx, hx2⟩
      · obtain ⟨x, hx, hx2⟩ := ih.2 (Or.inr (Or.inr (sg.2 h))); exact ⟨x, Or.inr hx, hx2⟩

/-- the sweep's head keeps the carried start; used for non-overlap of the output -/
theorem sweep_head (pt : Int) (c : Ev D) (es : List (Ev D)) (hc : 0 ≤ c.dur) (hch : Chain c es) :
    ∃ h t, sweep pt c es = h :: t ∧ h.ts = c.ts := by
  cases es with
  | nil => exact ⟨c, [], rfl, rfl⟩
  | cons e es =>
    refine ⟨_, _, rfl, ?_⟩
    exact (step_fin pt c e hc hch.2.1 hch.1).2.2.2.1

/-- output events do not overlap and stay sorted -/
def OutChain : List (Ev D) → Prop
  | [] => True
  | [_] => True
  | a :: b :: t => a.fin ≤ b.ts ∧ OutChain (b :: t)

theorem sweep_chain (pt : Int) : ∀ (es : List (Ev D)) (c : Ev D), 0 ≤ c.dur → Chain c es → OutChain (sweep pt c es)
  | [], c, _, _ => by simp [sweep, OutChain]
  | e :: es, c, hc, hch => by
    obtain ⟨hg, he, hrest⟩ := hch
    have sf := step_fin pt c e hc he hg
    have ih := sweep_chain pt es (step pt c e).2 sf.2.2.1 ((chain_congr e _ es sf.1).2 hrest)
    obtain ⟨h, t, heq, hts⟩ := sweep_head pt (step pt c e).2 es sf.2.2.1 ((chain_congr e _ es sf.1).2 hrest)
    simp only [sweep]
    rw [heq] at ih ⊢
    exact ⟨by rw [hts]; exact sf.2.2.2.2.2.2.1, ih⟩

/-- per step, every label keeps what it covered -/
theorem step_label (pt : Int) (c e : Ev D) (hc : 0 ≤ c.dur) (he : 0 ≤ e.dur) (hg : c.fin ≤ e.ts) (d : D) (t : Int) :
    ((c.data = d ∧ c.ts ≤ t ∧ t < c.fin) ∨ (e.data = d ∧ e.ts ≤ t ∧ t < e.fin)) →
    (((step pt c e).1.data = d ∧ (step pt c e).1.ts ≤ t ∧ t < (step pt c e).1.fin) ∨
     ((step pt c e).2.data = d ∧ (step pt c e).2.ts ≤ t ∧ t < (step pt c e).2.fin)) := by
  unfold step Ev.fin thres at *
  grind

theorem sweep_label (pt : Int) : ∀ (es : List (Ev D)) (c : Ev D), 0 ≤ c.dur → Chain c es → ∀ d t,
    covD d (c :: es) t → covD d (sweep pt c es) t
  | [], c, _, _, d, t => by simp [sweep]
  | e :: es, c, hc, hch, d, t => by
    obtain ⟨hg, he, hrest⟩ := hch
    have sf := step_fin pt c e hc he hg
    have ih := sweep_label pt es (step pt c e).2 sf.2.2.1 ((chain_congr e _ es sf.1).2 hrest) d t
    have sl := step_label pt c e hc he hg d t
    simp only [sweep, covD, List.mem_cons] at *
    rintro ⟨x, hx | hx | hx, hd, h1, h2⟩
    · subst hx
      rcases sl (Or.inl ⟨hd, h1, h2⟩) with h | h
      · exact ⟨_, Or.inl rfl, h⟩
      · obtain ⟨y, hy, hy2⟩ := ih ⟨_, Or.inl rfl, h⟩; exact ⟨y, Or.inr hy, hy2⟩
    · subst hx
      rcases sl (Or.inr ⟨hd, h1, h2⟩) with h | h
      · exact ⟨_, Or.inl rfl, h⟩
      · obtain ⟨y, hy, hy2⟩ := ih ⟨_, Or.inl rfl, h⟩; exact ⟨y, Or.inr hy, hy2⟩
    · obtain ⟨y, hy, hy2⟩ := ih ⟨x, Or.inr hx, hd, h1, h2⟩; exact ⟨y, Or.inr hy, hy2⟩

#print axioms sweep_cover
#print axioms sweep_chain
#print axioms sweep_label
end Flood
