namespace Heap
/-! Ownership model for the memory backend (single bucket, events only): does the store share
    mutable objects with its client?  `deep = true` is the repaired code (deepcopy on insert),
    `deep = false` the pinned code (copy.copy: new Event object, same `data` dict). -/
abbrev Ref := Nat
variable {V : Type}   -- contents of a data dict (opaque JSON value)

structure EvObj where
  ts : Int
  dur : Int
  dataRef : Ref

inductive Cell (V : Type) where
  | ev (o : EvObj)
  | dict (v : V)

structure St (V : Type) where
  heap : Ref → Option (Cell V)
  next : Ref                    -- every allocated ref is < next
  store : List Ref              -- event objects held by the bucket
  client : Ref → Prop           -- refs the client has created or been handed (incl. their dicts)

def alloc (s : St V) (c : Cell V) : St V × Ref :=
  ({ s with heap := fun r => if r = s.next then some c else s.heap r, next := s.next + 1 }, s.next)

/-- what a full read of the bucket returns, as pure values -/
def obs (s : St V) : List (Option (Int × Int × Option V)) :=
  s.store.map fun r =>
    match s.heap r with
    | some (.ev o) => some (o.ts, o.dur, match s.heap o.dataRef with | some (.dict v) => some v | _ => none)
    | _ => none

/-- client builds an event object with a fresh data dict -/
def clientNew (s : St V) (ts dur : Int) (v : V) : St V × Ref :=
  let (s1, d) := alloc s (.dict v)
  let (s2, e) := alloc s1 (.ev ⟨ts, dur, d⟩)
  ({ s2 with client := fun r => r = d ∨ r = e ∨ s.client r }, e)

/-- Bucket.insert of a client event object -/
def insert (deep : Bool) (s : St V) (r : Ref) : St V :=
  match s.heap r with
  | some (.ev o) =>
    if deep then
      match s.heap o.dataRef with
      | some (.dict v) =>
        let (s1, d') := alloc s (.dict v)
        let (s2, e') := alloc s1 (.ev { o with dataRef := d' })
        { s2 with store := s.store ++ [e'] }
      | _ => s
    else
      let (s1, e') := alloc s (.ev o)           -- copy.copy: shares o.dataRef
      { s1 with store := s.store ++ [e'] }
  | _ => s

/-- the client overwrites the contents of a dict it holds -/
def clientSetDict (s : St V) (r : Ref) (v : V) : St V :=
  { s with heap := fun x => if x = r then some (.dict v) else s.heap x }

/-- refs the store can reach -/
def storeReach (s : St V) (r : Ref) : Prop :=
  r ∈ s.store ∨ ∃ e ∈ s.store, ∃ o, s.heap e = some (.ev o) ∧ o.dataRef = r

/-- separation invariant -/
def Sep (s : St V) : Prop :=
  (∀ r, storeReach s r → ¬ s.client r) ∧ (∀ r, s.next ≤ r → s.heap r = none ∧ ¬ s.client r ∧ r ∉ s.store) ∧
  (∀ e ∈ s.store, ∀ o, s.heap e = some (.ev o) → o.dataRef < s.next)

/-- a client mutation of a client-held dict never changes what the store returns -/
theorem clientSetDict_obs (s : St V) (h : Sep s) (r : Ref) (hr : s.client r) (v : V) :
    obs (clientSetDict s r v) = obs s := by
  unfold obs clientSetDict
  apply List.map_congr_left
  intro e he
  have hne : e ≠ r := by
    intro heq; subst heq; exact h.1 e (Or.inl he) hr
  simp only [hne, if_false]
  cases hh : s.heap e with
  | none => rfl
  | some c =>
    cases c with
    | dict _ => rfl
    | ev o =>
      have hd : o.dataRef ≠ r := by
        intro heq; exact h.1 r (Or.inr ⟨e, he, o, hh, heq⟩) hr
      simp [hd]

/-- the pinned code (shallow copy) breaks it: insert then mutate the caller's dict -/
theorem shallow_counterexample :
    let s0 : St Nat := ⟨fun _ => none, 0, [], fun _ => False⟩
    let (s1, e) := clientNew s0 0 1 7
    let s2 := insert false s1 e
    obs (clientSetDict s2 0 99) ≠ obs s2 := by
  decide

end Heap
