import Probe.HB3
namespace HB
variable {D : Type} [DecidableEq D]

theorem noAdj_mid (pt : Int) : ∀ (p : List (Ev D)) (l e : Ev D) (s : List (Ev D)),
    NoAdj pt (p ++ l :: e :: s) → ¬ Mergeable pt l e
  | [], l, e, s, h => h.1
  | [x], l, e, s, h => by
    have : NoAdj pt (x :: l :: e :: s) := h
    exact this.2.1
  | x :: y :: t, l, e, s, h => by
    have : NoAdj pt (x :: y :: (t ++ l :: e :: s)) := h
    exact noAdj_mid pt (y :: t) l e s this.2

/-- reducing a list that has no adjacent mergeable pair changes nothing (so reduce is idempotent) -/
theorem reduceAux_of_noAdj (pt : Int) : ∀ (es acc : List (Ev D)),
    NoAdj pt (acc.reverse ++ es) → reduceAux pt acc es = acc.reverse ++ es
  | [], acc, _ => by simp [reduceAux]
  | e :: es, [], h => by
    simp only [reduceAux]
    have := reduceAux_of_noAdj pt es [e] (by simpa using h)
    simpa using this
  | e :: es, l :: acc, h => by
    simp only [reduceAux]
    -- l and e are adjacent in acc.reverse ++ [l] ++ e :: es
    have hadj : ¬ Mergeable pt l e := by
      have : NoAdj pt ((l :: acc).reverse ++ e :: es) := h
      simp only [List.reverse_cons, List.append_assoc, List.singleton_append] at this
      exact noAdj_mid pt acc.reverse l e es this
    have hm := (merge_none_iff pt l e).2 hadj
    simp only [hm]
    have := reduceAux_of_noAdj pt es (e :: l :: acc) (by simpa using h)
    simpa using this

theorem reduce_idempotent (pt : Int) (l : List (Ev D)) : reduce pt (reduce pt l) = reduce pt l := by
  have h := reduce_noAdj pt l
  unfold reduce at *
  have := reduceAux_of_noAdj pt (reduceAux pt [] l) [] (by simpa using h)
  simpa using this

/-- every input interval of non-negative length is covered by an output event -/
def Covers (o e : Ev D) : Prop := o.ts ≤ e.ts ∧ e.fin ≤ o.fin

theorem reduceAux_covers (pt : Int) : ∀ (es acc : List (Ev D)) (x : Ev D), 0 ≤ x.dur →
    ((∃ o ∈ acc, Covers o x) ∨ x ∈ es) → ∃ o ∈ reduceAux pt acc es, Covers o x
  | [], acc, x, _, h => by
    rcases h with ⟨o, ho, hc⟩ | h
    · exact ⟨o, by simp [reduceAux, ho], hc⟩
    · simp at h
  | e :: es, [], x, hx, h => by
    simp only [reduceAux]
    apply reduceAux_covers pt es [e] x hx
    rcases h with ⟨o, ho, _⟩ | h
    · simp at ho
    · rcases List.mem_cons.1 h with rfl | h'
      · exact Or.inl ⟨x, by simp, ⟨Int.le_refl _, Int.le_refl _⟩⟩
      · exact Or.inr h'
  | e :: es, l :: acc, x, hx, h => by
    simp only [reduceAux]
    cases hm : merge pt l e with
    | none =>
      simp only
      apply reduceAux_covers pt es (e :: l :: acc) x hx
      rcases h with ⟨o, ho, hc⟩ | h
      · exact Or.inl ⟨o, List.mem_cons_of_mem _ ho, hc⟩
      · rcases List.mem_cons.1 h with rfl | h'
        · exact Or.inl ⟨x, by simp, ⟨Int.le_refl _, Int.le_refl _⟩⟩
        · exact Or.inr h'
    | some m =>
      simp only
      have me := merge_eq' pt l e m hm
      have hmg := (merge_isSome_iff' pt l e).1 (by simp [hm])
      apply reduceAux_covers pt es (m :: acc) x hx
      rcases h with ⟨o, ho, hc⟩ | h
      · rcases List.mem_cons.1 ho with rfl | ho'
        · -- covered by l, now by m ⊇ l
          refine Or.inl ⟨m, by simp, ?_⟩
          unfold Covers Ev.fin at *
          have := me.1; have := me.2.2.2; omega
        · exact Or.inl ⟨o, List.mem_cons_of_mem _ ho', hc⟩
      · rcases List.mem_cons.1 h with rfl | h'
        · -- x is the merged heartbeat
          refine Or.inl ⟨m, by simp, ?_⟩
          unfold Covers Mergeable Ev.fin at *
          have := me.1; have := me.2.2.1
          omega
        · exact Or.inr h'

theorem reduce_covers (pt : Int) (l : List (Ev D)) (x : Ev D) (hx : x ∈ l) (h0 : 0 ≤ x.dur) :
    ∃ o ∈ reduce pt l, Covers o x :=
  reduceAux_covers pt l [] x h0 (Or.inr hx)

#print axioms reduce_idempotent
#print axioms reduce_covers
end HB
