import Probe.HB
namespace HB
variable {D : Type} [DecidableEq D]

theorem merge_isSome_iff' (pt : Int) (a b : Ev D) : (merge pt a b).isSome ↔ Mergeable pt a b := by
  grind [merge, Mergeable, Ev.fin]

theorem merge_eq' (pt : Int) (a b m : Ev D) (h : merge pt a b = some m) :
    m.ts = a.ts ∧ m.data = a.data ∧ m.fin = max a.fin b.fin ∧ a.dur ≤ m.dur := by
  grind [merge, Ev.fin]

theorem merge_none_iff (pt : Int) (a b : Ev D) : merge pt a b = none ↔ ¬ Mergeable pt a b := by
  grind [merge, Mergeable, Ev.fin]
end HB
