namespace Flood

structure Ev (D : Type) where
  ts : Int
  dur : Int
  data : D
deriving DecidableEq, Repr

variable {D : Type} [DecidableEq D]

def Ev.fin (e : Ev D) : Int := e.ts + e.dur

/-- negative_gap_trim_thres = 0.1 s in microseconds -/
def thres : Int := 100000

/-- one iteration of the pair loop of flood(): returns the mutated (e1, e2) -/
def step (pt : Int) (e1 e2 : Ev D) : Ev D × Ev D :=
  let gap := e2.ts - (e1.ts + e1.dur)
  if gap = 0 then (e1, e2)
  else if gap < 0 ∧ e1.data = e2.data then
    let start := min e1.ts e2.ts
    let stop := max (e1.ts + e1.dur) (e2.ts + e2.dur)
    ({ e1 with ts := start, dur := stop - start }, { e2 with ts := stop, dur := 0 })
  else if gap < -thres then (e1, e2)          -- warning only (flag does not change the result)
  else if -thres < gap ∧ gap ≤ pt then
    let e2end := e2.ts + e2.dur
    if e1.dur ≥ e2.dur then
      if e1.data = e2.data then
        ({ e1 with dur := e2end - e1.ts }, { e2 with ts := e2end, dur := 0 })
      else
        ({ e1 with dur := e2.ts - e1.ts }, e2)
    else
      if e1.data = e2.data then
        ({ e1 with dur := 0 }, { e2 with ts := e1.ts, dur := e2end - e1.ts })
      else
        (e1, { e2 with ts := e1.ts + e1.dur, dur := e2end - (e1.ts + e1.dur) })
  else (e1, e2)

/-- the loop over zip(events[:-1], events[1:]) with shared objects: the mutated e2 is the next e1 -/
def sweep (pt : Int) : Ev D → List (Ev D) → List (Ev D)
  | c, [] => [c]
  | c, e :: es => (step pt c e).1 :: sweep pt (step pt c e).2 es

def floodSorted (pt : Int) : List (Ev D) → List (Ev D)
  | [] => []
  | c :: es => (sweep pt c es).filter (fun e => 0 < e.dur)

/-- input well-formedness: sorted, non-overlapping, non-negative durations -/
def Chain : Ev D → List (Ev D) → Prop
  | _, [] => True
  | c, e :: es => c.fin ≤ e.ts ∧ 0 ≤ e.dur ∧ Chain e es

def cov (l : List (Ev D)) (t : Int) : Prop := ∃ e ∈ l, e.ts ≤ t ∧ t < e.fin
def covD (d : D) (l : List (Ev D)) (t : Int) : Prop := ∃ e ∈ l, e.data = d ∧ e.ts ≤ t ∧ t < e.fin

/-- t lies in a gap of length ≤ pt between consecutive events of c :: es -/
def shortGap (pt : Int) : Ev D → List (Ev D) → Int → Prop
  | _, [], _ => False
  | c, e :: es, t => (c.fin ≤ t ∧ t < e.ts ∧ e.ts - c.fin ≤ pt) ∨ shortGap pt e es t

theorem step_fin (pt : Int) (c e : Ev D) (hc : 0 ≤ c.dur) (he : 0 ≤ e.dur) (hg : c.fin ≤ e.ts) :
    (step pt c e).2.fin = e.fin ∧ (step pt c e).2.data = e.data ∧ 0 ≤ (step pt c e).2.dur ∧
    (step pt c e).1.ts = c.ts ∧ (step pt c e).1.data = c.data ∧ 0 ≤ (step pt c e).1.dur ∧
    (step pt c e).1.fin ≤ (step pt c e).2.ts ∧ c.ts ≤ (step pt c e).2.ts := by
  unfold step Ev.fin thres at *
  grind

/-- coverage of the pair after one step = coverage before ∪ the gap if it is short -/
theorem step_cover (pt : Int) (hpt : 0 ≤ pt) (c e : Ev D) (hc : 0 ≤ c.dur) (he : 0 ≤ e.dur) (hg : c.fin ≤ e.ts) (t : Int) :
    ((step pt c e).1.ts ≤ t ∧ t < (step pt c e).1.fin) ∨ ((step pt c e).2.ts ≤ t ∧ t < (step pt c e).2.fin) ↔
    (c.ts ≤ t ∧ t < c.fin) ∨ (e.ts ≤ t ∧ t < e.fin) ∨ (c.fin ≤ t ∧ t < e.ts ∧ e.ts - c.fin ≤ pt) := by
  unfold step Ev.fin thres at *
  grind

end Flood
