-- executable, Mathlib-free model of IEEE-754 binary64 round-to-nearest-even on rationals (normal range only)
namespace Fl
def ilog2 (x : Rat) : Int :=   -- floor(log2 x) for x > 0
  let n := x.num.toNat; let d := x.den
  let e0 : Int := (Nat.log2 n : Int) - (Nat.log2 d : Int)
  let p : Rat := if e0 ≥ 0 then ((2:Rat)^e0.toNat) else 1 / ((2:Rat)^(-e0).toNat)
  if p ≤ x then (if 2*p ≤ x then e0+1 else e0) else e0-1
def pow2 (e : Int) : Rat := if e ≥ 0 then ((2:Rat)^e.toNat) else 1 / ((2:Rat)^(-e).toNat)
def rne (q : Rat) : Int :=
  let f := q.floor; let r := q - f
  if r < 1/2 then f else if 1/2 < r then f+1 else if f % 2 = 0 then f else f+1
def fl (x : Rat) : Rat :=
  if x = 0 then 0 else
  let a := if x < 0 then -x else x
  let s := pow2 (ilog2 a - 52)
  let m := (rne (a / s) : Rat) * s
  if x < 0 then -m else m
-- sqlite-style float encode/decode of microsecond instant
def encF (T : Int) : Rat := fl (fl ((T:Rat) / 1000000) * 1000000)
def decF (m : Rat) : Int :=
  let r := fl (m / 1000000)
  let ip := r.floor
  let fp := r - ip
  let p := fl (fp * 1000000)
  ip * 1000000 + rne p
#eval encF 2250741852732000   -- expect 2250741852731999.75
#eval (decF (encF 2250741852732000))
#eval fl ((2252935084496771 : Rat) + 1/2 )
#eval decF (fl (encF 2250741852732000 + fl (fl ((2193231764772:Rat)/1000000) * 1000000))) - decF (encF 2250741852732000)  -- expect 2193231764771 (the defect)
#eval decF (2250741852732000 + 2193231764772) - decF (2250741852732000)   -- exact-int storage: expect 2193231764772
end Fl
