import Probe.Fl
import Mathlib.Algebra.Order.Floor.Ring
import Mathlib.Data.Rat.Floor
import Mathlib.Tactic.Linarith
import Mathlib.Tactic.Ring
namespace Fl

theorem floor_eq (q : Rat) : q.floor = ⌊q⌋ := by
  rfl

theorem rne_err (q : Rat) : |((rne q : Int) : Rat) - q| ≤ 1/2 := by
  unfold rne
  have h1 : (⌊q⌋ : Rat) ≤ q := Int.floor_le q
  have h2 : q < ⌊q⌋ + 1 := Int.lt_floor_add_one q
  simp only [floor_eq]
  split_ifs with ha hb hc <;> rw [abs_le] <;> constructor <;> push_cast <;> linarith
end Fl
