import Probe.FlP2
import Mathlib.Tactic.Linarith
import Mathlib.Tactic.NormNum
import Mathlib.Tactic.Positivity
import Mathlib.Algebra.Order.Floor.Ring
namespace Fl

/-- absolute error of one rounding, in terms of the binade of |x| -/
theorem fl_err (x : Rat) (hx : x ≠ 0) :
    |fl x - x| ≤ pow2 (ilog2 |x| - 53) := by
  unfold fl
  simp only [hx, if_false]
  have habs : (if x < 0 then -x else x) = |x| := by
    split_ifs with h
    · exact (abs_of_neg h).symm
    · exact (abs_of_nonneg (not_lt.mp h)).symm
  rw [habs]
  set a := |x| with ha
  have apos : 0 < a := abs_pos.mpr hx
  set s := pow2 (ilog2 a - 52) with hs
  have spos : 0 < s := pow2_pos _
  have hr := rne_err (a / s)
  have hhalf : pow2 (ilog2 a - 53) = s / 2 := by
    have := pow2_succ (ilog2 a - 53)
    rw [show ilog2 a - 53 + 1 = ilog2 a - 52 by ring] at this
    rw [hs, this]; ring
  rw [hhalf]
  have key : |(rne (a / s) : Rat) * s - a| ≤ s / 2 := by
    have : (rne (a / s) : Rat) * s - a = ((rne (a / s) : Rat) - a / s) * s := by
      field_simp
    rw [this, abs_mul, abs_of_pos spos]
    calc |(rne (a / s) : Rat) - a / s| * s ≤ (1/2) * s := by
          apply mul_le_mul_of_nonneg_right hr spos.le
      _ = s / 2 := by ring
  split_ifs with h
  · have : x = -a := by rw [ha, abs_of_neg h]; ring
    rw [this]
    have : -((rne (a / s) : Rat) * s) - -a = -(((rne (a / s) : Rat) * s) - a) := by ring
    rw [this, abs_neg]; exact key
  · have : x = a := by rw [ha, abs_of_nonneg (not_lt.mp h)]
    rw [this]; exact key

/-- monotone bound: if 0 < |x| < 2^k then the error is at most 2^(k-54)... stated for the cases we need -/
theorem ilog2_lt (x : Rat) (hx : 0 < x) (k : Int) (h : x < pow2 k) : ilog2 x < k := by
  by_contra hc
  have hc : k ≤ ilog2 x := not_lt.mp hc
  have h1 := (ilog2_spec x hx).1
  have : pow2 k ≤ pow2 (ilog2 x) := by
    rw [pow2_eq, pow2_eq]
    exact zpow_le_zpow_right₀ (by norm_num) hc
  linarith

theorem fl_err_lt (x : Rat) (hx : x ≠ 0) (k : Int) (h : |x| < pow2 k) :
    |fl x - x| ≤ pow2 (k - 54) := by
  have h1 := fl_err x hx
  have h2 := ilog2_lt |x| (abs_pos.mpr hx) k h
  have : pow2 (ilog2 |x| - 53) ≤ pow2 (k - 54) := by
    rw [pow2_eq, pow2_eq]
    apply zpow_le_zpow_right₀ (by norm_num)
    omega
  linarith

#print axioms fl_err_lt
end Fl
