namespace HB

structure Ev (D : Type) where
  ts : Int
  dur : Int
  data : D
deriving Repr, DecidableEq

variable {D : Type} [DecidableEq D]

def Ev.fin (e : Ev D) : Int := e.ts + e.dur

/-- code-shaped model of heartbeat_merge (nested ifs in source order) -/
def merge (pt : Int) (last hb : Ev D) : Option (Ev D) :=
  if last.data = hb.data then
    if last.ts ≤ hb.ts ∧ hb.ts ≤ last.ts + last.dur + pt then
      if last.dur < 0 then none
      else some { last with dur := max last.dur ((hb.ts - last.ts) + hb.dur) }
    else none
  else none

/-- spec-shaped rule -/
def Mergeable (pt : Int) (a b : Ev D) : Prop :=
  a.data = b.data ∧ a.ts ≤ b.ts ∧ b.ts ≤ a.fin + pt ∧ 0 ≤ a.dur

instance (pt : Int) (a b : Ev D) : Decidable (Mergeable pt a b) := by unfold Mergeable; infer_instance

/-- loop-shaped model of heartbeat_reduce: acc is reversed `reduced` -/
def reduceAux (pt : Int) : List (Ev D) → List (Ev D) → List (Ev D)
  | acc, [] => acc.reverse
  | [], e :: es => reduceAux pt [e] es
  | l :: acc, e :: es =>
    match merge pt l e with
    | some m => reduceAux pt (m :: acc) es
    | none => reduceAux pt (e :: l :: acc) es

def reduce (pt : Int) (l : List (Ev D)) : List (Ev D) := reduceAux pt [] l

/-- no two consecutive output events are mergeable -/
def NoAdj (pt : Int) : List (Ev D) → Prop
  | [] => True
  | [_] => True
  | a :: b :: t => ¬ Mergeable pt a b ∧ NoAdj pt (b :: t)

-- reversed accumulator invariant: head is newest
def NoAdjRev (pt : Int) : List (Ev D) → Prop
  | [] => True
  | [_] => True
  | b :: a :: t => ¬ Mergeable pt a b ∧ NoAdjRev pt (a :: t)

theorem mergeable_congr (pt : Int) (a b b' : Ev D) (h1 : b'.ts = b.ts) (h2 : b'.data = b.data) :
    Mergeable pt a b' ↔ Mergeable pt a b := by
  unfold Mergeable; rw [h1, h2]

end HB
