namespace Sql

structure ERow (D : Type) where
  id : Nat
  brow : Nat
  st : Int
  en : Int
  data : D
deriving DecidableEq

structure BRow where
  rowid : Nat
  bid : String
deriving DecidableEq

structure EvIn (D : Type) where
  ts : Int
  dur : Int
  data : D

structure St (D : Type) where
  buckets : List BRow
  events : List (ERow D)
  nextB : Nat
  nextE : Nat

variable {D : Type}

/-- `(SELECT rowid FROM buckets WHERE id = ?)` -/
def rowOf (s : St D) (b : String) : Option Nat :=
  (s.buckets.find? (fun r => r.bid = b)).map (·.rowid)

/-- repaired `replace`: UPDATE events SET … WHERE id = ? AND bucketrow = (SELECT rowid …) -/
def replace (s : St D) (b : String) (eid : Nat) (e : EvIn D) : St D :=
  match rowOf s b with
  | none => s
  | some r =>
    { s with events := s.events.map (fun row =>
        if row.id = eid ∧ row.brow = r then { row with st := e.ts, en := e.ts + e.dur, data := e.data } else row) }

/-- `DELETE FROM events WHERE id = ? AND bucketrow = (…)` -/
def delete (s : St D) (b : String) (eid : Nat) : St D :=
  match rowOf s b with
  | none => s
  | some r => { s with events := s.events.filter (fun row => ¬ (row.id = eid ∧ row.brow = r)) }

/-- `INSERT INTO events(bucketrow, …) VALUES ((SELECT rowid …), …)`; NULL bucketrow violates NOT NULL -/
def insertOne (s : St D) (b : String) (e : EvIn D) : Option (St D × Nat) :=
  match rowOf s b with
  | none => none
  | some r =>
    some ({ s with events := s.events ++ [⟨s.nextE, r, e.ts, e.ts + e.dur, e.data⟩], nextE := s.nextE + 1 }, s.nextE)

/-- what a reader of bucket `b` can see -/
def view (s : St D) (b : String) : List (ERow D) :=
  match rowOf s b with
  | none => []
  | some r => s.events.filter (fun row => row.brow = r)

/-- bucket ids and rowids are unique -/
def Inv (s : St D) : Prop :=
  ∀ x ∈ s.buckets, ∀ y ∈ s.buckets, (x.bid = y.bid ∨ x.rowid = y.rowid) → x = y

theorem rowOf_inj (s : St D) (h : Inv s) (b b' : String) (r : Nat)
    (h1 : rowOf s b = some r) (h2 : rowOf s b' = some r) : b = b' := by
  unfold rowOf at h1 h2
  simp only [Option.map_eq_some_iff] at h1 h2
  obtain ⟨x, hx, rfl⟩ := h1
  obtain ⟨y, hy, hxy⟩ := h2
  have mx := List.mem_of_find?_eq_some hx
  have my := List.mem_of_find?_eq_some hy
  have px := List.find?_some hx
  have py := List.find?_some hy
  simp at px py
  have := h x mx y my (Or.inr hxy.symm)
  subst this
  rw [← px, ← py]

theorem filter_map_fix {α : Type} (l : List α) (f : α → α) (p : α → Bool)
    (hp : ∀ x, p (f x) = p x) (hf : ∀ x, p x = true → f x = x) :
    (l.map f).filter p = l.filter p := by
  induction l with
  | nil => rfl
  | cons a t ih =>
    simp only [List.map_cons, List.filter_cons, hp a]
    cases h : p a with
    | true => simp [hf a h, ih]
    | false => simp [ih]

/-- C04 frame for `replace` with ANY event id: other buckets read back unchanged -/
theorem frame_replace (s : St D) (h : Inv s) (b b' : String) (hb : b' ≠ b) (eid : Nat) (e : EvIn D) :
    view (replace s b eid e) b' = view s b' := by
  unfold replace
  cases hr : rowOf s b with
  | none => rfl
  | some r =>
    simp only
    unfold view
    show (match rowOf s b' with | none => [] | some r' => _) = _
    cases hr' : rowOf s b' with
    | none => rfl
    | some r' =>
      simp only
      have hne : r' ≠ r := by
        intro heq; subst heq
        exact hb (rowOf_inj s h b' b r' hr' hr)
      apply filter_map_fix
      · intro x; by_cases hu : x.id = eid ∧ x.brow = r <;> simp [hu]
      · intro x hx
        have hx' : x.brow = r' := by simpa using hx
        have : ¬ (x.id = eid ∧ x.brow = r) := by rintro ⟨_, h2⟩; exact hne (hx' ▸ h2)
        simp [this]

/-- and the addressed bucket sees exactly one row rewritten -/
theorem replace_view (s : St D) (b : String) (r : Nat) (hr : rowOf s b = some r) (eid : Nat) (e : EvIn D) :
    view (replace s b eid e) b =
      (view s b).map (fun row => if row.id = eid then { row with st := e.ts, en := e.ts + e.dur, data := e.data } else row) := by
  unfold replace view
  simp only [hr]
  show (match rowOf s b with | none => [] | some r' => _) = _
  simp only [hr]
  induction s.events with
  | nil => rfl
  | cons x t ih =>
    by_cases h1 : x.brow = r <;> by_cases h2 : x.id = eid <;> simp [h1, h2, ih]

#print axioms frame_replace
#print axioms replace_view
end Sql
