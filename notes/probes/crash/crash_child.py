import os, sys, signal
sys.path.insert(0,"/repo")
import logging; logging.disable(logging.CRITICAL)
from datetime import datetime, timedelta, timezone
from aw_core.models import Event
from aw_datastore import Datastore
from aw_datastore.storages import SqliteStorage, PeeweeStorage
backend, path, kill_at = sys.argv[1], sys.argv[2], int(sys.argv[3])
T0=datetime(2020,1,1,tzinfo=timezone.utc)
count=[0]
def cb(stmt):
    count[0]+=1
    if count[0]==kill_at:
        os.kill(os.getpid(), signal.SIGKILL)
if backend=="sqlite":
    ds=Datastore(SqliteStorage,testing=True,filepath=path); ds.storage_strategy.conn.set_trace_callback(cb)
else:
    ds=Datastore(PeeweeStorage,testing=True,filepath=path); ds.storage_strategy.db.connection().set_trace_callback(cb)
b=ds.create_bucket("A","t","c","h",created=T0)
for i in range(60):
    b.insert(Event(timestamp=T0+timedelta(seconds=i),duration=timedelta(seconds=1),data={"i":i}))
b.insert([Event(timestamp=T0+timedelta(seconds=100+i),duration=timedelta(seconds=1),data={"i":100+i}) for i in range(5)])
ds.delete_bucket("A")
print("statements", count[0])
