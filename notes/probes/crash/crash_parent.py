import subprocess, sqlite3, os, sys
res={}
for backend,table in (("sqlite","events"),("peewee","eventmodel")):
    p="/root/scratch/xdg/crash_%s.db"%backend
    def clean():
        for ext in ("","-wal","-shm","-journal"):
            if os.path.exists(p+ext): os.remove(p+ext)
    clean()
    out=subprocess.run(["/venv/bin/python","/root/scratch/crash_child.py",backend,p,"0"],capture_output=True,text=True)
    total=int(out.stdout.split()[-1]); print(backend,"total traced statements",total)
    rows=[]
    for k in list(range(1,total+1,1)):
        clean()
        r=subprocess.run(["/venv/bin/python","/root/scratch/crash_child.py",backend,p,str(k)],capture_output=True,text=True)
        assert r.returncode==-9, (r.returncode, r.stderr[-300:])
        c=sqlite3.connect(p)
        try:
            n=c.execute("select count(*) from %s"%table).fetchone()[0]
            ids=[json for (json,) in c.execute("select datastr from %s order by id"%table)]
            nb=c.execute("select count(*) from %s"%("buckets" if backend=="sqlite" else "bucketmodel")).fetchone()[0]
        except sqlite3.OperationalError as e:
            n,nb,ids=-1,-1,[]
        c.close()
        # prefix check: event payloads i must be 0..n-1 (then 100..)
        import json as J
        seq=[J.loads(x)["i"] for x in ids]
        exp=(list(range(60))+[100+i for i in range(5)])[:n] if n>=0 else []
        rows.append((k,nb,n,seq==exp))
    print(backend,"kill points",len(rows),"all prefix:",all(r[3] for r in rows))
    print("   (k, buckets, events):",[(k,nb,n) for k,nb,n,_ in rows if k%9==0 or k>total-6])
