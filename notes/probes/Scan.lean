namespace Scan
abbrev Str := List Char

structure BrSt where
  depth : Nat
  sq : Bool
  dq : Bool
  prev : Option Char
deriving Repr, DecidableEq

/-- one iteration of the loop body shared by QList.check / QDict.check / QFunction.check
    (o, c = the bracket pair this scanner counts) -/
def brStep (o c : Char) (st : BrSt) (ch : Char) : BrSt :=
  let st' : BrSt :=
    if ch = '\'' ∧ st.prev ≠ some '\\' ∧ st.dq = false then { st with sq := !st.sq }
    else if ch = '"' ∧ st.prev ≠ some '\\' ∧ st.sq = false then { st with dq := !st.dq }
    else if st.sq = true ∨ st.dq = true then st
    else if ch = c then { st with depth := st.depth - 1 }
    else if ch = o then { st with depth := st.depth + 1 }
    else st
  { st' with prev := some ch }

/-- `for char in string[1:]: i += 1; …; if to_consume == 0: break; prev_char = char` ; returns i -/
def brScan (o c : Char) : BrSt → Str → Nat → Nat
  | _, [], i => i
  | st, ch :: rest, i =>
    let st' := brStep o c st ch
    if st'.depth = 0 then i + 1 else brScan o c st' rest (i + 1)

/-- scanner state "outside quotes, depth ≥ 1, previous char not a backslash" -/
def Calm (st : BrSt) : Prop := st.sq = false ∧ st.dq = false ∧ 1 ≤ st.depth ∧ st.prev ≠ some '\\'

/-- w is transparent for the (o,c)-scanner: from any calm state it is consumed entirely,
    never closing the outer bracket, and leaves a calm state of the same depth -/
def Passes (o c : Char) (w : Str) : Prop :=
  ∀ st, Calm st → ∃ st', Calm st' ∧ st'.depth = st.depth ∧
    ∀ rest i, brScan o c st (w ++ rest) i = brScan o c st' rest (i + w.length)

theorem passes_nil (o c : Char) : Passes o c [] := by
  intro st h; exact ⟨st, h, rfl, by intro rest i; simp⟩

theorem passes_append {o c : Char} {u v : Str} (hu : Passes o c u) (hv : Passes o c v) :
    Passes o c (u ++ v) := by
  intro st h
  obtain ⟨s1, c1, d1, e1⟩ := hu st h
  obtain ⟨s2, c2, d2, e2⟩ := hv s1 c1
  refine ⟨s2, c2, by omega, ?_⟩
  intro rest i
  rw [List.append_assoc, e1, e2, List.length_append]; congr 1; omega

/-- a plain character: not a quote, not a backslash, not one of this scanner's brackets -/
theorem passes_plain (o c ch : Char) (h1 : ch ≠ '\'') (h2 : ch ≠ '"') (h3 : ch ≠ '\\')
    (h4 : ch ≠ o) (h5 : ch ≠ c) : Passes o c [ch] := by
  intro st ⟨a, b, d, e⟩
  refine ⟨{ st with prev := some ch }, ⟨a, b, d, by simp [h3]⟩, rfl, ?_⟩
  intro rest i
  simp only [List.singleton_append, brScan, brStep, h1, h2, h4, h5, a, b, false_and, if_false,
    Bool.false_eq_true, or_self, List.length_singleton]
  have : ¬ st.depth = 0 := by omega
  simp [this]

/-- a bracketed group of this scanner's own kind -/
theorem passes_own_brackets (o c : Char) (w : Str) (hoc : o ≠ c)
    (ho1 : o ≠ '\'') (ho2 : o ≠ '"') (ho3 : o ≠ '\\')
    (hc1 : c ≠ '\'') (hc2 : c ≠ '"') (hc3 : c ≠ '\\')
    (hw : Passes o c w) : Passes o c (o :: (w ++ [c])) := by
  intro st ⟨a, b, d, e⟩
  -- after the opening bracket
  let s1 : BrSt := { st with depth := st.depth + 1, prev := some o }
  have cs1 : Calm s1 := ⟨a, b, by simp [s1], by simp [s1, ho3]⟩
  obtain ⟨s2, c2, d2, e2⟩ := hw s1 cs1
  obtain ⟨a2, b2, dd2, p2⟩ := c2
  let s3 : BrSt := { s2 with depth := s2.depth - 1, prev := some c }
  have hd2 : s2.depth = st.depth + 1 := by rw [d2]
  refine ⟨s3, ⟨by simp [s3, a2], by simp [s3, b2], by simp [s3]; omega, by simp [s3, hc3]⟩, by simp [s3]; omega, ?_⟩
  intro rest i
  have step1 : brStep o c st o = s1 := by
    simp [brStep, ho1, ho2, a, b, hoc, s1]
  have step3 : brStep o c s2 c = s3 := by
    simp [brStep, hc1, hc2, a2, b2, s3]
  show brScan o c st (o :: ((w ++ [c]) ++ rest)) i = _
  rw [brScan]
  simp only [step1]
  have : ¬ s1.depth = 0 := by simp [s1]
  simp only [this, if_false]
  rw [List.append_assoc, e2]
  show brScan o c s2 (c :: rest) _ = _
  rw [brScan]
  simp only [step3]
  have : ¬ s3.depth = 0 := by simp [s3]; omega
  simp only [this, if_false]
  congr 1
  simp; omega

#print axioms passes_own_brackets
end Scan
