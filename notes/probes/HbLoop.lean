import Probe.HB3
namespace HB
variable {D : Type} [DecidableEq D]

/-! C07 on the abstract bucket: a list of events in insertion order.  `newest` = the event a
    limit-1 read returns (maximal timestamp; among ties the latest inserted), `replaceNewest` = what
    replace_last rewrites. For the probe the bucket is kept REVERSED (head = latest inserted). -/

/-- index-free: newest of a reversed bucket = first element with maximal ts -/
def newest : List (Ev D) → Option (Ev D)
  | [] => none
  | e :: es => match newest es with
    | none => some e
    | some m => if m.ts > e.ts then some m else some e

/-- replace the newest element (same choice as `newest`) by `x` -/
def replaceNewest (x : Ev D) : List (Ev D) → List (Ev D)
  | [] => []
  | e :: es => match newest es with
    | none => [x]
    | some m => if m.ts > e.ts then e :: replaceNewest x es else x :: es

/-- the standard ingestion loop body -/
def hbStep (pt : Int) (b : List (Ev D)) (hb : Ev D) : List (Ev D) :=
  match newest b with
  | none => hb :: b
  | some last => match merge pt last hb with
    | some m => replaceNewest m b
    | none => hb :: b

/-- reversed bucket strictly decreasing in ts (i.e. insertion order strictly increasing) -/
def Desc : List (Ev D) → Prop
  | [] => True
  | [_] => True
  | a :: b :: t => b.ts < a.ts ∧ Desc (b :: t)

theorem newest_mem : ∀ (b : List (Ev D)) (m : Ev D), newest b = some m → m ∈ b
  | [], m, h => by simp [newest] at h
  | e :: es, m, h => by
    simp only [newest] at h
    cases hn : newest es with
    | none => simp [hn] at h; subst h; simp
    | some x =>
      simp only [hn] at h
      split at h
      · cases h; exact List.mem_cons_of_mem _ (newest_mem es _ hn)
      · cases h; simp

theorem desc_head_gt : ∀ (a : Ev D) (rest : List (Ev D)), Desc (a :: rest) → ∀ x ∈ rest, x.ts < a.ts
  | _, [], _, x, hx => by simp at hx
  | a, b :: t, h, x, hx => by
    rcases List.mem_cons.1 hx with rfl | hx'
    · exact h.1
    · have := desc_head_gt b t h.2 x hx'; have := h.1; omega

theorem newest_cons_of_gt (e : Ev D) (es : List (Ev D)) (h : ∀ x ∈ es, x.ts < e.ts) : newest (e :: es) = some e := by
  simp only [newest]
  cases hn : newest es with
  | none => rfl
  | some m =>
    have := h m (newest_mem es m hn)
    have : ¬ (m.ts > e.ts) := by omega
    simp [this]

theorem newest_of_desc : ∀ (b : List (Ev D)), Desc b → newest b = b.head?
  | [], _ => rfl
  | a :: rest, h => by
    simp only [List.head?_cons]
    exact newest_cons_of_gt a rest (desc_head_gt a rest h)

theorem replaceNewest_of_desc (x : Ev D) : ∀ (b : List (Ev D)), Desc b → b ≠ [] → replaceNewest x b = x :: b.tail
  | [], _, h => absurd rfl h
  | [e], _, _ => by simp [replaceNewest, newest]
  | a :: b :: t, h, _ => by
    have hn := newest_of_desc (b :: t) h.2
    simp only [List.head?_cons] at hn
    have : ¬ (b.ts > a.ts) := by have := h.1; omega
    simp [replaceNewest, hn, this]

/-- one loop step on a Desc bucket is exactly one step of reduceAux on the reversed accumulator -/
theorem hbStep_eq (pt : Int) (acc : List (Ev D)) (hb : Ev D) (h : Desc acc) :
    hbStep pt acc hb = (match acc with
      | [] => [hb]
      | l :: rest => match merge pt l hb with
        | some m => m :: rest
        | none => hb :: l :: rest) := by
  cases acc with
  | nil => simp [hbStep, newest]
  | cons l rest =>
    have hn := newest_of_desc (l :: rest) h
    simp only [List.head?_cons] at hn
    simp only [hbStep, hn]
    cases hm : merge pt l hb with
    | none => rfl
    | some m => simp [replaceNewest_of_desc m (l :: rest) h (by simp)]

/-- Desc is preserved when the stream's timestamps are strictly increasing and above the bucket's -/
theorem desc_step (pt : Int) (acc : List (Ev D)) (hb : Ev D) (h : Desc acc)
    (hgt : ∀ e ∈ acc, e.ts < hb.ts) : Desc (hbStep pt acc hb) ∧ ∀ e ∈ hbStep pt acc hb, e.ts ≤ hb.ts := by
  rw [hbStep_eq pt acc hb h]
  cases acc with
  | nil => simp [Desc]
  | cons l rest =>
    cases hm : merge pt l hb with
    | none =>
      simp only [hm]
      refine ⟨⟨hgt l (by simp), h⟩, ?_⟩
      intro e he
      rcases List.mem_cons.1 he with rfl | he'
      · exact Int.le_refl _
      · exact Int.le_of_lt (hgt e he')
    | some m =>
      simp only [hm]
      have me := (merge_eq' pt l hb m hm).1
      constructor
      · cases rest with
        | nil => simp [Desc]
        | cons r t => exact ⟨by rw [me]; exact h.1, h.2⟩
      · intro e he
        rcases List.mem_cons.1 he with rfl | he'
        · rw [me]; exact Int.le_of_lt (hgt l (by simp))
        · exact Int.le_of_lt (hgt e (by simp [he']))

/-- C07 on the abstract bucket: folding the loop over a strictly increasing stream from an empty
    bucket yields (reversed) exactly heartbeat_reduce of the stream -/
theorem loop_eq_reduceAux (pt : Int) : ∀ (stream : List (Ev D)) (acc : List (Ev D)),
    Desc acc → (∀ e ∈ acc, ∀ s ∈ stream, e.ts < s.ts) → stream.Pairwise (fun a b => a.ts < b.ts) →
    (stream.foldl (hbStep pt) acc).reverse = reduceAux pt acc stream
  | [], acc, _, _, _ => by simp [reduceAux]
  | hb :: rest, acc, hd, hlt, hp => by
    have hp' := List.pairwise_cons.1 hp
    have hstep := desc_step pt acc hb hd (fun e he => hlt e he hb (by simp))
    have hnext : ∀ e ∈ hbStep pt acc hb, ∀ s ∈ rest, e.ts < s.ts := by
      intro e he s hs
      have := hstep.2 e he
      have := hp'.1 s hs
      omega
    have ih := loop_eq_reduceAux pt rest (hbStep pt acc hb) hstep.1 hnext hp'.2
    simp only [List.foldl_cons]
    rw [ih, hbStep_eq pt acc hb hd]
    cases acc with
    | nil => simp [reduceAux]
    | cons l t =>
      simp only [reduceAux]
      cases merge pt l hb <;> rfl

theorem loop_eq_reduce (pt : Int) (stream : List (Ev D)) (hp : stream.Pairwise (fun a b => a.ts < b.ts)) :
    (stream.foldl (hbStep pt) []).reverse = reduce pt stream :=
  loop_eq_reduceAux pt stream [] (by simp [Desc]) (by simp) hp

#print axioms loop_eq_reduce
end HB
