import Probe.FlP
import Mathlib.Tactic.Positivity
import Mathlib.Tactic.FieldSimp
import Mathlib.Tactic.NormNum
import Mathlib.Algebra.Order.Field.Power
namespace Fl

theorem pow2_eq (e : Int) : pow2 e = (2:Rat) ^ e := by
  unfold pow2
  split_ifs with h
  · obtain ⟨k, rfl⟩ := Int.eq_ofNat_of_zero_le h
    simp
  · have h' : 0 ≤ -e := by omega
    have : e = -((-e).toNat : Int) := by rw [Int.toNat_of_nonneg h']; ring
    conv_rhs => rw [this]
    rw [zpow_neg, zpow_natCast]; simp

theorem pow2_pos (e : Int) : 0 < pow2 e := by rw [pow2_eq]; positivity

theorem pow2_succ (e : Int) : pow2 (e+1) = 2 * pow2 e := by
  rw [pow2_eq, pow2_eq, zpow_add_one₀ (by norm_num : (2:Rat) ≠ 0)]; ring

theorem ilog2_spec (x : Rat) (hx : 0 < x) : pow2 (ilog2 x) ≤ x ∧ x < 2 * pow2 (ilog2 x) := by
  have hnum : 0 < x.num := Rat.num_pos.mpr hx
  have hden : 0 < x.den := x.den_pos
  set n := x.num.toNat with hn
  set d := x.den with hd
  have hn0 : n ≠ 0 := by omega
  have hd0 : d ≠ 0 := by omega
  have hxe : x = (n : Rat) / (d : Rat) := by
    have : (x.num : Rat) = (n : Rat) := by
      have : x.num = (n : Int) := by omega
      rw [this]; simp
    rw [← this]; exact (Rat.num_div_den x).symm
  have a1 : 2 ^ n.log2 ≤ n := Nat.log2_self_le hn0
  have a2 : n < 2 ^ (n.log2 + 1) := Nat.lt_log2_self
  have b1 : 2 ^ d.log2 ≤ d := Nat.log2_self_le hd0
  have b2 : d < 2 ^ (d.log2 + 1) := Nat.lt_log2_self
  have a1' : ((2:Rat) ^ n.log2) ≤ n := by exact_mod_cast a1
  have a2' : (n:Rat) < (2:Rat) ^ (n.log2 + 1) := by exact_mod_cast a2
  have b1' : ((2:Rat) ^ d.log2) ≤ d := by exact_mod_cast b1
  have b2' : (d:Rat) < (2:Rat) ^ (d.log2 + 1) := by exact_mod_cast b2
  have dpos : (0:Rat) < d := by exact_mod_cast hden
  -- p := 2^(a-b)
  have hp : pow2 ((n.log2 : Int) - (d.log2 : Int)) = (2:Rat)^n.log2 / (2:Rat)^d.log2 := by
    rw [pow2_eq, zpow_sub₀ (by norm_num : (2:Rat) ≠ 0), zpow_natCast, zpow_natCast]
  have P2a : (0:Rat) < (2:Rat)^n.log2 := by positivity
  have P2b : (0:Rat) < (2:Rat)^d.log2 := by positivity
  -- upper: x < 2 * p
  have up : x < 2 * pow2 ((n.log2 : Int) - (d.log2 : Int)) := by
    rw [hp, hxe, div_lt_iff₀ dpos]
    have : (2:Rat) ^ (n.log2 + 1) = 2 * 2 ^ n.log2 := by ring
    rw [this] at a2'
    calc (n:Rat) < 2 * 2 ^ n.log2 := a2'
      _ = 2 * (2 ^ n.log2 / 2 ^ d.log2) * 2 ^ d.log2 := by field_simp
      _ ≤ 2 * (2 ^ n.log2 / 2 ^ d.log2) * d := by
          apply mul_le_mul_of_nonneg_left b1'; positivity
  -- lower: p / 2 < x
  have lo : pow2 ((n.log2 : Int) - (d.log2 : Int)) < 2 * x := by
    rw [hp, hxe, div_lt_iff₀ P2b]
    have : (2:Rat) ^ (d.log2 + 1) = 2 * 2 ^ d.log2 := by ring
    rw [this] at b2'
    calc (2:Rat) ^ n.log2 ≤ n := a1'
      _ = (n / d) * d := by field_simp
      _ < (n / d) * (2 * 2 ^ d.log2) := by
          apply mul_lt_mul_of_pos_left b2'; positivity
      _ = 2 * (n / d) * 2 ^ d.log2 := by ring
  unfold ilog2
  simp only [← hn, ← hd]
  have hpe : (if (n.log2 : Int) - (d.log2 : Int) ≥ 0 then ((2:Rat)^((n.log2 : Int) - (d.log2 : Int)).toNat) else 1 / ((2:Rat)^(-((n.log2 : Int) - (d.log2 : Int))).toNat)) = pow2 ((n.log2 : Int) - (d.log2 : Int)) := rfl
  rw [hpe]
  split_ifs with h1 h2
  · exfalso; linarith
  · exact ⟨h1, up⟩
  · have := pow2_succ ((n.log2 : Int) - (d.log2 : Int) - 1)
    rw [show (n.log2 : Int) - (d.log2 : Int) - 1 + 1 = (n.log2 : Int) - (d.log2 : Int) by ring] at this
    constructor
    · linarith
    · rw [← this]; linarith
end Fl
