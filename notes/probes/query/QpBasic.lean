/-! Model of aw_query.query2 parsing (candidate-repaired variant), on List Char. -/
namespace Qp
abbrev Str := List Char

inductive Err where
  | parse (msg : String)      -- QueryParseException
  | py (kind : String)        -- any other Python exception (IndexError, ValueError, …)
deriving Repr, DecidableEq

/-- Python str.isspace restricted to ASCII (what str.strip() removes) -/
def isSpace (c : Char) : Bool :=
  c = ' ' || c = '\t' || c = '\n' || c = '\r' || c = '\x0b' || c = '\x0c' ||
  c = '\x1c' || c = '\x1d' || c = '\x1e' || c = '\x1f'
def isDigit (c : Char) : Bool := '0' ≤ c && c ≤ '9'
def isAlpha (c : Char) : Bool := ('a' ≤ c && c ≤ 'z') || ('A' ≤ c && c ≤ 'Z')

def lstrip : Str → Str
  | [] => []
  | c :: cs => if isSpace c then lstrip cs else c :: cs
def strip (s : Str) : Str := (lstrip (lstrip s).reverse).reverse

inductive Ty where | str | int | func | dict | list | var
deriving Repr, DecidableEq

/-- QString.check : (token, rest); token = [] means "no match" -/
def strScan (q : Char) : Option Char → Str → Str → Str     -- prev, remaining, acc(reversed) ↦ token(reversed)
  | _, [], acc => acc
  | prev, c :: cs, acc =>
    if c = q ∧ prev ≠ some '\\' then c :: acc else strScan q (some c) cs (c :: acc)
def checkString (s : Str) : Except Err (Str × Str) :=
  match s with
  | [] => .error (.py "IndexError")
  | q :: rest =>
    if q ≠ '"' ∧ q ≠ '\'' then .ok ([], s)
    else
      let tokRev := strScan q none rest [q]
      let tok := tokRev.reverse
      if tokRev.head? ≠ some q ∨ tok.length < 2 then .error (.parse "Failed to parse string")
      else .ok (tok, s.drop tok.length)

def checkInt (s : Str) : Str × Str := (s.takeWhile isDigit, s.dropWhile isDigit)

/-- QVariable.check -/
def identLen : Nat → Str → Nat
  | _, [] => 0
  | i, c :: cs => if isAlpha c || c = '_' || (i ≠ 0 && isDigit c) then 1 + identLen (i+1) cs else 0
def checkVar (s : Str) : Str × Str := let n := identLen 0 s; (s.take n, s.drop n)

structure BrSt where
  depth : Nat
  sq : Bool
  dq : Bool
  prev : Option Char

def brStep (o c : Char) (st : BrSt) (ch : Char) : BrSt :=
  let st' : BrSt :=
    if ch = '\'' ∧ st.prev ≠ some '\\' ∧ st.dq = false then { st with sq := !st.sq }
    else if ch = '"' ∧ st.prev ≠ some '\\' ∧ st.sq = false then { st with dq := !st.dq }
    else if st.sq = true ∨ st.dq = true then st
    else if ch = c then { st with depth := st.depth - 1 }
    else if ch = o then { st with depth := st.depth + 1 }
    else st
  { st' with prev := some ch }

/-- returns (i, final depth) -/
def brScan (o c : Char) : BrSt → Str → Nat → Nat × Nat
  | st, [], i => (i, st.depth)
  | st, ch :: rest, i =>
    let st' := brStep o c st ch
    if st'.depth = 0 then (i + 1, 0) else brScan o c st' rest (i + 1)

/-- QList.check / QDict.check (no balance test in the source) -/
def checkBr (o c : Char) (s : Str) : Except Err (Option (Str × Str)) :=
  match s with
  | [] => .error (.py "IndexError")
  | h :: rest =>
    if h ≠ o then .ok none
    else
      let (i, _) := brScan o c ⟨1, false, false, none⟩ rest 1
      .ok (some (s.take i, s.drop i))

/-- QFunction.check: identifier chars then "(", then balanced scan; requires balance -/
def funcHead : Nat → Str → Option Nat      -- index just after "("
  | _, [] => none
  | i, c :: cs =>
    if isAlpha c || c = '_' || (i ≠ 0 && isDigit c) then funcHead (i+1) cs
    else if c = '(' then some (i+1) else none
def checkFunc (s : Str) : Option (Str × Str) :=
  match funcHead 0 s with
  | none => none
  | some i0 =>
    let (i, d) := brScan '(' ')' ⟨1, false, false, none⟩ (s.drop i0) i0
    if d ≠ 0 then none else some (s.take i, s.drop i)

/-- _parse_token (repaired: strip before the emptiness test) -/
def parseToken (s0 : Str) : Except Err (Option (Ty × Str) × Str) := do
  let s := strip s0
  if s = [] then return (none, [])
  let (t, r) ← checkString s
  if t ≠ [] then return (some (.str, t), r)
  let (t, r) := checkInt s
  if t ≠ [] then return (some (.int, t), r)
  match checkFunc s with
  | some (t, r) => if t ≠ [] then return (some (.func, t), r) else pure ()
  | none => pure ()
  match ← checkBr '{' '}' s with
  | some (t, r) => if t ≠ [] then return (some (.dict, t), r) else pure ()
  | none => pure ()
  match ← checkBr '[' ']' s with
  | some (t, r) => if t ≠ [] then return (some (.list, t), r) else pure ()
  | none => pure ()
  let (t, r) := checkVar s
  if t ≠ [] then return (some (.var, t), r)
  .error (.parse "Syntax error")

inductive Expr where
  | int (n : Nat)
  | str (s : Str)
  | var (name : Str)
  | call (f : Str) (args : List Expr)
  | list (xs : List Expr)
  | dict (kvs : List (Str × Expr))
deriving Repr

/-- str.replace(old, new) for a 2-char `old` = backslash+quote and 1-char `new` = quote -/
def unescape (q : Char) : Str → Str
  | '\\' :: c :: cs => if c = q then q :: unescape q cs else '\\' :: unescape q (c :: cs)
  | c :: cs => c :: unescape q cs
  | [] => []

def parseStrTok (tok : Str) : Str :=
  match tok with
  | [] => []
  | q :: _ => let u := unescape q tok; (u.drop 1).dropLast

def natOfDigits (s : Str) : Nat := s.foldl (fun n c => 10 * n + (c.toNat - '0'.toNat)) 0

def find (c : Char) : Str → Option Nat
  | [] => none
  | x :: xs => if x = c then some 0 else (find c xs).map (· + 1)

mutual
/-- t.parse(token) -/
def parseTok (fuel : Nat) (ty : Ty) (tok : Str) : Except Err Expr :=
  match fuel with
  | 0 => .error (.py "fuel")
  | fuel + 1 =>
    match ty with
    | .int => .ok (.int (natOfDigits tok))
    | .str => .ok (.str (parseStrTok tok))
    | .var => .ok (.var tok)
    | .func =>
      let i0 := (find '(' tok).getD tok.length
      let name := tok.take i0
      let argsStr := (tok.drop (i0 + 1)).take (tok.length - 1 - (i0 + 1))
      do let args ← parseArgs fuel argsStr []
         return .call name args
    | .list =>
      do let xs ← parseList fuel ((tok.drop 1).dropLast) []
         return .list xs
    | .dict =>
      do let kvs ← parseDict fuel ((tok.drop 1).dropLast) []
         return .dict kvs
/-- QFunction.parse loop -/
def parseArgs (fuel : Nat) (s : Str) (acc : List Expr) : Except Err (List Expr) :=
  match fuel with
  | 0 => .error (.py "fuel")
  | fuel + 1 =>
    if s = [] then .ok acc.reverse else
    do let (tt, rest) ← parseToken s
       match tt with
       | none => .error (.parse "Function expected an argument, got nothing")
       | some (ty, tok) =>
         let rest' := match find ',' rest with | some k => rest.drop (k + 1) | none => rest
         let a ← parseTok fuel ty tok
         parseArgs fuel rest' (a :: acc)
/-- QList.parse loop -/
def parseList (fuel : Nat) (s : Str) (acc : List Expr) : Except Err (List Expr) :=
  match fuel with
  | 0 => .error (.py "fuel")
  | fuel + 1 =>
    if s = [] then .ok acc.reverse else
    let s1 := strip s
    let s2 := if acc ≠ [] ∧ s1.head? = some ',' then s1.drop 1 else s1
    -- note: `len(ls) > 0 and entries_str[0] == ","` would raise IndexError on empty s1 only when ls nonempty
    if acc ≠ [] ∧ s1 = [] then .error (.py "IndexError") else
    do let (tt, rest) ← parseToken s2
       match tt with
       | none => .error (.parse "List expected a value, got nothing")
       | some (ty, tok) =>
         let a ← parseTok fuel ty tok
         parseList fuel rest (a :: acc)
/-- QDict.parse loop -/
def parseDict (fuel : Nat) (s : Str) (acc : List (Str × Expr)) : Except Err (List (Str × Expr)) :=
  match fuel with
  | 0 => .error (.py "fuel")
  | fuel + 1 =>
    if s = [] then .ok acc.reverse else
    let s1 := strip s
    if acc ≠ [] ∧ s1 = [] then .error (.py "IndexError") else
    let s2 := if acc ≠ [] ∧ s1.head? = some ',' then s1.drop 1 else s1
    do let (kt, rest) ← parseToken s2
       match kt with
       | some (.str, ktok) =>
         let key := parseStrTok ktok
         let r1 := strip rest
         if r1.head? ≠ some ':' then .error (.parse "Key in dict is not followed by a :") else
         let (vt, rest2) ← parseToken (r1.drop 1)
         match vt with
         | none => .error (.parse "Dict expected a value, got nothing")
         | some (ty, tok) =>
           let v ← parseTok fuel ty tok
           -- d[key] = val : later duplicates overwrite in place
           let acc' := if acc.any (·.1 = key) then acc.map (fun kv => if kv.1 = key then (key, v) else kv) else (key, v) :: acc
           parseDict fuel rest2 acc'
       | _ => .error (.parse "Key in dict is not a str")
end

/-- parse(line): "var = value" -/
def parseStmt (line : Str) : Except Err (Str × Expr) := do
  let (varStr, valStr) := match find '=' line with
    | some k => (line.take k, line.drop (k + 1))
    | none => (line.dropLast, [])          -- find = -1: line[:-1], line[0:]  (see note)
  let valStr := if (find '=' line).isNone then line else valStr
  if valStr = [] then throw (.parse "Nothing to assign")
  let (vt, vrest) ← parseToken varStr
  if strip vrest ≠ [] then throw (.parse "Invalid syntax for assignment variable")
  match vt with
  | some (.var, name) =>
    let (tt, rest) ← parseToken valStr
    if rest ≠ [] then throw (.parse "Invalid syntax for value to assign")
    match tt with
    | none => throw (.py "AttributeError")      -- val_t is None → None.parse
    | some (ty, tok) =>
      let e ← parseTok (line.length + 2) ty tok
      return (name, e)
  | _ => throw (.parse "Cannot assign to a non-variable")

end Qp
