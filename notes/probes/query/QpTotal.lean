import Qp.Basic
namespace Qp

theorem checkString_no_py (c : Char) (cs : Str) (k : String) : checkString (c :: cs) ≠ .error (.py k) := by
  unfold checkString
  simp only
  split
  · simp
  · split <;> simp

theorem checkBr_no_py (o cl c : Char) (cs : Str) (k : String) : checkBr o cl (c :: cs) ≠ .error (.py k) := by
  unfold checkBr
  simp only
  split <;> simp

/-- uniform view of `for t in qtypes: token, string = t.check(string); if token: break` -/
def checkers : List (Ty × (Str → Except Err (Option (Str × Str)))) :=
  [ (.str,  fun s => (checkString s).map (fun p => if p.1 = [] then none else some p)),
    (.int,  fun s => .ok (let p := checkInt s; if p.1 = [] then none else some p)),
    (.func, fun s => .ok (match checkFunc s with | some p => if p.1 = [] then none else some p | none => none)),
    (.dict, fun s => (checkBr '{' '}' s).map (fun r => match r with | some p => if p.1 = [] then none else some p | none => none)),
    (.list, fun s => (checkBr '[' ']' s).map (fun r => match r with | some p => if p.1 = [] then none else some p | none => none)),
    (.var,  fun s => .ok (let p := checkVar s; if p.1 = [] then none else some p)) ]

def firstMatch (s : Str) : List (Ty × (Str → Except Err (Option (Str × Str)))) → Except Err (Option (Ty × Str) × Str)
  | [] => .error (.parse "Syntax error")
  | (ty, f) :: rest =>
    match f s with
    | .error e => .error e
    | .ok (some (t, r)) => .ok (some (ty, t), r)
    | .ok none => firstMatch s rest

def parseToken' (s0 : Str) : Except Err (Option (Ty × Str) × Str) :=
  let s := strip s0
  if s = [] then .ok (none, []) else firstMatch s checkers

theorem firstMatch_no_py (s : Str) (k : String) :
    ∀ l : List (Ty × (Str → Except Err (Option (Str × Str)))),
    (∀ p ∈ l, p.2 s ≠ .error (.py k)) → firstMatch s l ≠ .error (.py k)
  | [], _ => by simp [firstMatch]
  | (ty, f) :: rest, h => by
    unfold firstMatch
    have hf := h (ty, f) (by simp)
    have ih := firstMatch_no_py s k rest (fun p hp => h p (by simp [hp]))
    cases hfs : f s with
    | error e =>
      simp only
      intro he
      apply hf
      show f s = _
      rw [hfs]
      cases he
      rfl
    | ok v =>
      cases v with
      | none => simpa using ih
      | some p => simp

theorem parseToken'_no_py (s : Str) (k : String) : parseToken' s ≠ .error (.py k) := by
  unfold parseToken'
  simp only
  split
  · simp
  · rename_i hne
    cases hs : strip s with
    | nil => exact absurd hs hne
    | cons c cs =>
      apply firstMatch_no_py
      intro p hp
      simp only [checkers, List.mem_cons, List.not_mem_nil, or_false] at hp
      rcases hp with rfl | rfl | rfl | rfl | rfl | rfl
      · simp only [Except.map]; have := checkString_no_py c cs k
        cases h : checkString (c :: cs) <;> simp_all
      · simp
      · simp
      · simp only [Except.map]; have := checkBr_no_py '{' '}' c cs k
        cases h : checkBr '{' '}' (c :: cs) <;> simp_all
      · simp only [Except.map]; have := checkBr_no_py '[' ']' c cs k
        cases h : checkBr '[' ']' (c :: cs) <;> simp_all
      · simp

#print axioms parseToken'_no_py
end Qp
