import sys, random, logging, subprocess
sys.path.insert(0,"/root/scratch/qfix"); sys.path.insert(0,"/repo")
logging.disable(logging.CRITICAL)
import aw_query_fixed.query2 as q2, aw_query_fixed.exceptions as ex
seed=int(sys.argv[1]); N=int(sys.argv[2])
rnd=random.Random(seed)
def hx(s): return s.encode("latin-1").hex()
def ser(t):
    if isinstance(t,q2.QInteger): return "(int %d)"%t.value
    if isinstance(t,q2.QString): return "(str %s)"%hx(t.value)
    if isinstance(t,q2.QVariable): return "(var %s)"%hx(t.name)
    if isinstance(t,q2.QFunction): return "(call %s%s)"%(hx(t.name),"".join(" "+ser(a) for a in t.args))
    if isinstance(t,q2.QList): return "(list%s)"%"".join(" "+ser(a) for a in t.value)
    if isinstance(t,q2.QDict): return "(dict%s)"%"".join(" %s:%s"%(hx(k),ser(v)) for k,v in t.value.items())
    raise Exception("?")
def impl(stmt):
    try:
        var,val=q2.parse(stmt,{})
        return "ok %s %s"%(hx(var.name),ser(val))
    except ex.QueryParseException: return "err QueryParse"
    except RecursionError: return "err Py:RecursionError"
    except Exception as e: return "err Py:"+type(e).__name__
# generators: valid programs (from qtest) + fuzz + corruption
ALPH=list("ab1 \n\t=,:()[]{}\"'\\_9Z")
IDS=["a","b","x1","_v","events","RETURN","Tmp_2"]; NAMES=["nop","concat","f","query_bucket","g2"]
def gen_str():
    q=rnd.choice(['"',"'"]); body="".join(rnd.choice(list("abz09 _-()[]{},:='\"")) for _ in range(rnd.randrange(0,6)))
    return q+body.replace(q,"\\"+q if rnd.random()<0.5 else "")+q
def ws(): return rnd.choice(["",""," ","  ","\n"," \n\t"])
def gen_expr(d):
    r=rnd.random()
    if d<=0 or r<0.3:
        c=rnd.random()
        return str(rnd.choice([0,1,7,42,1000,"007"])) if c<0.35 else gen_str() if c<0.7 else rnd.choice(IDS)
    if r<0.55: return rnd.choice(NAMES)+"("+(ws()+","+ws()).join(gen_expr(d-1) for _ in range(rnd.randrange(0,4)))+")"
    if r<0.8: return "["+(ws()+","+ws()).join(gen_expr(d-1) for _ in range(rnd.randrange(0,4)))+"]"
    return "{"+(ws()+","+ws()).join(gen_str()+ws()+":"+ws()+gen_expr(d-1) for _ in range(rnd.randrange(0,3)))+"}"
def corrupt(s):
    s=list(s)
    for _ in range(rnd.randrange(1,4)):
        if not s: break
        i=rnd.randrange(len(s)); op=rnd.random()
        if op<0.3: del s[i]
        elif op<0.5: s.insert(i,s[i])
        elif op<0.7 and i+1<len(s): s[i],s[i+1]=s[i+1],s[i]
        else: s.insert(i,rnd.choice(ALPH))
    return "".join(s)
cases=[]
for i in range(N):
    r=rnd.random()
    if r<0.4: s=rnd.choice(IDS)+ws()+"="+ws()+gen_expr(rnd.randrange(0,4))
    elif r<0.7: s=corrupt(rnd.choice(IDS)+ws()+"="+ws()+gen_expr(rnd.randrange(0,4)))
    else: s="".join(rnd.choice(ALPH) for _ in range(rnd.randrange(0,20)))
    s=s.strip()      # query() strips statements before parse()
    if s and ";" not in s: cases.append(s)
inp="\n".join(hx(c) for c in cases)+"\n"
out=subprocess.run(["/root/scratch/qprobe/qp/.lake/build/bin/qpdrv"],input=inp,capture_output=True,text=True).stdout.split("\n")
bad=0; kinds={}
for c,o in zip(cases,out):
    w=impl(c); k=w.split()[0]+(" "+w.split()[1] if w.startswith("err") else ""); kinds[k]=kinds.get(k,0)+1
    if w!=o:
        bad+=1
        if bad<=8: print("DIFF",repr(c),"\n   impl :",w[:150],"\n   model:",o[:150])
print("cases",len(cases),"disagreements",bad,kinds)
