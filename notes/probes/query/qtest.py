import sys, random, logging
sys.path.insert(0,"/root/scratch/qfix"); sys.path.insert(0,"/repo")
logging.disable(logging.CRITICAL)
from datetime import datetime, timezone
import importlib
which = sys.argv[1]
if which=="fixed":
    import aw_query_fixed.query2 as q2, aw_query_fixed.functions as fn, aw_query_fixed.exceptions as ex
else:
    import aw_query.query2 as q2, aw_query.functions as fn, aw_query.exceptions as ex
seed=int(sys.argv[2]) if len(sys.argv)>2 else 0
N=int(sys.argv[3]) if len(sys.argv)>3 else 3000
rnd=random.Random(seed)
ESC=len(sys.argv)>4 and sys.argv[4]=='esc'
# symbolic builtins
real=dict(fn.functions)
names=sorted(real)
for nme in names:
    fn.functions[nme]=(lambda nme: (lambda ds,ns,*a: ("call",nme,list(a))))(nme)
IDS=["a","b","x1","_v","events","RETURNX","Tmp_2"]
STRCH=list("abz09 _-()[]{},:='")+['"']
def gen_str():
    q=rnd.choice(['"',"'"])
    body="".join(rnd.choice(STRCH) for _ in range(rnd.randrange(0,6)))
    if ESC:
        return ("str",body,q)
    body=body.replace(q,"")   # no own-quote inside (no escapes at this stage)
    return ("str",body,q)
def gen_expr(d, env):
    r=rnd.random()
    if d<=0 or r<0.25:
        c=rnd.random()
        if c<0.35: return ("int",rnd.choice([0,1,7,42,1000]))
        if c<0.7: return gen_str()
        if env and c<0.95: return ("var",rnd.choice(env))
        return ("int",3)
    if r<0.5: return ("call",rnd.choice(names),[gen_expr(d-1,env) for _ in range(rnd.randrange(0,4))])
    if r<0.75: return ("list",[gen_expr(d-1,env) for _ in range(rnd.randrange(0,4))])
    ks=[]; 
    for _ in range(rnd.randrange(0,3)):
        k=gen_str()
        if k[1] not in [x[0][1] for x in ks]: ks.append((k,gen_expr(d-1,env)))
    return ("dict",ks)
def ws(): return rnd.choice(["",""," ","  ","\n"," \n\t"])
def render(e,lay):
    W=(lambda: ws()) if lay else (lambda: "")
    t=e[0]
    if t=="int": return str(e[1])
    if t=="str": return e[2]+e[1].replace(e[2],"\\"+e[2])+e[2]
    if t=="var": return e[1]
    if t=="call": return e[1]+"("+(W()+","+W()).join(render(a,lay) for a in e[2])+")"
    if t=="list": return "["+(W()+","+W()).join(render(a,lay) for a in e[1])+"]"
    if t=="dict": return "{"+(W()+","+W()).join(render(k,lay)+W()+":"+W()+render(v,lay) for k,v in e[1])+"}"
def denote(e,env):
    t=e[0]
    if t=="int": return e[1]
    if t=="str": return e[1]
    if t=="var": return env[e[1]]
    if t=="call": return ("call",e[1],[denote(a,env) for a in e[2]])
    if t=="list": return [denote(a,env) for a in e[1]]
    if t=="dict": return {k[1]:denote(v,env) for k,v in e[1]}
def gen_prog():
    env=[]; stmts=[]
    for i in range(rnd.randrange(1,4)):
        v=rnd.choice(IDS); e=gen_expr(rnd.randrange(0,4),env); stmts.append((v,e)); 
        if v not in env: env.append(v)
    stmts.append(("RETURN",gen_expr(rnd.randrange(0,4),env)))
    return stmts
def render_prog(p,lay):
    W=(lambda: ws()) if lay else (lambda: "")
    return "".join(W()+v+W()+"="+W()+render(e,lay)+W()+";"+W() for v,e in p)
def denote_prog(p):
    env={"True":True,"False":False,"true":True,"false":False}
    for v,e in p: env[v]=denote(e,env)
    return env["RETURN"]
T=datetime(2020,1,1,tzinfo=timezone.utc)
bad=0; exs=[]; kinds={}
for i in range(N):
    p=gen_prog()
    want=denote_prog(p)
    for lay in (False,True,True):
        txt=render_prog(p,lay)
        if ";" in "".join(s[1] for s in [x for v,e in p for x in [e]] if False): pass
        try:
            got=q2.query("n",txt,T,T,None); k="ok"
        except ex.QueryException as e_: got=("QERR",type(e_).__name__,str(e_)); k="qerr"
        except Exception as e_: got=("ESC",type(e_).__name__,str(e_)); k="esc"
        kinds[k]=kinds.get(k,0)+1
        if got!=want:
            bad+=1
            if len(exs)<6: exs.append((txt,got if k!="ok" else "WRONGVALUE",))
            break
print(which,"programs",N,"bad",bad,kinds)
for e in exs: print("   ",repr(e[0])[:200],"->",str(e[1])[:120])
