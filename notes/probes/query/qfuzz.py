import sys, random, logging
sys.path.insert(0,"/root/scratch/qfix"); sys.path.insert(0,"/repo")
logging.disable(logging.CRITICAL)
from datetime import datetime, timezone
which=sys.argv[1]
if which=="fixed":
    import aw_query_fixed.query2 as q2, aw_query_fixed.functions as fn, aw_query_fixed.exceptions as ex
else:
    import aw_query.query2 as q2, aw_query.functions as fn, aw_query.exceptions as ex
rnd=random.Random(int(sys.argv[2])); N=int(sys.argv[3])
real=dict(fn.functions)
T=datetime(2020,1,1,tzinfo=timezone.utc)
ALPH=list("ab1 \n=;,:()[]{}\"'\\_")+["RETURN","nop","concat"]
seeds=['RETURN = concat([1],[2]);','a=nop();RETURN={"k":[a,"s"],\'j\':limit_events([1,2],1)};','RETURN = filter_keyvals([],"app",["a0"]);','x = "it\'s" ; RETURN = [x , x];']
def corrupt(s):
    s=list(s)
    for _ in range(rnd.randrange(1,4)):
        if not s: break
        i=rnd.randrange(len(s)); op=rnd.random()
        if op<0.3: del s[i]
        elif op<0.5: s.insert(i,s[i])
        elif op<0.7 and i+1<len(s): s[i],s[i+1]=s[i+1],s[i]
        else: s.insert(i,rnd.choice(ALPH))
    return "".join(s)
kinds={}; esc={}
# stubs so that only parsing + name resolution are exercised
for nme in list(fn.functions): fn.functions[nme]=(lambda nme:(lambda ds,ns,*a:("call",nme,list(a))))(nme)
for i in range(N):
    if rnd.random()<0.5: txt="".join(rnd.choice(ALPH) for _ in range(rnd.randrange(0,25)))
    else: txt=corrupt(rnd.choice(seeds))
    try: q2.query("n",txt,T,T,None); k="ok"
    except ex.QueryParseException: k="parse"
    except ex.QueryInterpretException: k="interp"
    except ex.QueryException: k="qother"
    except Exception as e: k="ESC:"+type(e).__name__; esc.setdefault(k,txt)
    kinds[k]=kinds.get(k,0)+1
print(which,"fuzz",kinds); 
for k,v in esc.items(): print("   ",k,repr(v))
# arity/type grid with the real wrappers
fn.functions.update(real)
from aw_datastore import Datastore
from aw_datastore.storages import MemoryStorage
ds=Datastore(MemoryStorage,testing=True); ds.create_bucket("b","t","c","h")
argvals=['[]','"b"','1','{}']
kinds={}; esc={}
import itertools
for nme in sorted(real):
    for n in range(0,5):
        for combo in itertools.product(argvals,repeat=n):
            txt="RETURN = %s(%s);"%(nme,",".join(combo))
            try: q2.query("n",txt,T,T,ds); k="ok"
            except ex.QueryParseException: k="parse"
            except ex.QueryInterpretException: k="interp"
            except ex.QueryFunctionException: k="func"
            except Exception as e: k="ESC:"+type(e).__name__; esc.setdefault((k,nme),txt)
            kinds[k]=kinds.get(k,0)+1
print(which,"arity/type grid",kinds)
for k,v in list(esc.items())[:12]: print("   ",k,repr(v))
