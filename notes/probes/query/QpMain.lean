import Qp.Basic
open Qp

def hexVal (c : Char) : Nat :=
  if '0' ≤ c ∧ c ≤ '9' then c.toNat - '0'.toNat else if 'a' ≤ c ∧ c ≤ 'f' then c.toNat - 'a'.toNat + 10 else 0
def unhex : List Char → List Char
  | a :: b :: rest => Char.ofNat (hexVal a * 16 + hexVal b) :: unhex rest
  | _ => []
def hexDigit (n : Nat) : Char := if n < 10 then Char.ofNat (n + 48) else Char.ofNat (n - 10 + 97)
def hex (s : Str) : String := String.ofList (s.flatMap (fun c => [hexDigit (c.toNat / 16), hexDigit (c.toNat % 16)]))

partial def show' : Expr → String
  | .int n => s!"(int {n})"
  | .str s => s!"(str {hex s})"
  | .var n => s!"(var {hex n})"
  | .call f args => s!"(call {hex f}" ++ String.join (args.map (fun a => " " ++ show' a)) ++ ")"
  | .list xs => "(list" ++ String.join (xs.map (fun a => " " ++ show' a)) ++ ")"
  | .dict kvs => "(dict" ++ String.join (kvs.map (fun kv => " " ++ hex kv.1 ++ ":" ++ show' kv.2)) ++ ")"

partial def loop (h : IO.FS.Stream) : IO Unit := do
  let line ← h.getLine
  if line.isEmpty then return ()
  let txt := unhex (line.trimAscii.toString.toList)
  match parseStmt txt with
  | .ok (name, e) => IO.println s!"ok {hex name} {show' e}"
  | .error (.parse _) => IO.println "err QueryParse"
  | .error (.py k) => IO.println s!"err Py:{k}"
  loop h

def main : IO Unit := do loop (← IO.getStdin)
