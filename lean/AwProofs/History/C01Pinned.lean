import AwModel.Store.Heap
/-!
# C01 on the pinned tree: `insert_one` stored the shallow copy it returned

`Heap.insertOneWith false` is the original `MemoryStorage.insert_one`
(`event = copy.copy(event); event.id = …; self.db[bucket].append(event); return event`): the stored
event object is the one handed back to the caller, and its `data` dict is the caller's own dict.
Three steps — create an event, insert it, mutate the dict of the event that was passed — change
what the store returns. With the repaired `insert_one` (`Heap.insertOne`) the same trace leaves the
observation alone (`AwProofs.C01.store_owns_copy` proves that for every trace).
-/
namespace AwProofs.History.C01Pinned
open Aw Aw.Store Aw.Store.Heap

/-- one empty bucket `"b"` -/
def s0 : State := (createBucket {} "b" ⟨none, "t", "c", "h", "2020", "{}"⟩ none).1

/-- the client's event: data dict at reference 2, event object at reference 3 -/
def s1 : State := mutate s0 (.newEvent none 5 1 "{\"a\":1}")

def mutation : Mut := .setDict 2 "{\"a\":2}"

/-- pinned code: insert, then mutate the dict of the event that was passed -/
theorem shallow_counterexample :
    let s2 := (insertOneWith false s1 "b" 3).1
    mutation.held s2 = true ∧ observe (mutate s2 mutation) ≠ observe s2 := by
  decide

/-- what the reads return before and after, on the pinned code -/
example :
    let s2 := (insertOneWith false s1 "b" 3).1
    (observe s2).map (fun p => p.2.2) = [[⟨some 0, 5, 1, "{\"a\":1}"⟩]] ∧
    (observe (mutate s2 mutation)).map (fun p => p.2.2) = [[⟨some 0, 5, 1, "{\"a\":2}"⟩]] := by
  decide

/-- the returned event is the stored object itself on the pinned code: setting its timestamp moves
    the stored event -/
theorem shallow_counterexample_returned :
    let s2 := (insertOneWith false s1 "b" 3).1
    (Mut.setTs 4 99).held s2 = true ∧ observe (mutate s2 (.setTs 4 99)) ≠ observe s2 := by
  decide

/-- repaired code, same trace: nothing changes -/
example :
    let s2 := (insertOne s1 "b" 3).1
    mutation.held s2 = true ∧ observe (mutate s2 mutation) = observe s2 ∧
    observe (mutate s2 (.setTs 4 99)) = observe s2 ∧
    (observe s2).map (fun p => p.2.2) = [[⟨some 0, 5, 1, "{\"a\":1}"⟩]] := by
  decide

end AwProofs.History.C01Pinned
