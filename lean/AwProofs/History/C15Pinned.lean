import AwProofs.Lemmas.UnionNoOverlap
/-!
# C15 history — the loop of `union_no_overlap` as pinned (before the repair of F14)

A branch-for-branch model of the original loop body (`Timeslot.intersects`, advance `e1` as soon
as it is emitted, `events2.insert` of the tail) with an explicit iteration budget, and the
counterexamples that show it violates C15 on inputs that satisfy every hypothesis of the C15
theorems. Not part of the property theorems; kept as the record of what was wrong.
-/
namespace AwProofs.C15Pinned
open Aw Aw.Unov AwProofs.Unov
variable {D : Type}

/-- `Timeslot(s1, e1).intersects(Timeslot(s2, e2))` (= `overlaps`) of the `timeslot` library:
    `s1 <= s2 < e1 or s1 < e2 <= e1 or self in other` -/
def intersects (s1 e1 s2 e2 : Int) : Bool :=
  (s1 ≤ s2 ∧ s2 < e1) ∨ (s1 < e2 ∧ e2 ≤ e1) ∨ (s2 ≤ s1 ∧ e1 ≤ e2)

/-- the pinned loop; `events2.insert(e2_i, tail)` after `e2_i += 1` puts the tail in front of the
    remaining list-two events -/
def pinned : Nat → List (Ev D) → List (Ev D) → Option (List (Bool × Ev D))
  | _, [], l2 => some (l2.map (fun e => (false, e)))
  | _, e1 :: r1, [] => some ((e1 :: r1).map (fun e => (true, e)))
  | 0, _ :: _, _ :: _ => none
  | n + 1, e1 :: r1, e2 :: r2 =>
    if intersects e1.ts (e1.ts + e1.dur) e2.ts (e2.ts + e2.dur) then
      if e1.ts ≤ e2.ts then
        match (splitEvent e2 (e1.ts + e1.dur)).2 with
        | some t => (pinned n r1 (t :: r2)).map ((true, e1) :: ·)
        | none => (pinned n r1 r2).map ((true, e1) :: ·)
      else
        match splitEvent e2 e1.ts with
        | (hd, some t) => (pinned n (e1 :: r1) (t :: r2)).map ((false, hd) :: ·)
        | (hd, none) => (pinned n (e1 :: r1) r2).map ((false, hd) :: ·)
    else
      if e1.ts ≤ e2.ts then (pinned n r1 (e2 :: r2)).map ((true, e1) :: ·)
      else (pinned n (e1 :: r1) r2).map ((false, e2) :: ·)

def s : Int := 1000000

/-- witness 1: a list-one event spanning two list-two events; the second list-two event `[1 s, 2 s)`
    is returned whole although it lies under the list-one event `[0, 2 s)` -/
theorem pinned_counterexample_overlap :
    pinned (D := Nat) 8 [⟨none, 0, 2 * s, 1⟩] [⟨none, 0, s, 7⟩, ⟨none, s, s, 8⟩]
      = some [(true, ⟨none, 0, 2 * s, 1⟩), (false, ⟨none, s, s, 8⟩)] := by decide

/-- … so the conclusion of `C15.out_nonoverlap` fails for the pinned loop on a conforming input -/
theorem pinned_counterexample_overlap_violates :
    ∃ (l1 l2 : List (Ev Nat)) (out : List (Bool × Ev Nat)),
      Chain l1 ∧ Chain l2 ∧ MsAligned l1 ∧ pinned 8 l1 l2 = some out ∧
      ¬ (out.map (·.2)).Pairwise (fun a b => a.ts + a.dur ≤ b.ts) :=
  ⟨[⟨none, 0, 2 * s, 1⟩], [⟨none, 0, s, 7⟩, ⟨none, s, s, 8⟩], _,
    ⟨by decide, by decide⟩, ⟨by decide, by decide⟩, by unfold MsAligned; decide,
    pinned_counterexample_overlap, by decide⟩

/-- witness 2: a zero-length list-one event at the start of a list-two event; the list-two event
    is lost -/
theorem pinned_counterexample_lost_event :
    pinned (D := Nat) 8 [⟨none, 0, 0, 1⟩] [⟨none, 0, s, 7⟩] = some [(true, ⟨none, 0, 0, 1⟩)] := by
  decide

/-- … so the conclusion of `C15.list2_pieces` fails: instant 0 is covered by the list-two event
    and by no list-one event, but by no output -/
theorem pinned_counterexample_lost_event_violates :
    ∃ (l1 l2 : List (Ev Nat)) (out : List (Bool × Ev Nat)) (t : Int),
      Chain l1 ∧ Chain l2 ∧ MsAligned l1 ∧ pinned 8 l1 l2 = some out ∧
      (∃ f ∈ l2, f.ts ≤ t ∧ t < f.ts + f.dur) ∧ (¬ ∃ e ∈ l1, e.ts ≤ t ∧ t < e.ts + e.dur) ∧
      ¬ ∃ o ∈ out, o.2.ts ≤ t ∧ t < o.2.ts + o.2.dur :=
  ⟨[⟨none, 0, 0, 1⟩], [⟨none, 0, s, 7⟩], _, 0,
    ⟨by decide, by decide⟩, ⟨by decide, by decide⟩, by unfold MsAligned; decide,
    pinned_counterexample_lost_event, by decide, by decide, by decide⟩

/-- witness 3: a zero-length list-one event strictly inside a list-two event; the part of the
    list-two event after it is lost -/
theorem pinned_counterexample_lost_tail :
    pinned (D := Nat) 8 [⟨none, 5 * s, 0, 1⟩] [⟨none, 0, 10 * s, 7⟩]
      = some [(false, ⟨none, 0, 5 * s, 7⟩), (true, ⟨none, 5 * s, 0, 1⟩)] := by decide

/-- the repaired loop on the same three inputs -/
example : unovFuel (D := Nat) 8 [⟨none, 0, 2 * s, 1⟩] [⟨none, 0, s, 7⟩, ⟨none, s, s, 8⟩]
    = some [(true, ⟨none, 0, 2 * s, 1⟩)] := by decide
example : unovFuel (D := Nat) 8 [⟨none, 0, 0, 1⟩] [⟨none, 0, s, 7⟩]
    = some [(true, ⟨none, 0, 0, 1⟩), (false, ⟨none, 0, s, 7⟩)] := by decide
example : unovFuel (D := Nat) 8 [⟨none, 5 * s, 0, 1⟩] [⟨none, 0, 10 * s, 7⟩]
    = some [(false, ⟨none, 0, 5 * s, 7⟩), (true, ⟨none, 5 * s, 0, 1⟩), (false, ⟨none, 5 * s, 5 * s, 7⟩)] := by
  decide

end AwProofs.C15Pinned
