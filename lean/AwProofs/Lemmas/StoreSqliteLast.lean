import AwProofs.Lemmas.StoreSqliteEvents
import AwProofs.Lemmas.SortBy
/-!
# Sqlite store model: `replace_last` rewrites the newest event, which `get_events(limit=1)` reads
-/
namespace Aw.Store.Sqlite
open Aw Aw.Store
variable {D : Type}

/-- `t` is the greatest row of `l` by `(st, id)` -/
def IsMax (l : List (ERow D)) (t : ERow D) : Prop :=
  t ∈ l ∧ ∀ x ∈ l, x.st < t.st ∨ (x.st = t.st ∧ x.id ≤ t.id)

theorem isMax_unique {l : List (ERow D)} {t t' : ERow D}
    (hu : ∀ x ∈ l, ∀ y ∈ l, x.id = y.id → x = y) (h : IsMax l t) (h' : IsMax l t') : t = t' := by
  apply hu t h.1 t' h'.1
  have h1 := h.2 t' h'.1
  have h2 := h'.2 t h.1
  omega

theorem isMax_sub {l l' : List (ERow D)} {t : ERow D} (hs : ∀ x ∈ l', x ∈ l) (ht : t ∈ l')
    (h : IsMax l t) : IsMax l' t :=
  ⟨ht, fun x hx => h.2 x (hs x hx)⟩

theorem newestRow_none {l : List (ERow D)} (h : newestRow l = none) : l = [] := by
  cases l with
  | nil => rfl
  | cons x xs =>
    unfold newestRow at h
    split at h
    · cases h
    · split at h <;> cases h

theorem newestRow_isMax {l : List (ERow D)} {t : ERow D} (h : newestRow l = some t) :
    IsMax l t := by
  induction l generalizing t with
  | nil => cases h
  | cons x xs ih =>
    unfold newestRow at h
    split at h
    · rename_i hn
      have := newestRow_none hn
      subst this
      injection h with h
      subst h
      refine ⟨List.mem_cons_self, ?_⟩
      intro y hy
      rcases List.mem_cons.mp hy with rfl | hy'
      · omega
      · cases hy'
    · rename_i m hm
      have hM := ih hm
      split at h
      · rename_i hc
        injection h with h
        subst h
        refine ⟨List.mem_cons_of_mem _ hM.1, ?_⟩
        intro y hy
        rcases List.mem_cons.mp hy with rfl | hy'
        · omega
        · exact hM.2 y hy'
      · rename_i hc
        injection h with h
        subst h
        refine ⟨List.mem_cons_self, ?_⟩
        intro y hy
        rcases List.mem_cons.mp hy with rfl | hy'
        · omega
        · have := hM.2 y hy'
          omega

theorem newestRow_some {l : List (ERow D)} (h : l ≠ []) : ∃ t, newestRow l = some t := by
  cases hn : newestRow l with
  | none => exact absurd (newestRow_none hn) h
  | some t => exact ⟨t, rfl⟩

/-- the first row in `ORDER BY starttime DESC, id DESC` is the greatest by `(st, id)` -/
theorem orderDesc_head {l : List (ERow D)} (h : l ≠ []) :
    ∃ t rest, orderDesc l = t :: rest ∧ IsMax l t := by
  have hmem : ∀ z, z ∈ sortBy (fun r : ERow D => r.st) (sortBy (fun r => r.id) l) ↔ z ∈ l := by
    intro z; rw [mem_sortBy, mem_sortBy]
  have hne : sortBy (fun r : ERow D => r.st) (sortBy (fun r => r.id) l) ≠ [] := by
    cases l with
    | nil => exact absurd rfl h
    | cons a t =>
      intro e
      have := (hmem a).mpr List.mem_cons_self
      rw [e] at this
      cases this
  have hlex := sortBy_lex (fun r : ERow D => r.st) (fun r => r.id) _ (sortBy_sorted (fun r => r.id) l)
  obtain ⟨init, t, hL⟩ := exists_concat _ hne
  refine ⟨t, init.reverse, ?_, ?_, ?_⟩
  · unfold orderDesc
    rw [hL, List.reverse_append]
    rfl
  · rw [← hmem, hL]
    exact List.mem_append_right _ List.mem_cons_self
  · intro x hx
    rw [← hmem, hL, List.mem_append, List.mem_singleton] at hx
    rw [hL, List.pairwise_append] at hlex
    rcases hx with hx | rfl
    · have := hlex.2.2 x hx t List.mem_cons_self
      unfold Lex at this
      exact this
    · omega

/-- `get_events(limit=1)` without bounds: the first row of the whole bucket in
    `ORDER BY starttime DESC, id DESC` (repaired, F22: no `endtime >= 0` filter) -/
theorem getEvents_one {s : St D} {b : String} {r : Int} (hr : rowOf s b = some r) :
    getEvents s b 1 none none = ((orderDesc (rowsOf s r)).map toEv).take 1 := by
  unfold getEvents
  rw [if_neg (by decide), hr]
  simp only [Bool.and_true]
  rw [List.filter_eq_self.mpr (fun _ _ => rfl)]
  unfold applyLimit
  rw [if_neg (by decide), if_neg (by decide), if_neg (by decide)]
  rfl

/-- under `Inv`, `replace_last` is `replace` at the id of the newest row -/
theorem replaceLast_eq_replace {s : St D} (hI : Inv s) {b : String} {r : Int} {t : ERow D}
    (hr : rowOf s b = some r) (ht : newestRow (rowsOf s r) = some t) (e : Ev D) :
    replaceLast s b e = replace s b t.id e := by
  unfold replaceLast replace
  simp only [hr, ht]
  have htm := (newestRow_isMax ht).1
  unfold rowsOf at htm
  rw [List.mem_filter, decide_eq_true_eq] at htm
  congr 1
  apply List.map_congr_left
  intro x hx
  by_cases hxi : x.id = t.id
  · have := hI.eid_uniq x hx t htm.1 hxi
    subst this
    rw [if_pos rfl, if_pos ⟨rfl, htm.2⟩]
  · rw [if_neg hxi, if_neg (fun h => hxi h.1)]

/-- `replace_last`, for every state satisfying `Inv`: the rewritten event `t` is a newest one
    (greatest timestamp) and it is the one `get_events(limit=1)` returns (repaired, F22: the
    unbounded read has no lower bound, so this holds wherever the event ends; before the repair the
    read conjunct carried the hypothesis `0 ≤ t.ts + t.dur`). -/
theorem replaceLast_view {s : St D} {b : String} {m : Meta} {es : List (Ev D)} (hI : Inv s)
    (hv : view s b = some (m, es)) (hne : es ≠ []) (e : Ev D) :
    ∃ t, Spec.IsNewest es t ∧ getEvents s b 1 none none = [t] ∧
      view (replaceLast s b e) = Spec.replaceId (view s) b (t.id.getD 0) e := by
  obtain ⟨br, hbr, _, rfl⟩ := view_some_iff.mp hv
  have hr := rowOf_of_find hbr
  have hrows : rowsOf s br.rowid ≠ [] := by
    intro h0
    apply hne
    show (rowsOf s br.rowid).map toEv = []
    rw [h0]; rfl
  obtain ⟨t, ht⟩ := newestRow_some hrows
  have hM := newestRow_isMax ht
  refine ⟨toEv t, ⟨List.mem_map.mpr ⟨t, hM.1, rfl⟩, ?_⟩, ?_, ?_⟩
  · intro x hx
    rw [List.mem_map] at hx
    obtain ⟨y, hy, rfl⟩ := hx
    have := hM.2 y hy
    show y.st ≤ t.st
    omega
  · rw [getEvents_one hr]
    obtain ⟨t1, rest, ho, hM1⟩ := orderDesc_head hrows
    have hu : ∀ x ∈ rowsOf s br.rowid, ∀ y ∈ rowsOf s br.rowid, x.id = y.id → x = y :=
      fun x hx y hy => hI.eid_uniq x (List.mem_filter.mp hx).1 y (List.mem_filter.mp hy).1
    have := isMax_unique hu hM1 hM
    subst this
    rw [ho]
    rfl
  · rw [replaceLast_eq_replace hI hr ht e]
    exact replace_view hI b t.id e

/-! History of repair F22. Before the repair the read conjunct of `replaceLast_view` was false
    without "no event of the bucket ends before the epoch" (`replaceLast_view_partial` carried that
    hypothesis, `replaceLast_read_counterexample` / `replaceLast_view_unconditional_false` proved it
    necessary): on the state below — one bucket, one event ending before the epoch —
    `get_events(limit=1)` returned nothing although the bucket is not empty. The same witness now
    shows the repaired behaviour. -/
def cexLast : St Unit :=
  { buckets := [⟨1, "a", default⟩], events := [⟨1, 1, -10, -5, ()⟩], seqB := 1, seqE := 1 }

/-- history of repair F22: on the former counterexample the limit-1 read now returns the event -/
theorem replaceLast_read_before_epoch_now_read :
    view cexLast "a" = some (default, [{ id := some 1, ts := -10, dur := 5, data := () }]) ∧
      getEvents cexLast "a" 1 none none = [{ id := some 1, ts := -10, dur := 5, data := () }] := by
  constructor <;> rfl

theorem cexLast_inv : Inv cexLast := by
  refine ⟨List.pairwise_singleton _ _, List.pairwise_singleton _ _, ?_, ?_⟩
  · intro x hx
    rw [show cexLast.buckets = [⟨1, "a", default⟩] from rfl, List.mem_singleton] at hx
    subst hx
    decide
  · intro x hx
    rw [show cexLast.events = [⟨1, 1, -10, -5, ()⟩] from rfl, List.mem_singleton] at hx
    subst hx
    decide

/-- `replaceLast_view` instantiated on that state: the event it rewrites is the pre-1970 event,
    and that is what the limit-1 read returns -/
example : ∃ t, Spec.IsNewest [({ id := some 1, ts := -10, dur := 5, data := () } : Ev Unit)] t ∧
    getEvents cexLast "a" 1 none none = [t] ∧
    view (replaceLast cexLast "a" ⟨none, 0, 0, ()⟩)
      = Spec.replaceId (view cexLast) "a" (t.id.getD 0) ⟨none, 0, 0, ()⟩ :=
  replaceLast_view cexLast_inv replaceLast_read_before_epoch_now_read.1 (by simp) _

end Aw.Store.Sqlite
