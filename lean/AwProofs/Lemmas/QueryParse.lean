import AwProofs.Lemmas.QueryScan
/-! The `parse` methods raise only `QueryParseException`, and their fuel is never exhausted. -/
namespace Aw.Query

theorem parseStrTok_ok {tok : Str} (h : tok ≠ []) : ∃ v, parseStrTok tok = .ok v := by
  cases tok with
  | nil => exact absurd rfl h
  | cons q r => exact ⟨_, rfl⟩

theorem pyInt_cases (tok : Str) :
    pyInt tok = .ok (natOfDigits tok) ∨ pyInt tok = .error (.py .valueError) := by
  unfold pyInt; split
  · exact Or.inl rfl
  · exact Or.inr rfl

theorem parseIntTok_onlyParse (tok : Str) : OnlyParse (parseIntTok tok) := by
  unfold parseIntTok
  rcases pyInt_cases tok with h | h <;> rw [h]
  · exact onlyParse_ok _
  · exact onlyParse_parse _

theorem length_dropLast_drop1_le (tok : Str) (_h : tok ≠ []) : ((tok.drop 1).dropLast).length ≤ tok.length - 1 := by
  simp

theorem afterComma_length_le (r : Str) : (afterComma r).length ≤ r.length := by
  unfold afterComma; split <;> simp

/-- fuel `f` suffices for everything of the sizes named; only parse errors come out -/
def Budget (ns : Ns) (f : Nat) : Prop :=
  (∀ ty tok, TokOK ty tok → 2 * tok.length + 1 ≤ f → OnlyParse (parseTok ns f ty tok)) ∧
  (∀ s acc, 2 * s.length + 2 ≤ f → OnlyParse (parseArgs ns f s acc)) ∧
  (∀ s acc, (acc ≠ [] → Tail s) → 2 * s.length + 2 ≤ f → OnlyParse (parseList ns f s acc)) ∧
  (∀ s acc, (acc ≠ [] → Tail s) → 2 * s.length + 2 ≤ f → OnlyParse (parseDict ns f s acc))

theorem budget (ns : Ns) : ∀ f, Budget ns f := by
  intro f
  induction f with
  | zero =>
    refine ⟨?_, ?_, ?_, ?_⟩ <;> intros <;> omega
  | succ f ih =>
    obtain ⟨ihTok, ihArgs, ihList, ihDict⟩ := ih
    refine ⟨?_, ?_, ?_, ?_⟩
    · -- parseTok
      intro ty tok hok hf
      have hne : tok ≠ [] := hok.1
      have hpos : 0 < tok.length := List.length_pos_iff.mpr hne
      rw [parseTok.eq_def]
      simp only
      cases ty with
      | int => exact onlyParse_map _ (parseIntTok_onlyParse tok)
      | str =>
        obtain ⟨v, hv⟩ := parseStrTok_ok hne
        simp only [hv]; exact onlyParse_ok _
      | var => exact onlyParse_ok _
      | func =>
        simp only
        apply onlyParse_map
        apply ihArgs
        have : ((tok.take (tok.length - 1)).drop ((find '(' tok).getD tok.length + 1)).length ≤ tok.length - 1 := by
          simp
        omega
      | list =>
        simp only
        apply onlyParse_map
        apply ihList
        · intro h; exact absurd rfl h
        · have := length_dropLast_drop1_le tok hne; omega
      | dict =>
        simp only
        apply onlyParse_map
        apply ihDict
        · intro h; exact absurd rfl h
        · have := length_dropLast_drop1_le tok hne; omega
    · -- parseArgs
      intro s acc hf
      rw [parseArgs]
      split
      · exact onlyParse_ok _
      · rename_i hs
        split
        · rename_i e he
          intro e' he'; cases he'
          exact parseToken_onlyParse s e he
        · exact onlyParse_parse _
        · rename_i ty tok rest hpt
          rcases parseToken_some hpt with ⟨h, _⟩ | ⟨ty', tok', h, hok, hlen, hrest, _⟩
          · cases h
          · cases h
            have h1 := ihTok ty tok hok (by omega)
            split
            · rename_i e he
              intro e' he'; cases he'
              exact h1 e he
            · apply ihArgs
              have := afterComma_length_le rest
              omega
    · -- parseList
      intro s acc hT hf
      rw [parseList]
      split
      · exact onlyParse_ok _
      · rename_i hs
        simp only
        split
        · rename_i h
          exact absurd h.2 (strip_ne_nil_of_tail (hT h.1) hs)
        · have hs2 : (if acc ≠ [] ∧ (strip s).head? = some ',' then (strip s).drop 1 else strip s).length ≤ s.length := by
            have := strip_length_le s
            split <;> simp <;> omega
          generalize (if acc ≠ [] ∧ (strip s).head? = some ',' then (strip s).drop 1 else strip s) = s2 at hs2
          split
          · rename_i e he
            intro e' he'; cases he'
            exact parseToken_onlyParse s2 e he
          · exact onlyParse_parse _
          · rename_i ty tok rest hpt
            rcases parseToken_some hpt with ⟨h, _⟩ | ⟨ty', tok', h, hok, hlen, hrest, htail⟩
            · cases h
            · cases h
              have h1 := ihTok ty tok hok (by omega)
              split
              · rename_i e he
                intro e' he'; cases he'
                exact h1 e he
              · apply ihList
                · intro _; exact htail
                · omega
    · -- parseDict
      intro s acc hT hf
      rw [parseDict]
      split
      · exact onlyParse_ok _
      · rename_i hs
        simp only
        split
        · rename_i h
          exact absurd h.2 (strip_ne_nil_of_tail (hT h.1) hs)
        · have hs2 : (if acc ≠ [] ∧ (strip s).head? = some ',' then (strip s).drop 1 else strip s).length ≤ s.length := by
            have := strip_length_le s
            split <;> simp <;> omega
          generalize (if acc ≠ [] ∧ (strip s).head? = some ',' then (strip s).drop 1 else strip s) = s2 at hs2
          split
          · rename_i e he
            intro e' he'; cases he'
            exact parseToken_onlyParse s2 e he
          · rename_i ktok rest hpt
            rcases parseToken_some hpt with ⟨h, _⟩ | ⟨ty', tok', h, hok, hlen, hrest, htail⟩
            · cases h
            · cases h
              obtain ⟨key, hkey⟩ := parseStrTok_ok hok.1
              simp only [hkey]
              split
              · exact onlyParse_parse _
              · have hr1 : ((strip rest).drop 1).length ≤ rest.length := by
                  have := strip_length_le rest
                  simp; omega
                generalize (strip rest).drop 1 = r1 at hr1
                split
                · rename_i e he
                  intro e' he'; cases he'
                  exact parseToken_onlyParse r1 e he
                · exact onlyParse_parse _
                · rename_i ty tok rest2 hpt2
                  rcases parseToken_some hpt2 with ⟨h, _⟩ | ⟨ty', tok', h, hok2, hlen2, hrest2, htail2⟩
                  · cases h
                  · cases h
                    have h1 := ihTok ty tok hok2 (by omega)
                    split
                    · rename_i e he
                      intro e' he'; cases he'
                      exact h1 e he
                    · apply ihDict
                      · intro _; exact htail2
                      · omega
          · exact onlyParse_parse _

theorem parseAssign_onlyParse (ns : Ns) (fuel : Nat) (varStr valStr : Str) (hvtail : Tail valStr)
    (hfuel : 2 * valStr.length + 1 ≤ fuel) : OnlyParse (parseAssign ns fuel varStr valStr) := by
  unfold parseAssign
  split
  · exact onlyParse_parse _
  · rename_i hvne
    split
    · rename_i e he
      intro e' he'; cases he'
      exact parseToken_onlyParse varStr e he
    · split
      · exact onlyParse_parse _
      · split
        · rename_i name
          split
          · rename_i e he
            intro e' he'; cases he'
            exact parseToken_onlyParse valStr e he
          · rename_i tt rest hpt
            split
            · exact onlyParse_parse _
            · rcases parseToken_some hpt with ⟨_, h⟩ | ⟨ty, tok, h, hok, hlen, _, _⟩
              · exact absurd h (strip_ne_nil_of_tail hvtail hvne)
              · subst h
                simp only
                have h1 := (budget ns fuel).1 ty tok hok (by omega)
                split
                · rename_i e he
                  intro e' he'; cases he'
                  exact h1 e he
                · exact onlyParse_ok _
        · exact onlyParse_parse _

/-- `parse(line)` on a stripped statement raises only `QueryParseException`
    (in particular `val_t` is never `None`, and the fuel `stmtFuel line` is enough) -/
theorem parseStmt_onlyParse (ns : Ns) (line : Str) (ht : Tail line) :
    OnlyParse (parseStmt ns line) := by
  unfold parseStmt
  apply parseAssign_onlyParse
  · unfold splitAssign; split
    · exact tail_drop ht _
    · exact ht
  · unfold splitAssign stmtFuel; split <;> simp <;> omega

theorem mem_statements {text line : Str} (h : line ∈ statements text) : line ≠ [] ∧ Tail line := by
  unfold statements at h
  simp only [List.mem_filter, List.mem_map, ne_eq, decide_eq_true_eq] at h
  obtain ⟨⟨p, _, rfl⟩, hne⟩ := h
  exact ⟨hne, tail_strip p⟩

theorem onlyParse_mapM {α β} (f : α → Except Err β) :
    ∀ l : List α, (∀ x ∈ l, OnlyParse (f x)) → OnlyParse (l.mapM f)
  | [], _ => by simp [List.mapM_nil, pure, Except.pure]; exact onlyParse_ok _
  | x :: xs, h => by
    have hx := h x (by simp)
    have ih := onlyParse_mapM f xs (fun y hy => h y (by simp [hy]))
    rw [List.mapM_cons]
    intro e he
    cases hfx : f x with
    | error e1 =>
      rw [hfx] at he
      simp [bind, Except.bind] at he
      subst he
      exact hx e1 hfx
    | ok b =>
      rw [hfx] at he
      cases hxs : xs.mapM f with
      | error e2 =>
        rw [hxs] at he
        simp [bind, Except.bind] at he
        subst he
        exact ih e2 hxs
      | ok bs =>
        rw [hxs] at he
        simp [bind, Except.bind, pure, Except.pure] at he

theorem parseProg_onlyParse (ns : Ns) (text : Str) : OnlyParse (parseProg ns text) := by
  unfold parseProg
  apply onlyParse_mapM
  intro line hl
  obtain ⟨_, h2⟩ := mem_statements hl
  exact parseStmt_onlyParse ns line h2

end Aw.Query
