import AwModel.Store.Spec
/-!
# Frame lemmas of the reference list model

Every operation of `Aw.Store.Spec` is pointwise in the bucket id: the entry of any other bucket
is untouched (`frame_*`), and `onEvents` acts on the addressed bucket's list (`onEvents_self`).
-/
namespace Aw.Store.Spec
open Aw Aw.Store
variable {D : Type}

theorem frame_setB {b b' : String} (h : b' ≠ b) (v : View D) (x : Option (Meta × List (Ev D))) :
    (setB v b x) b' = v b' := by
  simp only [setB, h, if_false]

theorem frame_onEvents {b b' : String} (h : b' ≠ b) (v : View D)
    (f : List (Ev D) → List (Ev D)) : (onEvents v b f) b' = v b' := by
  unfold onEvents
  cases v b with
  | none => rfl
  | some p => exact frame_setB h _ _

theorem onEvents_self {v : View D} {b : String} {m : Meta} {es : List (Ev D)}
    (h : v b = some (m, es)) (f : List (Ev D) → List (Ev D)) :
    (onEvents v b f) b = some (m, f es) := by
  unfold onEvents
  rw [h]
  simp only [setB, if_true]

theorem frame_create {b b' : String} (h : b' ≠ b) (v : View D) (m : Meta) :
    (create v b m) b' = v b' := frame_setB h _ _

theorem frame_update {b b' : String} (h : b' ≠ b) (v : View D) (f : Meta → Meta) :
    (update v b f) b' = v b' := by
  unfold update
  cases v b with
  | none => rfl
  | some p => exact frame_setB h _ _

theorem frame_deleteBucket {b b' : String} (h : b' ≠ b) (v : View D) :
    (deleteBucket v b) b' = v b' := frame_setB h _ _

theorem frame_insert {b b' : String} (h : b' ≠ b) (v : View D) (i : Int) (e : Ev D) :
    (insert v b i e) b' = v b' := frame_onEvents h _ _

theorem frame_replaceId {b b' : String} (h : b' ≠ b) (v : View D) (i : Int) (e : Ev D) :
    (replaceId v b i e) b' = v b' := frame_onEvents h _ _

theorem frame_delete {b b' : String} (h : b' ≠ b) (v : View D) (i : Int) :
    (delete v b i) b' = v b' := frame_onEvents h _ _

end Aw.Store.Spec
