import AwModel.Store.Spec
/-!
# Frame lemmas of the reference list model: every operation is pointwise in the bucket id
-/
namespace Aw.Store.Spec
open Aw Aw.Store
variable {D : Type}

theorem frame_setB {v : View D} {b b' : String} {x : Option (Meta × List (Ev D))} (h : b' ≠ b) :
    (setB v b x) b' = v b' := by
  simp only [setB, if_neg h]

theorem frame_onEvents {v : View D} {b b' : String} {f : List (Ev D) → List (Ev D)} (h : b' ≠ b) :
    (onEvents v b f) b' = v b' := by
  unfold onEvents
  cases v b with
  | none => rfl
  | some p => exact frame_setB h

theorem onEvents_self {v : View D} {b : String} {f : List (Ev D) → List (Ev D)} {m : Meta}
    {es : List (Ev D)} (h : v b = some (m, es)) : (onEvents v b f) b = some (m, f es) := by
  unfold onEvents
  rw [h]
  simp only [setB, if_true]

theorem frame_create {v : View D} {b b' : String} {m : Meta} (h : b' ≠ b) :
    (create v b m) b' = v b' := frame_setB h

theorem frame_update {v : View D} {b b' : String} {f : Meta → Meta} (h : b' ≠ b) :
    (update v b f) b' = v b' := by
  unfold update
  cases v b with
  | none => rfl
  | some p => exact frame_setB h

theorem frame_deleteBucket {v : View D} {b b' : String} (h : b' ≠ b) :
    (deleteBucket v b) b' = v b' := frame_setB h

theorem frame_insert {v : View D} {b b' : String} {i : Int} {e : Ev D} (h : b' ≠ b) :
    (insert v b i e) b' = v b' := frame_onEvents h

theorem frame_replaceId {v : View D} {b b' : String} {i : Int} {e : Ev D} (h : b' ≠ b) :
    (replaceId v b i e) b' = v b' := frame_onEvents h

theorem frame_delete {v : View D} {b b' : String} {i : Int} (h : b' ≠ b) :
    (delete v b i) b' = v b' := frame_onEvents h

end Aw.Store.Spec
