import AwProofs.Lemmas.HeapApi
/-!
# Client mutations keep the separation invariant and cannot change what reads return
-/
namespace Aw.Store.Heap
open Aw Aw.Store

/-! ## client mutations keep `Sep` -/

theorem evAt_some {s : State} {r : Ref} {o : EvObj} (h : evAt s r = some o) : s.heap r = some (.ev o) := by
  unfold evAt at h
  split at h
  · injection h with h; subst h; assumption
  · cases h

theorem metaAt_some {s : State} {r : Ref} {o : MetaObj} (h : metaAt s r = some o) :
    s.heap r = some (.mdict o) := by
  unfold metaAt at h
  split at h
  · injection h with h; subst h; assumption
  · cases h

theorem mutate_sepR {R : Ref → Prop} {s : State} (h : SepR R s) (m : Mut) (hm : m.held s = true) :
    SepR R (mutate s m) := by
  -- rewriting scalar fields keeps the data dict, which the client holds already
  have keepEv : ∀ {r : Ref} {o : EvObj}, s.client r = true → evAt s r = some o →
      ∀ o' : EvObj, o'.dataRef = o.dataRef → SepR R (write s r (.ev o')) := by
    intro r o hr ho o' he
    refine h.writeHeld hr _ ?_
    intro d hd
    simp only [cellRef, Option.some.injEq] at hd
    rw [← hd, he]
    exact h.closed r hr _ (dataRefOf_evAt ho)
  cases m with
  | newEvent id ts dur text =>
    refine (h.allocHeld (.dict text) (fun d hd => by cases hd)).allocHeld _ ?_
    intro d hd
    simp only [cellRef, Option.some.injEq] at hd
    subst hd
    exact client_allocHeld_self s _
  | newDict text => exact h.allocHeld _ (fun d hd => by cases hd)
  | setId r v =>
    simp only [mutate]
    split
    · rename_i o ho
      exact keepEv hm ho _ rfl
    · exact h
  | setTs r v =>
    simp only [mutate]
    split
    · rename_i o ho
      exact keepEv hm ho _ rfl
    · exact h
  | setDur r v =>
    simp only [mutate]
    split
    · rename_i o ho
      exact keepEv hm ho _ rfl
    · exact h
  | setDataRef r d =>
    have hr : s.client r = true ∧ s.client d = true := by
      simpa [Mut.held] using hm
    have hcl : ∀ c : Cell, cellRef c = some d → ∀ d', cellRef c = some d' → s.client d' = true := by
      intro c hc d' hd'
      rw [hc] at hd'
      injection hd' with hd'
      rw [← hd']
      exact hr.2
    simp only [mutate]
    split
    · exact h.writeHeld hr.1 _ (hcl _ rfl)
    · exact h.writeHeld hr.1 _ (hcl _ rfl)
    · exact h
  | setDict r text =>
    simp only [mutate]
    split
    · exact h.writeHeld hm _ (fun d hd => by cases hd)
    · exact h
  | setMeta r name type client hostname created =>
    simp only [mutate]
    split
    · rename_i o ho
      refine h.writeHeld hm _ ?_
      intro d hd
      simp only [cellRef, Option.some.injEq] at hd
      rw [← hd]
      exact h.closed r hm _ (dataRefOf_metaAt ho)
    · exact h

theorem mutate_store (s : State) (m : Mut) : (mutate s m).store = s.store := by
  cases m <;> simp only [mutate] <;> (try split) <;> rfl

theorem mutate_sep {s : State} (h : Sep s) (m : Mut) (hm : m.held s = true) : Sep (mutate s m) := by
  have := mutate_sepR h m hm
  unfold Sep
  rw [mutate_store]
  exact this

/-! ## `observe` reads reachable cells only -/

theorem observe_congr {s s' : State} (hst : s'.store = s.store)
    (hh : ∀ r, storeReach s r → s'.heap r = s.heap r) : observe s' = observe s := by
  unfold observe
  rw [hst]
  refine List.map_congr_left fun p hp => ?_
  have hm : storeObjOf s.store p.2.1 := ⟨p, hp, Or.inl rfl⟩
  have hmeta : metaVal s' p.2.1 = metaVal s p.2.1 := by
    have h1 := hh _ (Or.inl hm)
    unfold metaVal metaAt
    rw [h1]
    cases hc : s.heap p.2.1 with
    | none => rfl
    | some c =>
      cases c with
      | mdict o =>
        have hd : dataRefOf s p.2.1 = some o.dataRef := by simp [dataRefOf, hc]
        have h2 := hh _ (Or.inr ⟨_, hm, hd⟩)
        simp only [textAt, h2]
      | ev o => rfl
      | dict t => rfl
  have hevs : p.2.2.map (evVal s') = p.2.2.map (evVal s) := by
    refine List.map_congr_left fun e he => ?_
    have hroot : storeObjOf s.store e := ⟨p, hp, Or.inr he⟩
    have h1 := hh _ (Or.inl hroot)
    unfold evVal evAt
    rw [h1]
    cases hc : s.heap e with
    | none => rfl
    | some c =>
      cases c with
      | ev o =>
        have hd : dataRefOf s e = some o.dataRef := by simp [dataRefOf, hc]
        have h2 := hh _ (Or.inr ⟨_, hroot, hd⟩)
        simp only [textAt, h2]
      | mdict o => rfl
      | dict t => rfl
  rw [hmeta, hevs]

theorem heap_write_ne {s : State} {r x : Ref} {c : Cell} (h : x ≠ r) : (write s r c).heap x = s.heap x := by
  simp only [write, h, if_false]

theorem heap_allocHeld_ne {s : State} {x : Ref} {c : Cell} (h : x ≠ s.next) :
    (allocHeld s c).1.heap x = s.heap x := by
  simp only [allocHeld, alloc, hold, h, if_false]

/-- a client mutation changes the heap only at objects the client holds or at new objects -/
theorem mutate_heap {s : State} (m : Mut) (hm : m.held s = true) {x : Ref} (hc : s.client x = false)
    (hx : x < s.next) : (mutate s m).heap x = s.heap x := by
  have hne : ∀ r, s.client r = true → x ≠ r := by
    intro r hr he
    rw [he, hr] at hc
    cases hc
  cases m with
  | newEvent id ts dur text =>
    simp only [mutate]
    rw [heap_allocHeld_ne, heap_allocHeld_ne]
    · exact Nat.ne_of_lt hx
    · show x ≠ s.next + 1
      exact Nat.ne_of_lt (Nat.lt_succ_of_lt hx)
  | newDict text =>
    simp only [mutate]
    exact heap_allocHeld_ne (Nat.ne_of_lt hx)
  | setId r v =>
    simp only [mutate]
    split
    · exact heap_write_ne (hne r hm)
    · rfl
  | setTs r v =>
    simp only [mutate]
    split
    · exact heap_write_ne (hne r hm)
    · rfl
  | setDur r v =>
    simp only [mutate]
    split
    · exact heap_write_ne (hne r hm)
    · rfl
  | setDataRef r d =>
    have hr : s.client r = true := by
      simp only [Mut.held, Bool.and_eq_true] at hm
      exact hm.1
    simp only [mutate]
    split
    · exact heap_write_ne (hne r hr)
    · exact heap_write_ne (hne r hr)
    · rfl
  | setDict r text =>
    simp only [mutate]
    split
    · exact heap_write_ne (hne r hm)
    · rfl
  | setMeta r name type client hostname created =>
    simp only [mutate]
    split
    · exact heap_write_ne (hne r hm)
    · rfl

/-- under the separation invariant a client mutation does not change what reads return -/
theorem mutate_observe {s : State} (h : Sep s) (m : Mut) (hm : m.held s = true) :
    observe (mutate s m) = observe s :=
  observe_congr (mutate_store s m) fun r hr => mutate_heap m hm (h.sep r hr) (h.bound r hr)

/-! ## reachable states -/

theorem step_sep {s : State} (h : Sep s) (st : Step) : Sep (step s st) := by
  cases st with
  | api a => exact api_sep h a
  | mutation m =>
    simp only [step]
    split
    · rename_i hm
      exact mutate_sep h m hm
    · exact h

theorem reachable_sep {s : State} (h : Reachable s) : Sep s := by
  induction h with
  | init => exact sep_init
  | step st _ ih => exact step_sep ih st

end Aw.Store.Heap
