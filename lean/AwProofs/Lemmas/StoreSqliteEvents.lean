import AwProofs.Lemmas.StoreSqliteBuckets
/-!
# Sqlite store model: single-event operations refine the list model
-/
namespace Aw.Store.Sqlite
open Aw Aw.Store
variable {D : Type}

/-! ## ids of a view -/

theorem filterMap_toEv (l : List (ERow D)) : (l.map toEv).filterMap (·.id) = l.map (·.id) := by
  induction l with
  | nil => rfl
  | cons a t ih => simp only [List.map_cons, List.filterMap_cons, toEv, ih]

theorem rowOf_of_find {s : St D} {b : String} {r : BRow}
    (h : s.buckets.find? (fun r => r.bid = b) = some r) : rowOf s b = some r.rowid := by
  rw [rowOf_eq, h]; rfl

theorem rowOf_none_iff {s : St D} {b : String} : rowOf s b = none ↔ view s b = none := by
  rw [rowOf_eq, Option.map_eq_none_iff, view_none_iff]

theorem rowOf_some {s : St D} {b : String} {r : Int} (h : rowOf s b = some r) :
    ∃ br, s.buckets.find? (fun r => r.bid = b) = some br ∧ br.rowid = r := by
  rw [rowOf_eq, Option.map_eq_some_iff] at h
  exact h

theorem ids_eq {s : St D} {b : String} {r : BRow}
    (h : s.buckets.find? (fun r => r.bid = b) = some r) :
    Spec.ids (view s) b = (s.events.filter (fun e => e.brow = r.rowid)).map (·.id) := by
  unfold Spec.ids
  rw [view_eq, viewOf_some h]
  exact filterMap_toEv _

theorem ids_none {s : St D} {b : String} (h : view s b = none) : Spec.ids (view s) b = [] := by
  unfold Spec.ids
  rw [h]

/-- every id visible anywhere was handed out by the AUTOINCREMENT counter -/
theorem ids_le {s : St D} (hI : Inv s) {b : String} {i : Int} (h : i ∈ Spec.ids (view s) b) :
    i ≤ s.seqE := by
  cases hf : s.buckets.find? (fun r => r.bid = b) with
  | none =>
    rw [ids_none (view_none_iff.mpr hf)] at h
    cases h
  | some r =>
    rw [ids_eq hf, List.mem_map] at h
    obtain ⟨x, hx, rfl⟩ := h
    exact (hI.2.2.2 x (List.mem_filter.mp hx).1).1

theorem ids_nodup {s : St D} {b : String} {m : Meta} {es : List (Ev D)} (hI : Inv s)
    (h : view s b = some (m, es)) :
    (es.filterMap (·.id)).Nodup ∧ ∀ x ∈ es, x.id.isSome := by
  obtain ⟨r, _, _, rfl⟩ := view_some_iff.mp h
  constructor
  · rw [filterMap_toEv]
    unfold List.Nodup
    rw [List.pairwise_map]
    exact hI.2.1.filter _
  · intro x hx
    rw [List.mem_map] at hx
    obtain ⟨y, _, rfl⟩ := hx
    rfl

/-! ## insert_one -/

theorem add_sub_self (a b : Int) : a + b - a = b := by omega

theorem toEv_new (i r : Int) (e : Ev D) :
    toEv (⟨i, r, e.ts, e.ts + e.dur, e.data⟩ : ERow D) = { e with id := some i } := by
  simp only [toEv, add_sub_self]

/-- `insertOne_view` without the (unused) hypothesis that the event carries no id -/
theorem insertOne_view' {s s' : St D} {b : String} {e : Ev D} {i : Int} (hI : Inv s)
    (h : insertOne s b e = .ok (s', i)) :
    (view s b).isSome ∧ view s' = Spec.insert (view s) b i e ∧
      ∀ b', i ∉ Spec.ids (view s) b' := by
  unfold insertOne at h
  split at h
  · cases h
  · rename_i r hr
    injection h with h
    injection h with h hi
    subst h hi
    obtain ⟨br, hbr, rfl⟩ := rowOf_some hr
    refine ⟨view_isSome_iff.mpr ⟨br, hbr⟩, ?_, ?_⟩
    · funext b'
      rw [view_eq, view_eq]
      show viewOf s.buckets (s.events ++ [(⟨s.seqE + 1, br.rowid, e.ts, e.ts + e.dur, e.data⟩ : ERow D)]) b' = _
      by_cases hb : b' = b
      · subst hb
        rw [viewOf_some hbr, Spec.insert, Spec.onEvents_self (viewOf_some hbr)]
        simp only [List.filter_append, List.filter_cons, List.filter_nil, decide_true, if_true,
          List.map_append, List.map_cons, List.map_nil, toEv_new]
      · rw [Spec.frame_insert hb]
        cases hf : s.buckets.find? (fun r => r.bid = b') with
        | none => rw [viewOf_none hf, viewOf_none hf]
        | some r' =>
          rw [viewOf_some hf, viewOf_some hf]
          have hne : br.rowid ≠ r'.rowid := fun e => hb (find_inj hI hf hbr e.symm)
          simp only [List.filter_append, List.filter_cons, List.filter_nil, hne, decide_false,
            Bool.false_eq_true, if_false, List.append_nil]
    · intro b' hmem
      have := ids_le hI hmem
      omega

theorem insertOne_view {s s' : St D} {b : String} {e : Ev D} {i : Int} (hI : Inv s)
    (_he : e.id = none) (h : insertOne s b e = .ok (s', i)) :
    (view s b).isSome ∧ view s' = Spec.insert (view s) b i e ∧
      ∀ b', i ∉ Spec.ids (view s) b' := insertOne_view' hI h

/-- the id handed out is the next value of the AUTOINCREMENT counter -/
theorem insertOne_seq {s s' : St D} {b : String} {e : Ev D} {i : Int}
    (h : insertOne s b e = .ok (s', i)) : i = s.seqE + 1 ∧ s'.seqE = s.seqE + 1 := by
  unfold insertOne at h
  split at h
  · cases h
  · injection h with h
    injection h with h hi
    subst h hi
    exact ⟨rfl, rfl⟩

theorem insertOne_missing {s : St D} {b : String} {e : Ev D} (_hI : Inv s)
    (h : view s b = none) : insertOne s b e = .error .integrity := by
  unfold insertOne
  rw [rowOf_none_iff.mpr h]

/-! ## replace -/

theorem map_replace_rows (l : List (ERow D)) (r i : Int) (e : Ev D) :
    ((l.map (fun row => if row.id = i ∧ row.brow = r
        then { row with st := e.ts, en := e.ts + e.dur, data := e.data } else row)).filter
          (fun x => x.brow = r)).map toEv =
      ((l.filter (fun x => x.brow = r)).map toEv).map
        (fun x => if x.id = some i then { e with id := some i } else x) := by
  induction l with
  | nil => rfl
  | cons x t ih =>
    by_cases h1 : x.brow = r <;> by_cases h2 : x.id = i <;>
      simp [h1, h2, ih, toEv, add_sub_self]

theorem replace_view {s : St D} (hI : Inv s) (b : String) (i : Int) (e : Ev D) :
    view (replace s b i e) = Spec.replaceId (view s) b i e := by
  unfold replace
  split
  · rename_i hr
    have hv := rowOf_none_iff.mp hr
    simp only [Spec.replaceId, Spec.onEvents, hv]
  · rename_i r hr
    obtain ⟨br, hbr, rfl⟩ := rowOf_some hr
    funext b'
    rw [view_eq, view_eq]
    show viewOf s.buckets (s.events.map _) b' = _
    by_cases hb : b' = b
    · subst hb
      rw [viewOf_some hbr, Spec.replaceId, Spec.onEvents_self (viewOf_some hbr), map_replace_rows]
    · rw [Spec.frame_replaceId hb]
      cases hf : s.buckets.find? (fun r => r.bid = b') with
      | none => rw [viewOf_none hf, viewOf_none hf]
      | some r' =>
        rw [viewOf_some hf, viewOf_some hf]
        have hne : r'.rowid ≠ br.rowid := fun e => hb (find_inj hI hf hbr e)
        congr 3
        apply filter_map_fix
        · intro x; split <;> rfl
        · intro x hx
          have hx' : x.brow = r'.rowid := by simpa using hx
          have : ¬ (x.id = i ∧ x.brow = br.rowid) := by
            rintro ⟨_, h2⟩; exact hne (hx' ▸ h2)
          rw [if_neg this]

/-! ## delete -/

theorem filter_delete_rows (l : List (ERow D)) (r i : Int) :
    ((l.filter (fun row => ¬ (row.id = i ∧ row.brow = r))).filter (fun x => x.brow = r)).map toEv =
      ((l.filter (fun x => x.brow = r)).map toEv).filter (fun x => x.id ≠ some i) := by
  induction l with
  | nil => rfl
  | cons x t ih =>
    by_cases h1 : x.brow = r <;> by_cases h2 : x.id = i <;>
      simpa [h1, h2, toEv] using ih

theorem filter_id_le_one {l : List (ERow D)} (h : l.Pairwise (fun x y => x.id ≠ y.id)) (i : Int)
    (p : ERow D → Bool) (hp : ∀ x, p x = true → x.id = i) : (l.filter p).length ≤ 1 := by
  induction l with
  | nil => exact Nat.zero_le _
  | cons a t ih =>
    rw [List.pairwise_cons] at h
    rw [List.filter_cons]
    split
    · rename_i hpa
      have : t.filter p = [] := by
        rw [List.filter_eq_nil_iff]
        intro x hx hpx
        exact h.1 x hx ((hp a hpa).trans (hp x hpx).symm)
      rw [this]
      exact Nat.le_refl _
    · exact ih h.2

theorem delete_view {s s' : St D} {b : String} {i : Int} {r : Bool} (hI : Inv s)
    (h : delete s b i = (s', r)) :
    view s' = Spec.delete (view s) b i ∧ (r = true ↔ i ∈ Spec.ids (view s) b) := by
  unfold delete at h
  split at h
  · rename_i hr
    injection h with h1 h2
    subst h1 h2
    have hv := rowOf_none_iff.mp hr
    constructor
    · simp only [Spec.delete, Spec.onEvents, hv]
    · rw [ids_none hv]
      simp
  · rename_i br hr
    injection h with h1 h2
    subst h1 h2
    obtain ⟨br, hbr, rfl⟩ := rowOf_some hr
    constructor
    · funext b'
      rw [view_eq, view_eq]
      show viewOf s.buckets (s.events.filter _) b' = _
      by_cases hb : b' = b
      · subst hb
        rw [viewOf_some hbr, Spec.delete, Spec.onEvents_self (viewOf_some hbr), filter_delete_rows]
      · rw [Spec.frame_delete hb]
        cases hf : s.buckets.find? (fun r => r.bid = b') with
        | none => rw [viewOf_none hf, viewOf_none hf]
        | some r' =>
          rw [viewOf_some hf, viewOf_some hf]
          have hne : r'.rowid ≠ br.rowid := fun e => hb (find_inj hI hf hbr e)
          congr 3
          rw [List.filter_filter]
          apply List.filter_congr
          intro x _
          by_cases hx : x.brow = r'.rowid <;> simp [hx, hne]
    · rw [ids_eq hbr]
      have hle := filter_id_le_one hI.2.1 i (fun row => decide (row.id = i ∧ row.brow = br.rowid))
        (by intro x hx; simp only [decide_eq_true_eq] at hx; exact hx.1)
      rw [List.mem_map]
      constructor
      · intro hlen
        have hlen : (s.events.filter (fun row => decide (row.id = i ∧ row.brow = br.rowid))).length = 1 := by
          simpa using hlen
        cases hl : s.events.filter (fun row => decide (row.id = i ∧ row.brow = br.rowid)) with
        | nil => rw [hl] at hlen; cases hlen
        | cons x t =>
          have hx : x ∈ s.events.filter (fun row => decide (row.id = i ∧ row.brow = br.rowid)) := by
            rw [hl]; exact List.mem_cons_self
          rw [List.mem_filter, decide_eq_true_eq] at hx
          exact ⟨x, List.mem_filter.mpr ⟨hx.1, by simpa using hx.2.2⟩, hx.2.1⟩
      · rintro ⟨x, hx, hxi⟩
        rw [List.mem_filter] at hx
        have hmem : x ∈ s.events.filter (fun row => decide (row.id = i ∧ row.brow = br.rowid)) := by
          rw [List.mem_filter, decide_eq_true_eq]
          exact ⟨hx.1, hxi, by simpa using hx.2⟩
        have hpos := List.length_pos_of_mem hmem
        have : (s.events.filter (fun row => decide (row.id = i ∧ row.brow = br.rowid))).length = 1 := by
          omega
        simpa using this

/-! ## get_event -/

theorem find_rows (l : List (ERow D)) (r i : Int) :
    (l.find? (fun row => row.brow = r ∧ row.id = i)).map toEv =
      ((l.filter (fun x => x.brow = r)).map toEv).find? (fun x => x.id = some i) := by
  induction l with
  | nil => rfl
  | cons x t ih =>
    by_cases h1 : x.brow = r <;> by_cases h2 : x.id = i <;>
      simp [h1, h2, toEv]

theorem getEvent_eq {s : St D} {b : String} {m : Meta} {es : List (Ev D)} (_hI : Inv s)
    (h : view s b = some (m, es)) (i : Int) :
    getEvent s b i = es.find? (fun x => x.id = some i) := by
  obtain ⟨r, hr, _, rfl⟩ := view_some_iff.mp h
  unfold getEvent
  rw [rowOf_of_find hr]
  exact find_rows _ _ _

end Aw.Store.Sqlite
