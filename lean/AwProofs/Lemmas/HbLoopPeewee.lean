import AwProofs.Lemmas.HbLoop
import AwProofs.Lemmas.StorePeewee
/-!
# One turn of the heartbeat loop on the peewee backend refines `SpecStep`

The loop passes the id of the event the limit-1 read returned as the hint of `replace_last`; that
id is always accepted (`replaceLast_view`), so the "illegal hint" outcome never occurs.
-/
namespace Aw.Store.Peewee
open Aw Aw.Store Aw.Heartbeat Aw.Store.HbLoop
variable {D : Type} [DecidableEq D]
set_option linter.unusedSectionVars false

theorem getEvents_one_empty {s : St D} {b : String} {m : Meta} (h : Inv s)
    (hv : view s b = some (m, [])) : getEvents s b 1 none none = .ok [] := by
  obtain ⟨r, _, _, _, hk, _, hes⟩ := view_some h hv
  have h0 : rowsOf s r.key = [] := by
    cases hl : rowsOf s r.key with
    | nil => rfl
    | cons a l => rw [hl] at hes; cases hes
  unfold getEvents
  rw [if_neg (by decide), hk]
  simp only [h0]
  rfl

/-- appending the heartbeat -/
theorem hb_insert {s : St D} {b : String} {m : Meta} {es : List (Ev D)} (hb : Ev D) (hI : Inv s)
    (hv : view s b = some (m, es)) :
    ∃ s' i, (insertOne s b { hb with id := none }).map (·.1) = .ok s' ∧ Inv s' ∧
      view s' b = some (m, es ++ [{ hb with id := some i }]) ∧ i ∉ es.filterMap (·.id) ∧
      ∀ b', b' ≠ b → view s' b' = view s b' := by
  obtain ⟨s', j, heq⟩ := insertOne_total (e := { hb with id := none }) hI (by rw [hv]; rfl)
  obtain ⟨i, hij, _, hview, hfresh⟩ := insertOne_view hI rfl heq
  refine ⟨s', i, by rw [heq]; rfl, insertOne_inv hI heq, ?_, ?_, ?_⟩
  · rw [hview]; exact Spec.onEvents_self hv
  · have := hfresh b; unfold Spec.ids at this; rw [hv] at this; exact this
  · intro b' hb'; rw [hview]; exact Spec.frame_insert hb'

theorem hbStep_refines (pt : Int) (b : String) (s : St D) (hb : Ev D) (m : Meta)
    (es : List (Ev D)) (hI : Inv s) (hv : view s b = some (m, es)) :
    ∃ s', hbStep pt b s hb = .ok s' ∧ Inv s' ∧
      (∃ es', view s' b = some (m, es') ∧ SpecStep pt es hb es') ∧
      ∀ b', b' ≠ b → view s' b' = view s b' := by
  by_cases hne : es = []
  · subst hne
    obtain ⟨s', i, hi, hI', hv', _, hfr⟩ := hb_insert hb hI hv
    refine ⟨s', ?_, hI', ⟨_, hv', SpecStep.first i rfl⟩, hfr⟩
    unfold hbStep
    rw [getEvents_one_empty hI hv]
    exact hi
  · obtain ⟨⟨t, ti, hg, hn, hti, hrep⟩, _, _⟩ := replaceLast_view hI hv hne
    cases hm : merge pt t hb with
    | none =>
      obtain ⟨s', i, hi, hI', hv', hfresh, hfr⟩ := hb_insert hb hI hv
      refine ⟨s', ?_, hI', ⟨_, hv', SpecStep.appended t i hn hm hfresh⟩, hfr⟩
      unfold hbStep
      rw [hg]
      simp only [bind, Except.bind, hm]
      exact hi
    | some mg =>
      obtain ⟨s', hr, hview⟩ := hrep mg
      rw [hti, Option.getD_some] at hview
      refine ⟨s', ?_, replaceLast_inv hI hr, ⟨_, ?_, SpecStep.merged t mg ti hn hti hm⟩, ?_⟩
      · unfold hbStep
        rw [hg]
        simp only [bind, Except.bind, hm, hti, hr]
        rfl
      · rw [hview]; exact Spec.onEvents_self hv
      · intro b' hb'; rw [hview]; exact Spec.frame_replaceId hb'

/-! ## a concrete state: two populated buckets and the empty bucket "c" -/

def exHb : St Nat :=
  { buckets := [⟨1, "a", Example.m0⟩, ⟨2, "b", Example.m0⟩, ⟨3, "c", Example.m0⟩]
    events := [⟨1, 1, 10, 5, 7⟩, ⟨2, 2, 10, 0, 8⟩, ⟨3, 1, 10, 1, 9⟩]
    keys := [("a", 1), ("b", 2), ("c", 3)] }

theorem exHb_inv : Inv exHb := ⟨by decide, by decide, by decide, rfl, by decide⟩

theorem exHb_view : view exHb "c" = some (Example.m0, []) := rfl

end Aw.Store.Peewee
