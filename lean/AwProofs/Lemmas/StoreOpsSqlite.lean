import AwProofs.Lemmas.StoreOps
/-!
# Sqlite: every step preserves the invariant, touches the addressed bucket only, and refines the
reference step under `Pre`
-/
namespace Aw.Store.Sqlite
open Aw Aw.Store
variable {D : Type}

/-! ## totality under the precondition -/

theorem rowOf_isSome {s : St D} {b : String} (h : (view s b).isSome) : ∃ r, rowOf s b = some r := by
  cases hr : rowOf s b with
  | some r => exact ⟨r, rfl⟩
  | none => rw [rowOf_none_iff.mp hr] at h; cases h

theorem any_of_isSome {s : St D} {b : String} (h : (view s b).isSome) :
    s.buckets.any (fun r => r.bid = b) = true :=
  any_iff_find.mpr (view_isSome_iff.mp h)

theorem createBucket_total {s : St D} {b : String} (m : Meta) (h : view s b = none) :
    ∃ s', createBucket s b m = .ok s' := by
  unfold createBucket
  split
  · rename_i hany
    obtain ⟨r, hr⟩ := any_iff_find.mp hany
    rw [view_none_iff.mp h] at hr; cases hr
  · exact ⟨_, rfl⟩

theorem updateBucket_total {s : St D} {b : String} {u : Upd} (h : (view s b).isSome)
    (hu : u.isEmpty = false) : ∃ s', updateBucket s b u = .ok s' := by
  unfold updateBucket
  rw [hu, any_of_isSome h]
  exact ⟨_, rfl⟩

theorem deleteBucket_total {s : St D} {b : String} (h : (view s b).isSome) :
    ∃ s', deleteBucket s b = .ok s' := by
  obtain ⟨r, hr⟩ := rowOf_isSome h
  unfold deleteBucket
  rw [hr]
  exact ⟨_, rfl⟩

theorem insertOne_total {s : St D} {b : String} (e : Ev D) (h : (view s b).isSome) :
    ∃ s' i, insertOne s b e = .ok (s', i) := by
  obtain ⟨r, hr⟩ := rowOf_isSome h
  unfold insertOne
  rw [hr]
  exact ⟨_, _, rfl⟩

theorem insertRows_total {b : String} {r : Int} (l : List (Ev D)) (s : St D)
    (hr : rowOf s b = some r) : ∃ s', insertRows s b l = .ok s' := by
  induction l generalizing s with
  | nil => exact ⟨s, rfl⟩
  | cons e t ih =>
    unfold insertRows insertOne
    rw [hr]
    exact ih _ hr

theorem replace_buckets (s : St D) (b : String) (i : Int) (e : Ev D) :
    (replace s b i e).buckets = s.buckets := by
  unfold replace
  cases rowOf s b <;> rfl

theorem foldl_replace_buckets (s : St D) (b : String) (l : List (Ev D)) :
    (l.foldl (fun s e => replace s b (e.id.getD 0) e) s).buckets = s.buckets := by
  induction l generalizing s with
  | nil => rfl
  | cons e t ih => rw [List.foldl_cons, ih, replace_buckets]

theorem insertMany_total {s : St D} {b : String} (es : List (Ev D)) (h : (view s b).isSome) :
    ∃ s', insertMany s b es = .ok s' := by
  obtain ⟨r, hr⟩ := rowOf_isSome h
  unfold insertMany
  refine insertRows_total (r := r) _ _ ?_
  rw [rowOf_eq, foldl_replace_buckets, ← rowOf_eq, hr]

/-! ## invariant -/

theorem inv_step {s : St D} (hI : Inv s) (op : Op D) : Inv (step s op) := by
  cases op with
  | create b m =>
    simp only [step]
    cases h : createBucket s b m with
    | ok s' => exact createBucket_inv hI h
    | error x => exact hI
  | update b u =>
    simp only [step]
    cases h : updateBucket s b u with
    | ok s' => exact updateBucket_inv hI h
    | error x => exact hI
  | deleteBucket b =>
    simp only [step]
    cases h : deleteBucket s b with
    | ok s' => exact deleteBucket_inv hI h
    | error x => exact hI
  | insert b e =>
    simp only [step]
    cases h : insertOne s b e with
    | ok p => obtain ⟨s', i⟩ := p; exact insertOne_inv hI h
    | error x => exact hI
  | insertMany b es =>
    simp only [step]
    cases h : insertMany s b es with
    | ok s' => exact insertMany_inv hI h
    | error x => exact hI
  | replace b i e => exact replace_inv b i e hI
  | replaceLast b hint e => exact replaceLast_inv b e hI
  | delete b i => exact delete_inv b i hI

/-! ## frame -/

theorem replaceLast_cases {s : St D} (hI : Inv s) (b : String) (e : Ev D) :
    replaceLast s b e = s ∨ ∃ i, replaceLast s b e = replace s b i e := by
  cases hr : rowOf s b with
  | none => left; unfold replaceLast; rw [hr]
  | some r =>
    cases hn : newestRow (rowsOf s r) with
    | none => left; unfold replaceLast; rw [hr]; simp only [hn]
    | some t => exact Or.inr ⟨t.id, replaceLast_eq_replace hI hr hn e⟩

theorem only_step {s : St D} (hI : Inv s) (op : Op D) :
    Spec.Only op.bucket (view s) (view (step s op)) := by
  cases op with
  | create b m =>
    simp only [step, Op.bucket]
    cases h : createBucket s b m with
    | ok s' => simp only; rw [(createBucket_view hI h).2]; exact Spec.only_create _ _ _
    | error x => exact Spec.Only.refl _ _
  | update b u =>
    simp only [step, Op.bucket]
    cases h : updateBucket s b u with
    | ok s' => simp only; rw [(updateBucket_view hI h).2]; exact Spec.only_update _ _ _
    | error x => exact Spec.Only.refl _ _
  | deleteBucket b =>
    simp only [step, Op.bucket]
    cases h : deleteBucket s b with
    | ok s' => simp only; rw [(deleteBucket_view hI h).2]; exact Spec.only_deleteBucket _ _
    | error x => exact Spec.Only.refl _ _
  | insert b e =>
    simp only [step, Op.bucket]
    cases h : insertOne s b e with
    | ok p =>
      obtain ⟨s', i⟩ := p
      simp only; rw [(insertOne_view' hI h).2.1]; exact Spec.only_insert _ _ _ _
    | error x => exact Spec.Only.refl _ _
  | insertMany b es =>
    simp only [step, Op.bucket]
    cases h : insertMany s b es with
    | ok s' =>
      simp only
      unfold insertMany at h
      rw [insertRows_view (foldl_replace_inv b _ hI) h, foldl_replace_view hI]
      exact (Spec.only_foldl_replaceId b _ _).trans (Spec.only_foldl_insert b _ _)
    | error x => exact Spec.Only.refl _ _
  | replace b i e =>
    simp only [step, Op.bucket]
    rw [replace_view hI]; exact Spec.only_replaceId _ _ _ _
  | replaceLast b hint e =>
    simp only [step, Op.bucket]
    rcases replaceLast_cases hI b e with h | ⟨i, h⟩
    · rw [h]; exact Spec.Only.refl _ _
    · rw [h, replace_view hI]; exact Spec.only_replaceId _ _ _ _
  | delete b i =>
    simp only [step, Op.bucket]
    have h := (delete_view hI (s' := (delete s b i).1) (r := (delete s b i).2) rfl).1
    rw [h]; exact Spec.only_delete _ _ _

/-! ## refinement of the reference step -/

theorem refines {s : St D} (hI : Inv s) (op : Op D) (hp : Pre .sqlite (view s) op) :
    SpecStep .sqlite (view s) (view (step s op)) op := by
  cases op with
  | create b m =>
    obtain ⟨s', h⟩ := createBucket_total m (show view s b = none from hp)
    simp only [step, h, SpecStep]
    exact (createBucket_view hI h).2
  | update b u =>
    obtain ⟨hb, hu⟩ := (show _ ∧ _ from hp)
    obtain ⟨s', h⟩ := updateBucket_total hb (hu rfl)
    simp only [step, h, SpecStep]
    exact (updateBucket_view hI h).2
  | deleteBucket b =>
    obtain ⟨s', h⟩ := deleteBucket_total (show (view s b).isSome from hp)
    simp only [step, h, SpecStep]
    exact (deleteBucket_view hI h).2
  | insert b e =>
    obtain ⟨hb, _⟩ := (show _ ∧ _ from hp)
    obtain ⟨s', i, h⟩ := insertOne_total e hb
    simp only [step, h, SpecStep]
    obtain ⟨_, hv, hf⟩ := insertOne_view' hI h
    exact ⟨i, hf b, hv⟩
  | insertMany b es =>
    obtain ⟨hb, _⟩ := (show _ ∧ _ from hp)
    obtain ⟨s', h⟩ := insertMany_total es hb
    simp only [step, h, SpecStep]
    obtain ⟨ids, hl, hn, hf, hv⟩ := insertMany_view hI hb h
    exact ⟨ids, hl, hn, fun i hi => hf i hi b, hv⟩
  | replace b i e =>
    simp only [step, SpecStep]
    exact replace_view hI b i e
  | replaceLast b hint e =>
    obtain ⟨m, es, hv, hne, _⟩ := (show ∃ m es, _ ∧ _ ∧ _ from hp)
    simp only [step, SpecStep]
    obtain ⟨t, ht, _, hv'⟩ := replaceLast_view hI hv hne e
    exact ⟨m, es, t, hv, ht, hv'⟩
  | delete b i =>
    simp only [step, SpecStep]
    exact (delete_view hI (s' := (delete s b i).1) (r := (delete s b i).2) rfl).1

end Aw.Store.Sqlite
