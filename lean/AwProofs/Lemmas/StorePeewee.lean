import AwModel.Store.Peewee
import AwModel.Store.Spec
import AwProofs.Lemmas.Spec
import AwProofs.Lemmas.StorePeeweeAux
/-!
# The Peewee storage model refines the per-bucket list model

`Inv` is the consistency invariant of the two tables and the key cache; every operation keeps it
(`inv_init`, `<op>_inv`) and, under it, acts on `view` exactly like the corresponding operation of
`Aw.Store.Spec` (`<op>_view`), for all arguments.
-/
namespace Aw.Store.Peewee
open Aw Aw.Store
open Aw.Store.Peewee.Aux

variable {D : Type}

/-- bucket ids and bucket keys are pairwise distinct; event ids increase strictly along the event
    table (so they are pairwise distinct: `Inv.eids`); the key cache is the projection of the bucket
    table; every event row refers to an existing bucket row -/
structure Inv (s : St D) : Prop where
  bids : (s.buckets.map (·.bid)).Nodup
  bkeys : (s.buckets.map (·.key)).Nodup
  esorted : (s.events.map (·.id)).Pairwise (· < ·)
  cache : s.keys = s.buckets.map (fun r => (r.bid, r.key))
  fk : ∀ e ∈ s.events, ∃ r ∈ s.buckets, r.key = e.bucket

theorem inv_init : Inv ({} : St D) :=
  ⟨List.nodup_nil, List.nodup_nil, List.Pairwise.nil, rfl, fun e he => by cases he⟩

/-- event ids are pairwise distinct -/
theorem Inv.eids {s : St D} (h : Inv s) : (s.events.map (·.id)).Nodup :=
  h.esorted.imp (fun hab => Int.ne_of_lt hab)

/-! ### looking a bucket up -/

theorem keyOf_eq {s : St D} (h : Inv s) (b : String) :
    keyOf s b = (s.buckets.find? (fun r => decide (r.bid = b))).map (·.key) := by
  unfold keyOf
  rw [h.cache, List.find?_map, Option.map_map]
  rfl

theorem view_eq (s : St D) (b : String) :
    view s b = (s.buckets.find? (fun r => decide (r.bid = b))).map
      (fun r => (r.md, (rowsOf s r.key).map toEv)) := by
  unfold view
  cases s.buckets.find? (fun r => decide (r.bid = b)) <;> rfl

theorem keyOf_none_iff {s : St D} (h : Inv s) (b : String) : keyOf s b = none ↔ view s b = none := by
  rw [keyOf_eq h, view_eq]
  cases s.buckets.find? (fun r => decide (r.bid = b)) <;> simp

/-- the bucket row behind a cached key -/
theorem keyOf_some {s : St D} (h : Inv s) {b : String} {k : Int} (hk : keyOf s b = some k) :
    ∃ r, s.buckets.find? (fun r => decide (r.bid = b)) = some r ∧ r ∈ s.buckets ∧ r.bid = b ∧ r.key = k ∧
      view s b = some (r.md, (rowsOf s k).map toEv) := by
  rw [keyOf_eq h] at hk
  cases hf : s.buckets.find? (fun r => decide (r.bid = b)) with
  | none => rw [hf] at hk; cases hk
  | some r =>
    rw [hf] at hk
    have hkey : r.key = k := by simpa using hk
    have hb : r.bid = b := by simpa using List.find?_some hf
    refine ⟨r, rfl, List.mem_of_find?_eq_some hf, hb, hkey, ?_⟩
    rw [view_eq, hf, ← hkey]; rfl

theorem view_some {s : St D} (h : Inv s) {b : String} {m : Meta} {es : List (Ev D)}
    (hv : view s b = some (m, es)) :
    ∃ r, s.buckets.find? (fun r => decide (r.bid = b)) = some r ∧ r ∈ s.buckets ∧ r.bid = b ∧
      keyOf s b = some r.key ∧ m = r.md ∧ es = (rowsOf s r.key).map toEv := by
  rw [view_eq] at hv
  cases hf : s.buckets.find? (fun r => decide (r.bid = b)) with
  | none => rw [hf] at hv; cases hv
  | some r =>
    rw [hf] at hv
    simp only [Option.map_some, Option.some.injEq, Prod.mk.injEq] at hv
    have hb : r.bid = b := by simpa using List.find?_some hf
    refine ⟨r, rfl, List.mem_of_find?_eq_some hf, hb, ?_, hv.1.symm, hv.2.symm⟩
    rw [keyOf_eq h, hf]; rfl

theorem view_isSome_keyOf {s : St D} (h : Inv s) {b : String} (hv : (view s b).isSome) :
    ∃ k, keyOf s b = some k := by
  cases hk : keyOf s b with
  | none => rw [(keyOf_none_iff h b).mp hk] at hv; cases hv
  | some k => exact ⟨k, rfl⟩

theorem find_bid {s : St D} (h : Inv s) {r : BRow} (hr : r ∈ s.buckets) :
    s.buckets.find? (fun x => decide (x.bid = r.bid)) = some r :=
  find?_of_nodup_map (f := fun x : BRow => x.bid) h.bids hr

theorem find_key {s : St D} (h : Inv s) {r : BRow} (hr : r ∈ s.buckets) :
    s.buckets.find? (fun x => decide (x.key = r.key)) = some r :=
  find?_of_nodup_map (f := fun x : BRow => x.key) h.bkeys hr

theorem key_inj {s : St D} (h : Inv s) {r r' : BRow} (hr : r ∈ s.buckets) (hr' : r' ∈ s.buckets)
    (hk : r.key = r'.key) : r = r' :=
  nodup_map_inj (f := fun x : BRow => x.key) h.bkeys r hr r' hr' hk

/-- two bucket ids with cached keys: the keys differ when the ids do -/
theorem keyOf_inj {s : St D} (h : Inv s) {b b' : String} {k : Int}
    (hk : keyOf s b = some k) (hk' : keyOf s b' = some k) : b = b' := by
  obtain ⟨r, _, hr, hb, hrk, _⟩ := keyOf_some h hk
  obtain ⟨r', _, hr', hb', hrk', _⟩ := keyOf_some h hk'
  have := key_inj h hr hr' (hrk.trans hrk'.symm)
  rw [← hb, ← hb', this]

theorem id_inj {s : St D} (h : Inv s) {x y : ERow D} (hx : x ∈ s.events) (hy : y ∈ s.events)
    (hid : x.id = y.id) : x = y :=
  nodup_map_inj (f := fun r : ERow D => r.id) h.eids x hx y hy hid

/-! ### operations that only touch the event table -/

theorem inv_mapEvents {s : St D} (h : Inv s) (f : ERow D → ERow D)
    (hf : ∀ r, (f r).id = r.id ∧ (f r).bucket = r.bucket) :
    Inv { s with events := s.events.map f } where
  bids := h.bids
  bkeys := h.bkeys
  esorted := by
    show ((s.events.map f).map (·.id)).Pairwise (· < ·)
    rw [List.map_map]
    have : ((fun r : ERow D => r.id) ∘ f) = (fun r : ERow D => r.id) := funext fun r => (hf r).1
    rw [this]; exact h.esorted
  cache := h.cache
  fk := by
    intro e he
    obtain ⟨x, hx, rfl⟩ := List.mem_map.mp he
    rw [(hf x).2]; exact h.fk x hx

theorem inv_filterEvents {s : St D} (h : Inv s) (p : ERow D → Bool) :
    Inv { s with events := s.events.filter p } where
  bids := h.bids
  bkeys := h.bkeys
  esorted := List.Pairwise.sublist (List.Sublist.map _ List.filter_sublist) h.esorted
  cache := h.cache
  fk := fun e he => h.fk e (List.mem_filter.mp he).1

theorem inv_appendEvent {s : St D} (h : Inv s) {b : String} {k : Int} (hk : keyOf s b = some k)
    (ts dur : Int) (d : D) :
    Inv { s with events := s.events ++ [⟨maxId s.events + 1, k, ts, dur, d⟩] } where
  bids := h.bids
  bkeys := h.bkeys
  esorted := by
    show ((s.events ++ [_]).map (fun r : ERow D => r.id)).Pairwise (· < ·)
    rw [List.map_append, List.pairwise_append]
    refine ⟨h.esorted, by simp, ?_⟩
    intro a ha c hc
    obtain ⟨x, hx, rfl⟩ := List.mem_map.mp ha
    have := id_le_maxId hx
    simp only [List.map_cons, List.map_nil, List.mem_singleton] at hc
    omega
  cache := h.cache
  fk := by
    intro e he
    rcases List.mem_append.mp he with he | he
    · exact h.fk e he
    · obtain ⟨r, _, hr, _, hrk, _⟩ := keyOf_some h hk
      simp only [List.mem_singleton] at he
      exact ⟨r, hr, by rw [he]; exact hrk⟩

/-- a change of the event table that acts as `f` on the rows of bucket `b` and leaves the rows of
    every other key alone is `Spec.onEvents … b f` on views -/
theorem view_onEvents {s : St D} (h : Inv s) {b : String} {k : Int} (hk : keyOf s b = some k)
    (ev' : List (ERow D)) (f : List (Ev D) → List (Ev D))
    (hsame : (ev'.filter (fun e => decide (e.bucket = k))).map toEv =
      f ((s.events.filter (fun e => decide (e.bucket = k))).map toEv))
    (hother : ∀ k', k' ≠ k → (∃ r ∈ s.buckets, r.key = k') →
      ev'.filter (fun e => decide (e.bucket = k')) = s.events.filter (fun e => decide (e.bucket = k'))) :
    view { s with events := ev' } = Spec.onEvents (view s) b f := by
  obtain ⟨r, hf, hr, hb, hrk, hv⟩ := keyOf_some h hk
  funext b'
  by_cases hbb : b' = b
  · subst hbb
    rw [Spec.onEvents_self hv, view_eq]
    show Option.map _ (s.buckets.find? _) = _
    rw [hf]
    show some (r.md, (ev'.filter (fun e => decide (e.bucket = r.key))).map toEv) = _
    rw [hrk, hsame]; rfl
  · rw [Spec.frame_onEvents hbb, view_eq, view_eq]
    show Option.map _ (s.buckets.find? _) = _
    cases hf' : s.buckets.find? (fun r => decide (r.bid = b')) with
    | none => rfl
    | some r' =>
      have hr' := List.mem_of_find?_eq_some hf'
      have hb' : r'.bid = b' := by simpa using List.find?_some hf'
      have hne : r'.key ≠ k := by
        intro heq
        have := key_inj h hr' hr (heq.trans hrk.symm)
        exact hbb (by rw [← hb', this, hb])
      show some (r'.md, (ev'.filter _).map toEv) = some (r'.md, (s.events.filter _).map toEv)
      rw [hother r'.key hne ⟨r', hr', rfl⟩]

/-! ### createBucket -/

theorem createBucket_ok {s s' : St D} {b : String} {m : Meta} (h : createBucket s b m = .ok s') :
    (∀ r ∈ s.buckets, r.bid ≠ b) ∧
      s' = refresh { s with buckets := s.buckets ++ [⟨maxKey s.buckets + 1, b, m⟩] } := by
  unfold createBucket at h
  split at h
  · cases h
  · rename_i hany
    refine ⟨fun r hr hb => hany ?_, by injection h with h; exact h.symm⟩
    exact List.any_eq_true.mpr ⟨r, hr, by simpa using hb⟩

theorem createBucket_inv {s s' : St D} {b : String} {m : Meta} (h : Inv s)
    (hc : createBucket s b m = .ok s') : Inv s' := by
  obtain ⟨hnew, rfl⟩ := createBucket_ok hc
  refine ⟨?_, ?_, h.esorted, rfl, ?_⟩
  · show ((s.buckets ++ [_]).map (fun r : BRow => r.bid)).Nodup
    rw [List.map_append, List.nodup_append]
    refine ⟨h.bids, by simp, ?_⟩
    intro a ha c hc'
    obtain ⟨x, hx, rfl⟩ := List.mem_map.mp ha
    simp only [List.map_cons, List.map_nil, List.mem_singleton] at hc'
    rw [hc']; exact hnew x hx
  · show ((s.buckets ++ [_]).map (fun r : BRow => r.key)).Nodup
    rw [List.map_append, List.nodup_append]
    refine ⟨h.bkeys, by simp, ?_⟩
    intro a ha c hc'
    obtain ⟨x, hx, rfl⟩ := List.mem_map.mp ha
    have := key_le_maxKey hx
    simp only [List.map_cons, List.map_nil, List.mem_singleton] at hc'
    omega
  · intro e he
    obtain ⟨r, hr, hrk⟩ := h.fk e he
    exact ⟨r, List.mem_append_left _ hr, hrk⟩

theorem createBucket_view {s s' : St D} {b : String} {m : Meta} (h : Inv s)
    (hc : createBucket s b m = .ok s') :
    view s b = none ∧ view s' = Spec.create (view s) b m := by
  obtain ⟨hnew, rfl⟩ := createBucket_ok hc
  have hnone : s.buckets.find? (fun r => decide (r.bid = b)) = none :=
    List.find?_eq_none.mpr fun r hr => by simpa using hnew r hr
  refine ⟨by rw [view_eq, hnone]; rfl, ?_⟩
  funext b'
  rw [view_eq]
  show Option.map _ ((s.buckets ++ [_]).find? _) = _
  rw [List.find?_append]
  by_cases hbb : b' = b
  · subst hbb
    rw [hnone]
    simp only [Spec.create, Spec.setB, if_true, Option.none_or, List.find?_cons, decide_true,
      Option.map_some]
    show some (m, (s.events.filter (fun e => decide (e.bucket = maxKey s.buckets + 1))).map toEv) = some (m, [])
    have : s.events.filter (fun e => decide (e.bucket = maxKey s.buckets + 1)) = [] := by
      rw [List.filter_eq_nil_iff]
      intro e he
      obtain ⟨r, hr, hrk⟩ := h.fk e he
      have := key_le_maxKey hr
      simp only [decide_eq_true_eq]; omega
    rw [this]; rfl
  · rw [Spec.frame_create hbb, view_eq]
    have : ([(⟨maxKey s.buckets + 1, b, m⟩ : BRow)]).find? (fun r => decide (r.bid = b')) = none := by
      simp [Ne.symm hbb]
    rw [this, Option.or_none]
    rfl

theorem createBucket_exists {s : St D} {b : String} {m : Meta} (_h : Inv s)
    (hv : (view s b).isSome) : createBucket s b m = .error .integrity := by
  rw [view_eq, Option.isSome_map, List.find?_isSome] at hv
  unfold createBucket
  rw [if_pos (List.any_eq_true.mpr hv)]

/-! ### updateBucket -/

/-- the row rewrite of `update_bucket` -/
def updRow (k : Int) (u : Upd) (r : BRow) : BRow := if r.key = k then { r with md := u.apply r.md } else r

theorem updRow_bid (k : Int) (u : Upd) (r : BRow) : (updRow k u r).bid = r.bid := by
  unfold updRow; split <;> rfl

theorem updRow_key (k : Int) (u : Upd) (r : BRow) : (updRow k u r).key = r.key := by
  unfold updRow; split <;> rfl

theorem updateBucket_ok {s s' : St D} {b : String} {u : Upd} (h : updateBucket s b u = .ok s') :
    ∃ k, keyOf s b = some k ∧ s' = { s with buckets := s.buckets.map (updRow k u) } := by
  unfold updateBucket at h
  split at h
  · cases h
  · rename_i k hk
    split at h
    · injection h with h; exact ⟨k, hk, h.symm⟩
    · cases h

theorem updateBucket_inv {s s' : St D} {b : String} {u : Upd} (h : Inv s)
    (hc : updateBucket s b u = .ok s') : Inv s' := by
  obtain ⟨k, hk, rfl⟩ := updateBucket_ok hc
  have e1 : ((fun r : BRow => r.bid) ∘ updRow k u) = (fun r : BRow => r.bid) :=
    funext fun r => updRow_bid k u r
  have e2 : ((fun r : BRow => r.key) ∘ updRow k u) = (fun r : BRow => r.key) :=
    funext fun r => updRow_key k u r
  refine ⟨?_, ?_, h.esorted, ?_, ?_⟩
  · show ((s.buckets.map (updRow k u)).map (fun r : BRow => r.bid)).Nodup
    rw [List.map_map, e1]; exact h.bids
  · show ((s.buckets.map (updRow k u)).map (fun r : BRow => r.key)).Nodup
    rw [List.map_map, e2]; exact h.bkeys
  · show s.keys = (s.buckets.map (updRow k u)).map (fun r => (r.bid, r.key))
    rw [List.map_map, h.cache]
    apply List.map_congr_left
    intro r _
    show _ = ((updRow k u r).bid, (updRow k u r).key)
    rw [updRow_bid, updRow_key]
  · intro e he
    obtain ⟨r, hr, hrk⟩ := h.fk e he
    exact ⟨updRow k u r, List.mem_map_of_mem hr, by rw [updRow_key]; exact hrk⟩

theorem updateBucket_view {s s' : St D} {b : String} {u : Upd} (h : Inv s)
    (hc : updateBucket s b u = .ok s') :
    (view s b).isSome ∧ view s' = Spec.update (view s) b u.apply := by
  obtain ⟨k, hk, rfl⟩ := updateBucket_ok hc
  obtain ⟨r, hf, hr, hb, hrk, hv⟩ := keyOf_some h hk
  refine ⟨by rw [hv]; rfl, ?_⟩
  funext b'
  have e1 : ((fun r : BRow => decide (r.bid = b')) ∘ updRow k u) = (fun r : BRow => decide (r.bid = b')) :=
    funext fun r => by show decide ((updRow k u r).bid = b') = _; rw [updRow_bid]
  rw [view_eq]
  show Option.map _ ((s.buckets.map (updRow k u)).find? _) = _
  rw [List.find?_map, e1]
  by_cases hbb : b' = b
  · subst hbb
    rw [hf]
    simp only [Spec.update, hv, Spec.setB, if_true, Option.map_some]
    have : updRow k u r = { r with md := u.apply r.md } := by unfold updRow; rw [if_pos hrk]
    rw [this, ← hrk]; rfl
  · rw [Spec.frame_update hbb, view_eq]
    cases hf' : s.buckets.find? (fun r => decide (r.bid = b')) with
    | none => rfl
    | some r' =>
      have hr' := List.mem_of_find?_eq_some hf'
      have hb' : r'.bid = b' := by simpa using List.find?_some hf'
      have hne : ¬ r'.key = k := by
        intro heq
        have := key_inj h hr' hr (heq.trans hrk.symm)
        exact hbb (by rw [← hb', this, hb])
      have : updRow k u r' = r' := by unfold updRow; rw [if_neg hne]
      simp only [Option.map_some, this]
      rfl

theorem updateBucket_missing {s : St D} {b : String} {u : Upd} (h : Inv s)
    (hv : view s b = none) : updateBucket s b u = .error .valueError := by
  unfold updateBucket
  rw [(keyOf_none_iff h b).mpr hv]

/-- the `DoesNotExist` branch of `update_bucket` is dead under the invariant -/
theorem updateBucket_total {s : St D} {b : String} {u : Upd} (h : Inv s)
    (hv : (view s b).isSome) : ∃ s', updateBucket s b u = .ok s' := by
  obtain ⟨k, hk⟩ := view_isSome_keyOf h hv
  obtain ⟨r, _, hr, _, hrk, _⟩ := keyOf_some h hk
  unfold updateBucket
  rw [hk]
  have : s.buckets.any (fun r => decide (r.key = k)) = true :=
    List.any_eq_true.mpr ⟨r, hr, by simpa using hrk⟩
  simp only [this, if_true]
  exact ⟨_, rfl⟩

/-! ### deleteBucket -/

theorem deleteBucket_ok {s s' : St D} {b : String} (h : deleteBucket s b = .ok s') :
    ∃ k, keyOf s b = some k ∧
      s' = refresh { s with events := s.events.filter (fun e => decide (e.bucket ≠ k)),
                            buckets := s.buckets.filter (fun r => decide (r.key ≠ k)) } := by
  unfold deleteBucket at h
  split at h
  · cases h
  · rename_i k hk
    injection h with h; exact ⟨k, hk, h.symm⟩

theorem deleteBucket_inv {s s' : St D} {b : String} (h : Inv s)
    (hc : deleteBucket s b = .ok s') : Inv s' := by
  obtain ⟨k, hk, rfl⟩ := deleteBucket_ok hc
  refine ⟨?_, ?_, ?_, rfl, ?_⟩
  · exact List.Nodup.sublist (List.Sublist.map _ List.filter_sublist) h.bids
  · exact List.Nodup.sublist (List.Sublist.map _ List.filter_sublist) h.bkeys
  · exact List.Pairwise.sublist (List.Sublist.map _ List.filter_sublist) h.esorted
  · intro e he
    have he' : e ∈ s.events ∧ e.bucket ≠ k := by simpa using List.mem_filter.mp he
    obtain ⟨r, hr, hrk⟩ := h.fk e he'.1
    refine ⟨r, ?_, hrk⟩
    show r ∈ s.buckets.filter _
    rw [List.mem_filter]
    exact ⟨hr, by simpa [hrk] using he'.2⟩

theorem deleteBucket_view {s s' : St D} {b : String} (h : Inv s)
    (hc : deleteBucket s b = .ok s') :
    (view s b).isSome ∧ view s' = Spec.deleteBucket (view s) b := by
  obtain ⟨k, hk, rfl⟩ := deleteBucket_ok hc
  obtain ⟨r, hf, hr, hb, hrk, hv⟩ := keyOf_some h hk
  refine ⟨by rw [hv]; rfl, ?_⟩
  funext b'
  rw [view_eq]
  show Option.map _ ((s.buckets.filter _).find? _) = _
  rw [List.find?_filter]
  by_cases hbb : b' = b
  · subst hbb
    simp only [Spec.deleteBucket, Spec.setB, if_true]
    have : s.buckets.find? (fun a => decide (decide (a.key ≠ k) = true ∧ decide (a.bid = b') = true)) = none := by
      rw [List.find?_eq_none]
      intro x hx
      simp only [decide_eq_true_eq, not_and]
      intro hxk hxb
      have : x = r := nodup_map_inj (f := fun x : BRow => x.bid) h.bids x hx r hr (hxb.trans hb.symm)
      exact hxk (this ▸ hrk)
    rw [this]; rfl
  · rw [Spec.frame_deleteBucket hbb, view_eq]
    have : s.buckets.find? (fun a => decide (decide (a.key ≠ k) = true ∧ decide (a.bid = b') = true)) =
        s.buckets.find? (fun a => decide (a.bid = b')) := by
      apply find?_congr_mem
      intro x hx
      by_cases hxb : x.bid = b'
      · have : x.key ≠ k := by
          intro heq
          have := key_inj h hx hr (heq.trans hrk.symm)
          exact hbb (by rw [← hxb, this, hb])
        simp [hxb, this]
      · simp [hxb]
    rw [this]
    cases hf' : s.buckets.find? (fun r => decide (r.bid = b')) with
    | none => rfl
    | some r' =>
      have hr' := List.mem_of_find?_eq_some hf'
      have hb' : r'.bid = b' := by simpa using List.find?_some hf'
      have hne : r'.key ≠ k := by
        intro heq
        have := key_inj h hr' hr (heq.trans hrk.symm)
        exact hbb (by rw [← hb', this, hb])
      show some (r'.md, ((s.events.filter _).filter (fun e => decide (e.bucket = r'.key))).map toEv) =
        some (r'.md, (s.events.filter (fun e => decide (e.bucket = r'.key))).map toEv)
      rw [List.filter_filter]
      congr 3
      apply List.filter_congr
      intro x _
      by_cases hx : x.bucket = r'.key
      · simp [hx, hne]
      · simp [hx]

theorem deleteBucket_missing {s : St D} {b : String} (h : Inv s)
    (hv : view s b = none) : deleteBucket s b = .error .valueError := by
  unfold deleteBucket
  rw [(keyOf_none_iff h b).mpr hv]

/-! ### getMetadata, bucketsOf -/

theorem getMetadata_eq {s : St D} {b : String} (h : Inv s) :
    getMetadata s b = (match view s b with | some (m, _) => .ok m | none => .error .valueError) := by
  unfold getMetadata
  cases hk : keyOf s b with
  | none => rw [(keyOf_none_iff h b).mp hk]
  | some k =>
    obtain ⟨r, _, hr, _, hrk, hv⟩ := keyOf_some h hk
    rw [hv, ← hrk]
    simp only [find_key h hr]

theorem bucketsOf_eq {s : St D} (h : Inv s) (b : String) (m : Meta) :
    (b, m) ∈ bucketsOf s ↔ ∃ es, view s b = some (m, es) := by
  unfold bucketsOf
  constructor
  · intro hm
    obtain ⟨r, hr, heq⟩ := List.mem_map.mp hm
    injection heq with hb hmd
    refine ⟨(rowsOf s r.key).map toEv, ?_⟩
    rw [view_eq, ← hb, find_bid h hr, ← hmd]; rfl
  · rintro ⟨es, hv⟩
    obtain ⟨r, _, hr, hb, _, hm, _⟩ := view_some h hv
    exact List.mem_map.mpr ⟨r, hr, by rw [hb, hm]⟩

/-! ### event ids seen through the view -/

theorem ids_eq {s : St D} (h : Inv s) {b : String} {k : Int} (hk : keyOf s b = some k) :
    Spec.ids (view s) b = (rowsOf s k).map (·.id) := by
  obtain ⟨r, _, _, _, _, hv⟩ := keyOf_some h hk
  unfold Spec.ids
  rw [hv]
  show List.filterMap _ (List.map toEv _) = _
  rw [List.filterMap_map]
  exact congrFun List.filterMap_eq_map _

/-- every id visible in some bucket is the id of a row of the event table -/
theorem ids_sub (s : St D) (b : String) (i : Int) (hi : i ∈ Spec.ids (view s) b) :
    ∃ x ∈ s.events, x.id = i := by
  unfold Spec.ids at hi
  rw [view_eq] at hi
  cases hf : s.buckets.find? (fun r => decide (r.bid = b)) with
  | none => rw [hf] at hi; cases hi
  | some r =>
    rw [hf] at hi
    simp only [Option.map_some] at hi
    obtain ⟨a, ha, hai⟩ := List.mem_filterMap.mp hi
    obtain ⟨x, hx, rfl⟩ := List.mem_map.mp ha
    exact ⟨x, (List.mem_filter.mp hx).1, by simpa [toEv] using hai⟩

theorem ids_le_maxId (s : St D) (b : String) (i : Int) (hi : i ∈ Spec.ids (view s) b) :
    i ≤ maxId s.events := by
  obtain ⟨x, hx, rfl⟩ := ids_sub s b i hi
  exact id_le_maxId hx

theorem ids_nodup {s : St D} {b : String} {m : Meta} {es : List (Ev D)} (h : Inv s)
    (hv : view s b = some (m, es)) : (es.filterMap (·.id)).Nodup ∧ ∀ x ∈ es, x.id.isSome := by
  obtain ⟨r, _, _, _, hk, _, rfl⟩ := view_some h hv
  constructor
  · have := ids_eq h hk
    unfold Spec.ids at this
    rw [hv] at this
    simp only at this
    rw [this]
    exact List.Nodup.sublist (List.Sublist.map _ List.filter_sublist) h.eids
  · intro x hx
    obtain ⟨y, _, rfl⟩ := List.mem_map.mp hx
    rfl

/-! ### insertOne -/

/-- the row rewrite of an upsert / `replace` -/
def setRow (e : Ev D) (row : ERow D) : ERow D := { row with ts := e.ts, dur := e.dur, data := e.data }

theorem insertOne_new_ok {s s' : St D} {b : String} {e : Ev D} {oi : Option Int} (he : e.id = none)
    (hc : insertOne s b e = .ok (s', oi)) :
    ∃ k, keyOf s b = some k ∧ oi = some (maxId s.events + 1) ∧
      s' = { s with events := s.events ++ [⟨maxId s.events + 1, k, e.ts, e.dur, e.data⟩] } := by
  unfold insertOne at hc
  split at hc
  · cases hc
  · rename_i k hk
    rw [he] at hc
    simp only [Except.ok.injEq, Prod.mk.injEq] at hc
    exact ⟨k, hk, hc.2.symm, hc.1.symm⟩

theorem insertOne_upsert_ok {s s' : St D} {b : String} {e : Ev D} {oi : Option Int} {i : Int}
    (he : e.id = some i) (hc : insertOne s b e = .ok (s', oi)) :
    ∃ k, keyOf s b = some k ∧ oi = some i ∧
      s' = { s with events := s.events.map (fun row =>
        if row.id = i ∧ row.bucket = k then setRow e row else row) } := by
  unfold insertOne at hc
  split at hc
  · cases hc
  · rename_i k hk
    rw [he] at hc
    simp only [Except.ok.injEq, Prod.mk.injEq] at hc
    exact ⟨k, hk, hc.2.symm, hc.1.symm⟩

theorem insertOne_inv {s s' : St D} {b : String} {e : Ev D} {oi : Option Int} (h : Inv s)
    (hc : insertOne s b e = .ok (s', oi)) : Inv s' := by
  cases he : e.id with
  | none =>
    obtain ⟨k, hk, _, rfl⟩ := insertOne_new_ok he hc
    exact inv_appendEvent h hk _ _ _
  | some i =>
    obtain ⟨k, hk, _, rfl⟩ := insertOne_upsert_ok he hc
    apply inv_mapEvents h
    intro r
    split <;> exact ⟨rfl, rfl⟩

theorem insertOne_view {s s' : St D} {b : String} {e : Ev D} {oi : Option Int} (h : Inv s)
    (he : e.id = none) (hc : insertOne s b e = .ok (s', oi)) :
    ∃ i, oi = some i ∧ (view s b).isSome ∧ view s' = Spec.insert (view s) b i e ∧
      ∀ b', i ∉ Spec.ids (view s) b' := by
  obtain ⟨k, hk, hoi, rfl⟩ := insertOne_new_ok he hc
  obtain ⟨r, _, _, _, _, hv⟩ := keyOf_some h hk
  refine ⟨maxId s.events + 1, hoi, by rw [hv]; rfl, ?_, ?_⟩
  · apply view_onEvents h hk
    · rw [List.filter_append, List.map_append]
      simp [toEv]
    · intro k' hne _
      rw [List.filter_append]
      simp [Ne.symm hne]
  · intro b' hi
    have := ids_le_maxId s b' _ hi
    omega

theorem insertOne_missing {s : St D} {b : String} {e : Ev D} (h : Inv s)
    (hv : view s b = none) : insertOne s b e = .error .keyError := by
  unfold insertOne
  rw [(keyOf_none_iff h b).mpr hv]

/-- with an existing bucket `insertOne` always succeeds -/
theorem insertOne_total {s : St D} {b : String} {e : Ev D} (h : Inv s)
    (hv : (view s b).isSome) : ∃ s' i, insertOne s b e = .ok (s', some i) := by
  obtain ⟨k, hk⟩ := view_isSome_keyOf h hv
  unfold insertOne
  rw [hk]
  cases e.id with
  | none => exact ⟨_, _, rfl⟩
  | some i => exact ⟨_, _, rfl⟩

theorem toEv_setRow (e : Ev D) (i : Int) (row : ERow D) :
    toEv (if row.id = i then setRow e row else row) =
      (if (toEv row).id = some i then { e with id := some i } else toEv row) := by
  by_cases hi : row.id = i
  · simp [hi, toEv, setRow]
  · simp [hi, toEv]

/-- the upsert path: an event carrying an id rewrites that event of this bucket, for ANY id -/
theorem insertOne_upsert_view {s s' : St D} {b : String} {e : Ev D} {oi : Option Int} {i : Int}
    (h : Inv s) (he : e.id = some i) (hc : insertOne s b e = .ok (s', oi)) :
    oi = some i ∧ (view s b).isSome ∧ view s' = Spec.replaceId (view s) b i e := by
  obtain ⟨k, hk, hoi, rfl⟩ := insertOne_upsert_ok he hc
  obtain ⟨r, _, _, _, _, hv⟩ := keyOf_some h hk
  refine ⟨hoi, by rw [hv]; rfl, ?_⟩
  apply view_onEvents h hk
  · rw [List.filter_map, List.map_map, List.map_map]
    have : (fun e_1 : ERow D => decide (e_1.bucket = k)) ∘
        (fun row => if row.id = i ∧ row.bucket = k then setRow e row else row) =
        (fun e_1 : ERow D => decide (e_1.bucket = k)) := by
      funext row; show decide ((if _ then _ else _ : ERow D).bucket = k) = _
      split <;> rfl
    rw [this]
    apply List.map_congr_left
    intro row hrow
    have hb : row.bucket = k := by simpa using (List.mem_filter.mp hrow).2
    show toEv (if row.id = i ∧ row.bucket = k then setRow e row else row) =
      (if (toEv row).id = some i then { e with id := some i } else toEv row)
    rw [← toEv_setRow]
    simp [hb]
  · intro k' hne _
    rw [List.filter_map]
    have : (fun e_1 : ERow D => decide (e_1.bucket = k')) ∘
        (fun row => if row.id = i ∧ row.bucket = k then setRow e row else row) =
        (fun e_1 : ERow D => decide (e_1.bucket = k')) := by
      funext row; show decide ((if _ then _ else _ : ERow D).bucket = k') = _
      split <;> rfl
    rw [this]
    conv => rhs; rw [← List.map_id (List.filter _ s.events)]
    apply List.map_congr_left
    intro row hrow
    have hb : row.bucket = k' := by simpa using (List.mem_filter.mp hrow).2
    have : ¬ (row.id = i ∧ row.bucket = k) := fun hh => hne (hb ▸ hh.2)
    simp [this]

/-! ### rewriting the row with a given id (`replace`, `replace_last`) -/

theorem view_rewrite {s : St D} (h : Inv s) {b : String} {k : Int} (hk : keyOf s b = some k)
    {t : ERow D} (ht : t ∈ s.events) (htk : t.bucket = k) (e : Ev D) :
    view { s with events := s.events.map (fun row => if row.id = t.id then setRow e row else row) } =
      Spec.replaceId (view s) b t.id e := by
  apply view_onEvents h hk
  · rw [List.filter_map, List.map_map, List.map_map]
    have : (fun e_1 : ERow D => decide (e_1.bucket = k)) ∘
        (fun row => if row.id = t.id then setRow e row else row) =
        (fun e_1 : ERow D => decide (e_1.bucket = k)) := by
      funext row; show decide ((if _ then _ else _ : ERow D).bucket = k) = _
      split <;> rfl
    rw [this]
    apply List.map_congr_left
    intro row _
    exact toEv_setRow e t.id row
  · intro k' hne _
    rw [List.filter_map]
    have : (fun e_1 : ERow D => decide (e_1.bucket = k')) ∘
        (fun row => if row.id = t.id then setRow e row else row) =
        (fun e_1 : ERow D => decide (e_1.bucket = k')) := by
      funext row; show decide ((if _ then _ else _ : ERow D).bucket = k') = _
      split <;> rfl
    rw [this]
    conv => rhs; rw [← List.map_id (List.filter _ s.events)]
    apply List.map_congr_left
    intro row hrow
    have hm := List.mem_filter.mp hrow
    have hb : row.bucket = k' := by simpa using hm.2
    have : ¬ row.id = t.id := by
      intro hid
      have := id_inj h hm.1 ht hid
      exact hne (by rw [← hb, this, htk])
    simp [this]

/-- membership of an id in the view of `b`, at the level of rows -/
theorem mem_ids_iff {s : St D} (h : Inv s) {b : String} {k : Int} (hk : keyOf s b = some k) (i : Int) :
    i ∈ Spec.ids (view s) b ↔ ∃ t ∈ s.events, t.id = i ∧ t.bucket = k := by
  rw [ids_eq h hk]
  unfold rowsOf
  constructor
  · intro hi
    obtain ⟨t, ht, hti⟩ := List.mem_map.mp hi
    have := List.mem_filter.mp ht
    exact ⟨t, this.1, hti, by simpa using this.2⟩
  · rintro ⟨t, ht, hti, htk⟩
    exact List.mem_map.mpr ⟨t, List.mem_filter.mpr ⟨ht, by simpa using htk⟩, hti⟩

theorem find_row_none_iff {s : St D} (h : Inv s) {b : String} {k : Int} (hk : keyOf s b = some k) (i : Int) :
    s.events.find? (fun row => decide (row.id = i ∧ row.bucket = k)) = none ↔ i ∉ Spec.ids (view s) b := by
  rw [mem_ids_iff h hk, List.find?_eq_none]
  constructor
  · rintro hn ⟨t, ht, hti, htk⟩
    exact hn t ht (by simp [hti, htk])
  · intro hn t ht hp
    simp only [decide_eq_true_eq] at hp
    exact hn ⟨t, ht, hp.1, hp.2⟩

/-! ### replace -/

theorem replace_ok {s s' : St D} {b : String} {i : Int} {e : Ev D} (hc : replace s b i e = .ok s') :
    ∃ k t, keyOf s b = some k ∧ t ∈ s.events ∧ t.id = i ∧ t.bucket = k ∧
      s' = { s with events := s.events.map (fun row => if row.id = t.id then setRow e row else row) } := by
  unfold replace getRow at hc
  cases hk : keyOf s b with
  | none => rw [hk] at hc; cases hc
  | some k =>
    rw [hk] at hc
    simp only at hc
    cases hf : s.events.find? (fun row => decide (row.id = i ∧ row.bucket = k)) with
    | none => rw [hf] at hc; cases hc
    | some t =>
      rw [hf] at hc
      simp only [Except.ok.injEq] at hc
      have hp := List.find?_some hf
      simp only [decide_eq_true_eq] at hp
      exact ⟨k, t, rfl, List.mem_of_find?_eq_some hf, hp.1, hp.2, hc.symm⟩

theorem replace_inv {s s' : St D} {b : String} {i : Int} {e : Ev D} (h : Inv s)
    (hc : replace s b i e = .ok s') : Inv s' := by
  obtain ⟨k, t, _, _, _, _, rfl⟩ := replace_ok hc
  apply inv_mapEvents h
  intro r
  split <;> exact ⟨rfl, rfl⟩

/-- `replace` succeeds exactly when the id is live in the bucket, and then rewrites that event -/
theorem replace_view {s s' : St D} {b : String} {i : Int} {e : Ev D} (h : Inv s)
    (hc : replace s b i e = .ok s') :
    i ∈ Spec.ids (view s) b ∧ view s' = Spec.replaceId (view s) b i e := by
  obtain ⟨k, t, hk, ht, hti, htk, rfl⟩ := replace_ok hc
  refine ⟨(mem_ids_iff h hk i).mpr ⟨t, ht, hti, htk⟩, ?_⟩
  rw [← hti]
  exact view_rewrite h hk ht htk e

/-- a no-op of `Spec.replaceId`: the id is not live in the bucket -/
theorem replaceId_notLive (v : View D) (b : String) (i : Int) (e : Ev D)
    (hi : i ∉ Spec.ids v b) : Spec.replaceId v b i e = v := by
  funext b'
  by_cases hbb : b' = b
  · subst hbb
    unfold Spec.ids at hi
    cases hv : v b' with
    | none => unfold Spec.replaceId Spec.onEvents; rw [hv]; exact hv
    | some p =>
      obtain ⟨m, es⟩ := p
      rw [hv] at hi
      unfold Spec.replaceId
      rw [Spec.onEvents_self hv]
      congr 2
      conv => rhs; rw [← List.map_id es]
      apply List.map_congr_left
      intro x hx
      have : ¬ x.id = some i := fun hxi => hi (List.mem_filterMap.mpr ⟨x, hx, hxi⟩)
      simp [this]
  · exact Spec.frame_replaceId hbb

/-- the id is not live in the (existing) bucket: AttributeError, and nothing to do per the list model -/
theorem replace_notLive {s : St D} {b : String} {i : Int} {e : Ev D} (h : Inv s)
    (hv : (view s b).isSome) (hi : i ∉ Spec.ids (view s) b) :
    replace s b i e = .error .attributeError ∧ Spec.replaceId (view s) b i e = view s := by
  obtain ⟨k, hk⟩ := view_isSome_keyOf h hv
  refine ⟨?_, replaceId_notLive _ _ _ _ hi⟩
  unfold replace getRow
  rw [hk]
  simp only [(find_row_none_iff h hk i).mpr hi]

theorem replace_missing {s : St D} {b : String} {i : Int} {e : Ev D} (h : Inv s)
    (hv : view s b = none) : replace s b i e = .error .keyError := by
  unfold replace getRow
  rw [(keyOf_none_iff h b).mpr hv]

/-- with a live id `replace` succeeds -/
theorem replace_live {s : St D} {b : String} {i : Int} {e : Ev D} (h : Inv s)
    (hi : i ∈ Spec.ids (view s) b) : ∃ s', replace s b i e = .ok s' := by
  cases hk : keyOf s b with
  | none =>
    have := (keyOf_none_iff h b).mp hk
    unfold Spec.ids at hi; rw [this] at hi; cases hi
  | some k =>
    cases hf : s.events.find? (fun row => decide (row.id = i ∧ row.bucket = k)) with
    | none => exact absurd hi ((find_row_none_iff h hk i).mp hf)
    | some t =>
      unfold replace getRow
      rw [hk]
      simp only [hf]
      exact ⟨_, rfl⟩

/-- `replace` for ANY id and bucket: the state it leaves behind (unchanged when it raises) is
    `Spec.replaceId` of the view -/
theorem replace_view_any {s : St D} {b : String} {i : Int} {e : Ev D} (h : Inv s) :
    view (match replace s b i e with | .ok s' => s' | .error _ => s) =
      Spec.replaceId (view s) b i e := by
  cases hr : replace s b i e with
  | ok s' => exact (replace_view h hr).2
  | error x =>
    by_cases hi : i ∈ Spec.ids (view s) b
    · obtain ⟨s', hs'⟩ := replace_live (e := e) h hi
      rw [hs'] at hr; cases hr
    · exact (replaceId_notLive _ _ _ _ hi).symm

/-! ### delete -/

theorem delete_ok {s s' : St D} {b : String} {i : Int} {n : Nat} (hc : delete s b i = .ok (s', n)) :
    ∃ k, keyOf s b = some k ∧
      s' = { s with events := s.events.filter (fun row => decide (¬ (row.id = i ∧ row.bucket = k))) } ∧
      n = (s.events.filter (fun row => decide (row.id = i ∧ row.bucket = k))).length := by
  unfold delete at hc
  split at hc
  · cases hc
  · rename_i k hk
    simp only [Except.ok.injEq, Prod.mk.injEq] at hc
    exact ⟨k, hk, hc.1.symm, hc.2.symm⟩

theorem delete_inv {s s' : St D} {b : String} {i : Int} {n : Nat} (h : Inv s)
    (hc : delete s b i = .ok (s', n)) : Inv s' := by
  obtain ⟨k, _, rfl, _⟩ := delete_ok hc
  exact inv_filterEvents h _

theorem delete_view {s s' : St D} {b : String} {i : Int} {n : Nat} (h : Inv s)
    (hc : delete s b i = .ok (s', n)) :
    view s' = Spec.delete (view s) b i ∧ n = (if i ∈ Spec.ids (view s) b then 1 else 0) := by
  obtain ⟨k, hk, rfl, rfl⟩ := delete_ok hc
  constructor
  · apply view_onEvents h hk
    · rw [List.filter_filter, List.filter_map, List.filter_filter]
      congr 1
      apply List.filter_congr
      intro x _
      by_cases hx : x.bucket = k <;> by_cases hxi : x.id = i <;> simp [hx, hxi, toEv]
    · intro k' hne _
      rw [List.filter_filter]
      apply List.filter_congr
      intro x _
      by_cases hx : x.bucket = k'
      · simp [hx, hne]
      · simp [hx]
  · have hle : (s.events.filter (fun row => decide (row.id = i ∧ row.bucket = k))).length ≤ 1 :=
      filter_length_le_one (f := fun r : ERow D => r.id) h.eids _ i
        (fun x _ hp => by simp only [decide_eq_true_eq] at hp; exact hp.1)
    by_cases hi : i ∈ Spec.ids (view s) b
    · rw [if_pos hi]
      obtain ⟨t, ht, hti, htk⟩ := (mem_ids_iff h hk i).mp hi
      have : t ∈ s.events.filter (fun row => decide (row.id = i ∧ row.bucket = k)) :=
        List.mem_filter.mpr ⟨ht, by simp [hti, htk]⟩
      have := List.length_pos_of_mem this
      omega
    · rw [if_neg hi]
      have := (find_row_none_iff h hk i).mpr hi
      rw [List.find?_eq_none] at this
      have : s.events.filter (fun row => decide (row.id = i ∧ row.bucket = k)) = [] :=
        List.filter_eq_nil_iff.mpr this
      rw [this]; rfl

theorem delete_missing {s : St D} {b : String} {i : Int} (h : Inv s)
    (hv : view s b = none) : delete s b i = .error .keyError := by
  unfold delete
  rw [(keyOf_none_iff h b).mpr hv]

theorem delete_total {s : St D} {b : String} {i : Int} (h : Inv s)
    (hv : (view s b).isSome) : ∃ s' n, delete s b i = .ok (s', n) := by
  obtain ⟨k, hk⟩ := view_isSome_keyOf h hv
  unfold delete
  rw [hk]
  exact ⟨_, _, rfl⟩

/-! ### getEvent -/

theorem getEvent_eq {s : St D} {b : String} {m : Meta} {es : List (Ev D)} {i : Int} (h : Inv s)
    (hv : view s b = some (m, es)) :
    getEvent s b i = .ok (es.find? (fun x => decide (x.id = some i))) := by
  obtain ⟨r, _, _, _, hk, _, rfl⟩ := view_some h hv
  unfold getEvent getRow rowsOf
  rw [hk]
  show Except.ok _ = _
  congr 1
  rw [List.find?_map, List.find?_filter]
  congr 1
  apply find?_congr_mem
  intro x _
  by_cases hx : x.bucket = r.key <;> by_cases hxi : x.id = i <;> simp [hx, hxi, toEv]

theorem getEvent_missing {s : St D} {b : String} {i : Int} (h : Inv s)
    (hv : view s b = none) : getEvent s b i = .error .keyError := by
  unfold getEvent getRow
  rw [(keyOf_none_iff h b).mpr hv]
  rfl

/-! ### getEvents … 1 and replaceLast -/

theorem filter_inRange_none (l : List (ERow D)) : l.filter (inRange none none) = l :=
  List.filter_eq_self.mpr fun _ _ => rfl

/-- `get_events(limit=1)` returns one newest event of a non-empty bucket -/
theorem getEvents_one {s : St D} {b : String} {m : Meta} {es : List (Ev D)} (h : Inv s)
    (hv : view s b = some (m, es)) (hne : es ≠ []) :
    ∃ t, getEvents s b 1 none none = .ok [t] ∧ Spec.IsNewest es t := by
  obtain ⟨r, _, _, _, hk, _, rfl⟩ := view_some h hv
  have hne' : rowsOf s r.key ≠ [] := fun h0 => hne (by rw [h0]; rfl)
  obtain ⟨t, rest, hs, ht, hmax⟩ := head_sortDesc (key := fun r : ERow D => r.ts) hne'
  refine ⟨toEv t, ?_, List.mem_map_of_mem ht, ?_⟩
  · unfold getEvents
    rw [if_neg (by decide), hk]
    simp only [filter_inRange_none, hs]
    rfl
  · intro x hx
    obtain ⟨y, hy, rfl⟩ := List.mem_map.mp hx
    exact hmax y hy

theorem replaceLast_ok {s s' : St D} {b : String} {hint : Option Int} {e : Ev D} {j : Int}
    (hc : replaceLast s b hint e = .ok (some (s', j))) :
    ∃ k t, keyOf s b = some k ∧ t ∈ rowsOf s k ∧ (∀ r ∈ rowsOf s k, r.ts ≤ t.ts) ∧ t.id = j ∧
      (∀ h, hint = some h → h = j) ∧
      s' = { s with events := s.events.map (fun row => if row.id = t.id then setRow e row else row) } := by
  unfold replaceLast at hc
  cases hk : keyOf s b with
  | none => rw [hk] at hc; cases hc
  | some k =>
    rw [hk] at hc
    simp only at hc
    split at hc
    · cases hc
    · cases hint with
      | some h =>
        simp only at hc
        cases hf : (rowsOf s k).find? (fun r => decide (r.id = h ∧ isNewest (rowsOf s k) r = true)) with
        | none => rw [hf] at hc; cases hc
        | some t =>
          rw [hf] at hc
          simp only [Except.ok.injEq, Option.some.injEq, Prod.mk.injEq] at hc
          have hp := List.find?_some hf
          simp only [decide_eq_true_eq, isNewest, Bool.and_eq_true, List.all_eq_true] at hp
          refine ⟨k, t, rfl, List.mem_of_find?_eq_some hf, hp.2.2, hc.2, ?_, hc.1.symm⟩
          intro h' hh; injection hh with hh; rw [← hh, ← hc.2, hp.1]
      | none =>
        simp only at hc
        unfold defaultNewest at hc
        cases hf : (rowsOf s k).find? (fun t => (rowsOf s k).all (fun r => decide (r.ts ≤ t.ts))) with
        | none => rw [hf] at hc; cases hc
        | some t =>
          rw [hf] at hc
          simp only [Except.ok.injEq, Option.some.injEq, Prod.mk.injEq] at hc
          have hp := List.find?_some hf
          simp only [decide_eq_true_eq, List.all_eq_true] at hp
          refine ⟨k, t, rfl, List.mem_of_find?_eq_some hf, hp, hc.2, ?_, hc.1.symm⟩
          intro h' hh; cases hh

theorem replaceLast_inv {s s' : St D} {b : String} {hint : Option Int} {e : Ev D} {j : Int}
    (h : Inv s) (hc : replaceLast s b hint e = .ok (some (s', j))) : Inv s' := by
  obtain ⟨k, t, _, _, _, _, _, rfl⟩ := replaceLast_ok hc
  apply inv_mapEvents h
  intro r
  split <;> exact ⟨rfl, rfl⟩

/-- whatever hint (or none) `replaceLast` went by: the rewritten row is a newest event of the bucket,
    it is the hinted one, and the effect is `Spec.replaceId` of its id -/
theorem replaceLast_hint_view {s s' : St D} {b : String} {m : Meta} {es : List (Ev D)}
    {hint : Option Int} {e : Ev D} {j : Int} (h : Inv s) (hv : view s b = some (m, es))
    (hc : replaceLast s b hint e = .ok (some (s', j))) :
    ∃ t, Spec.IsNewest es t ∧ t.id = some j ∧ (∀ h', hint = some h' → h' = j) ∧
      view s' = Spec.replaceId (view s) b j e := by
  obtain ⟨k, t, hk, ht, hmax, htj, hh, rfl⟩ := replaceLast_ok hc
  obtain ⟨r, _, _, _, hk', _, rfl⟩ := view_some h hv
  have hkk : r.key = k := by rw [hk] at hk'; injection hk' with hk'; exact hk'.symm
  rw [hkk]
  have htm := List.mem_filter.mp ht
  refine ⟨toEv t, ⟨List.mem_map_of_mem ht, ?_⟩, by rw [← htj]; rfl, hh, ?_⟩
  · intro x hx
    obtain ⟨y, hy, rfl⟩ := List.mem_map.mp hx
    exact hmax y hy
  · rw [← htj]
    exact view_rewrite h hk htm.1 (by simpa using htm.2) e

/-- the id of every newest event of the bucket is accepted as hint -/
theorem replaceLast_accepts {s : St D} {b : String} {m : Meta} {es : List (Ev D)} {t : Ev D}
    {hid : Int} (h : Inv s) (hv : view s b = some (m, es)) (hn : Spec.IsNewest es t)
    (ht : t.id = some hid) (e : Ev D) :
    ∃ s', replaceLast s b (some hid) e = .ok (some (s', hid)) := by
  obtain ⟨r, _, _, _, hk, _, rfl⟩ := view_some h hv
  obtain ⟨row, hrow, rfl⟩ := List.mem_map.mp hn.1
  have hid' : row.id = hid := by simpa [toEv] using ht
  have hmax : ∀ x ∈ rowsOf s r.key, x.ts ≤ row.ts := fun x hx => hn.2 _ (List.mem_map_of_mem hx)
  have hnew : isNewest (rowsOf s r.key) row = true := by
    simp only [isNewest, Bool.and_eq_true, List.any_eq_true, List.all_eq_true, decide_eq_true_eq]
    exact ⟨⟨row, hrow, rfl⟩, hmax⟩
  cases hf : (rowsOf s r.key).find? (fun x => decide (x.id = hid ∧ isNewest (rowsOf s r.key) x = true)) with
  | none =>
    have := List.find?_eq_none.mp hf row hrow
    simp [hid', hnew] at this
  | some t2 =>
    have hp := List.find?_some hf
    simp only [decide_eq_true_eq] at hp
    unfold replaceLast
    rw [hk]
    have : (rowsOf s r.key).isEmpty = false := by
      cases hl : rowsOf s r.key with
      | nil => rw [hl] at hrow; cases hrow
      | cons a l => rfl
    simp only [this, hf, hp.1]
    exact ⟨_, rfl⟩

/-- `replace_last` on a non-empty bucket: `get_events(limit=1)` yields a newest event `t`; its id is
    an accepted hint, so is the id of every other newest event, and for every accepted hint the
    effect is `Spec.replaceId` at the id of a newest event -/
theorem replaceLast_view {s : St D} {b : String} {m : Meta} {es : List (Ev D)} (h : Inv s)
    (hv : view s b = some (m, es)) (hne : es ≠ []) :
    (∃ t hid, getEvents s b 1 none none = .ok [t] ∧ Spec.IsNewest es t ∧ t.id = some hid ∧
      ∀ e, ∃ s', replaceLast s b (some hid) e = .ok (some (s', hid)) ∧
        view s' = Spec.replaceId (view s) b (t.id.getD 0) e) ∧
    (∀ t hid, Spec.IsNewest es t → t.id = some hid →
      ∀ e, ∃ s', replaceLast s b (some hid) e = .ok (some (s', hid))) ∧
    (∀ hint e s' j, replaceLast s b hint e = .ok (some (s', j)) →
      ∃ t, Spec.IsNewest es t ∧ t.id = some j ∧ (∀ h', hint = some h' → h' = j) ∧
        view s' = Spec.replaceId (view s) b (t.id.getD 0) e) := by
  refine ⟨?_, fun t hid hn ht e => replaceLast_accepts h hv hn ht e, ?_⟩
  · obtain ⟨t, hg, hn⟩ := getEvents_one h hv hne
    obtain ⟨hid, ht⟩ := Option.isSome_iff_exists.mp ((ids_nodup h hv).2 t hn.1)
    refine ⟨t, hid, hg, hn, ht, fun e => ?_⟩
    obtain ⟨s', hs'⟩ := replaceLast_accepts h hv hn ht e
    obtain ⟨_, _, _, _, hview⟩ := replaceLast_hint_view h hv hs'
    exact ⟨s', hs', by rw [ht]; exact hview⟩
  · intro hint e s' j hc
    obtain ⟨t, hn, ht, hh, hview⟩ := replaceLast_hint_view h hv hc
    exact ⟨t, hn, ht, hh, by rw [ht]; exact hview⟩

theorem replaceLast_missing {s : St D} {b : String} {hint : Option Int} {e : Ev D} (h : Inv s)
    (hv : view s b = none) : replaceLast s b hint e = .error .keyError := by
  unfold replaceLast
  rw [(keyOf_none_iff h b).mpr hv]

/-- `_get_last` on an empty bucket raises DoesNotExist -/
theorem replaceLast_empty {s : St D} {b : String} {m : Meta} {hint : Option Int} {e : Ev D} (h : Inv s)
    (hv : view s b = some (m, [])) : replaceLast s b hint e = .error .doesNotExist := by
  obtain ⟨r, _, _, _, hk, _, hes⟩ := view_some h hv
  unfold replaceLast
  rw [hk]
  have : rowsOf s r.key = [] := by
    cases hl : rowsOf s r.key with
    | nil => rfl
    | cons a l => rw [hl] at hes; cases hes
  simp only [this, List.isEmpty_nil, if_true]

/-! ### how `get_events(limit=1)` breaks ties -/

theorem ids_sorted {s : St D} {b : String} {m : Meta} {es : List (Ev D)} (h : Inv s)
    (hv : view s b = some (m, es)) : (es.filterMap (·.id)).Pairwise (· < ·) := by
  obtain ⟨r, _, _, _, hk, _, rfl⟩ := view_some h hv
  have := ids_eq h hk
  unfold Spec.ids at this
  rw [hv] at this
  simp only at this
  rw [this]
  exact List.Pairwise.sublist (List.Sublist.map _ List.filter_sublist) h.esorted

/-- `get_events(limit=1)` returns the first newest event in storage order, which is the one
    `replace_last` rewrites when no hint is given, and the one with the lowest id among the newest -/
theorem getEvents_one_first {s : St D} {b : String} {m : Meta} {es : List (Ev D)} (h : Inv s)
    (hv : view s b = some (m, es)) (hne : es ≠ []) :
    ∃ t hid, getEvents s b 1 none none = .ok [t] ∧ t.id = some hid ∧
      FirstMax (fun x : Ev D => x.ts) es t ∧
      (∀ x ∈ es, ∀ xid, x.id = some xid → t.ts ≤ x.ts → hid ≤ xid) ∧
      ∀ e, ∃ s', replaceLast s b none e = .ok (some (s', hid)) := by
  obtain ⟨r, _, _, _, hk, _, rfl⟩ := view_some h hv
  have hne' : rowsOf s r.key ≠ [] := fun h0 => hne (by rw [h0]; rfl)
  obtain ⟨t, rest, hs, hfm⟩ := head_sortDesc_first (key := fun r : ERow D => r.ts) hne'
  have hfind := hfm.find
  obtain ⟨pre, post, hl, hpre, hpost⟩ := hfm
  have hsorted : (rowsOf s r.key).Pairwise (fun a b => a.id < b.id) := by
    have := List.Pairwise.sublist (List.Sublist.map (fun r : ERow D => r.id)
      (List.filter_sublist (p := fun e => decide (e.bucket = r.key)))) h.esorted
    exact List.pairwise_map.mp this
  refine ⟨toEv t, t.id, ?_, rfl, ?_, ?_, ?_⟩
  · unfold getEvents
    rw [if_neg (by decide), hk]
    simp only [filter_inRange_none, hs]
    rfl
  · refine ⟨pre.map toEv, post.map toEv, by rw [hl]; simp, ?_, ?_⟩
    · intro x hx
      obtain ⟨y, hy, rfl⟩ := List.mem_map.mp hx
      exact hpre y hy
    · intro x hx
      obtain ⟨y, hy, rfl⟩ := List.mem_map.mp hx
      exact hpost y hy
  · intro x hx xid hxid hts
    obtain ⟨y, hy, rfl⟩ := List.mem_map.mp hx
    have hyid : y.id = xid := by simpa [toEv] using hxid
    rw [hl] at hy hsorted
    rw [List.pairwise_append, List.pairwise_cons] at hsorted
    rcases List.mem_append.mp hy with hy | hy
    · have := hpre y hy
      have : y.ts < t.ts := this
      have : t.ts ≤ y.ts := hts
      omega
    · rcases List.mem_cons.mp hy with rfl | hy
      · omega
      · have := hsorted.2.1.1 y hy; omega
  · intro e
    unfold replaceLast
    rw [hk]
    have : (rowsOf s r.key).isEmpty = false := by
      cases hl' : rowsOf s r.key with
      | nil => exact absurd hl' hne'
      | cons a l => rfl
    simp only [this, defaultNewest, hfind]
    exact ⟨_, rfl⟩

/-! ### insertMany -/

/-- the loop body of `insert_many` -/
def imStep (b : String) (acc : Except Err (St D)) (e : Ev D) : Except Err (St D) :=
  match acc with
  | .error x => .error x
  | .ok s => (insertOne s b e).map (·.1)

theorem insertMany_eq (s : St D) (b : String) (es : List (Ev D)) :
    insertMany s b es = match keyOf s b with
      | none => if es.isEmpty then .ok s else .error .keyError
      | some _ => (es.filter (fun e => e.id.isNone)).foldl (imStep b)
          ((es.filter (fun e => e.id.isSome)).foldl (imStep b) (.ok s)) := rfl

theorem foldl_imStep_error (b : String) (x : Err) (l : List (Ev D)) :
    l.foldl (imStep b) (.error x) = .error x := by
  induction l with
  | nil => rfl
  | cons a t ih => exact ih

/-- the upsert phase: succeeds, keeps the tables' shape, and is a fold of `Spec.replaceId` -/
theorem upserts_fold {b : String} {k : Int} (l : List (Ev D)) (hl : ∀ e ∈ l, e.id.isSome)
    (s : St D) (h : Inv s) (hk : keyOf s b = some k) :
    ∃ s', l.foldl (imStep b) (.ok s) = .ok s' ∧ Inv s' ∧ keyOf s' b = some k ∧
      s'.events.map (·.id) = s.events.map (·.id) ∧
      view s' = l.foldl (fun v e => Spec.replaceId v b (e.id.getD 0) e) (view s) := by
  induction l generalizing s with
  | nil => exact ⟨s, rfl, h, hk, rfl, rfl⟩
  | cons e t ih =>
    obtain ⟨i, hi⟩ := Option.isSome_iff_exists.mp (hl e (List.mem_cons_self ..))
    obtain ⟨r, _, _, _, _, hv⟩ := keyOf_some h hk
    obtain ⟨s1, j, hs1⟩ := insertOne_total (e := e) h (by rw [hv]; rfl)
    have hI1 := insertOne_inv h hs1
    obtain ⟨_, _, hview⟩ := insertOne_upsert_view h hi hs1
    obtain ⟨k1, hk1, _, hs1eq⟩ := insertOne_upsert_ok hi hs1
    have hk1' : keyOf s1 b = some k := by rw [hs1eq]; exact hk
    have hids : s1.events.map (·.id) = s.events.map (·.id) := by
      rw [hs1eq]
      show (s.events.map _).map (fun r : ERow D => r.id) = _
      rw [List.map_map]
      apply List.map_congr_left
      intro row _
      show (if _ then _ else _ : ERow D).id = _
      split <;> rfl
    obtain ⟨s', hf, hI', hk', hids', hview'⟩ :=
      ih (fun x hx => hl x (List.mem_cons_of_mem _ hx)) s1 hI1 hk1'
    refine ⟨s', ?_, hI', hk', hids'.trans hids, ?_⟩
    · rw [List.foldl_cons]
      show t.foldl (imStep b) ((insertOne s b e).map (·.1)) = _
      rw [hs1]; exact hf
    · rw [List.foldl_cons, hi, hview']
      rw [hview]; rfl

/-- the insert phase: succeeds, the new ids are distinct and above every id of the table -/
theorem inserts_fold {b : String} {k : Int} (l : List (Ev D)) (hl : ∀ e ∈ l, e.id = none)
    (s : St D) (h : Inv s) (hk : keyOf s b = some k) :
    ∃ s' ids, l.foldl (imStep b) (.ok s) = .ok s' ∧ Inv s' ∧ keyOf s' b = some k ∧
      ids.length = l.length ∧ ids.Nodup ∧ (∀ i ∈ ids, maxId s.events < i) ∧
      view s' = (l.zip ids).foldl (fun v p => Spec.insert v b p.2 p.1) (view s) := by
  induction l generalizing s with
  | nil => exact ⟨s, [], rfl, h, hk, rfl, List.nodup_nil, (fun i hi => by cases hi), rfl⟩
  | cons e t ih =>
    have he := hl e (List.mem_cons_self ..)
    obtain ⟨r, _, _, _, _, hv⟩ := keyOf_some h hk
    obtain ⟨s1, j, hs1⟩ := insertOne_total (e := e) h (by rw [hv]; rfl)
    have hI1 := insertOne_inv h hs1
    obtain ⟨i, hji, _, hview, _⟩ := insertOne_view h he hs1
    obtain ⟨k1, hk1, hj, hs1eq⟩ := insertOne_new_ok he hs1
    have hi : i = maxId s.events + 1 := by rw [hj] at hji; injection hji with hji; exact hji.symm
    have hk1' : keyOf s1 b = some k := by rw [hs1eq]; exact hk
    have hmax : i ≤ maxId s1.events := by
      rw [hs1eq, hi]
      exact id_le_maxId (r := ⟨maxId s.events + 1, k1, e.ts, e.dur, e.data⟩)
        (List.mem_append_right _ (List.mem_singleton.mpr rfl))
    obtain ⟨s', ids, hf, hI', hk', hlen, hnd, hfresh, hview'⟩ :=
      ih (fun x hx => hl x (List.mem_cons_of_mem _ hx)) s1 hI1 hk1'
    refine ⟨s', i :: ids, ?_, hI', hk', by simp [hlen], ?_, ?_, ?_⟩
    · rw [List.foldl_cons]
      show t.foldl (imStep b) ((insertOne s b e).map (·.1)) = _
      rw [hs1]; exact hf
    · rw [List.nodup_cons]
      refine ⟨fun hmem => ?_, hnd⟩
      have := hfresh i hmem
      omega
    · intro x hx
      rcases List.mem_cons.mp hx with rfl | hx'
      · omega
      · have := hfresh x hx'; omega
    · rw [List.zip_cons_cons, List.foldl_cons, hview', hview]

/-- both phases of `insert_many` on an existing bucket -/
theorem insertMany_run {s : St D} {b : String} (es : List (Ev D)) (h : Inv s)
    (hv : (view s b).isSome) :
    ∃ s' ids, insertMany s b es = .ok s' ∧ Inv s' ∧
      ids.length = (es.filter (fun e => e.id.isNone)).length ∧ ids.Nodup ∧
      (∀ i ∈ ids, ∀ b', i ∉ Spec.ids (view s) b') ∧
      view s' = ((es.filter (fun e => e.id.isNone)).zip ids).foldl (fun v p => Spec.insert v b p.2 p.1)
        ((es.filter (fun e => e.id.isSome)).foldl (fun v e => Spec.replaceId v b (e.id.getD 0) e) (view s)) := by
  obtain ⟨k, hk⟩ := view_isSome_keyOf h hv
  obtain ⟨s1, hf1, hI1, hk1, hids1, hview1⟩ :=
    upserts_fold (b := b) (es.filter (fun e => e.id.isSome))
      (fun e he => (List.mem_filter.mp he).2) s h hk
  obtain ⟨s2, ids, hf2, hI2, _, hlen, hnd, hfresh, hview2⟩ :=
    inserts_fold (b := b) (es.filter (fun e => e.id.isNone))
      (fun e he => by simpa using (List.mem_filter.mp he).2) s1 hI1 hk1
  refine ⟨s2, ids, ?_, hI2, hlen, hnd, ?_, ?_⟩
  · rw [insertMany_eq, hk]
    show List.foldl (imStep b) (List.foldl (imStep b) (.ok s) _) _ = _
    rw [hf1, hf2]
  · intro i hi b' hmem
    have h1 := hfresh i hi
    rw [maxId_congr hids1] at h1
    have h2 := ids_le_maxId s b' i hmem
    omega
  · rw [hview2, hview1]

theorem insertMany_view {s s' : St D} {b : String} {es : List (Ev D)} (h : Inv s)
    (hv : (view s b).isSome) (hc : insertMany s b es = .ok s') :
    ∃ ids : List Int, ids.length = (es.filter (fun e => e.id.isNone)).length ∧ ids.Nodup ∧
      (∀ i ∈ ids, ∀ b', i ∉ Spec.ids (view s) b') ∧
      view s' = ((es.filter (fun e => e.id.isNone)).zip ids).foldl (fun v p => Spec.insert v b p.2 p.1)
        ((es.filter (fun e => e.id.isSome)).foldl (fun v e => Spec.replaceId v b (e.id.getD 0) e) (view s)) := by
  obtain ⟨s2, ids, hrun, _, hlen, hnd, hfresh, hview⟩ := insertMany_run es h hv
  rw [hrun] at hc
  injection hc with hc
  subst hc
  exact ⟨ids, hlen, hnd, hfresh, hview⟩

/-- on a missing bucket `insert_many` is a no-op for the empty list and a KeyError otherwise -/
theorem insertMany_missing {s : St D} {b : String} {es : List (Ev D)} (h : Inv s)
    (hv : view s b = none) :
    insertMany s b es = if es.isEmpty then .ok s else .error .keyError := by
  rw [insertMany_eq, (keyOf_none_iff h b).mpr hv]

theorem insertMany_inv {s s' : St D} {b : String} {es : List (Ev D)} (h : Inv s)
    (hc : insertMany s b es = .ok s') : Inv s' := by
  cases hv : view s b with
  | none =>
    rw [insertMany_missing h hv] at hc
    split at hc
    · injection hc with hc; exact hc ▸ h
    · cases hc
  | some p =>
    obtain ⟨s2, ids, hrun, hI2, _⟩ := insertMany_run es h (show (view s b).isSome by rw [hv]; rfl)
    rw [hrun] at hc
    injection hc with hc
    exact hc ▸ hI2

/-! ### the hypotheses are satisfiable: a concrete state with two buckets, three events (two of
them in bucket "a" with the same instant; ids interleaved between the buckets) -/
namespace Example

def m0 : Meta := ⟨none, "t", "c", "h", "2020", "{}"⟩
def s0 : St Nat :=
  { buckets := [⟨1, "a", m0⟩, ⟨2, "b", m0⟩]
    events := [⟨1, 1, 10, 5, 7⟩, ⟨2, 2, 10, 0, 8⟩, ⟨3, 1, 10, 1, 9⟩]
    keys := [("a", 1), ("b", 2)] }
def e0 : Ev Nat := { ts := 20, dur := 1, data := 0 }

theorem inv0 : Inv s0 := ⟨by decide, by decide, by decide, rfl, by decide⟩

theorem view_a : view s0 "a" = some (m0, [⟨some 1, 10, 5, 7⟩, ⟨some 3, 10, 1, 9⟩]) := rfl

example : ∃ s', createBucket s0 "c" m0 = .ok s' ∧ view s' = Spec.create (view s0) "c" m0 :=
  ⟨_, rfl, (createBucket_view inv0 rfl).2⟩
example : createBucket s0 "a" m0 = .error .integrity := createBucket_exists inv0 rfl
example : ∃ s', updateBucket s0 "a" { type := some "u" } = .ok s' ∧
    view s' = Spec.update (view s0) "a" (Upd.apply { type := some "u" }) :=
  ⟨_, rfl, (updateBucket_view inv0 rfl).2⟩
example : updateBucket s0 "zz" {} = .error .valueError := updateBucket_missing inv0 rfl
example : ∃ s', deleteBucket s0 "a" = .ok s' ∧ view s' = Spec.deleteBucket (view s0) "a" :=
  ⟨_, rfl, (deleteBucket_view inv0 rfl).2⟩
example : deleteBucket s0 "zz" = .error .valueError := deleteBucket_missing inv0 rfl
example : getMetadata s0 "a" = .ok m0 := getMetadata_eq inv0
example : ("b", m0) ∈ bucketsOf s0 := (bucketsOf_eq inv0 "b" m0).mpr ⟨_, rfl⟩
example : ∃ s', insertOne s0 "a" e0 = .ok (s', some 4) ∧ view s' = Spec.insert (view s0) "a" 4 e0 := by
  refine ⟨_, rfl, ?_⟩
  obtain ⟨i, hi, _, hv, _⟩ := insertOne_view inv0 (e := e0) (b := "a") rfl rfl
  injection hi with hi
  rw [← hi] at hv; exact hv
example : insertOne s0 "zz" e0 = .error .keyError := insertOne_missing inv0 rfl
/-- upsert with an id that lives in the *other* bucket: a no-op on both, as the list model says -/
example : ∃ s', insertOne s0 "a" { e0 with id := some 2 } = .ok (s', some 2) ∧
    view s' = Spec.replaceId (view s0) "a" 2 { e0 with id := some 2 } :=
  ⟨_, rfl, (insertOne_upsert_view inv0 rfl rfl).2.2⟩
example : ∃ s', replace s0 "a" 3 e0 = .ok s' ∧ view s' = Spec.replaceId (view s0) "a" 3 e0 :=
  ⟨_, rfl, (replace_view inv0 rfl).2⟩
example : replace s0 "a" 2 e0 = .error .attributeError :=
  (replace_notLive inv0 rfl (by decide)).1
example : ∃ s' n, delete s0 "a" 3 = .ok (s', n) ∧ view s' = Spec.delete (view s0) "a" 3 ∧ n = 1 := by
  refine ⟨_, _, rfl, (delete_view inv0 rfl).1, rfl⟩
/-- deleting an id of another bucket removes nothing -/
example : ∃ s' n, delete s0 "a" 2 = .ok (s', n) ∧ view s' = view s0 ∧ n = 0 := by
  refine ⟨_, _, rfl, ?_, rfl⟩
  rw [(delete_view inv0 (b := "a") (i := 2) rfl).1]
  funext b'; by_cases hb : b' = "a"
  · subst hb; rfl
  · exact Spec.frame_delete hb
/-- two newest events (ids 1 and 3, same instant): both hints are accepted, `getEvents … 1` names id 1 -/
example : getEvents s0 "a" 1 none none = .ok [⟨some 1, 10, 5, 7⟩] := rfl
example : ∃ s', replaceLast s0 "a" (some 3) e0 = .ok (some (s', 3)) ∧
    view s' = Spec.replaceId (view s0) "a" 3 e0 := by
  refine ⟨_, rfl, ?_⟩
  obtain ⟨_, _, _, _, hv⟩ := replaceLast_hint_view inv0 view_a (hint := some 3) (e := e0) rfl
  exact hv
example := replaceLast_view inv0 view_a (by decide)
example := getEvents_one_first inv0 view_a (by decide)
example : ∃ s', insertMany s0 "a" [e0, { e0 with id := some 3 }, { e0 with id := some 2 }, e0] = .ok s' :=
  ⟨_, rfl⟩
example := insertMany_view inv0 (b := "a")
  (es := [e0, { e0 with id := some 3 }, { e0 with id := some 2 }, e0]) rfl rfl
example : getEvent s0 "a" 3 = .ok (some ⟨some 3, 10, 1, 9⟩) := getEvent_eq inv0 view_a
example : getEvent s0 "a" 2 = .ok none := getEvent_eq inv0 view_a
example : ([⟨some 1, 10, 5, 7⟩, ⟨some 3, 10, 1, 9⟩] : List (Ev Nat)).filterMap (·.id) |>.Nodup :=
  (ids_nodup inv0 view_a).1

end Example
end Aw.Store.Peewee
