import AwModel.PySort
/-!
# Lemmas about the stable insertion sort `Aw.PySort.sortBy`

`sortBy_perm`, `sortBy_sorted`, `sortBy_stable` (elements with one key keep their input order);
the same for `sortByDesc`. Together they determine the result uniquely.
-/
namespace AwProofs.PySort
open Aw.PySort
variable {α : Type}

/-- ascending in the key -/
def Sorted (key : α → Int) (l : List α) : Prop := l.Pairwise (fun a b => key a ≤ key b)

/-- descending in the key -/
def SortedDesc (key : α → Int) (l : List α) : Prop := l.Pairwise (fun a b => key b ≤ key a)

theorem insertBy_perm (key : α → Int) (a : α) (l : List α) : (insertBy key a l).Perm (a :: l) := by
  induction l with
  | nil => simp [insertBy]
  | cons b r ih =>
    simp only [insertBy]
    split
    · exact List.Perm.refl _
    · exact (List.Perm.cons b ih).trans (List.Perm.swap a b r)

theorem sortBy_perm (key : α → Int) (l : List α) : (sortBy key l).Perm l := by
  induction l with
  | nil => simp [sortBy]
  | cons a l ih =>
    simp only [sortBy]
    exact (insertBy_perm key a _).trans (List.Perm.cons a ih)

theorem insertBy_sorted (key : α → Int) (a : α) (l : List α) (h : Sorted key l) :
    Sorted key (insertBy key a l) := by
  induction l with
  | nil => simp [insertBy, Sorted]
  | cons b r ih =>
    unfold Sorted at h
    rw [List.pairwise_cons] at h
    simp only [insertBy]
    split
    · rename_i hab
      unfold Sorted
      rw [List.pairwise_cons]
      refine ⟨?_, List.pairwise_cons.2 h⟩
      intro x hx
      rcases List.mem_cons.1 hx with rfl | hx
      · exact hab
      · exact Int.le_trans hab (h.1 x hx)
    · rename_i hab
      unfold Sorted
      rw [List.pairwise_cons]
      refine ⟨?_, ih h.2⟩
      intro x hx
      have hx' := (insertBy_perm key a r).mem_iff.1 hx
      rcases List.mem_cons.1 hx' with rfl | hx'
      · omega
      · exact h.1 x hx'

theorem sortBy_sorted (key : α → Int) (l : List α) : Sorted key (sortBy key l) := by
  induction l with
  | nil => simp [sortBy, Sorted]
  | cons a l ih => exact insertBy_sorted key a _ ih

theorem insertBy_filter (key : α → Int) (k : Int) (a : α) (l : List α) :
    (insertBy key a l).filter (fun x => key x = k) = (a :: l).filter (fun x => key x = k) := by
  induction l with
  | nil => simp [insertBy]
  | cons b r ih =>
    simp only [insertBy]
    split
    · rfl
    · rename_i hab
      rw [List.filter_cons, ih]
      by_cases hb : key b = k
      · have ha : ¬ key a = k := by omega
        simp [hb, ha]
      · simp [List.filter_cons, hb]

/-- stability: the elements with any one key appear in their input order -/
theorem sortBy_stable (key : α → Int) (k : Int) (l : List α) :
    (sortBy key l).filter (fun x => key x = k) = l.filter (fun x => key x = k) := by
  induction l with
  | nil => simp [sortBy]
  | cons a l ih =>
    simp only [sortBy]
    rw [insertBy_filter, List.filter_cons, List.filter_cons, ih]

theorem sortByDesc_perm (key : α → Int) (l : List α) : (sortByDesc key l).Perm l :=
  sortBy_perm _ l

theorem sortByDesc_sorted (key : α → Int) (l : List α) : SortedDesc key (sortByDesc key l) := by
  have h := sortBy_sorted (fun a => - key a) l
  unfold Sorted at h
  unfold SortedDesc sortByDesc
  exact h.imp (fun {a b} hab => by simp only at hab; omega)

theorem sortByDesc_stable (key : α → Int) (k : Int) (l : List α) :
    (sortByDesc key l).filter (fun x => key x = k) = l.filter (fun x => key x = k) := by
  have h := sortBy_stable (fun a => - key a) (-k) l
  have e : (fun x : α => decide (-key x = -k)) = (fun x => decide (key x = k)) := by
    funext x
    by_cases hx : key x = k
    · simp [hx]
    · have : ¬ (-key x = -k) := by omega
      simp [hx, this]
  unfold sortByDesc
  rw [e] at h
  exact h

end AwProofs.PySort
