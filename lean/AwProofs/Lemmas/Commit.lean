import AwModel.Store.Commit
/-!
# Lemmas on the commit machine (`AwModel/Store/Commit.lean`) for C06 and C18

* `COp`, `cstep`, `crun`: operations with their clock reading, the total step function (the state
  component of the model functions, also in the error cases) and its iteration.
* `sHist s ops` / `curHist c ops`: the GHOST-FREE history of connection states: every value `cur`
  takes after each elementary write of `ops`, computed on the table model `Sqlite.St` alone —
  it does not mention `n`, `last`, `pend`, `txn`, `lazy`, `log`, i.e. no commit decision.
* `Pre s0 h c`: "`c.cur` is the last state of the history `h` started in `s0`, `c.dur` is the state
  after a prefix of `h`, and the number of elementary writes after that prefix is
  `c.pend.length`". It is preserved by every step with `h` extended by the step's elementary writes.
-/
namespace AwProofs.CommitL
open Aw Aw.Store Aw.Store.Commit
variable {D : Type}

/-! ## operations -/

inductive COp (D : Type) where
  | createBucket (now : Int) (b : String) (m : Meta)
  | updateBucket (now : Int) (b : String) (u : Upd)
  | deleteBucket (now : Int) (b : String)
  | insertOne (now : Int) (b : String) (e : Ev D)
  | insertMany (now : Int) (b : String) (es : List (Ev D))
  | replace (now : Int) (b : String) (i : Int) (e : Ev D)
  | replaceLast (now : Int) (b : String) (e : Ev D)
  | delete (now : Int) (b : String) (i : Int)
  | read (now : Int)

/-- the clock reading an operation carries -/
def COp.now : COp D → Int
  | .createBucket t .. | .updateBucket t .. | .deleteBucket t .. | .insertOne t ..
  | .insertMany t .. | .replace t .. | .replaceLast t .. | .delete t .. | .read t => t

/-- the state after the operation (also when it raises) -/
def cstep (c : CSt D) : COp D → CSt D
  | .createBucket now b m => (Commit.createBucket c now b m).2
  | .updateBucket now b u => (Commit.updateBucket c now b u).2
  | .deleteBucket now b => (Commit.deleteBucket c now b).2
  | .insertOne now b e => (Commit.insertOne c now b e).2
  | .insertMany now b es => (Commit.insertMany c now b es).2
  | .replace now b i e => Commit.replace c now b i e
  | .replaceLast now b e => Commit.replaceLast c now b e
  | .delete now b i => (Commit.delete c now b i).1
  | .read now => Commit.readCommit c now

/-- did the operation return normally? -/
def cok (c : CSt D) : COp D → Bool
  | .createBucket now b m => (Commit.createBucket c now b m).1.isOk
  | .updateBucket now b u => (Commit.updateBucket c now b u).1.isOk
  | .deleteBucket now b => (Commit.deleteBucket c now b).1.isOk
  | .insertOne now b e => (Commit.insertOne c now b e).1.isOk
  | .insertMany now b es => (Commit.insertMany c now b es).1.isOk
  | .replace .. | .replaceLast .. | .delete .. | .read .. => true

def crun (c : CSt D) (ops : List (COp D)) : CSt D := ops.foldl cstep c

@[simp] theorem crun_nil (c : CSt D) : crun c [] = c := rfl
@[simp] theorem crun_cons (c : CSt D) (op : COp D) (ops : List (COp D)) :
    crun c (op :: ops) = crun (cstep c op) ops := rfl
theorem crun_append (c : CSt D) (l1 l2 : List (COp D)) :
    crun c (l1 ++ l2) = crun (crun c l1) l2 := by simp [crun, List.foldl_append]

/-- operation kinds -/
def COp.isBucketOp : COp D → Bool
  | .createBucket .. | .updateBucket .. | .deleteBucket .. => true
  | _ => false

def COp.isSingleEventWrite : COp D → Bool
  | .insertOne .. | .replace .. | .replaceLast .. | .delete .. => true
  | _ => false

def COp.isEventWrite : COp D → Bool
  | .insertOne .. | .replace .. | .replaceLast .. | .delete .. | .insertMany .. => true
  | _ => false

/-! ## the ghost-free history of connection states -/

/-- states after each upsert of `insert_many` -/
def upsertStates (s : Sqlite.St D) (b : String) : List (Ev D) → List (Sqlite.St D)
  | [] => []
  | e :: es => Sqlite.replace s b (e.id.getD 0) e :: upsertStates (Sqlite.replace s b (e.id.getD 0) e) b es

/-- states after each row of the bulk INSERT (it stops at the first failing row) -/
def rowStates (s : Sqlite.St D) (b : String) : List (Ev D) → List (Sqlite.St D)
  | [] => []
  | e :: es => match Sqlite.insertOne s b e with
    | .error _ => []
    | .ok (s', _) => s' :: rowStates s' b es

/-- last state of a history started in `s0` -/
def lastD (s0 : Sqlite.St D) (h : List (Sqlite.St D)) : Sqlite.St D := h.getLast?.getD s0

@[simp] theorem lastD_nil (s0 : Sqlite.St D) : lastD s0 [] = s0 := rfl
@[simp] theorem lastD_append_singleton (s0 s : Sqlite.St D) (h : List (Sqlite.St D)) :
    lastD s0 (h ++ [s]) = s := by simp [lastD]
theorem lastD_append (s0 : Sqlite.St D) (h1 h2 : List (Sqlite.St D)) :
    lastD s0 (h1 ++ h2) = lastD (lastD s0 h1) h2 := by
  unfold lastD
  cases h2 with
  | nil => simp
  | cons x xs => simp [List.getLast?_append]
theorem lastD_mem (s0 : Sqlite.St D) (h : List (Sqlite.St D)) : lastD s0 h ∈ s0 :: h := by
  unfold lastD
  cases hh : h.getLast? with
  | none => simp
  | some x => simp [List.mem_of_getLast? hh]

/-- the connection states produced by the ELEMENTARY writes of one operation started in `s`, in
    issue order: one per executed statement that may change a table (an event write whose WHERE
    clause matches nothing contributes the unchanged state); statements that raise contribute
    nothing; `insert_many` contributes one state per upsert and one per inserted row;
    `delete_bucket` contributes its result state. -/
def elems (s : Sqlite.St D) : COp D → List (Sqlite.St D)
  | .createBucket _ b m => match Sqlite.createBucket s b m with | .ok s' => [s'] | .error _ => []
  | .updateBucket _ b u => match Sqlite.updateBucket s b u with | .ok s' => [s'] | .error _ => []
  | .deleteBucket _ b => match Sqlite.deleteBucket s b with | .ok s' => [s'] | .error _ => []
  | .insertOne _ b e => match Sqlite.insertOne s b e with | .ok (s', _) => [s'] | .error _ => []
  | .insertMany _ b es =>
    let ups := es.filter (fun e => e.id.isSome)
    upsertStates s b ups ++ rowStates (lastD s (upsertStates s b ups)) b (es.filter (fun e => e.id.isNone))
  | .replace _ b i e => [Sqlite.replace s b i e]
  | .replaceLast _ b e => [Sqlite.replaceLast s b e]
  | .delete _ b i => [(Sqlite.delete s b i).1]
  | .read _ => []

/-- the connection state after one operation, on the table model alone -/
def sstep (s : Sqlite.St D) (op : COp D) : Sqlite.St D := lastD s (elems s op)

/-- history of connection states of a list of operations started in `s` -/
def sHist (s : Sqlite.St D) : List (COp D) → List (Sqlite.St D)
  | [] => []
  | op :: ops => elems s op ++ sHist (sstep s op) ops

/-- every value `cur` takes after each elementary write of `ops`, started in `c` -/
def curHist (c : CSt D) (ops : List (COp D)) : List (Sqlite.St D) := sHist c.cur ops

theorem sHist_append (s : Sqlite.St D) (l1 l2 : List (COp D)) :
    sHist s (l1 ++ l2) = sHist s l1 ++ sHist (lastD s (sHist s l1)) l2 := by
  induction l1 generalizing s with
  | nil => simp [sHist]
  | cons op ops ih => simp [sHist, ih, lastD_append, sstep]

/-! ## `Pre`: dur is the state after a prefix of the history; the rest is exactly the pending writes -/

def Pre (s0 : Sqlite.St D) (h : List (Sqlite.St D)) (c : CSt D) : Prop :=
  c.cur = lastD s0 h ∧
  ∃ pre post, h = pre ++ post ∧ c.dur = lastD s0 pre ∧ post.length = c.pend.length

theorem Pre.init (c : CSt D) (h1 : c.dur = c.cur) (h2 : c.pend = []) : Pre c.cur [] c :=
  ⟨rfl, [], [], rfl, h1, by simp [h2]⟩

theorem Pre.wrote {s0 : Sqlite.St D} {h c} (p : Pre s0 h c) (s : Sqlite.St D) (now : Int) :
    Pre s0 (h ++ [s]) (Commit.wrote c s now) := by
  obtain ⟨_, pre, post, rfl, h3, h4⟩ := p
  exact ⟨by rw [lastD_append_singleton]; rfl, pre, post ++ [s], by simp, h3, by simp [Commit.wrote, h4]⟩

theorem Pre.commit {s0 : Sqlite.St D} {h c} (p : Pre s0 h c) (now : Int) :
    Pre s0 h (Commit.commit c now) := by
  obtain ⟨h1, _⟩ := p
  exact ⟨h1, h, [], by simp, h1, rfl⟩

theorem Pre.setTxn {s0 : Sqlite.St D} {h c} (p : Pre s0 h c) :
    Pre s0 h { c with txn := true } := p

theorem Pre.condCommit {s0 : Sqlite.St D} {h c} (p : Pre s0 h c) (k : Nat) (now : Int) :
    Pre s0 h (Commit.condCommit c k now) := by
  have q : Pre s0 h { c with n := c.n + k } := p
  unfold Commit.condCommit
  split
  · dsimp only
    split <;> split <;> first | exact (q.commit now).commit now | exact q.commit now | exact q
  · exact p.commit now

theorem Pre.wroteB_commit {s0 : Sqlite.St D} {h c} (_p : Pre s0 h c) (s : Sqlite.St D) (now : Int) :
    Pre s0 (h ++ [s]) (Commit.commit (Commit.wroteB c s) now) :=
  ⟨by simp [Commit.commit, Commit.wroteB], h ++ [s], [], by simp, by simp [Commit.commit, Commit.wroteB], rfl⟩


/-! ### the pieces of `insert_many` -/

/-- the upsert loop of `insert_many` -/
def upserts (c : CSt D) (now : Int) (b : String) (ups : List (Ev D)) : CSt D :=
  ups.foldl (fun c e => Commit.replace c now b (e.id.getD 0) e) c

@[simp] theorem upserts_nil (c : CSt D) (now : Int) (b : String) : upserts c now b [] = c := rfl
@[simp] theorem upserts_cons (c : CSt D) (now : Int) (b : String) (e : Ev D) (es : List (Ev D)) :
    upserts c now b (e :: es) = upserts (Commit.replace c now b (e.id.getD 0) e) now b es := rfl

/-- the state in the middle of `insert_many`: after the upserts and the bulk INSERT, before the
    final `conditional_commit(len(rows))` -/
def insertManyMid (c : CSt D) (now : Int) (b : String) (es : List (Ev D)) : CSt D :=
  (Commit.insertRows (upserts c now b (es.filter (fun e => e.id.isSome))) now b
    (es.filter (fun e => e.id.isNone))).2

theorem insertRows_fst (c : CSt D) (now : Int) (b : String) (rows : List (Ev D)) (c2 : CSt D)
    (h : (Commit.insertRows c now b rows).1 = .ok c2) : c2 = (Commit.insertRows c now b rows).2 := by
  induction rows generalizing c with
  | nil => simp only [Commit.insertRows, Except.ok.injEq] at h ⊢; exact h.symm
  | cons e es ih =>
    cases heq : Sqlite.insertOne c.cur b e with
    | error x => simp [Commit.insertRows, heq] at h
    | ok si =>
      simp only [Commit.insertRows, heq] at h ⊢
      exact ih _ h

/-- `insert_many`, decomposed -/
theorem insertMany_snd (c : CSt D) (now : Int) (b : String) (es : List (Ev D)) :
    (Commit.insertMany c now b es).2 =
      if (Commit.insertMany c now b es).1.isOk then
        Commit.condCommit (insertManyMid c now b es) (es.filter (fun e => e.id.isNone)).length now
      else insertManyMid c now b es := by
  have key : ∀ (k : Nat) (q : Except Err (CSt D) × CSt D), (∀ c2, q.1 = .ok c2 → c2 = q.2) →
      (match q with
        | (.error x, c2) => ((.error x : Except Err (CSt D)), c2)
        | (.ok c2, _) => (.ok (Commit.condCommit c2 k now), Commit.condCommit c2 k now)).2 =
      if (match q with
        | (.error x, c2) => ((.error x : Except Err (CSt D)), c2)
        | (.ok c2, _) => (.ok (Commit.condCommit c2 k now), Commit.condCommit c2 k now)).1.isOk then
        Commit.condCommit q.2 k now else q.2 := by
    rintro k ⟨r, c2'⟩ hq
    cases r with
    | error x => simp [Except.isOk, Except.toBool]
    | ok c2 =>
      have := hq c2 rfl
      simp only at this
      simp [Except.isOk, Except.toBool, this]
  exact key _ _ (insertRows_fst _ _ _ _)

theorem Pre.replace {s0 : Sqlite.St D} {h c} (p : Pre s0 h c) (now : Int) (b : String) (i : Int) (e : Ev D) :
    Pre s0 (h ++ [Sqlite.replace c.cur b i e]) (Commit.replace c now b i e) :=
  (p.wrote _ now).condCommit 1 now

theorem Pre.cur_eq {s0 : Sqlite.St D} {h c} (p : Pre s0 h c) : c.cur = lastD s0 h := p.1

theorem Pre.upserts {s0 : Sqlite.St D} {h c} (p : Pre s0 h c) (now : Int) (b : String) (ups : List (Ev D)) :
    Pre s0 (h ++ upsertStates c.cur b ups) (upserts c now b ups) := by
  induction ups generalizing h c with
  | nil => simpa [upsertStates] using p
  | cons e es ih =>
    have q := p.replace now b (e.id.getD 0) e
    have := ih q
    rw [q.cur_eq, lastD_append_singleton, List.append_assoc] at this
    simpa [upsertStates] using this

theorem Pre.insertRows {s0 : Sqlite.St D} {h c} (p : Pre s0 h c) (now : Int) (b : String) (rows : List (Ev D)) :
    Pre s0 (h ++ rowStates c.cur b rows) (Commit.insertRows c now b rows).2 := by
  induction rows generalizing h c with
  | nil => simpa [rowStates, Commit.insertRows] using p
  | cons e es ih =>
    unfold Commit.insertRows rowStates
    split
    · rename_i x heq
      simpa [heq] using p.setTxn
    · rename_i s i heq
      have q := p.wrote s now
      have := ih q
      rw [q.cur_eq, lastD_append_singleton, List.append_assoc] at this
      simpa [heq] using this

theorem Pre.insertManyMid {s0 : Sqlite.St D} {h c} (p : Pre s0 h c) (now : Int) (b : String) (es : List (Ev D)) :
    Pre s0 (h ++ elems c.cur (.insertMany now b es)) (insertManyMid c now b es) := by
  have q := p.upserts now b (es.filter (fun e => e.id.isSome))
  have r := q.insertRows now b (es.filter (fun e => e.id.isNone))
  rw [q.cur_eq, lastD_append, ← p.cur_eq, List.append_assoc] at r
  exact r

/-- one step extends the history by the step's elementary writes -/
theorem Pre.step {s0 : Sqlite.St D} {h c} (p : Pre s0 h c) (op : COp D) :
    Pre s0 (h ++ elems c.cur op) (cstep c op) := by
  cases op with
  | createBucket now b m =>
    cases heq : Sqlite.createBucket c.cur b m with
    | error x => simpa [cstep, Commit.createBucket, elems, heq] using p.setTxn
    | ok s => simpa [cstep, Commit.createBucket, elems, heq] using p.wroteB_commit s now
  | updateBucket now b u =>
    by_cases hu : u.isEmpty = true
    · have : Sqlite.updateBucket c.cur b u = .error .valueError := by simp [Sqlite.updateBucket, hu]
      simpa [cstep, Commit.updateBucket, elems, hu, this] using p
    · cases heq : Sqlite.updateBucket c.cur b u with
      | error x => simpa [cstep, Commit.updateBucket, elems, heq, hu] using p.setTxn.commit now
      | ok s => simpa [cstep, Commit.updateBucket, elems, heq, hu] using p.wroteB_commit s now
  | deleteBucket now b =>
    cases heq : Sqlite.deleteBucket c.cur b with
    | error x => simpa [cstep, Commit.deleteBucket, elems, heq] using p.setTxn.commit now
    | ok s => simpa [cstep, Commit.deleteBucket, elems, heq] using p.wroteB_commit s now
  | insertOne now b e =>
    cases heq : Sqlite.insertOne c.cur b e with
    | error x => simpa [cstep, Commit.insertOne, elems, heq] using p.setTxn
    | ok si => simpa [cstep, Commit.insertOne, elems, heq] using (p.wrote si.1 now).condCommit 1 now
  | insertMany now b es =>
    have q := p.insertManyMid now b es
    simp only [cstep]
    rw [insertMany_snd]
    split
    · exact q.condCommit _ now
    · exact q
  | replace now b i e => exact p.replace now b i e
  | replaceLast now b e => exact (p.wrote _ now).condCommit 1 now
  | delete now b i => exact (p.wrote _ now).condCommit 1 now
  | read now => simpa [elems, cstep, Commit.readCommit] using p.commit now

/-- `cur` evolves by the table model alone, whatever was committed -/
theorem Pre.cstep_cur {s0 : Sqlite.St D} {h c} (p : Pre s0 h c) (op : COp D) :
    (cstep c op).cur = sstep c.cur op := by
  rw [(p.step op).cur_eq, lastD_append, ← p.cur_eq]; rfl

theorem Pre.run {s0 : Sqlite.St D} {h c} (p : Pre s0 h c) (ops : List (COp D)) :
    Pre s0 (h ++ sHist c.cur ops) (crun c ops) := by
  induction ops generalizing h c with
  | nil => simpa [sHist] using p
  | cons op ops ih =>
    have := ih (p.step op)
    rw [p.cstep_cur op, List.append_assoc] at this
    exact this

/-- from a clean state, after any history: `cur` is the last state of the ghost-free history,
    `dur` is the state after a prefix of it, and exactly `pend.length` elementary writes follow -/
theorem pre_run (c0 : CSt D) (h1 : c0.dur = c0.cur) (h2 : c0.pend = []) (ops : List (COp D)) :
    Pre c0.cur (curHist c0 ops) (crun c0 ops) := by
  simpa [curHist] using (Pre.init c0 h1 h2).run ops

end AwProofs.CommitL
