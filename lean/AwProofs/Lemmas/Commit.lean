import AwModel.Store.Commit
/-!
# Lemmas on the commit machine (`AwModel/Store/Commit.lean`) for C06 and C18

* `COp`, `cstep`, `crun`: operations with their clock reading, the total step function (the state
  component of the model functions, also in the error cases) and its iteration.
* `sHist s ops` / `curHist c ops`: the GHOST-FREE history of connection states: every value `cur`
  takes after each elementary write of `ops`, computed on the table model `Sqlite.St` alone —
  it does not mention `n`, `last`, `pend`, `txn`, `lazy`, `log`, i.e. no commit decision.
* `Pre s0 h c`: "`c.cur` is the last state of the history `h` started in `s0`, `c.dur` is the state
  after a prefix of `h`, and the number of elementary writes after that prefix is
  `c.pend.length`". It is preserved by every step with `h` extended by the step's elementary writes.
-/
namespace AwProofs.CommitL
open Aw Aw.Store Aw.Store.Commit
variable {D : Type}

/-! ## operations -/

inductive COp (D : Type) where
  | createBucket (now : Int) (b : String) (m : Meta)
  | updateBucket (now : Int) (b : String) (u : Upd)
  | deleteBucket (now : Int) (b : String)
  | insertOne (now : Int) (b : String) (e : Ev D)
  | insertMany (now : Int) (b : String) (es : List (Ev D))
  | replace (now : Int) (b : String) (i : Int) (e : Ev D)
  | replaceLast (now : Int) (b : String) (e : Ev D)
  | delete (now : Int) (b : String) (i : Int)
  | read (now : Int)

/-- the clock reading an operation carries -/
def COp.now : COp D → Int
  | .createBucket t .. | .updateBucket t .. | .deleteBucket t .. | .insertOne t ..
  | .insertMany t .. | .replace t .. | .replaceLast t .. | .delete t .. | .read t => t

/-- the state after the operation (also when it raises) -/
def cstep (c : CSt D) : COp D → CSt D
  | .createBucket now b m => (Commit.createBucket c now b m).2
  | .updateBucket now b u => (Commit.updateBucket c now b u).2
  | .deleteBucket now b => (Commit.deleteBucket c now b).2
  | .insertOne now b e => (Commit.insertOne c now b e).2
  | .insertMany now b es => (Commit.insertMany c now b es).2
  | .replace now b i e => Commit.replace c now b i e
  | .replaceLast now b e => Commit.replaceLast c now b e
  | .delete now b i => (Commit.delete c now b i).1
  | .read now => Commit.readCommit c now

/-- did the operation return normally? -/
def cok (c : CSt D) : COp D → Bool
  | .createBucket now b m => (Commit.createBucket c now b m).1.isOk
  | .updateBucket now b u => (Commit.updateBucket c now b u).1.isOk
  | .deleteBucket now b => (Commit.deleteBucket c now b).1.isOk
  | .insertOne now b e => (Commit.insertOne c now b e).1.isOk
  | .insertMany now b es => (Commit.insertMany c now b es).1.isOk
  | .replace .. | .replaceLast .. | .delete .. | .read .. => true

def crun (c : CSt D) (ops : List (COp D)) : CSt D := ops.foldl cstep c

@[simp] theorem crun_nil (c : CSt D) : crun c [] = c := rfl
@[simp] theorem crun_cons (c : CSt D) (op : COp D) (ops : List (COp D)) :
    crun c (op :: ops) = crun (cstep c op) ops := rfl
theorem crun_append (c : CSt D) (l1 l2 : List (COp D)) :
    crun c (l1 ++ l2) = crun (crun c l1) l2 := by simp [crun, List.foldl_append]

/-- operation kinds -/
def COp.isBucketOp : COp D → Bool
  | .createBucket .. | .updateBucket .. | .deleteBucket .. => true
  | _ => false

def COp.isSingleEventWrite : COp D → Bool
  | .insertOne .. | .replace .. | .replaceLast .. | .delete .. => true
  | _ => false

def COp.isEventWrite : COp D → Bool
  | .insertOne .. | .replace .. | .replaceLast .. | .delete .. | .insertMany .. => true
  | _ => false

/-! ## the ghost-free history of connection states -/

/-- states after each upsert of `insert_many` -/
def upsertStates (s : Sqlite.St D) (b : String) : List (Ev D) → List (Sqlite.St D)
  | [] => []
  | e :: es => Sqlite.replace s b (e.id.getD 0) e :: upsertStates (Sqlite.replace s b (e.id.getD 0) e) b es

/-- states after each row of the bulk INSERT (it stops at the first failing row) -/
def rowStates (s : Sqlite.St D) (b : String) : List (Ev D) → List (Sqlite.St D)
  | [] => []
  | e :: es => match Sqlite.insertOne s b e with
    | .error _ => []
    | .ok (s', _) => s' :: rowStates s' b es

/-- last state of a history started in `s0` -/
def lastD (s0 : Sqlite.St D) (h : List (Sqlite.St D)) : Sqlite.St D := h.getLast?.getD s0

@[simp] theorem lastD_nil (s0 : Sqlite.St D) : lastD s0 [] = s0 := rfl
@[simp] theorem lastD_append_singleton (s0 s : Sqlite.St D) (h : List (Sqlite.St D)) :
    lastD s0 (h ++ [s]) = s := by simp [lastD]
theorem lastD_append (s0 : Sqlite.St D) (h1 h2 : List (Sqlite.St D)) :
    lastD s0 (h1 ++ h2) = lastD (lastD s0 h1) h2 := by
  unfold lastD
  cases h2 with
  | nil => simp
  | cons x xs => simp [List.getLast?_append]
theorem lastD_mem (s0 : Sqlite.St D) (h : List (Sqlite.St D)) : lastD s0 h ∈ s0 :: h := by
  unfold lastD
  cases hh : h.getLast? with
  | none => simp
  | some x => simp [List.mem_of_getLast? hh]

/-- `insert_many` raises (from its bulk INSERT) exactly when the bucket does not exist and there is
    an id-less event; its UPDATEs then matched no row -/
def bulkFails (s : Sqlite.St D) (b : String) (es : List (Ev D)) : Bool :=
  (Sqlite.rowOf s b).isNone && !(es.filter (fun e => e.id.isNone)).isEmpty

/-- the connection states produced by the ELEMENTARY writes of one operation started in `s`, in
    issue order: one per executed statement that may change a table (an event write whose WHERE
    clause matches nothing contributes the unchanged state); statements that raise contribute
    nothing; `insert_many` contributes one state per upsert and one per inserted row (none when it raises);
    `delete_bucket` contributes its result state. -/
def elems (s : Sqlite.St D) : COp D → List (Sqlite.St D)
  | .createBucket _ b m => match Sqlite.createBucket s b m with | .ok s' => [s'] | .error _ => []
  | .updateBucket _ b u => match Sqlite.updateBucket s b u with | .ok s' => [s'] | .error _ => []
  | .deleteBucket _ b => match Sqlite.deleteBucket s b with | .ok s' => [s'] | .error _ => []
  | .insertOne _ b e => match Sqlite.insertOne s b e with | .ok (s', _) => [s'] | .error _ => []
  | .insertMany _ b es =>
    let ups := es.filter (fun e => e.id.isSome)
    if bulkFails s b es then [] else
    upsertStates s b ups ++ rowStates (lastD s (upsertStates s b ups)) b (es.filter (fun e => e.id.isNone))
  | .replace _ b i e => [Sqlite.replace s b i e]
  | .replaceLast _ b e => [Sqlite.replaceLast s b e]
  | .delete _ b i => [(Sqlite.delete s b i).1]
  | .read _ => []

/-- the connection state after one operation, on the table model alone -/
def sstep (s : Sqlite.St D) (op : COp D) : Sqlite.St D := lastD s (elems s op)

/-- history of connection states of a list of operations started in `s` -/
def sHist (s : Sqlite.St D) : List (COp D) → List (Sqlite.St D)
  | [] => []
  | op :: ops => elems s op ++ sHist (sstep s op) ops

/-- every value `cur` takes after each elementary write of `ops`, started in `c` -/
def curHist (c : CSt D) (ops : List (COp D)) : List (Sqlite.St D) := sHist c.cur ops

theorem sHist_append (s : Sqlite.St D) (l1 l2 : List (COp D)) :
    sHist s (l1 ++ l2) = sHist s l1 ++ sHist (lastD s (sHist s l1)) l2 := by
  induction l1 generalizing s with
  | nil => simp [sHist]
  | cons op ops ih => simp [sHist, ih, lastD_append, sstep]

/-! ## `Pre`: dur is the state after a prefix of the history; the rest is exactly the pending writes -/

def Pre (s0 : Sqlite.St D) (h : List (Sqlite.St D)) (c : CSt D) : Prop :=
  c.cur = lastD s0 h ∧
  ∃ pre post, h = pre ++ post ∧ c.dur = lastD s0 pre ∧ post.length = c.pend.length

theorem Pre.init (c : CSt D) (h1 : c.dur = c.cur) (h2 : c.pend = []) : Pre c.cur [] c :=
  ⟨rfl, [], [], rfl, h1, by simp [h2]⟩

theorem Pre.wrote {s0 : Sqlite.St D} {h c} (p : Pre s0 h c) (s : Sqlite.St D) (now : Int) :
    Pre s0 (h ++ [s]) (Commit.wrote c s now) := by
  obtain ⟨_, pre, post, rfl, h3, h4⟩ := p
  exact ⟨by rw [lastD_append_singleton]; rfl, pre, post ++ [s], by simp, h3, by simp [Commit.wrote, h4]⟩

theorem Pre.commit {s0 : Sqlite.St D} {h c} (p : Pre s0 h c) (now : Int) :
    Pre s0 h (Commit.commit c now) := by
  obtain ⟨h1, _⟩ := p
  exact ⟨h1, h, [], by simp, h1, rfl⟩

theorem Pre.setTxn {s0 : Sqlite.St D} {h c} (p : Pre s0 h c) :
    Pre s0 h { c with txn := true } := p

theorem Pre.condCommit {s0 : Sqlite.St D} {h c} (p : Pre s0 h c) (k : Nat) (now : Int) :
    Pre s0 h (Commit.condCommit c k now) := by
  have q : Pre s0 h { c with n := c.n + k } := p
  unfold Commit.condCommit
  split
  · dsimp only
    split <;> split <;> first | exact (q.commit now).commit now | exact q.commit now | exact q
  · exact p.commit now

theorem Pre.wroteB_commit {s0 : Sqlite.St D} {h c} (_p : Pre s0 h c) (s : Sqlite.St D) (now : Int) :
    Pre s0 (h ++ [s]) (Commit.commit (Commit.wroteB c s) now) :=
  ⟨by simp [Commit.commit, Commit.wroteB], h ++ [s], [], by simp, by simp [Commit.commit, Commit.wroteB], rfl⟩


/-! ### the pieces of `insert_many` -/

/-- the upsert loop of `insert_many` -/
def upserts (c : CSt D) (now : Int) (b : String) (ups : List (Ev D)) : CSt D :=
  Commit.upsertRows c now b ups

@[simp] theorem upserts_nil (c : CSt D) (now : Int) (b : String) : upserts c now b [] = c := rfl
@[simp] theorem upserts_cons (c : CSt D) (now : Int) (b : String) (e : Ev D) (es : List (Ev D)) :
    upserts c now b (e :: es) =
      upserts (Commit.wrote c (Sqlite.replace c.cur b (e.id.getD 0) e) now) now b es := rfl

/-- the state in the middle of `insert_many`: after the upserts and the bulk INSERT, before the
    single `conditional_commit(len(upserts) + len(rows))` -/
def insertManyMid (c : CSt D) (now : Int) (b : String) (es : List (Ev D)) : CSt D :=
  (Commit.insertRows (upserts c now b (es.filter (fun e => e.id.isSome))) now b
    (es.filter (fun e => e.id.isNone))).2

theorem insertRows_fst (c : CSt D) (now : Int) (b : String) (rows : List (Ev D)) (c2 : CSt D)
    (h : (Commit.insertRows c now b rows).1 = .ok c2) : c2 = (Commit.insertRows c now b rows).2 := by
  induction rows generalizing c with
  | nil => simp only [Commit.insertRows, Except.ok.injEq] at h ⊢; exact h.symm
  | cons e es ih =>
    cases heq : Sqlite.insertOne c.cur b e with
    | error x => simp [Commit.insertRows, heq] at h
    | ok si =>
      simp only [Commit.insertRows, heq] at h ⊢
      exact ih _ h

/-! ## the bulk INSERT of `insert_many` -/

theorem insertRows_fields (c : CSt D) (now : Int) (b : String) (rows : List (Ev D)) :
    (Commit.insertRows c now b rows).2.n = c.n ∧ (Commit.insertRows c now b rows).2.last = c.last ∧
    (Commit.insertRows c now b rows).2.lazy = c.lazy ∧ (Commit.insertRows c now b rows).2.dur = c.dur ∧
    (Commit.insertRows c now b rows).2.pend.length ≤ c.pend.length + rows.length ∧
    (∀ t ∈ (Commit.insertRows c now b rows).2.pend, t = now ∨ t ∈ c.pend) := by
  induction rows generalizing c with
  | nil => exact ⟨rfl, rfl, rfl, rfl, by simp [Commit.insertRows], fun t ht => Or.inr ht⟩
  | cons e es ih =>
    cases heq : Sqlite.insertOne c.cur b e with
    | error x =>
      simp only [Commit.insertRows, heq]
      exact ⟨trivial, trivial, trivial, trivial, by simp, fun t ht => Or.inr ht⟩
    | ok si =>
      simp only [Commit.insertRows, heq]
      obtain ⟨h1, h2, h3, h4, h5, h6⟩ := ih (Commit.wrote c si.1 now)
      refine ⟨h1, h2, h3, h4, ?_, ?_⟩
      · simp [Commit.wrote] at h5 ⊢; omega
      · intro t ht
        have := h6 t ht
        simpa [Commit.wrote] using this

theorem insertOne_rowOf (s s' : Sqlite.St D) (b : String) (e : Ev D) (i : Int)
    (h : Sqlite.insertOne s b e = .ok (s', i)) (b' : String) : Sqlite.rowOf s' b' = Sqlite.rowOf s b' := by
  unfold Sqlite.insertOne at h
  split at h
  · simp at h
  · simp only [Except.ok.injEq, Prod.mk.injEq] at h
    rw [← h.1]; rfl

/-- the bulk INSERT fails at its first row or not at all (the bucket row cannot vanish in between) -/
theorem insertRows_isOk (c : CSt D) (now : Int) (b : String) (rows : List (Ev D))
    (h : (Sqlite.rowOf c.cur b).isSome) : (Commit.insertRows c now b rows).1.isOk = true := by
  induction rows generalizing c with
  | nil => simp [Commit.insertRows, Except.isOk, Except.toBool]
  | cons e es ih =>
    cases heq : Sqlite.insertOne c.cur b e with
    | error x =>
      unfold Sqlite.insertOne at heq
      split at heq
      · rename_i hr; simp [hr] at h
      · simp at heq
    | ok si =>
      simp only [Commit.insertRows, heq]
      apply ih
      simpa [Commit.wrote, insertOne_rowOf _ _ _ _ _ heq] using h

theorem insertRows_err (c : CSt D) (now : Int) (b : String) (rows : List (Ev D))
    (h : (Commit.insertRows c now b rows).1.isOk = false) :
    (Commit.insertRows c now b rows).2 = { c with txn := true } := by
  cases rows with
  | nil => simp [Commit.insertRows, Except.isOk, Except.toBool] at h
  | cons e es =>
    cases hr : Sqlite.rowOf c.cur b with
    | none => simp [Commit.insertRows, Sqlite.insertOne, hr]
    | some r =>
      have := insertRows_isOk c now b (e :: es) (by simp [hr])
      simp [this] at h

theorem insertRows_txn (c : CSt D) (now : Int) (b : String) (rows : List (Ev D)) :
    (Commit.insertRows c now b rows).2 = c ∨ (Commit.insertRows c now b rows).2.txn = true := by
  induction rows generalizing c with
  | nil => exact Or.inl rfl
  | cons e es ih =>
    cases heq : Sqlite.insertOne c.cur b e with
    | error x => simp [Commit.insertRows, heq]
    | ok si =>
      simp only [Commit.insertRows, heq]
      rcases ih (Commit.wrote c si.1 now) with h | h
      · right; rw [h]; rfl
      · exact Or.inr h

/-! ## the upsert loop and the whole statement sequence of `insert_many` -/

theorem upserts_fields (c : CSt D) (now : Int) (b : String) (ups : List (Ev D)) :
    (upserts c now b ups).n = c.n ∧ (upserts c now b ups).last = c.last ∧
    (upserts c now b ups).lazy = c.lazy ∧ (upserts c now b ups).dur = c.dur ∧
    (upserts c now b ups).pend.length = c.pend.length + ups.length ∧
    (∀ t ∈ (upserts c now b ups).pend, t = now ∨ t ∈ c.pend) ∧
    ((upserts c now b ups) = c ∨ (upserts c now b ups).txn = true) := by
  induction ups generalizing c with
  | nil => exact ⟨rfl, rfl, rfl, rfl, by simp, fun t ht => Or.inr ht, Or.inl rfl⟩
  | cons e es ih =>
    rw [upserts_cons]
    obtain ⟨h1, h2, h3, h4, h5, h6, h7⟩ := ih (Commit.wrote c (Sqlite.replace c.cur b (e.id.getD 0) e) now)
    refine ⟨h1, h2, h3, h4, ?_, ?_, ?_⟩
    · simp [Commit.wrote] at h5 ⊢; omega
    · intro t ht
      rcases h6 t ht with h | h
      · exact Or.inl h
      · simp only [Commit.wrote, List.mem_cons] at h
        rcases h with h | h
        · exact Or.inl h
        · exact Or.inr h
    · right
      rcases h7 with h | h
      · rw [h]; rfl
      · exact h

/-- the statements of `insert_many` (upserts, then rows) change none of the commit bookkeeping -/
theorem mid_fields (c : CSt D) (now : Int) (b : String) (ups rows : List (Ev D)) :
    (Commit.insertRows (upserts c now b ups) now b rows).2.n = c.n ∧
    (Commit.insertRows (upserts c now b ups) now b rows).2.last = c.last ∧
    (Commit.insertRows (upserts c now b ups) now b rows).2.lazy = c.lazy ∧
    (Commit.insertRows (upserts c now b ups) now b rows).2.dur = c.dur ∧
    (Commit.insertRows (upserts c now b ups) now b rows).2.pend.length ≤ c.pend.length + (ups.length + rows.length) ∧
    (∀ t ∈ (Commit.insertRows (upserts c now b ups) now b rows).2.pend, t = now ∨ t ∈ c.pend) := by
  obtain ⟨u1, u2, u3, u4, u5, u6, _⟩ := upserts_fields c now b ups
  obtain ⟨f1, f2, f3, f4, f5, f6⟩ := insertRows_fields (upserts c now b ups) now b rows
  refine ⟨f1.trans u1, f2.trans u2, f3.trans u3, f4.trans u4, by omega, ?_⟩
  intro t ht
  rcases f6 t ht with h | h
  · exact Or.inl h
  · exact u6 t h

theorem mid_txn (c : CSt D) (now : Int) (b : String) (ups rows : List (Ev D)) :
    (Commit.insertRows (upserts c now b ups) now b rows).2 = c ∨
    (Commit.insertRows (upserts c now b ups) now b rows).2.txn = true := by
  rcases insertRows_txn (upserts c now b ups) now b rows with h | h
  · rw [h]
    exact (upserts_fields c now b ups).2.2.2.2.2.2
  · exact Or.inr h


/-! ### when `insert_many` raises -/

theorem upserts_cur_rowOf (c : CSt D) (now : Int) (b : String) (ups : List (Ev D)) (b' : String) :
    Sqlite.rowOf (upserts c now b ups).cur b' = Sqlite.rowOf c.cur b' := by
  induction ups generalizing c with
  | nil => rfl
  | cons e es ih =>
    rw [upserts_cons, ih]
    simp only [Commit.wrote, Sqlite.replace]
    split <;> rfl

/-- an UPDATE addressed to a bucket that does not exist matches no row -/
theorem upserts_missing_noop (c : CSt D) (now : Int) (b : String) (ups : List (Ev D))
    (h : Sqlite.rowOf c.cur b = none) : (upserts c now b ups).cur = c.cur := by
  induction ups generalizing c with
  | nil => rfl
  | cons e es ih =>
    have e1 : Sqlite.replace c.cur b (e.id.getD 0) e = c.cur := by simp [Sqlite.replace, h]
    rw [upserts_cons, ih]
    · simp [Commit.wrote, e1]
    · simpa [Commit.wrote, e1] using h

theorem insertRows_isOk_eq (c : CSt D) (now : Int) (b : String) (rows : List (Ev D)) :
    (Commit.insertRows c now b rows).1.isOk = !((Sqlite.rowOf c.cur b).isNone && !rows.isEmpty) := by
  cases hr : Sqlite.rowOf c.cur b with
  | some r => simpa using insertRows_isOk c now b rows (by simp [hr])
  | none =>
    cases rows with
    | nil => simp [Commit.insertRows, Except.isOk, Except.toBool]
    | cons e es => simp [Commit.insertRows, Sqlite.insertOne, hr, Except.isOk, Except.toBool]

theorem insertMany_isOk (c : CSt D) (now : Int) (b : String) (es : List (Ev D)) :
    (Commit.insertMany c now b es).1.isOk =
      (Commit.insertRows (upserts c now b (es.filter (fun e => e.id.isSome))) now b
        (es.filter (fun e => e.id.isNone))).1.isOk := by
  have key : ∀ (k : Nat) (c0 : CSt D) (q : Except Err (CSt D) × CSt D),
      (match q with
        | (.error x, _) => ((.error x : Except Err (CSt D)), c0)
        | (.ok c2, _) => (.ok (Commit.condCommit c2 k now), Commit.condCommit c2 k now)).1.isOk = q.1.isOk := by
    rintro k c0 ⟨r, c2'⟩
    cases r <;> simp [Except.isOk, Except.toBool]
  exact key _ _ _

/-- `insert_many` returns normally unless the bucket is missing and there is a row to insert -/
theorem insertMany_isOk_eq (c : CSt D) (now : Int) (b : String) (es : List (Ev D)) :
    (Commit.insertMany c now b es).1.isOk = !bulkFails c.cur b es := by
  rw [insertMany_isOk, insertRows_isOk_eq, upserts_cur_rowOf]; rfl

/-- `insert_many`, decomposed -/
theorem insertMany_snd (c : CSt D) (now : Int) (b : String) (es : List (Ev D)) :
    (Commit.insertMany c now b es).2 =
      if (Commit.insertMany c now b es).1.isOk then
        Commit.condCommit (insertManyMid c now b es)
          ((es.filter (fun e => e.id.isSome)).length + (es.filter (fun e => e.id.isNone)).length) now
      else { c with txn := true } := by
  have key : ∀ (k : Nat) (c0 : CSt D) (q : Except Err (CSt D) × CSt D), (∀ c2, q.1 = .ok c2 → c2 = q.2) →
      (match q with
        | (.error x, _) => ((.error x : Except Err (CSt D)), c0)
        | (.ok c2, _) => (.ok (Commit.condCommit c2 k now), Commit.condCommit c2 k now)).2 =
      if (match q with
        | (.error x, _) => ((.error x : Except Err (CSt D)), c0)
        | (.ok c2, _) => (.ok (Commit.condCommit c2 k now), Commit.condCommit c2 k now)).1.isOk then
        Commit.condCommit q.2 k now else c0 := by
    rintro k c0 ⟨r, c2'⟩ hq
    cases r with
    | error x => simp [Except.isOk, Except.toBool]
    | ok c2 =>
      have := hq c2 rfl
      simp only at this
      simp [Except.isOk, Except.toBool, this]
  exact key _ _ _ (insertRows_fst _ _ _ _)

/-- a failing `insert_many` wrote nothing and counted nothing; a transaction is open -/
theorem insertMany_err (c : CSt D) (now : Int) (b : String) (es : List (Ev D))
    (h : (Commit.insertMany c now b es).1.isOk = false) :
    (Commit.insertMany c now b es).2 = { c with txn := true } := by
  rw [insertMany_snd, h]; rfl

theorem insertMany_ok (c : CSt D) (now : Int) (b : String) (es : List (Ev D))
    (h : (Commit.insertMany c now b es).1.isOk = true) :
    (Commit.insertMany c now b es).2 =
      Commit.condCommit (insertManyMid c now b es)
        ((es.filter (fun e => e.id.isSome)).length + (es.filter (fun e => e.id.isNone)).length) now := by
  rw [insertMany_snd, h]; rfl

/-- the compact model of a failing `insert_many` against its literal statement sequence: the
    UPDATEs executed before the failing bulk INSERT left the connection's view and every counter
    where they were (they differ from `{ c with txn := true }` only in the ghost list `pend`, which
    would record statements that wrote nothing) -/
theorem failed_bulk_literal (c : CSt D) (now : Int) (b : String) (es : List (Ev D))
    (h : (Commit.insertMany c now b es).1.isOk = false) :
    let lit := (Commit.insertRows (upserts c now b (es.filter (fun e => e.id.isSome))) now b
      (es.filter (fun e => e.id.isNone))).2
    lit.cur = c.cur ∧ lit.dur = c.dur ∧ lit.n = c.n ∧ lit.last = c.last ∧ lit.lazy = c.lazy ∧ lit.txn = true := by
  intro lit
  have hf : bulkFails c.cur b es = true := by
    have := insertMany_isOk_eq c now b es
    rw [h] at this
    simpa using this
  have hr : Sqlite.rowOf c.cur b = none := by
    simp only [bulkFails, Bool.and_eq_true, Option.isNone_iff_eq_none] at hf
    exact hf.1
  have hok := h
  rw [insertMany_isOk] at hok
  have e := insertRows_err _ now b _ hok
  have hu := upserts_missing_noop c now b (es.filter (fun e => e.id.isSome)) hr
  obtain ⟨u1, u2, u3, u4, _⟩ := upserts_fields c now b (es.filter (fun e => e.id.isSome))
  refine ⟨?_, ?_, ?_, ?_, ?_, ?_⟩ <;> simp only [lit, e]
  · exact hu
  · exact u4
  · exact u1
  · exact u2
  · exact u3

theorem Pre.replace {s0 : Sqlite.St D} {h c} (p : Pre s0 h c) (now : Int) (b : String) (i : Int) (e : Ev D) :
    Pre s0 (h ++ [Sqlite.replace c.cur b i e]) (Commit.replace c now b i e) :=
  (p.wrote _ now).condCommit 1 now

theorem Pre.cur_eq {s0 : Sqlite.St D} {h c} (p : Pre s0 h c) : c.cur = lastD s0 h := p.1

theorem Pre.upserts {s0 : Sqlite.St D} {h c} (p : Pre s0 h c) (now : Int) (b : String) (ups : List (Ev D)) :
    Pre s0 (h ++ upsertStates c.cur b ups) (upserts c now b ups) := by
  induction ups generalizing h c with
  | nil => simpa [upsertStates] using p
  | cons e es ih =>
    have q := p.wrote (Sqlite.replace c.cur b (e.id.getD 0) e) now
    have := ih q
    rw [q.cur_eq, lastD_append_singleton, List.append_assoc] at this
    simpa [upsertStates] using this

theorem Pre.insertRows {s0 : Sqlite.St D} {h c} (p : Pre s0 h c) (now : Int) (b : String) (rows : List (Ev D)) :
    Pre s0 (h ++ rowStates c.cur b rows) (Commit.insertRows c now b rows).2 := by
  induction rows generalizing h c with
  | nil => simpa [rowStates, Commit.insertRows] using p
  | cons e es ih =>
    unfold Commit.insertRows rowStates
    split
    · rename_i x heq
      simpa [heq] using p.setTxn
    · rename_i s i heq
      have q := p.wrote s now
      have := ih q
      rw [q.cur_eq, lastD_append_singleton, List.append_assoc] at this
      simpa [heq] using this

theorem Pre.insertManyMid {s0 : Sqlite.St D} {h c} (p : Pre s0 h c) (now : Int) (b : String) (es : List (Ev D))
    (hf : bulkFails c.cur b es = false) :
    Pre s0 (h ++ elems c.cur (.insertMany now b es)) (insertManyMid c now b es) := by
  have q := p.upserts now b (es.filter (fun e => e.id.isSome))
  have r := q.insertRows now b (es.filter (fun e => e.id.isNone))
  rw [q.cur_eq, lastD_append, ← p.cur_eq, List.append_assoc] at r
  have e : elems c.cur (.insertMany now b es) =
      upsertStates c.cur b (es.filter (fun e => e.id.isSome)) ++
        rowStates (lastD c.cur (upsertStates c.cur b (es.filter (fun e => e.id.isSome)))) b
          (es.filter (fun e => e.id.isNone)) := by
    simp only [elems, hf]; rfl
  rw [e]; exact r

/-- one step extends the history by the step's elementary writes -/
theorem Pre.step {s0 : Sqlite.St D} {h c} (p : Pre s0 h c) (op : COp D) :
    Pre s0 (h ++ elems c.cur op) (cstep c op) := by
  cases op with
  | createBucket now b m =>
    cases heq : Sqlite.createBucket c.cur b m with
    | error x => simpa [cstep, Commit.createBucket, elems, heq] using p.setTxn
    | ok s => simpa [cstep, Commit.createBucket, elems, heq] using p.wroteB_commit s now
  | updateBucket now b u =>
    by_cases hu : u.isEmpty = true
    · have : Sqlite.updateBucket c.cur b u = .error .valueError := by simp [Sqlite.updateBucket, hu]
      simpa [cstep, Commit.updateBucket, elems, hu, this] using p
    · cases heq : Sqlite.updateBucket c.cur b u with
      | error x => simpa [cstep, Commit.updateBucket, elems, heq, hu] using p.setTxn.commit now
      | ok s => simpa [cstep, Commit.updateBucket, elems, heq, hu] using p.wroteB_commit s now
  | deleteBucket now b =>
    cases heq : Sqlite.deleteBucket c.cur b with
    | error x => simpa [cstep, Commit.deleteBucket, elems, heq] using p.setTxn.commit now
    | ok s => simpa [cstep, Commit.deleteBucket, elems, heq] using p.wroteB_commit s now
  | insertOne now b e =>
    cases heq : Sqlite.insertOne c.cur b e with
    | error x => simpa [cstep, Commit.insertOne, elems, heq] using p.setTxn
    | ok si => simpa [cstep, Commit.insertOne, elems, heq] using (p.wrote si.1 now).condCommit 1 now
  | insertMany now b es =>
    simp only [cstep]
    cases hf : bulkFails c.cur b es with
    | false =>
      have hok : (Commit.insertMany c now b es).1.isOk = true := by rw [insertMany_isOk_eq, hf]; rfl
      rw [insertMany_ok _ _ _ _ hok]
      exact (p.insertManyMid now b es hf).condCommit _ now
    | true =>
      have hok : (Commit.insertMany c now b es).1.isOk = false := by rw [insertMany_isOk_eq, hf]; rfl
      rw [insertMany_err _ _ _ _ hok]
      simpa [elems, hf] using p.setTxn
  | replace now b i e => exact p.replace now b i e
  | replaceLast now b e => exact (p.wrote _ now).condCommit 1 now
  | delete now b i => exact (p.wrote _ now).condCommit 1 now
  | read now => simpa [elems, cstep, Commit.readCommit] using p.commit now

/-- `cur` evolves by the table model alone, whatever was committed -/
theorem Pre.cstep_cur {s0 : Sqlite.St D} {h c} (p : Pre s0 h c) (op : COp D) :
    (cstep c op).cur = sstep c.cur op := by
  rw [(p.step op).cur_eq, lastD_append, ← p.cur_eq]; rfl

theorem Pre.run {s0 : Sqlite.St D} {h c} (p : Pre s0 h c) (ops : List (COp D)) :
    Pre s0 (h ++ sHist c.cur ops) (crun c ops) := by
  induction ops generalizing h c with
  | nil => simpa [sHist] using p
  | cons op ops ih =>
    have := ih (p.step op)
    rw [p.cstep_cur op, List.append_assoc] at this
    exact this

/-- from a clean state, after any history: `cur` is the last state of the ghost-free history,
    `dur` is the state after a prefix of it, and exactly `pend.length` elementary writes follow -/
theorem pre_run (c0 : CSt D) (h1 : c0.dur = c0.cur) (h2 : c0.pend = []) (ops : List (COp D)) :
    Pre c0.cur (curHist c0 ops) (crun c0 ops) := by
  simpa [curHist] using (Pre.init c0 h1 h2).run ops


/-! ## what `conditional_commit` and `commit` do, field by field -/

theorem tenSeconds_eq : Commit.tenSeconds = 10000000 := rfl

/-- `conditional_commit(k)` at clock `now` either committed (everything executed so far is durable,
    nothing pending, clock stored) or only counted (then the store is lazy, the count stays ≤ 50
    and the last commit is at most 10 s old) -/
theorem condCommit_cases (c : CSt D) (k : Nat) (now : Int) :
    (Commit.condCommit c k now).cur = c.cur ∧ (Commit.condCommit c k now).lazy = c.lazy ∧
    (((Commit.condCommit c k now).dur = c.cur ∧ (Commit.condCommit c k now).pend = [] ∧
      (Commit.condCommit c k now).n = 0 ∧ (Commit.condCommit c k now).last = now ∧
      (Commit.condCommit c k now).txn = false) ∨
     ((Commit.condCommit c k now).dur = c.dur ∧ (Commit.condCommit c k now).pend = c.pend ∧
      (Commit.condCommit c k now).n = c.n + k ∧ (Commit.condCommit c k now).last = c.last ∧
      (Commit.condCommit c k now).txn = c.txn ∧
      c.lazy = true ∧ c.n + k ≤ 50 ∧ now - c.last ≤ 10000000)) := by
  unfold Commit.condCommit
  by_cases hl : c.lazy = true
  · by_cases h1 : c.n + k > 50
    · simp [hl, h1, Commit.commit, tenSeconds_eq]
    · by_cases h2 : now - c.last > Commit.tenSeconds
      · simp [hl, h1, h2, Commit.commit]
      · have : now - c.last ≤ 10000000 := by simp only [tenSeconds_eq] at h2; omega
        have : c.n + k ≤ 50 := by omega
        have h3 : ¬ (10000000 < now - c.last) := by omega
        simp [hl, h1, tenSeconds_eq, h3]; omega
  · simp [hl, Commit.commit]

/-- the age rule: on the lazy store a `conditional_commit` more than 10 s after the last commit
    commits -/
theorem condCommit_age (c : CSt D) (k : Nat) (now : Int)
    (ha : now - c.last > 10000000) :
    (Commit.condCommit c k now).dur = c.cur ∧ (Commit.condCommit c k now).pend = [] ∧
    (Commit.condCommit c k now).last = now ∧ (Commit.condCommit c k now).n = 0 := by
  rcases condCommit_cases c k now with ⟨_, _, h | h⟩
  · exact ⟨h.1, h.2.1, h.2.2.2.1, h.2.2.1⟩
  · omega

/-- the eager store commits at every `conditional_commit` -/
theorem condCommit_eager (c : CSt D) (k : Nat) (now : Int) (hl : c.lazy = false) :
    (Commit.condCommit c k now).dur = c.cur ∧ (Commit.condCommit c k now).pend = [] ∧
    (Commit.condCommit c k now).last = now ∧ (Commit.condCommit c k now).n = 0 := by
  rcases condCommit_cases c k now with ⟨_, _, h | h⟩
  · exact ⟨h.1, h.2.1, h.2.2.2.1, h.2.2.1⟩
  · simp [hl] at h

/-- the count rule -/
theorem condCommit_count (c : CSt D) (k : Nat) (now : Int) (hn : c.n + k > 50) :
    (Commit.condCommit c k now).dur = c.cur ∧ (Commit.condCommit c k now).pend = [] ∧
    (Commit.condCommit c k now).last = now ∧ (Commit.condCommit c k now).n = 0 := by
  rcases condCommit_cases c k now with ⟨_, _, h | h⟩
  · exact ⟨h.1, h.2.1, h.2.2.2.1, h.2.2.1⟩
  · omega


/-! ## the shape of one step -/



/-- a single event write is one statement followed by `conditional_commit(1)`, or (a failed
    `insert_one`) nothing but an opened transaction -/
theorem single_form (c : CSt D) (op : COp D) (h : op.isSingleEventWrite = true) :
    (cok c op = true ∧ ∃ s, elems c.cur op = [s] ∧
        cstep c op = Commit.condCommit (Commit.wrote c s op.now) 1 op.now) ∨
    (cok c op = false ∧ elems c.cur op = [] ∧ cstep c op = { c with txn := true }) := by
  cases op with
  | insertOne now b e =>
    cases heq : Sqlite.insertOne c.cur b e with
    | error x => simp [cok, cstep, elems, Commit.insertOne, heq, Except.isOk, Except.toBool]
    | ok si => simp [cok, cstep, elems, Commit.insertOne, heq, Except.isOk, Except.toBool, COp.now]
  | replace now b i e => exact Or.inl ⟨rfl, _, rfl, rfl⟩
  | replaceLast now b e => exact Or.inl ⟨rfl, _, rfl, rfl⟩
  | delete now b i => exact Or.inl ⟨rfl, _, rfl, rfl⟩
  | _ => simp [COp.isSingleEventWrite] at h

/-- a bucket operation that returns is one statement followed by `commit()`; one that raises has
    committed without a write (missing bucket) or done nothing -/
theorem bucket_form (c : CSt D) (op : COp D) (h : op.isBucketOp = true) :
    (cok c op = true ∧ ∃ s, elems c.cur op = [s] ∧
        cstep c op = Commit.commit (Commit.wroteB c s) op.now) ∨
    (cok c op = false ∧ elems c.cur op = [] ∧
      (cstep c op = Commit.commit { c with txn := true } op.now ∨
       cstep c op = { c with txn := true } ∨ cstep c op = c)) := by
  cases op with
  | createBucket now b m =>
    cases heq : Sqlite.createBucket c.cur b m with
    | error x => simp [cok, cstep, elems, Commit.createBucket, heq, Except.isOk, Except.toBool]
    | ok s => simp [cok, cstep, elems, Commit.createBucket, heq, Except.isOk, Except.toBool, COp.now]
  | updateBucket now b u =>
    by_cases hu : u.isEmpty = true
    · have : Sqlite.updateBucket c.cur b u = .error .valueError := by simp [Sqlite.updateBucket, hu]
      simp [cok, cstep, elems, Commit.updateBucket, hu, this, Except.isOk, Except.toBool]
    · cases heq : Sqlite.updateBucket c.cur b u with
      | error x => simp [cok, cstep, elems, Commit.updateBucket, heq, hu, Except.isOk, Except.toBool, COp.now]
      | ok s => simp [cok, cstep, elems, Commit.updateBucket, heq, hu, Except.isOk, Except.toBool, COp.now]
  | deleteBucket now b =>
    cases heq : Sqlite.deleteBucket c.cur b with
    | error x => simp [cok, cstep, elems, Commit.deleteBucket, heq, Except.isOk, Except.toBool, COp.now]
    | ok s => simp [cok, cstep, elems, Commit.deleteBucket, heq, Except.isOk, Except.toBool, COp.now]
  | _ => simp [COp.isBucketOp] at h

/-- every step is composed of six primitives; a predicate closed under them is closed under `cstep` -/
theorem cstep_induct (J : CSt D → Prop) (now : Int)
    (h_evw : ∀ c s, J c → J (Commit.condCommit (Commit.wrote c s now) 1 now))
    (h_cb : ∀ c s, J c → J (Commit.commit (Commit.wroteB c s) now))
    (h_ct : ∀ c, J c → J (Commit.commit { c with txn := true } now))
    (h_t : ∀ c, J c → J { c with txn := true })
    (h_c : ∀ c, J c → J (Commit.commit c now))
    (h_bulk : ∀ c b ups rows, J c → (Commit.insertRows (upserts c now b ups) now b rows).1.isOk = true →
      J (Commit.condCommit (Commit.insertRows (upserts c now b ups) now b rows).2 (ups.length + rows.length) now))
    (c : CSt D) (op : COp D) (hn : op.now = now) (hc : J c) : J (cstep c op) := by
  cases op with
  | insertMany now' b es =>
    cases hn
    simp only [cstep]
    cases hok : (Commit.insertMany c now' b es).1.isOk with
    | true =>
      rw [insertMany_ok _ _ _ _ hok]
      rw [insertMany_isOk] at hok
      exact h_bulk _ _ _ _ hc hok
    | false =>
      rw [insertMany_err _ _ _ _ hok]
      exact h_t _ hc
  | read now' => cases hn; exact h_c _ hc
  | createBucket now' b m =>
    rcases bucket_form c (.createBucket now' b m) rfl with ⟨_, s, _, h⟩ | ⟨_, _, h | h | h⟩ <;>
      rw [h] <;> cases hn <;> first | exact h_cb _ _ hc | exact h_ct _ hc | exact h_t _ hc | exact hc
  | updateBucket now' b u =>
    rcases bucket_form c (.updateBucket now' b u) rfl with ⟨_, s, _, h⟩ | ⟨_, _, h | h | h⟩ <;>
      rw [h] <;> cases hn <;> first | exact h_cb _ _ hc | exact h_ct _ hc | exact h_t _ hc | exact hc
  | deleteBucket now' b =>
    rcases bucket_form c (.deleteBucket now' b) rfl with ⟨_, s, _, h⟩ | ⟨_, _, h | h | h⟩ <;>
      rw [h] <;> cases hn <;> first | exact h_cb _ _ hc | exact h_ct _ hc | exact h_t _ hc | exact hc
  | insertOne now' b e =>
    rcases single_form c (.insertOne now' b e) rfl with ⟨_, s, _, h⟩ | ⟨_, _, h⟩ <;>
      rw [h] <;> cases hn <;> first | exact h_evw _ _ hc | exact h_t _ hc
  | replace now' b i e => cases hn; exact h_evw _ _ hc
  | replaceLast now' b e => cases hn; exact h_evw _ _ hc
  | delete now' b i => cases hn; exact h_evw _ _ hc


/-! ## invariants at operation boundaries -/

/-- lazy store: no more pending event writes than counted statements, and at most 50 of those -/
def Bnd (c : CSt D) : Prop := c.lazy = true ∧ c.pend.length ≤ c.n ∧ c.n ≤ 50

theorem Bnd.step {c : CSt D} (hc : Bnd c) (op : COp D) : Bnd (cstep c op) := by
  refine cstep_induct Bnd op.now ?_ ?_ ?_ ?_ ?_ ?_ c op rfl hc
  · intro c s ⟨h1, h2, h3⟩
    rcases condCommit_cases (Commit.wrote c s op.now) 1 op.now with ⟨_, hl, h | h⟩
    · exact ⟨by rw [hl]; exact h1, by simp [h.2.1], by simp [h.2.2.1]⟩
    · refine ⟨by rw [hl]; exact h1, ?_, ?_⟩
      · rw [h.2.1, h.2.2.1]; simp [Commit.wrote]; omega
      · rw [h.2.2.1]; exact h.2.2.2.2.2.2.1
  · intro c s ⟨h1, _, _⟩; exact ⟨h1, by simp [Commit.commit], by simp [Commit.commit]⟩
  · intro c ⟨h1, _, _⟩; exact ⟨h1, by simp [Commit.commit], by simp [Commit.commit]⟩
  · intro c h; exact h
  · intro c ⟨h1, _, _⟩; exact ⟨h1, by simp [Commit.commit], by simp [Commit.commit]⟩
  · intro c b ups rows ⟨h1, h2, h3⟩ _
    obtain ⟨f1, _, f3, _, f5, _⟩ := mid_fields c op.now b ups rows
    rcases condCommit_cases (Commit.insertRows (upserts c op.now b ups) op.now b rows).2 (ups.length + rows.length) op.now with ⟨_, hl, h | h⟩
    · exact ⟨by rw [hl, f3]; exact h1, by simp [h.2.1], by simp [h.2.2.1]⟩
    · refine ⟨by rw [hl, f3]; exact h1, ?_, ?_⟩
      · rw [h.2.1, h.2.2.1]; omega
      · rw [h.2.2.1]; exact h.2.2.2.2.2.2.1

theorem Bnd.run {c : CSt D} (hc : Bnd c) (ops : List (COp D)) : Bnd (crun c ops) := by
  induction ops generalizing c with
  | nil => exact hc
  | cons op ops ih => exact ih (hc.step op)

/-- inside `insert_many` (after the upserts and the bulk INSERT, before the final conditional
    commit) the bound is 50 + number of events of the call -/
theorem Bnd.mid {c : CSt D} (hc : Bnd c) (now : Int) (b : String) (es : List (Ev D)) :
    (insertManyMid c now b es).pend.length ≤ (insertManyMid c now b es).n +
      ((es.filter (fun e => e.id.isSome)).length + (es.filter (fun e => e.id.isNone)).length) ∧
    (insertManyMid c now b es).n ≤ 50 := by
  obtain ⟨f1, _, _, _, f5, _⟩ := mid_fields c now b (es.filter (fun e => e.id.isSome))
    (es.filter (fun e => e.id.isNone))
  unfold insertManyMid
  rw [f1]
  exact ⟨by have := hc.2.1; omega, hc.2.2⟩

/-- eager store: everything executed is durable -/
def Eager (c : CSt D) : Prop := c.lazy = false ∧ c.dur = c.cur ∧ c.pend = []

theorem Eager.step {c : CSt D} (hc : Eager c) (op : COp D) : Eager (cstep c op) := by
  refine cstep_induct Eager op.now ?_ ?_ ?_ ?_ ?_ ?_ c op rfl hc
  · intro c s ⟨h1, _, _⟩
    obtain ⟨hc', hl, _⟩ := condCommit_cases (Commit.wrote c s op.now) 1 op.now
    obtain ⟨e1, e2, _⟩ := condCommit_eager (Commit.wrote c s op.now) 1 op.now h1
    exact ⟨by rw [hl]; exact h1, by rw [e1, hc'], e2⟩
  · intro c s ⟨h1, _, _⟩; exact ⟨h1, rfl, rfl⟩
  · intro c ⟨h1, _, _⟩; exact ⟨h1, rfl, rfl⟩
  · intro c h; exact h
  · intro c ⟨h1, _, _⟩; exact ⟨h1, rfl, rfl⟩
  · intro c b ups rows ⟨h1, _, _⟩ _
    obtain ⟨_, _, f3, _⟩ := mid_fields c op.now b ups rows
    obtain ⟨hc', hl, _⟩ := condCommit_cases (Commit.insertRows (upserts c op.now b ups) op.now b rows).2 (ups.length + rows.length) op.now
    obtain ⟨e1, e2, _⟩ := condCommit_eager (Commit.insertRows (upserts c op.now b ups) op.now b rows).2 (ups.length + rows.length) op.now (by rw [f3]; exact h1)
    exact ⟨by rw [hl, f3]; exact h1, by rw [e1, hc'], e2⟩

theorem Eager.run {c : CSt D} (hc : Eager c) (ops : List (COp D)) : Eager (crun c ops) := by
  induction ops generalizing c with
  | nil => exact hc
  | cons op ops ih => exact ih (hc.step op)

/-- without an open transaction nothing is at risk -/
def Clean (c : CSt D) : Prop := c.txn = false → c.dur = c.cur ∧ c.pend = []

theorem Clean.step {c : CSt D} (hc : Clean c) (op : COp D) : Clean (cstep c op) := by
  refine cstep_induct Clean op.now ?_ ?_ ?_ ?_ ?_ ?_ c op rfl hc
  · intro c s _ ht
    rcases condCommit_cases (Commit.wrote c s op.now) 1 op.now with ⟨hc', _, h | h⟩
    · exact ⟨by rw [h.1, hc'], h.2.1⟩
    · rw [h.2.2.2.2.1] at ht; simp [Commit.wrote] at ht
  · intro c s _ _; exact ⟨rfl, rfl⟩
  · intro c _ _; exact ⟨rfl, rfl⟩
  · intro c _ ht; simp at ht
  · intro c _ _; exact ⟨rfl, rfl⟩
  · intro c b ups rows h _ ht
    rcases condCommit_cases (Commit.insertRows (upserts c op.now b ups) op.now b rows).2 (ups.length + rows.length) op.now with ⟨hc', _, h' | h'⟩
    · exact ⟨by rw [h'.1, hc'], h'.2.1⟩
    · rw [h'.2.2.2.2.1] at ht
      rcases mid_txn c op.now b ups rows with e | e
      · rw [e] at ht h' hc' ⊢
        rw [h'.1, h'.2.1, hc']; exact h ht
      · rw [e] at ht; simp at ht

theorem Clean.run {c : CSt D} (hc : Clean c) (ops : List (COp D)) : Clean (crun c ops) := by
  induction ops generalizing c with
  | nil => exact hc
  | cons op ops ih => exact ih (hc.step op)

/-- the clock readings of a history never go back, starting from `t` -/
def Mono : Int → List (COp D) → Prop
  | _, [] => True
  | t, op :: ops => t ≤ op.now ∧ Mono op.now ops

instance Mono.dec : (t : Int) → (ops : List (COp D)) → Decidable (Mono t ops)
  | _, [] => isTrue trivial
  | t, op :: ops =>
    have := Mono.dec op.now ops
    inferInstanceAs (Decidable (t ≤ op.now ∧ Mono op.now ops))

/-- the clock reading of the last operation (or `t` if there is none) -/
def lastNow : Int → List (COp D) → Int
  | t, [] => t
  | _, op :: ops => lastNow op.now ops

/-- every pending write was issued after the last commit and at most 10 s after it -/
def Young (clk : Int) (c : CSt D) : Prop :=
  c.last ≤ clk ∧ ∀ t ∈ c.pend, c.last ≤ t ∧ t ≤ clk ∧ t - c.last ≤ 10000000

theorem Young.mono {clk clk' : Int} {c : CSt D} (h : Young clk c) (hk : clk ≤ clk') : Young clk' c :=
  ⟨by have := h.1; omega, fun t ht => by have := h.2 t ht; omega⟩

theorem Young.step {clk : Int} {c : CSt D} (hc : Young clk c) (op : COp D) (hk : clk ≤ op.now) :
    Young op.now (cstep c op) := by
  refine cstep_induct (Young op.now) op.now ?_ ?_ ?_ ?_ ?_ ?_ c op rfl (hc.mono hk)
  · intro c s ⟨h1, h2⟩
    rcases condCommit_cases (Commit.wrote c s op.now) 1 op.now with ⟨_, _, h | h⟩
    · exact ⟨by rw [h.2.2.2.1]; omega, by rw [h.2.1]; simp⟩
    · refine ⟨by rw [h.2.2.2.1]; exact h1, ?_⟩
      rw [h.2.1, h.2.2.2.1]
      have h8 := h.2.2.2.2.2.2.2
      intro t ht
      simp only [Commit.wrote, List.mem_cons] at ht h8 ⊢
      rcases ht with rfl | ht
      · omega
      · exact h2 t ht
  · intro c s _; exact ⟨by simp [Commit.commit], by simp [Commit.commit]⟩
  · intro c _; exact ⟨by simp [Commit.commit], by simp [Commit.commit]⟩
  · intro c h; exact h
  · intro c _; exact ⟨by simp [Commit.commit], by simp [Commit.commit]⟩
  · intro c b ups rows ⟨h1, h2⟩ _
    obtain ⟨_, f2, _, _, _, f6⟩ := mid_fields c op.now b ups rows
    rcases condCommit_cases (Commit.insertRows (upserts c op.now b ups) op.now b rows).2 (ups.length + rows.length) op.now with ⟨_, _, h | h⟩
    · exact ⟨by rw [h.2.2.2.1]; omega, by rw [h.2.1]; simp⟩
    · refine ⟨by rw [h.2.2.2.1, f2]; exact h1, ?_⟩
      rw [h.2.1, h.2.2.2.1, f2]
      have h8 := h.2.2.2.2.2.2.2
      rw [f2] at h8
      intro t ht
      rcases f6 t ht with rfl | ht
      · omega
      · exact h2 t ht

theorem Young.run {clk : Int} {c : CSt D} (hc : Young clk c) (ops : List (COp D)) (hm : Mono clk ops) :
    Young (lastNow clk ops) (crun c ops) := by
  induction ops generalizing c clk with
  | nil => exact hc
  | cons op ops ih => exact ih (hc.step op hm.1) hm.2


/-! ## single operations -/

/-- a single event write leaves `dur` where it was or moves it to the new `cur` -/
theorem evw_atomic (c : CSt D) (s : Sqlite.St D) (now : Int) :
    (Commit.condCommit (Commit.wrote c s now) 1 now).dur = c.dur ∨
    (Commit.condCommit (Commit.wrote c s now) 1 now).dur = (Commit.condCommit (Commit.wrote c s now) 1 now).cur := by
  rcases condCommit_cases (Commit.wrote c s now) 1 now with ⟨hc, _, h | h⟩
  · right; rw [h.1, hc]
  · left; rw [h.1]; rfl


/-- the start of a history: a freshly opened store — nothing uncommitted -/
def Init (c0 : CSt D) : Prop := c0.dur = c0.cur ∧ c0.pend = [] ∧ c0.n = 0

theorem Init.bnd {c0 : CSt D} (h : Init c0) (hl : c0.lazy = true) : Bnd c0 :=
  ⟨hl, by simp [h.2.1], by simp [h.2.2]⟩
theorem Init.eager {c0 : CSt D} (h : Init c0) (hl : c0.lazy = false) : Eager c0 := ⟨hl, h.1, h.2.1⟩
theorem Init.clean {c0 : CSt D} (h : Init c0) : Clean c0 := fun _ => ⟨h.1, h.2.1⟩
theorem Init.young {c0 : CSt D} (h : Init c0) : Young c0.last c0 :=
  ⟨Int.le_refl _, by simp [h.2.1]⟩


/-! ## flushed states -/

theorem condCommit_eager' (c : CSt D) (k : Nat) (now : Int) (hl : c.lazy = false) :
    (Commit.condCommit c k now).dur = (Commit.condCommit c k now).cur ∧
    (Commit.condCommit c k now).pend = [] := by
  obtain ⟨e1, e2, _⟩ := condCommit_eager c k now hl
  exact ⟨by rw [e1, (condCommit_cases c k now).1], e2⟩

theorem condCommit_age' (c : CSt D) (k : Nat) (now : Int) (ha : now - c.last > 10000000) :
    (Commit.condCommit c k now).dur = (Commit.condCommit c k now).cur ∧
    (Commit.condCommit c k now).pend = [] ∧ (Commit.condCommit c k now).last = now := by
  obtain ⟨e1, e2, e3, _⟩ := condCommit_age c k now ha
  exact ⟨by rw [e1, (condCommit_cases c k now).1], e2, e3⟩

theorem cstep_lazy (c : CSt D) (op : COp D) : (cstep c op).lazy = c.lazy := by
  refine cstep_induct (fun c' => c'.lazy = c.lazy) op.now ?_ ?_ ?_ ?_ ?_ ?_ c op rfl rfl
  · intro c' s h; rw [(condCommit_cases _ 1 op.now).2.1]; exact h
  · intro c' s h; exact h
  · intro c' h; exact h
  · intro c' h; exact h
  · intro c' h; exact h
  · intro c' b ups rows h _
    rw [(condCommit_cases _ _ op.now).2.1, (mid_fields c' op.now b ups rows).2.2.1]; exact h

theorem insertManyMid_lazy (c : CSt D) (now : Int) (b : String) (es : List (Ev D)) :
    (insertManyMid c now b es).lazy = c.lazy := by
  rw [insertManyMid]; exact (mid_fields c now b _ _).2.2.1

/-- an event-write operation that returns ends with a `conditional_commit` at its clock reading -/
theorem evwrite_form' (c : CSt D) (op : COp D) (h : op.isEventWrite = true) (hok : cok c op = true) :
    ∃ m k, cstep c op = Commit.condCommit m k op.now ∧ m.lazy = c.lazy ∧ m.last = c.last := by
  cases op with
  | insertMany now b es =>
    exact ⟨_, _, insertMany_ok _ _ _ _ hok, insertManyMid_lazy c now b es,
      by rw [insertManyMid]; exact (mid_fields c now b _ _).2.1⟩
  | insertOne now b e =>
    rcases single_form c (.insertOne now b e) rfl with ⟨_, s, _, e'⟩ | ⟨e', _⟩
    · exact ⟨_, _, e', rfl, rfl⟩
    · rw [e'] at hok; cases hok
  | replace now b i e => exact ⟨_, _, rfl, rfl, rfl⟩
  | replaceLast now b e => exact ⟨_, _, rfl, rfl, rfl⟩
  | delete now b i => exact ⟨_, _, rfl, rfl, rfl⟩
  | _ => simp [COp.isEventWrite] at h

theorem evwrite_form (c : CSt D) (op : COp D) (h : op.isEventWrite = true) (hok : cok c op = true) :
    ∃ m k, cstep c op = Commit.condCommit m k op.now ∧ m.lazy = c.lazy := by
  obtain ⟨m, k, e, hl, _⟩ := evwrite_form' c op h hok
  exact ⟨m, k, e, hl⟩

/-- `conditional_commit` leaves `dur` where it was or moves it to `cur` -/
theorem condCommit_atomic (m : CSt D) (k : Nat) (now : Int) :
    (Commit.condCommit m k now).dur = m.dur ∨
    (Commit.condCommit m k now).dur = (Commit.condCommit m k now).cur := by
  rcases condCommit_cases m k now with ⟨hc, _, h | h⟩
  · right; rw [h.1, hc]
  · left; rw [h.1]


/-! ## concrete states for the non-vacuity examples -/
namespace Ex

def meta0 : Meta := ⟨none, "t", "c", "h", "2020-01-01T00:00:00+00:00", "{}"⟩
/-- one bucket `"b"`, no events -/
def s0 : Sqlite.St Nat := { buckets := [⟨1, "b", meta0⟩], seqB := 1 }
/-- a freshly opened lazy store, last commit at clock 0 -/
def c0 : CSt Nat := { cur := s0, dur := s0 }
/-- the same, auto-committing -/
def c0e : CSt Nat := { cur := s0, dur := s0, lazy := false }
def ev (k : Nat) : Ev Nat := { ts := 1000 * k, dur := 1000, data := k }
def evId (i : Int) (k : Nat) : Ev Nat := { id := some i, ts := 1000 * k, dur := 1000, data := k }

theorem init_c0 : Init c0 := ⟨rfl, rfl, rfl⟩
theorem init_c0e : Init c0e := ⟨rfl, rfl, rfl⟩

end Ex

end AwProofs.CommitL
