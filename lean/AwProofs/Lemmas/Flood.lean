import AwModel.Flood
import AwProofs.Lemmas.PySort
/-! Helper lemmas for C10: one step of flood's pair loop, the sweep, the sort/filter wrapper. -/
namespace Aw.Flood
open Aw
variable {D : Type} [DecidableEq D]
set_option linter.unusedSectionVars false

/-- timestamp and duration are whole milliseconds -/
def Al (e : Ev D) : Prop := e.ts % 1000 = 0 ∧ e.dur % 1000 = 0

theorem msFloor_of_aligned (t : Int) (h : t % 1000 = 0) : msFloor t = t := by
  unfold msFloor; omega

/-- One loop body on a non-overlapping pair of non-negative, millisecond-aligned events:
    the second event keeps its end and data, the first its start and data, both stay
    non-negative and aligned, the pair stays non-overlapping and the second does not start before
    the first. -/
theorem step_fin (pt : Int) (wu : Bool) (c e : Ev D) (hc : 0 ≤ c.dur) (he : 0 ≤ e.dur)
    (hg : c.fin ≤ e.ts) (ac : Al c) (ae : Al e) :
    (step pt wu c e).2.1.fin = e.fin ∧ (step pt wu c e).2.1.data = e.data ∧
    0 ≤ (step pt wu c e).2.1.dur ∧
    (step pt wu c e).1.ts = c.ts ∧ (step pt wu c e).1.data = c.data ∧ 0 ≤ (step pt wu c e).1.dur ∧
    (step pt wu c e).1.fin ≤ (step pt wu c e).2.1.ts ∧ c.ts ≤ (step pt wu c e).2.1.ts ∧
    Al (step pt wu c e).1 ∧ Al (step pt wu c e).2.1 := by
  unfold step setTs msFloor Ev.fin thres Al at *
  grind

/-- coverage of the pair after one step = coverage before ∪ the gap if it is at most `pt` -/
theorem step_cover (pt : Int) (hpt : 0 ≤ pt) (wu : Bool) (c e : Ev D) (hc : 0 ≤ c.dur)
    (he : 0 ≤ e.dur) (hg : c.fin ≤ e.ts) (ac : Al c) (ae : Al e) (t : Int) :
    ((step pt wu c e).1.ts ≤ t ∧ t < (step pt wu c e).1.fin) ∨
      ((step pt wu c e).2.1.ts ≤ t ∧ t < (step pt wu c e).2.1.fin) ↔
    (c.ts ≤ t ∧ t < c.fin) ∨ (e.ts ≤ t ∧ t < e.fin) ∨
      (c.fin ≤ t ∧ t < e.ts ∧ e.ts - c.fin ≤ pt) := by
  unfold step setTs msFloor Ev.fin thres Al at *
  grind

/-- per step, every label keeps what it covered -/
theorem step_label (pt : Int) (wu : Bool) (c e : Ev D) (hc : 0 ≤ c.dur) (he : 0 ≤ e.dur)
    (hg : c.fin ≤ e.ts) (ac : Al c) (ae : Al e) (d : D) (t : Int) :
    ((c.data = d ∧ c.ts ≤ t ∧ t < c.fin) ∨ (e.data = d ∧ e.ts ≤ t ∧ t < e.fin)) →
    (((step pt wu c e).1.data = d ∧ (step pt wu c e).1.ts ≤ t ∧ t < (step pt wu c e).1.fin) ∨
     ((step pt wu c e).2.1.data = d ∧ (step pt wu c e).2.1.ts ≤ t ∧
        t < (step pt wu c e).2.1.fin)) := by
  unfold step setTs msFloor Ev.fin thres Al at *
  grind

/-! ### the sweep -/

/-- the tail `es` continues the carried event `c` as a sorted chain of non-overlapping,
    non-negative, millisecond-aligned events -/
def ChainP (P : Ev D → Prop) : Ev D → List (Ev D) → Prop
  | _, [] => True
  | c, e :: es => c.fin ≤ e.ts ∧ 0 ≤ e.dur ∧ P e ∧ ChainP P e es

/-- chain of millisecond-aligned events (timestamps and durations) -/
abbrev Chain (c : Ev D) (es : List (Ev D)) : Prop := ChainP Al c es

/-- `t` is covered by some event of `l` (half-open intervals; zero-length events cover nothing) -/
def cov (l : List (Ev D)) (t : Int) : Prop := ∃ e ∈ l, e.ts ≤ t ∧ t < e.fin

/-- `t` is covered by some event of `l` with data `d` -/
def covD (d : D) (l : List (Ev D)) (t : Int) : Prop := ∃ e ∈ l, e.data = d ∧ e.ts ≤ t ∧ t < e.fin

/-- `t` lies in a gap of length ≤ `pt` between consecutive events of `c :: es` -/
def shortGap (pt : Int) : Ev D → List (Ev D) → Int → Prop
  | _, [], _ => False
  | c, e :: es, t => (c.fin ≤ t ∧ t < e.ts ∧ e.ts - c.fin ≤ pt) ∨ shortGap pt e es t

theorem shortGap_congr (pt : Int) (c c' : Ev D) (es : List (Ev D)) (t : Int) (h : c'.fin = c.fin) :
    shortGap pt c' es t ↔ shortGap pt c es t := by
  cases es with
  | nil => simp [shortGap]
  | cons e es => simp [shortGap, h]

theorem chain_congr (c c' : Ev D) (es : List (Ev D)) (h : c'.fin = c.fin) :
    Chain c' es ↔ Chain c es := by
  cases es with
  | nil => simp [Chain, ChainP]
  | cons e es => simp [Chain, ChainP, h]

/-- every event of the swept list starts at or after the carried event's start -/
theorem sweep_lb (pt : Int) : ∀ (es : List (Ev D)) (wu : Bool) (c : Ev D), 0 ≤ c.dur → Al c →
    Chain c es → ∀ x ∈ sweep pt wu c es, c.ts ≤ x.ts
  | [], _, c, _, _, _, x, hx => by
    simp only [sweep, List.mem_singleton] at hx; subst hx; exact Int.le_refl _
  | e :: es, wu, c, hc, ac, hch, x, hx => by
    obtain ⟨hg, he, ae, hrest⟩ := hch
    have sf := step_fin pt wu c e hc he hg ac ae
    simp only [sweep, List.mem_cons] at hx
    rcases hx with rfl | hx
    · exact Int.le_of_eq sf.2.2.2.1.symm
    · have := sweep_lb pt es _ (step pt wu c e).2.1 sf.2.2.1 sf.2.2.2.2.2.2.2.2.2
        ((chain_congr e _ es sf.1).2 hrest) x hx
      exact Int.le_trans sf.2.2.2.2.2.2.2.1 this

/-- the swept list is sorted and non-overlapping (all pairs), every element non-negative -/
theorem sweep_pairwise (pt : Int) : ∀ (es : List (Ev D)) (wu : Bool) (c : Ev D), 0 ≤ c.dur → Al c →
    Chain c es → (sweep pt wu c es).Pairwise (fun a b => a.fin ≤ b.ts)
  | [], _, c, _, _, _ => by simp [sweep]
  | e :: es, wu, c, hc, ac, hch => by
    obtain ⟨hg, he, ae, hrest⟩ := hch
    have sf := step_fin pt wu c e hc he hg ac ae
    have hch' := (chain_congr e _ es sf.1).2 hrest
    have ih := sweep_pairwise pt es (step pt wu c e).2.2 (step pt wu c e).2.1 sf.2.2.1
      sf.2.2.2.2.2.2.2.2.2 hch'
    simp only [sweep]
    refine List.Pairwise.cons ?_ ih
    intro x hx
    have := sweep_lb pt es _ (step pt wu c e).2.1 sf.2.2.1 sf.2.2.2.2.2.2.2.2.2 hch' x hx
    exact Int.le_trans sf.2.2.2.2.2.2.1 this

/-- covered time after the sweep = covered time before ∪ the gaps of length ≤ `pt` -/
theorem sweep_cover (pt : Int) (hpt : 0 ≤ pt) : ∀ (es : List (Ev D)) (wu : Bool) (c : Ev D),
    0 ≤ c.dur → Al c → Chain c es → ∀ t,
    (cov (sweep pt wu c es) t ↔ (c.ts ≤ t ∧ t < c.fin) ∨ cov es t ∨ shortGap pt c es t)
  | [], _, c, _, _, _, t => by simp [sweep, cov, shortGap]
  | e :: es, wu, c, hc, ac, hch, t => by
    obtain ⟨hg, he, ae, hrest⟩ := hch
    have sf := step_fin pt wu c e hc he hg ac ae
    have sc := step_cover pt hpt wu c e hc he hg ac ae t
    have ih := sweep_cover pt hpt es (step pt wu c e).2.2 (step pt wu c e).2.1 sf.2.2.1
      sf.2.2.2.2.2.2.2.2.2 ((chain_congr e _ es sf.1).2 hrest) t
    have sg := shortGap_congr pt e (step pt wu c e).2.1 es t sf.1
    simp only [sweep, cov, List.mem_cons, shortGap] at *
    constructor
    · rintro ⟨x, hx | hx, h1, h2⟩
      · subst hx
        have := sc.1 (Or.inl ⟨h1, h2⟩)
        rcases this with h | h | h
        · exact Or.inl h
        · exact Or.inr (Or.inl ⟨e, Or.inl rfl, h⟩)
        · exact Or.inr (Or.inr (Or.inl h))
      · have := ih.1 ⟨x, hx, h1, h2⟩
        rcases this with h | ⟨y, hy, hy2⟩ | h
        · have := sc.1 (Or.inr h)
          rcases this with h | h | h
          · exact Or.inl h
          · exact Or.inr (Or.inl ⟨e, Or.inl rfl, h⟩)
          · exact Or.inr (Or.inr (Or.inl h))
        · exact Or.inr (Or.inl ⟨y, Or.inr hy, hy2⟩)
        · exact Or.inr (Or.inr (Or.inr (sg.1 h)))
    · rintro (h | ⟨y, hy | hy, hy2⟩ | h | h)
      · rcases sc.2 (Or.inl h) with h' | h'
        · exact ⟨_, Or.inl rfl, h'⟩
        · obtain ⟨x, hx, hx2⟩ := ih.2 (Or.inl h'); exact ⟨x, Or.inr hx, hx2⟩
      · subst hy
        rcases sc.2 (Or.inr (Or.inl hy2)) with h' | h'
        · exact ⟨_, Or.inl rfl, h'⟩
        · obtain ⟨x, hx, hx2⟩ := ih.2 (Or.inl h'); exact ⟨x, Or.inr hx, hx2⟩
      · obtain ⟨x, hx, hx2⟩ := ih.2 (Or.inr (Or.inl ⟨y, hy, hy2⟩)); exact ⟨x, Or.inr hx, hx2⟩
      · rcases sc.2 (Or.inr (Or.inr h)) with h' | h'
        · exact ⟨_, Or.inl rfl, h'⟩
        · obtain ⟨x, hx, hx2⟩ := ih.2 (Or.inl h'); exact ⟨x, Or.inr hx, hx2⟩
      · obtain ⟨x, hx, hx2⟩ := ih.2 (Or.inr (Or.inr (sg.2 h))); exact ⟨x, Or.inr hx, hx2⟩

/-- every label still covers, after the sweep, what it covered before -/
theorem sweep_label (pt : Int) : ∀ (es : List (Ev D)) (wu : Bool) (c : Ev D), 0 ≤ c.dur → Al c →
    Chain c es → ∀ d t, covD d (c :: es) t → covD d (sweep pt wu c es) t
  | [], _, c, _, _, _, d, t => by simp [sweep]
  | e :: es, wu, c, hc, ac, hch, d, t => by
    obtain ⟨hg, he, ae, hrest⟩ := hch
    have sf := step_fin pt wu c e hc he hg ac ae
    have ih := sweep_label pt es (step pt wu c e).2.2 (step pt wu c e).2.1 sf.2.2.1
      sf.2.2.2.2.2.2.2.2.2 ((chain_congr e _ es sf.1).2 hrest) d t
    have sl := step_label pt wu c e hc he hg ac ae d t
    simp only [sweep, covD, List.mem_cons] at *
    rintro ⟨x, hx | hx | hx, hd, h1, h2⟩
    · subst hx
      rcases sl (Or.inl ⟨hd, h1, h2⟩) with h | h
      · exact ⟨_, Or.inl rfl, h⟩
      · obtain ⟨y, hy, hy2⟩ := ih ⟨_, Or.inl rfl, h⟩; exact ⟨y, Or.inr hy, hy2⟩
    · subst hx
      rcases sl (Or.inr ⟨hd, h1, h2⟩) with h | h
      · exact ⟨_, Or.inl rfl, h⟩
      · obtain ⟨y, hy, hy2⟩ := ih ⟨_, Or.inl rfl, h⟩; exact ⟨y, Or.inr hy, hy2⟩
    · obtain ⟨y, hy, hy2⟩ := ih ⟨x, Or.inr hx, hd, h1, h2⟩; exact ⟨y, Or.inr hy, hy2⟩

/-! ### label retention without the whole-millisecond hypothesis on durations -/

/-- the timestamp is a whole millisecond (true of every `Event` object: the constructor and the
    `timestamp` setter floor to milliseconds) -/
def TsAl (e : Ev D) : Prop := e.ts % 1000 = 0

theorem chainP_mono (P : Ev D → Prop) (c c' : Ev D) (es : List (Ev D)) (h : c'.fin ≤ c.fin) :
    ChainP P c es → ChainP P c' es := by
  cases es with
  | nil => simp [ChainP]
  | cons e es => simp only [ChainP]; exact fun ⟨a, b⟩ => ⟨Int.le_trans h a, b⟩

/-- one loop body on a non-overlapping pair with whole-millisecond timestamps (any durations ≥ 0):
    the second event's end does not move later, it stays non-negative with an aligned timestamp -/
theorem step_weak (pt : Int) (wu : Bool) (c e : Ev D) (hc : 0 ≤ c.dur) (he : 0 ≤ e.dur)
    (hg : c.fin ≤ e.ts) (ac : TsAl c) (ae : TsAl e) :
    (step pt wu c e).2.1.fin ≤ e.fin ∧ 0 ≤ (step pt wu c e).2.1.dur ∧ TsAl (step pt wu c e).2.1 := by
  unfold step setTs msFloor Ev.fin thres TsAl at *
  grind

theorem step_label_weak (pt : Int) (wu : Bool) (c e : Ev D) (hc : 0 ≤ c.dur) (he : 0 ≤ e.dur)
    (hg : c.fin ≤ e.ts) (ac : TsAl c) (ae : TsAl e) (d : D) (t : Int) :
    ((c.data = d ∧ c.ts ≤ t ∧ t < c.fin) ∨ (e.data = d ∧ e.ts ≤ t ∧ t < e.fin)) →
    (((step pt wu c e).1.data = d ∧ (step pt wu c e).1.ts ≤ t ∧ t < (step pt wu c e).1.fin) ∨
     ((step pt wu c e).2.1.data = d ∧ (step pt wu c e).2.1.ts ≤ t ∧
        t < (step pt wu c e).2.1.fin)) := by
  unfold step setTs msFloor Ev.fin thres TsAl at *
  grind

theorem sweep_label_weak (pt : Int) : ∀ (es : List (Ev D)) (wu : Bool) (c : Ev D), 0 ≤ c.dur →
    TsAl c → ChainP TsAl c es → ∀ d t, covD d (c :: es) t → covD d (sweep pt wu c es) t
  | [], _, c, _, _, _, d, t => by simp [sweep]
  | e :: es, wu, c, hc, ac, hch, d, t => by
    obtain ⟨hg, he, ae, hrest⟩ := hch
    have sf := step_weak pt wu c e hc he hg ac ae
    have ih := sweep_label_weak pt es (step pt wu c e).2.2 (step pt wu c e).2.1 sf.2.1
      sf.2.2 (chainP_mono _ e _ es sf.1 hrest) d t
    have sl := step_label_weak pt wu c e hc he hg ac ae d t
    simp only [sweep, covD, List.mem_cons] at *
    rintro ⟨x, hx | hx | hx, hd, h1, h2⟩
    · subst hx
      rcases sl (Or.inl ⟨hd, h1, h2⟩) with h | h
      · exact ⟨_, Or.inl rfl, h⟩
      · obtain ⟨y, hy, hy2⟩ := ih ⟨_, Or.inl rfl, h⟩; exact ⟨y, Or.inr hy, hy2⟩
    · subst hx
      rcases sl (Or.inr ⟨hd, h1, h2⟩) with h | h
      · exact ⟨_, Or.inl rfl, h⟩
      · obtain ⟨y, hy, hy2⟩ := ih ⟨_, Or.inl rfl, h⟩; exact ⟨y, Or.inr hy, hy2⟩
    · obtain ⟨y, hy, hy2⟩ := ih ⟨x, Or.inr hx, hd, h1, h2⟩; exact ⟨y, Or.inr hy, hy2⟩

/-! ### the final filter -/

theorem cov_filter (l : List (Ev D)) (t : Int) :
    cov (l.filter (fun e => 0 < e.dur)) t ↔ cov l t := by
  unfold cov Ev.fin
  constructor
  · rintro ⟨e, he, h⟩
    exact ⟨e, (List.mem_filter.1 he).1, h⟩
  · rintro ⟨e, he, h1, h2⟩
    exact ⟨e, List.mem_filter.2 ⟨he, by simp; omega⟩, h1, h2⟩

theorem covD_filter (d : D) (l : List (Ev D)) (t : Int) :
    covD d (l.filter (fun e => 0 < e.dur)) t ↔ covD d l t := by
  unfold covD Ev.fin
  constructor
  · rintro ⟨e, he, h⟩
    exact ⟨e, (List.mem_filter.1 he).1, h⟩
  · rintro ⟨e, he, hd, h1, h2⟩
    exact ⟨e, List.mem_filter.2 ⟨he, by simp; omega⟩, hd, h1, h2⟩

/-! ### inputs in any order: from "pairwise disjoint with distinct timestamps" to a chain -/

/-- two events have different timestamps and do not overlap (symmetric) -/
def Apart (a b : Ev D) : Prop := a.ts ≠ b.ts ∧ (a.fin ≤ b.ts ∨ b.fin ≤ a.ts)

theorem Apart.symm {a b : Ev D} (h : Apart a b) : Apart b a :=
  ⟨fun e => h.1 e.symm, h.2.symm⟩

/-- a list sorted by timestamp whose events are pairwise apart, non-negative and satisfy `P`
    is a chain -/
theorem chainP_of_sorted (P : Ev D → Prop) : ∀ (es : List (Ev D)) (c : Ev D),
    (c :: es).Pairwise (fun a b => a.ts ≤ b.ts) → (c :: es).Pairwise Apart →
    (∀ e ∈ c :: es, 0 ≤ e.dur ∧ P e) → ChainP P c es
  | [], _, _, _, _ => by simp [ChainP]
  | e :: es, c, hs, ha, hp => by
    have h1 : c.ts ≤ e.ts := List.rel_of_pairwise_cons hs (List.mem_cons_self ..)
    have h2 : Apart c e := List.rel_of_pairwise_cons ha (List.mem_cons_self ..)
    have h3 := hp e (List.mem_cons_of_mem _ (List.mem_cons_self ..))
    refine ⟨?_, h3.1, h3.2, chainP_of_sorted P es e (List.Pairwise.of_cons hs)
      (List.Pairwise.of_cons ha) (fun x hx => hp x (List.mem_cons_of_mem _ hx))⟩
    unfold Apart Ev.fin at h2
    unfold Ev.fin
    omega

/-- in such a list the timestamps increase strictly -/
theorem strict_of_sorted : ∀ (l : List (Ev D)),
    l.Pairwise (fun a b => a.ts ≤ b.ts) → l.Pairwise Apart → l.Pairwise (fun a b => a.ts < b.ts)
  | [], _, _ => List.Pairwise.nil
  | c :: es, hs, ha => by
    refine List.Pairwise.cons ?_ (strict_of_sorted es (List.Pairwise.of_cons hs)
      (List.Pairwise.of_cons ha))
    intro x hx
    have h1 := List.rel_of_pairwise_cons hs hx
    have h2 : Apart c x := List.rel_of_pairwise_cons ha hx
    unfold Apart at h2
    omega

/-! ### gaps between timestamp neighbours, stated without reference to an order of the list -/

/-- `a` and `b` are neighbours in timestamp order among the events of `l` -/
def Neighbours (l : List (Ev D)) (a b : Ev D) : Prop :=
  a ∈ l ∧ b ∈ l ∧ a.ts < b.ts ∧ ∀ x ∈ l, ¬ (a.ts < x.ts ∧ x.ts < b.ts)

/-- `t` lies between two timestamp neighbours whose gap is at most `pt` -/
def inShortGap (pt : Int) (l : List (Ev D)) (t : Int) : Prop :=
  ∃ a b, Neighbours l a b ∧ a.fin ≤ t ∧ t < b.ts ∧ b.ts - a.fin ≤ pt

theorem inShortGap_congr (pt : Int) (l l' : List (Ev D)) (t : Int) (h : ∀ x, x ∈ l ↔ x ∈ l') :
    inShortGap pt l t ↔ inShortGap pt l' t := by
  unfold inShortGap Neighbours
  simp only [h]

theorem cov_congr (l l' : List (Ev D)) (t : Int) (h : ∀ x, x ∈ l ↔ x ∈ l') :
    cov l t ↔ cov l' t := by
  unfold cov; simp only [h]

theorem covD_congr (d : D) (l l' : List (Ev D)) (t : Int) (h : ∀ x, x ∈ l ↔ x ∈ l') :
    covD d l t ↔ covD d l' t := by
  unfold covD; simp only [h]

/-- on a list with strictly increasing timestamps, the gaps between list neighbours are the gaps
    between timestamp neighbours -/
theorem shortGap_iff (pt : Int) : ∀ (es : List (Ev D)) (c : Ev D) (t : Int),
    (c :: es).Pairwise (fun a b => a.ts < b.ts) →
    (shortGap pt c es t ↔ inShortGap pt (c :: es) t)
  | [], c, t, _ => by
    simp only [shortGap, inShortGap, Neighbours, List.mem_singleton, false_iff]
    rintro ⟨a, b, ⟨rfl, rfl, h, _⟩, _⟩
    omega
  | e :: es, c, t, hs => by
    have ih := shortGap_iff pt es e t (List.Pairwise.of_cons hs)
    have hce : c.ts < e.ts := List.rel_of_pairwise_cons hs (List.mem_cons_self ..)
    have hc : ∀ x ∈ e :: es, c.ts < x.ts := fun x hx => List.rel_of_pairwise_cons hs hx
    have he : ∀ x ∈ es, e.ts < x.ts :=
      fun x hx => List.rel_of_pairwise_cons (List.Pairwise.of_cons hs) hx
    simp only [shortGap]
    constructor
    · rintro (h | h)
      · refine ⟨c, e, ⟨List.mem_cons_self .., List.mem_cons_of_mem _ (List.mem_cons_self ..), hce, ?_⟩, h⟩
        intro x hx
        rcases List.mem_cons.1 hx with rfl | hx
        · omega
        · rcases List.mem_cons.1 hx with rfl | hx
          · omega
          · have := he x hx; omega
      · obtain ⟨a, b, ⟨ha, hb, hab, hn⟩, hg⟩ := ih.1 h
        refine ⟨a, b, ⟨List.mem_cons_of_mem _ ha, List.mem_cons_of_mem _ hb, hab, ?_⟩, hg⟩
        intro x hx
        rcases List.mem_cons.1 hx with rfl | hx
        · have := hc a ha; omega
        · exact hn x hx
    · rintro ⟨a, b, ⟨ha, hb, hab, hn⟩, hg⟩
      rcases List.mem_cons.1 ha with hac | ha'
      · -- a = c: then b = e
        rcases List.mem_cons.1 hb with hbc | hb'
        · rw [hac, hbc] at hab; omega
        · rcases List.mem_cons.1 hb' with hbe | hb''
          · rw [hac, hbe] at hg; exact Or.inl hg
          · have h1 := he b hb''
            rw [hac] at hn
            exact absurd ⟨hce, h1⟩ (hn e (List.mem_cons_of_mem _ (List.mem_cons_self ..)))
      · rcases List.mem_cons.1 hb with hbc | hb'
        · have := hc a ha'; rw [hbc] at hab; omega
        · exact Or.inr (ih.2 ⟨a, b, ⟨ha', hb', hab, fun x hx => hn x (List.mem_cons_of_mem _ hx)⟩, hg⟩)

end Aw.Flood
