import AwModel.Flood
import AwProofs.Lemmas.PySort
/-! Helper lemmas for C10: one step of flood's pair loop, the sweep, the sort/filter wrapper. -/
namespace Aw.Flood
open Aw
variable {D : Type} [DecidableEq D]
set_option linter.unusedSectionVars false

/-- timestamp and duration are whole milliseconds -/
def Al (e : Ev D) : Prop := e.ts % 1000 = 0 ∧ e.dur % 1000 = 0

theorem msFloor_of_aligned (t : Int) (h : t % 1000 = 0) : msFloor t = t := by
  unfold msFloor; omega

/-- One loop body on a non-overlapping pair of non-negative, millisecond-aligned events:
    the second event keeps its end and data, the first its start and data, both stay
    non-negative and aligned, the pair stays non-overlapping and the second does not start before
    the first. -/
theorem step_fin (pt : Int) (wu : Bool) (c e : Ev D) (hc : 0 ≤ c.dur) (he : 0 ≤ e.dur)
    (hg : c.fin ≤ e.ts) (ac : Al c) (ae : Al e) :
    (step pt wu c e).2.1.fin = e.fin ∧ (step pt wu c e).2.1.data = e.data ∧
    0 ≤ (step pt wu c e).2.1.dur ∧
    (step pt wu c e).1.ts = c.ts ∧ (step pt wu c e).1.data = c.data ∧ 0 ≤ (step pt wu c e).1.dur ∧
    (step pt wu c e).1.fin ≤ (step pt wu c e).2.1.ts ∧ c.ts ≤ (step pt wu c e).2.1.ts ∧
    Al (step pt wu c e).1 ∧ Al (step pt wu c e).2.1 := by
  unfold step setTs msFloor Ev.fin thres Al at *
  grind

/-- coverage of the pair after one step = coverage before ∪ the gap if it is at most `pt` -/
theorem step_cover (pt : Int) (hpt : 0 ≤ pt) (wu : Bool) (c e : Ev D) (hc : 0 ≤ c.dur)
    (he : 0 ≤ e.dur) (hg : c.fin ≤ e.ts) (ac : Al c) (ae : Al e) (t : Int) :
    ((step pt wu c e).1.ts ≤ t ∧ t < (step pt wu c e).1.fin) ∨
      ((step pt wu c e).2.1.ts ≤ t ∧ t < (step pt wu c e).2.1.fin) ↔
    (c.ts ≤ t ∧ t < c.fin) ∨ (e.ts ≤ t ∧ t < e.fin) ∨
      (c.fin ≤ t ∧ t < e.ts ∧ e.ts - c.fin ≤ pt) := by
  unfold step setTs msFloor Ev.fin thres Al at *
  grind

/-- per step, every label keeps what it covered -/
theorem step_label (pt : Int) (wu : Bool) (c e : Ev D) (hc : 0 ≤ c.dur) (he : 0 ≤ e.dur)
    (hg : c.fin ≤ e.ts) (ac : Al c) (ae : Al e) (d : D) (t : Int) :
    ((c.data = d ∧ c.ts ≤ t ∧ t < c.fin) ∨ (e.data = d ∧ e.ts ≤ t ∧ t < e.fin)) →
    (((step pt wu c e).1.data = d ∧ (step pt wu c e).1.ts ≤ t ∧ t < (step pt wu c e).1.fin) ∨
     ((step pt wu c e).2.1.data = d ∧ (step pt wu c e).2.1.ts ≤ t ∧
        t < (step pt wu c e).2.1.fin)) := by
  unfold step setTs msFloor Ev.fin thres Al at *
  grind

/-! ### the sweep -/

/-- the tail `es` continues the carried event `c` as a sorted chain of non-overlapping,
    non-negative, millisecond-aligned events -/
def Chain : Ev D → List (Ev D) → Prop
  | _, [] => True
  | c, e :: es => c.fin ≤ e.ts ∧ 0 ≤ e.dur ∧ Al e ∧ Chain e es

/-- `t` is covered by some event of `l` (half-open intervals; zero-length events cover nothing) -/
def cov (l : List (Ev D)) (t : Int) : Prop := ∃ e ∈ l, e.ts ≤ t ∧ t < e.fin

/-- `t` is covered by some event of `l` with data `d` -/
def covD (d : D) (l : List (Ev D)) (t : Int) : Prop := ∃ e ∈ l, e.data = d ∧ e.ts ≤ t ∧ t < e.fin

/-- `t` lies in a gap of length ≤ `pt` between consecutive events of `c :: es` -/
def shortGap (pt : Int) : Ev D → List (Ev D) → Int → Prop
  | _, [], _ => False
  | c, e :: es, t => (c.fin ≤ t ∧ t < e.ts ∧ e.ts - c.fin ≤ pt) ∨ shortGap pt e es t

theorem shortGap_congr (pt : Int) (c c' : Ev D) (es : List (Ev D)) (t : Int) (h : c'.fin = c.fin) :
    shortGap pt c' es t ↔ shortGap pt c es t := by
  cases es with
  | nil => simp [shortGap]
  | cons e es => simp [shortGap, h]

theorem chain_congr (c c' : Ev D) (es : List (Ev D)) (h : c'.fin = c.fin) :
    Chain c' es ↔ Chain c es := by
  cases es with
  | nil => simp [Chain]
  | cons e es => simp [Chain, h]

/-- every event of the swept list starts at or after the carried event's start -/
theorem sweep_lb (pt : Int) : ∀ (es : List (Ev D)) (wu : Bool) (c : Ev D), 0 ≤ c.dur → Al c →
    Chain c es → ∀ x ∈ sweep pt wu c es, c.ts ≤ x.ts
  | [], _, c, _, _, _, x, hx => by
    simp only [sweep, List.mem_singleton] at hx; subst hx; exact Int.le_refl _
  | e :: es, wu, c, hc, ac, hch, x, hx => by
    obtain ⟨hg, he, ae, hrest⟩ := hch
    have sf := step_fin pt wu c e hc he hg ac ae
    simp only [sweep, List.mem_cons] at hx
    rcases hx with rfl | hx
    · exact Int.le_of_eq sf.2.2.2.1.symm
    · have := sweep_lb pt es _ (step pt wu c e).2.1 sf.2.2.1 sf.2.2.2.2.2.2.2.2.2
        ((chain_congr e _ es sf.1).2 hrest) x hx
      exact Int.le_trans sf.2.2.2.2.2.2.2.1 this

/-- the swept list is sorted and non-overlapping (all pairs), every element non-negative -/
theorem sweep_pairwise (pt : Int) : ∀ (es : List (Ev D)) (wu : Bool) (c : Ev D), 0 ≤ c.dur → Al c →
    Chain c es → (sweep pt wu c es).Pairwise (fun a b => a.fin ≤ b.ts)
  | [], _, c, _, _, _ => by simp [sweep]
  | e :: es, wu, c, hc, ac, hch => by
    obtain ⟨hg, he, ae, hrest⟩ := hch
    have sf := step_fin pt wu c e hc he hg ac ae
    have hch' := (chain_congr e _ es sf.1).2 hrest
    have ih := sweep_pairwise pt es (step pt wu c e).2.2 (step pt wu c e).2.1 sf.2.2.1
      sf.2.2.2.2.2.2.2.2.2 hch'
    simp only [sweep]
    refine List.Pairwise.cons ?_ ih
    intro x hx
    have := sweep_lb pt es _ (step pt wu c e).2.1 sf.2.2.1 sf.2.2.2.2.2.2.2.2.2 hch' x hx
    exact Int.le_trans sf.2.2.2.2.2.2.1 this

/-- covered time after the sweep = covered time before ∪ the gaps of length ≤ `pt` -/
theorem sweep_cover (pt : Int) (hpt : 0 ≤ pt) : ∀ (es : List (Ev D)) (wu : Bool) (c : Ev D),
    0 ≤ c.dur → Al c → Chain c es → ∀ t,
    (cov (sweep pt wu c es) t ↔ (c.ts ≤ t ∧ t < c.fin) ∨ cov es t ∨ shortGap pt c es t)
  | [], _, c, _, _, _, t => by simp [sweep, cov, shortGap]
  | e :: es, wu, c, hc, ac, hch, t => by
    obtain ⟨hg, he, ae, hrest⟩ := hch
    have sf := step_fin pt wu c e hc he hg ac ae
    have sc := step_cover pt hpt wu c e hc he hg ac ae t
    have ih := sweep_cover pt hpt es (step pt wu c e).2.2 (step pt wu c e).2.1 sf.2.2.1
      sf.2.2.2.2.2.2.2.2.2 ((chain_congr e _ es sf.1).2 hrest) t
    have sg := shortGap_congr pt e (step pt wu c e).2.1 es t sf.1
    simp only [sweep, cov, List.mem_cons, shortGap] at *
    constructor
    · rintro ⟨x, hx | hx, h1, h2⟩
      · subst hx
        have := sc.1 (Or.inl ⟨h1, h2⟩)
        rcases this with h | h | h
        · exact Or.inl h
        · exact Or.inr (Or.inl ⟨e, Or.inl rfl, h⟩)
        · exact Or.inr (Or.inr (Or.inl h))
      · have := ih.1 ⟨x, hx, h1, h2⟩
        rcases this with h | ⟨y, hy, hy2⟩ | h
        · have := sc.1 (Or.inr h)
          rcases this with h | h | h
          · exact Or.inl h
          · exact Or.inr (Or.inl ⟨e, Or.inl rfl, h⟩)
          · exact Or.inr (Or.inr (Or.inl h))
        · exact Or.inr (Or.inl ⟨y, Or.inr hy, hy2⟩)
        · exact Or.inr (Or.inr (Or.inr (sg.1 h)))
    · rintro (h | ⟨y, hy | hy, hy2⟩ | h | h)
      · rcases sc.2 (Or.inl h) with h' | h'
        · exact ⟨_, Or.inl rfl, h'⟩
        · obtain ⟨x, hx, hx2⟩ := ih.2 (Or.inl h'); exact ⟨x, Or.inr hx, hx2⟩
      · subst hy
        rcases sc.2 (Or.inr (Or.inl hy2)) with h' | h'
        · exact ⟨_, Or.inl rfl, h'⟩
        · obtain ⟨x, hx, hx2⟩ := ih.2 (Or.inl h'); exact ⟨x, Or.inr hx, hx2⟩
      · obtain ⟨x, hx, hx2⟩ := ih.2 (Or.inr (Or.inl ⟨y, hy, hy2⟩)); exact ⟨x, Or.inr hx, hx2⟩
      · rcases sc.2 (Or.inr (Or.inr h)) with h' | h'
        · exact ⟨_, Or.inl rfl, h'⟩
        · obtain ⟨x, hx, hx2⟩ := ih.2 (Or.inl h'); exact ⟨x, Or.inr hx, hx2⟩
      · obtain ⟨x, hx, hx2⟩ := ih.2 (Or.inr (Or.inr (sg.2 h))); exact ⟨x, Or.inr hx, hx2⟩

/-- every label still covers, after the sweep, what it covered before -/
theorem sweep_label (pt : Int) : ∀ (es : List (Ev D)) (wu : Bool) (c : Ev D), 0 ≤ c.dur → Al c →
    Chain c es → ∀ d t, covD d (c :: es) t → covD d (sweep pt wu c es) t
  | [], _, c, _, _, _, d, t => by simp [sweep]
  | e :: es, wu, c, hc, ac, hch, d, t => by
    obtain ⟨hg, he, ae, hrest⟩ := hch
    have sf := step_fin pt wu c e hc he hg ac ae
    have ih := sweep_label pt es (step pt wu c e).2.2 (step pt wu c e).2.1 sf.2.2.1
      sf.2.2.2.2.2.2.2.2.2 ((chain_congr e _ es sf.1).2 hrest) d t
    have sl := step_label pt wu c e hc he hg ac ae d t
    simp only [sweep, covD, List.mem_cons] at *
    rintro ⟨x, hx | hx | hx, hd, h1, h2⟩
    · subst hx
      rcases sl (Or.inl ⟨hd, h1, h2⟩) with h | h
      · exact ⟨_, Or.inl rfl, h⟩
      · obtain ⟨y, hy, hy2⟩ := ih ⟨_, Or.inl rfl, h⟩; exact ⟨y, Or.inr hy, hy2⟩
    · subst hx
      rcases sl (Or.inr ⟨hd, h1, h2⟩) with h | h
      · exact ⟨_, Or.inl rfl, h⟩
      · obtain ⟨y, hy, hy2⟩ := ih ⟨_, Or.inl rfl, h⟩; exact ⟨y, Or.inr hy, hy2⟩
    · obtain ⟨y, hy, hy2⟩ := ih ⟨x, Or.inr hx, hd, h1, h2⟩; exact ⟨y, Or.inr hy, hy2⟩

end Aw.Flood
