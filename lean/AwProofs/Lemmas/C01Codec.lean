import AwModel.Store.Codec
import AwProofs.Lemmas.Float64
/-!
# Row codecs are the identity on the supported range (C01, part A)

`sqliteDecode_id`, `peeweeDur_id`, `peeweeDecode_id`: consequences of `Fl.decF_exact` and
`Fl.td_total_roundtrip` (binary64 error analysis on `Rat`, nothing enumerated).
-/
namespace Aw.Store.Codec
open Aw

theorem floorMs_of_dvd {t : Int} (h : 1000 ∣ t) : floorMs t = t := by
  unfold floorMs; omega

/-- a sqlite row with a ms-aligned start decodes to itself: any instant, any duration (rows are
    decoded with integer arithmetic since F24) -/
theorem sqliteDecode_id {D} (e : Ev D) (hms : 1000 ∣ e.ts) : sqliteDecode e = e := by
  obtain ⟨i, t, d, x⟩ := e
  simp only at hms
  simp only [sqliteDecode, floorMs_of_dvd hms, Ev.mk.injEq, true_and, and_true]
  omega


theorem peeweeDur_id (d : Int) (h0 : 0 ≤ d) (h1 : d < 4294967296000000) : peeweeDur d = d :=
  Fl.td_total_roundtrip d h0 h1

theorem peeweeDecode_id {D} (e : Ev D) (h0 : 0 ≤ e.dur) (h1 : e.dur < 4294967296000000) :
    peeweeDecode e = e := by
  unfold peeweeDecode
  rw [peeweeDur_id e.dur h0 h1]

end Aw.Store.Codec
