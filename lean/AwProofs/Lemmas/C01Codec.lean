import AwModel.Store.Codec
import AwProofs.Lemmas.Float64
/-!
# Row codecs are the identity on the supported range (C01, part A)

`sqliteDecode_id`, `peeweeDur_id`, `peeweeDecode_id`: consequences of `Fl.decF_exact` and
`Fl.td_total_roundtrip` (binary64 error analysis on `Rat`, nothing enumerated).
-/
namespace Aw.Store.Codec
open Aw

theorem floorMs_of_dvd {t : Int} (h : 1000 ∣ t) : floorMs t = t := by
  unfold floorMs; omega

/-- a sqlite row with ms-aligned start after −2^32 s (1833; in particular every instant whose
    wall-clock date is in 1970 at some UTC offset) and end before 2^32 s decodes to itself -/
theorem sqliteDecode_id {D} (e : Ev D) (h0 : -4294967296000000 < e.ts) (hms : 1000 ∣ e.ts) (hd : 0 ≤ e.dur)
    (h1 : e.ts + e.dur < 4294967296000000) : sqliteDecode e = e := by
  obtain ⟨i, t, d, x⟩ := e
  simp only at h0 hms hd h1
  have hs : Fl.decF (t : Rat) = t := Fl.decF_exact t h0 (by omega)
  have hz : Fl.decF ((t : Rat) + (d : Rat)) = t + d := by
    have := Fl.decF_exact (t + d) (by omega) h1
    rwa [Int.cast_add] at this
  simp only [sqliteDecode]
  rw [hz, hs, floorMs_of_dvd hms]
  simp only [Ev.mk.injEq, true_and, and_true]
  omega


theorem peeweeDur_id (d : Int) (h0 : 0 ≤ d) (h1 : d < 4294967296000000) : peeweeDur d = d :=
  Fl.td_total_roundtrip d h0 h1

theorem peeweeDecode_id {D} (e : Ev D) (h0 : 0 ≤ e.dur) (h1 : e.dur < 4294967296000000) :
    peeweeDecode e = e := by
  unfold peeweeDecode
  rw [peeweeDur_id e.dur h0 h1]

end Aw.Store.Codec
