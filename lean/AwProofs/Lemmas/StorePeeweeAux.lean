import AwModel.Store.Peewee
import AwModel.Store.Spec
/-!
# List facts used by the Peewee refinement proofs (`StorePeewee.lean`)
-/
namespace Aw.Store.Peewee.Aux
open Aw Aw.Store

variable {α β : Type}

theorem find?_congr_mem {p q : α → Bool} {l : List α} (h : ∀ x ∈ l, p x = q x) :
    l.find? p = l.find? q := by
  induction l with
  | nil => rfl
  | cons a t ih =>
    have ha := h a (List.mem_cons_self ..)
    have ht : ∀ x ∈ t, p x = q x := fun x hx => h x (List.mem_cons_of_mem _ hx)
    simp only [List.find?_cons, ha, ih ht]

/-- a list whose image under `f` has no duplicates: `f` is injective on it -/
theorem nodup_map_inj {f : α → β} {l : List α} (h : (l.map f).Nodup) :
    ∀ x ∈ l, ∀ y ∈ l, f x = f y → x = y := by
  induction l with
  | nil => intro x hx; cases hx
  | cons a t ih =>
    rw [List.map_cons, List.nodup_cons] at h
    obtain ⟨ha, ht⟩ := h
    intro x hx y hy hxy
    rcases List.mem_cons.mp hx with rfl | hx' <;> rcases List.mem_cons.mp hy with rfl | hy'
    · rfl
    · exact absurd (hxy ▸ List.mem_map_of_mem hy') ha
    · exact absurd (hxy ▸ List.mem_map_of_mem hx') ha
    · exact ih ht x hx' y hy' hxy

theorem find?_of_nodup_map [DecidableEq β] {f : α → β} {l : List α} (h : (l.map f).Nodup)
    {r : α} (hr : r ∈ l) : l.find? (fun x => decide (f x = f r)) = some r := by
  cases hf : l.find? (fun x => decide (f x = f r)) with
  | none =>
    have := List.find?_eq_none.mp hf r hr
    simp at this
  | some x =>
    have hx := List.mem_of_find?_eq_some hf
    have px := List.find?_some hf
    simp only [decide_eq_true_eq] at px
    rw [nodup_map_inj h x hx r hr px]

/-- at most one element of a list whose `f`-image has no duplicates has a given `f`-value -/
theorem filter_length_le_one [DecidableEq β] {f : α → β} {l : List α} (h : (l.map f).Nodup)
    (p : α → Bool) (c : β) (hp : ∀ x ∈ l, p x = true → f x = c) : (l.filter p).length ≤ 1 := by
  induction l with
  | nil => simp
  | cons a t ih =>
    rw [List.map_cons, List.nodup_cons] at h
    obtain ⟨ha, ht⟩ := h
    have hpt : ∀ x ∈ t, p x = true → f x = c := fun x hx => hp x (List.mem_cons_of_mem _ hx)
    rw [List.filter_cons]
    by_cases hpa : p a = true
    · rw [if_pos hpa]
      have hfa := hp a (List.mem_cons_self ..) hpa
      have : t.filter p = [] := by
        rw [List.filter_eq_nil_iff]
        intro x hx hpx
        exact ha (by rw [hfa, ← hpt x hx hpx]; exact List.mem_map_of_mem hx)
      simp [this]
    · rw [if_neg hpa]; exact ih ht hpt

/-! ### `maxKey`, `maxId` -/

theorem foldl_max_ge (g : α → Int) (l : List α) (a : Int) :
    a ≤ l.foldl (fun a r => max a (g r)) a ∧ ∀ r ∈ l, g r ≤ l.foldl (fun a r => max a (g r)) a := by
  induction l generalizing a with
  | nil => exact ⟨Int.le_refl _, fun r hr => by cases hr⟩
  | cons x t ih =>
    simp only [List.foldl_cons]
    obtain ⟨h1, h2⟩ := ih (max a (g x))
    refine ⟨by omega, fun r hr => ?_⟩
    rcases List.mem_cons.mp hr with rfl | hr'
    · omega
    · exact h2 r hr'

theorem foldl_max_map (g : α → Int) (l : List α) (a : Int) :
    l.foldl (fun a r => max a (g r)) a = (l.map g).foldl (fun a i => max a i) a := by
  rw [List.foldl_map]

theorem key_le_maxKey {l : List BRow} {r : BRow} (h : r ∈ l) : r.key ≤ maxKey l :=
  (foldl_max_ge (fun r : BRow => r.key) l 0).2 r h

variable {D : Type}

theorem id_le_maxId {l : List (ERow D)} {r : ERow D} (h : r ∈ l) : r.id ≤ maxId l :=
  (foldl_max_ge (fun r : ERow D => r.id) l 0).2 r h

theorem maxId_congr {l l' : List (ERow D)} (h : l'.map (·.id) = l.map (·.id)) : maxId l' = maxId l := by
  unfold maxId
  rw [foldl_max_map (fun r : ERow D => r.id), foldl_max_map (fun r : ERow D => r.id)]
  exact congrArg (fun m => List.foldl (fun a i => max a i) 0 m) h

/-! ### stable insertion sort -/

theorem mem_insertBy {key : α → Int} {x y : α} {l : List α} :
    y ∈ insertBy key x l ↔ y = x ∨ y ∈ l := by
  induction l with
  | nil => simp [insertBy]
  | cons a t ih =>
    unfold insertBy
    split
    · simp
    · simp only [List.mem_cons, ih]
      constructor
      · rintro (h | h | h) <;> simp [h]
      · rintro (h | h | h) <;> simp [h]

theorem mem_sortBy {key : α → Int} {y : α} {l : List α} : y ∈ sortBy key l ↔ y ∈ l := by
  induction l with
  | nil => simp [sortBy]
  | cons a t ih => simp only [sortBy, mem_insertBy, ih, List.mem_cons]

theorem sorted_insertBy {key : α → Int} {x : α} {l : List α}
    (h : l.Pairwise (fun a b => key a ≤ key b)) :
    (insertBy key x l).Pairwise (fun a b => key a ≤ key b) := by
  induction l with
  | nil => simp [insertBy]
  | cons a t ih =>
    rw [List.pairwise_cons] at h
    unfold insertBy
    split
    · rename_i hle
      rw [List.pairwise_cons]
      refine ⟨fun y hy => ?_, List.pairwise_cons.mpr h⟩
      rcases List.mem_cons.mp hy with rfl | hy'
      · exact hle
      · exact Int.le_trans hle (h.1 y hy')
    · rename_i hnle
      rw [List.pairwise_cons]
      refine ⟨fun y hy => ?_, ih h.2⟩
      rcases mem_insertBy.mp hy with rfl | hy'
      · omega
      · exact h.1 y hy'

theorem sorted_sortBy {key : α → Int} (l : List α) :
    (sortBy key l).Pairwise (fun a b => key a ≤ key b) := by
  induction l with
  | nil => simp [sortBy]
  | cons a t ih => exact sorted_insertBy ih

/-- the first element of the descending order is a member with maximal key -/
theorem head_sortDesc {key : α → Int} {l : List α} (hne : l ≠ []) :
    ∃ t rest, (sortBy key l.reverse).reverse = t :: rest ∧ t ∈ l ∧ ∀ x ∈ l, key x ≤ key t := by
  have hs : ((sortBy key l.reverse).reverse).Pairwise (fun a b => key b ≤ key a) :=
    List.pairwise_reverse.mpr (sorted_sortBy _)
  have hm : ∀ y, y ∈ (sortBy key l.reverse).reverse ↔ y ∈ l := by
    intro y; rw [List.mem_reverse, mem_sortBy, List.mem_reverse]
  cases hl : (sortBy key l.reverse).reverse with
  | nil =>
    cases l with
    | nil => exact absurd rfl hne
    | cons a t => have := (hm a).mpr (List.mem_cons_self ..); rw [hl] at this; cases this
  | cons t rest =>
    rw [hl] at hs hm
    rw [List.pairwise_cons] at hs
    refine ⟨t, rest, rfl, (hm t).mp (List.mem_cons_self ..), fun x hx => ?_⟩
    rcases List.mem_cons.mp ((hm x).mpr hx) with rfl | hx'
    · exact Int.le_refl _
    · exact hs.1 x hx'

/-! ### stability: among equal keys the descending order keeps the input order -/

/-- `t` is the first element of `l` with maximal key -/
def FirstMax (key : α → Int) (l : List α) (t : α) : Prop :=
  ∃ pre post, l = pre ++ t :: post ∧ (∀ x ∈ pre, key x < key t) ∧ (∀ x ∈ post, key x ≤ key t)

theorem insertBy_keep_last {key : α → Int} {x t0 : α} (L0 : List α) (h : key x ≤ key t0) :
    ∃ L', insertBy key x (L0 ++ [t0]) = L' ++ [t0] := by
  induction L0 with
  | nil => exact ⟨[x], by simp [insertBy, h]⟩
  | cons a L ih =>
    obtain ⟨L', hL'⟩ := ih
    show ∃ L', insertBy key x (a :: (L ++ [t0])) = L' ++ [t0]
    unfold insertBy
    split
    · exact ⟨x :: a :: L, rfl⟩
    · exact ⟨a :: L', by rw [hL']; rfl⟩

theorem insertBy_above {key : α → Int} {x : α} (L : List α) (h : ∀ y ∈ L, key y < key x) :
    insertBy key x L = L ++ [x] := by
  induction L with
  | nil => rfl
  | cons a L ih =>
    have ha := h a (List.mem_cons_self ..)
    unfold insertBy
    rw [if_neg (by omega), ih (fun y hy => h y (List.mem_cons_of_mem _ hy))]
    rfl

theorem sortBy_last {key : α → Int} (r : List α) (hne : r ≠ []) :
    ∃ L0 t, sortBy key r = L0 ++ [t] ∧ FirstMax key r.reverse t := by
  induction r with
  | nil => exact absurd rfl hne
  | cons x xs ih =>
    cases xs with
    | nil => exact ⟨[], x, rfl, [], [], rfl, (fun _ h => by cases h), (fun _ h => by cases h)⟩
    | cons x' xs' =>
      obtain ⟨L0, t0, hs, pre, post, hl, hpre, hpost⟩ := ih (by simp)
      have hrev : (x :: x' :: xs').reverse = pre ++ t0 :: post ++ [x] := by
        rw [List.reverse_cons, hl]
      by_cases hx : key x ≤ key t0
      · obtain ⟨L', hL'⟩ := insertBy_keep_last (key := key) L0 hx
        refine ⟨L', t0, ?_, pre, post ++ [x], by rw [hrev]; simp, hpre, ?_⟩
        · show insertBy key x (sortBy key (x' :: xs')) = _
          rw [hs, hL']
        · intro y hy
          rcases List.mem_append.mp hy with hy | hy
          · exact hpost y hy
          · rw [List.mem_singleton.mp hy]; exact hx
      · have hall : ∀ y ∈ (x' :: xs').reverse, key y < key x := by
          intro y hy
          rw [hl] at hy
          rcases List.mem_append.mp hy with hy | hy
          · have := hpre y hy; omega
          · rcases List.mem_cons.mp hy with rfl | hy
            · omega
            · have := hpost y hy; omega
        refine ⟨sortBy key (x' :: xs'), x, ?_, (x' :: xs').reverse, [], by simp, hall,
          fun _ h => by cases h⟩
        show insertBy key x (sortBy key (x' :: xs')) = _
        exact insertBy_above _ (fun y hy => hall y (List.mem_reverse.mpr (mem_sortBy.mp hy)))

/-- the head of the descending order is the first element with maximal key -/
theorem head_sortDesc_first {key : α → Int} {l : List α} (hne : l ≠ []) :
    ∃ t rest, (sortBy key l.reverse).reverse = t :: rest ∧ FirstMax key l t := by
  obtain ⟨L0, t, hs, hf⟩ := sortBy_last (key := key) l.reverse (by simpa using hne)
  rw [List.reverse_reverse] at hf
  exact ⟨t, L0.reverse, by rw [hs]; simp, hf⟩

theorem FirstMax.find {key : α → Int} {l : List α} {t : α} (h : FirstMax key l t) :
    l.find? (fun t => l.all (fun r => decide (key r ≤ key t))) = some t := by
  obtain ⟨pre, post, hl, hpre, hpost⟩ := h
  rw [List.find?_eq_some_iff_append]
  have htm : t ∈ l := by rw [hl]; simp
  refine ⟨?_, pre, post, hl, ?_⟩
  · rw [List.all_eq_true]
    intro y hy
    rw [hl] at hy
    simp only [decide_eq_true_eq]
    rcases List.mem_append.mp hy with hy | hy
    · have := hpre y hy; omega
    · rcases List.mem_cons.mp hy with rfl | hy
      · omega
      · exact hpost y hy
  · intro a ha
    have := hpre a ha
    simp only [Bool.not_eq_true', List.all_eq_false]
    exact ⟨t, htm, by simp only [decide_eq_true_eq]; omega⟩

theorem FirstMax.mem {key : α → Int} {l : List α} {t : α} (h : FirstMax key l t) : t ∈ l := by
  obtain ⟨pre, post, hl, _, _⟩ := h
  rw [hl]; simp

theorem FirstMax.max {key : α → Int} {l : List α} {t : α} (h : FirstMax key l t) :
    ∀ x ∈ l, key x ≤ key t := by
  obtain ⟨pre, post, hl, hpre, hpost⟩ := h
  intro y hy
  rw [hl] at hy
  rcases List.mem_append.mp hy with hy | hy
  · have := hpre y hy; omega
  · rcases List.mem_cons.mp hy with rfl | hy
    · omega
    · exact hpost y hy

end Aw.Store.Peewee.Aux
