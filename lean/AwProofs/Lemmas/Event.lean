import AwModel.Event
import AwProofs.Lemmas.Float64
/-! Helper lemmas for C13: the float millisecond floor, timestamp normalisation, durations. -/
namespace Aw.Event
open Aw Aw.Fl

/-- `int(us / 1000) * 1000` in double arithmetic is the integer millisecond floor, for every
    microsecond field value. From the error bound of one rounding (`fl_err_lt`): the quotient is
    below 2^10, so the rounded quotient is within 2^-44 of `q + ρ/1000` with `1 ≤ ρ ≤ 999`, which
    cannot reach `q` or `q + 1`; for `ρ = 0` the quotient is an integer and exact. -/
theorem msTrunc_eq (us : Int) (h0 : 0 ≤ us) (h1 : us < 1000000) :
    msTrunc us = us / 1000 * 1000 := by
  set q : Int := us / 1000 with hq
  set ρ : Int := us % 1000 with hρ
  have hm : us = q * 1000 + ρ := by rw [hq, hρ]; omega
  have hρ0 : 0 ≤ ρ := by omega
  have hρ1 : ρ < 1000 := by omega
  have hq0 : 0 ≤ q := by omega
  have hq1 : q < 1000 := by omega
  have hx : (us:Rat) / 1000 = q + (ρ:Rat) / 1000 := by
    rw [hm]; push_cast; field_simp
  have hxnn : (0:Rat) ≤ (us:Rat) / 1000 := by
    have : (0:Rat) ≤ us := by exact_mod_cast h0
    positivity
  have hq0' : (0:Rat) ≤ q := by exact_mod_cast hq0
  have hq1' : (q:Rat) ≤ 999 := by exact_mod_cast (by omega : q ≤ 999)
  unfold msTrunc fdiv
  rw [trunc_of_nonneg _ (fl_nonneg _ hxnn)]
  congr 1
  by_cases hρz : ρ = 0
  · have hxq : (us:Rat) / 1000 = q := by rw [hx, hρz]; simp
    rw [hxq, fl_exact_nat q hq0 (by rw [pow2_eq]; norm_num; linarith)]
    exact Int.floor_intCast q
  · have hρ1' : (1:Rat) ≤ ρ := by exact_mod_cast (by omega : 1 ≤ ρ)
    have hρ2' : (ρ:Rat) ≤ 999 := by exact_mod_cast (by omega : ρ ≤ 999)
    have p10 : pow2 10 = 1024 := by rw [pow2_eq]; norm_num
    have p44 : pow2 (10 - 54) = 1 / 17592186044416 := by rw [pow2_eq]; norm_num
    have a1 : (1:Rat)/1000 ≤ (ρ:Rat)/1000 := div_le_div_of_nonneg_right hρ1' (by norm_num)
    have a2 : (ρ:Rat)/1000 ≤ 999/1000 := div_le_div_of_nonneg_right hρ2' (by norm_num)
    have hxlt : |(us:Rat) / 1000| < pow2 10 := by
      rw [abs_of_nonneg hxnn, p10, hx]; linarith
    have herr := fl_err_lt' _ 10 hxlt
    rw [p44, abs_le, hx] at herr
    rw [Int.floor_eq_iff, hx]
    constructor
    · linarith [herr.1]
    · linarith [herr.2]

theorem microsecond_range (loc : Int) : 0 ≤ microsecond loc ∧ microsecond loc < 1000000 := by
  unfold microsecond; omega

/-- `ts.replace(microsecond=int(ts.microsecond / 1000) * 1000)` floors the wall-clock reading to
    the millisecond -/
theorem replace_floor (loc : Int) :
    replaceMicrosecond loc (msTrunc (microsecond loc)) = loc / 1000 * 1000 := by
  have h := microsecond_range loc
  rw [msTrunc_eq _ h.1 h.2]
  unfold replaceMicrosecond microsecond
  omega

theorem tsParse_aware (loc off : Int) : tsParse ⟨loc, some off⟩ = ⟨loc / 1000 * 1000, off⟩ := by
  simp [tsParse, replace_floor]

theorem tsParse_naive (loc : Int) : tsParse ⟨loc, none⟩ = ⟨loc / 1000 * 1000, 0⟩ := by
  simp [tsParse, replace_floor]

theorem setTimestamp_aware (T off : Int) (h : 1000 ∣ off) :
    setTimestamp ⟨T + off, some off⟩ = ⟨T / 1000 * 1000, 0⟩ := by
  unfold setTimestamp astimezoneUtc
  rw [tsParse_aware]
  obtain ⟨k, rfl⟩ := h
  simp only [Aware.mk.injEq, and_true]
  omega

theorem initTimestamp_aware (T off : Int) (h : 1000 ∣ off) :
    initTimestamp ⟨T + off, some off⟩ = ⟨T / 1000 * 1000, 0⟩ := by
  unfold initTimestamp setTimestamp astimezoneUtc Aware.toDT
  rw [tsParse_aware, tsParse_aware]
  obtain ⟨k, rfl⟩ := h
  simp only [Aware.mk.injEq, and_true]
  omega

theorem initTimestamp_naive (T : Int) : initTimestamp ⟨T, none⟩ = ⟨T / 1000 * 1000, 0⟩ := by
  unfold initTimestamp setTimestamp astimezoneUtc Aware.toDT
  rw [tsParse_naive, tsParse_aware]
  simp only [Aware.mk.injEq, and_true]
  omega

theorem mkTimedelta_ok (us : Int) (h0 : tdMinUs ≤ us) (h1 : us ≤ tdMaxUs) :
    mkTimedelta us = .ok us := by
  simp [mkTimedelta, h0, h1]

end Aw.Event
