import AwModel.Classify
/-! Helper lemmas for C19: dict writes, rule matching, the category fold, raising loops. -/
namespace Aw.Classify
open Aw

/-! ## dict reads and writes -/

theorem get_set_eq (d : Data) (k : String) (v : JVal) : get (set d k v) k = some v := by
  induction d with
  | nil => simp [set, get]
  | cons kv r ih =>
    obtain ⟨k', v'⟩ := kv
    by_cases h : k' = k
    · simp [set, get, h]
    · simp [set, get, h, ih]

theorem get_set_ne (d : Data) (k k' : String) (v : JVal) (h : k' ≠ k) :
    get (set d k v) k' = get d k' := by
  induction d with
  | nil =>
    have : ¬ k = k' := fun e => h e.symm
    simp [set, get, this]
  | cons kv r ih =>
    obtain ⟨k0, v0⟩ := kv
    by_cases h0 : k0 = k
    · subst h0
      have : ¬ k0 = k' := fun e => h e.symm
      simp [set, get, this]
    · by_cases h1 : k0 = k'
      · subst h1; simp [set, get, h0]
      · simp [set, get, h0, h1, ih]

theorem filter_set (p : String → Bool) (d : Data) (k : String) (v : JVal) (hk : p k = false) :
    (set d k v).filter (fun kv => p kv.1) = d.filter (fun kv => p kv.1) := by
  induction d with
  | nil => simp [set, hk]
  | cons kv r ih =>
    obtain ⟨k0, v0⟩ := kv
    by_cases h0 : k0 = k
    · subst h0; simp [set, hk]
    · simp [set, h0, List.filter_cons, ih]

/-- an existing key keeps its position, a new key is appended -/
theorem keys_set (d : Data) (k : String) (v : JVal) :
    (set d k v).map (·.1) = if has d k then d.map (·.1) else d.map (·.1) ++ [k] := by
  induction d with
  | nil => simp [set, has, get]
  | cons kv r ih =>
    obtain ⟨k0, v0⟩ := kv
    by_cases h0 : k0 = k
    · simp [set, has, get, h0]
    · simp only [has] at ih
      simp only [set, has, get, h0, if_false, List.map_cons, ih]
      split <;> simp_all

/-- `d'` is `d` with at most the keys `ks` written: every other key reads the same, and the other
    entries are the same entries in the same order -/
def DSame (ks : List String) (d d' : Data) : Prop :=
  (∀ k, k ∉ ks → get d' k = get d k) ∧
  d'.filter (fun kv => !ks.contains kv.1) = d.filter (fun kv => !ks.contains kv.1)

theorem DSame.refl (ks : List String) (d : Data) : DSame ks d d := ⟨fun _ _ => rfl, rfl⟩

theorem DSame.trans {ks : List String} {a b c : Data} (h₁ : DSame ks a b) (h₂ : DSame ks b c) :
    DSame ks a c :=
  ⟨fun k hk => (h₂.1 k hk).trans (h₁.1 k hk), h₂.2.trans h₁.2⟩

theorem DSame.set (ks : List String) (d : Data) (k : String) (v : JVal) (hk : k ∈ ks) :
    DSame ks d (set d k v) := by
  refine ⟨fun k' hk' => get_set_ne d k k' v (fun e => hk' (e ▸ hk)), ?_⟩
  exact filter_set (fun x => !ks.contains x) d k v (by simp [hk])

/-- event `b` is event `a` with at most the data keys `ks` written -/
def SameBut (ks : List String) (a b : Event) : Prop :=
  b.id = a.id ∧ b.ts = a.ts ∧ b.dur = a.dur ∧ DSame ks a.data b.data

theorem SameBut.refl (ks : List String) (a : Event) : SameBut ks a a :=
  ⟨rfl, rfl, rfl, DSame.refl ks a.data⟩

/-- same number of events, position by position the same event up to the written keys -/
def ListShape (ks : List String) (ins outs : List Event) : Prop :=
  outs.length = ins.length ∧
  ∀ (i : Nat) (h₁ : i < ins.length) (h₂ : i < outs.length), SameBut ks ins[i] outs[i]

theorem listShape_map (ks : List String) (f : Event → Event) (h : ∀ e, SameBut ks e (f e))
    (l : List Event) : ListShape ks l (l.map f) := by
  refine ⟨by simp, fun i h₁ h₂ => ?_⟩
  simpa using h l[i]

/-! ## raising loops -/

theorem mapE_ok {α β ε : Type} (f : α → Except ε β) :
    ∀ (l : List α) (out : List β), mapE f l = .ok out →
      out.length = l.length ∧ ∀ (i : Nat) (h₁ : i < l.length) (h₂ : i < out.length), f l[i] = .ok out[i] := by
  intro l
  induction l with
  | nil =>
    intro out h
    simp [mapE] at h
    subst h
    exact ⟨rfl, fun i h₁ => absurd h₁ (Nat.not_lt_zero i)⟩
  | cons a r ih =>
    intro out h
    unfold mapE at h
    split at h
    · cases h
    · rename_i b hb
      split at h
      · cases h
      · rename_i bs hbs
        cases h
        obtain ⟨hl, hi⟩ := ih bs hbs
        refine ⟨by simp [hl], fun i h₁ h₂ => ?_⟩
        cases i with
        | zero => simpa using hb
        | succ j =>
          simp only [List.getElem_cons_succ]
          exact hi j (by simpa using h₁) (by simpa using h₂)

theorem listShape_mapE (ks : List String) (f : Event → Except PyErr Event)
    (h : ∀ e e', f e = .ok e' → SameBut ks e e') (l out : List Event) (hr : mapE f l = .ok out) :
    ListShape ks l out := by
  obtain ⟨hl, hi⟩ := mapE_ok f l out hr
  exact ⟨hl, fun i h₁ h₂ => h _ _ (hi i h₁ h₂)⟩

/-- the first failing element decides the exception -/
theorem mapE_error {α β ε : Type} (f : α → Except ε β) :
    ∀ (l : List α) (x : ε), mapE f l = .error x →
      ∃ (i : Nat) (h : i < l.length), f l[i] = .error x ∧ ∀ (j : Nat) (hj : j < l.length), j < i → ∃ b, f l[j] = .ok b := by
  intro l
  induction l with
  | nil => intro x h; simp [mapE] at h
  | cons a r ih =>
    intro x h
    unfold mapE at h
    split at h
    · rename_i y hy
      cases h
      exact ⟨0, by simp, by simpa using hy, fun j _ hj => absurd hj (Nat.not_lt_zero j)⟩
    · rename_i b hb
      split at h
      · rename_i y hy
        cases h
        obtain ⟨i, hi, he, hp⟩ := ih x hy
        refine ⟨i + 1, by simpa using hi, by simpa using he, fun j hj hlt => ?_⟩
        cases j with
        | zero => exact ⟨b, by simpa using hb⟩
        | succ j' =>
          simp only [List.getElem_cons_succ]
          exact hp j' (by simpa using hj) (by omega)
      · cases h

/-! ## Rule.match -/

theorem anyStrMatch_iff (m : Search) (p : String) (ic : Bool) (vals : List (Option JVal)) :
    anyStrMatch m p ic vals = true ↔ ∃ s, some (JVal.str s) ∈ vals ∧ m p ic s = true := by
  fun_induction anyStrMatch m p ic vals with
  | case1 => simp
  | case2 s r h => simp only [List.mem_cons]; exact ⟨fun _ => ⟨s, Or.inl rfl, h⟩, fun _ => by first | rfl | trivial⟩
  | case3 s r h ih =>
    rw [ih]
    constructor
    · rintro ⟨s', hs, hm⟩; exact ⟨s', List.mem_cons_of_mem _ hs, hm⟩
    · rintro ⟨s', hs, hm⟩
      rcases List.mem_cons.mp hs with e | hs
      · injection e with e; injection e with e; subst e; exact absurd hm h
      · exact ⟨s', hs, hm⟩
  | case4 v r hv ih =>
    rw [ih]
    constructor
    · rintro ⟨s', hs, hm⟩; exact ⟨s', List.mem_cons_of_mem _ hs, hm⟩
    · rintro ⟨s', hs, hm⟩
      rcases List.mem_cons.mp hs with e | hs
      · exact absurd e.symm (hv s')
      · exact ⟨s', hs, hm⟩

/-- the values a rule looks at: those under the selected keys when `select_keys` is a non-empty
    list, every value of the data when it is `None` or `[]` -/
def Selected (sk : Option (List String)) (d : Data) (v : JVal) : Prop :=
  (∃ ks, sk = some ks ∧ ks ≠ [] ∧ ∃ key, key ∈ ks ∧ get d key = some v) ∨
  ((sk = none ∨ sk = some []) ∧ ∃ key, (key, v) ∈ d)

theorem mem_values_iff (r : Rule) (d : Data) (v : JVal) :
    some v ∈ r.values d ↔ Selected r.selectKeys d v := by
  have hall : some v ∈ d.map (fun kv => some kv.2) ↔ ∃ key, (key, v) ∈ d := by
    simp only [List.mem_map]
    constructor
    · rintro ⟨⟨k, v'⟩, hm, he⟩
      simp at he; subst he; exact ⟨k, hm⟩
    · rintro ⟨k, hm⟩; exact ⟨(k, v), hm, rfl⟩
  unfold Rule.values Selected
  cases hs : r.selectKeys with
  | none => simp [hall]
  | some l =>
    cases l with
    | nil => simp [hall]
    | cons k ks =>
      simp only [List.mem_map]
      constructor
      · rintro ⟨key, hk, hg⟩; exact Or.inl ⟨k :: ks, rfl, by simp, key, hk, hg⟩
      · rintro (⟨l, hl, _, key, hk, hg⟩ | ⟨h, _⟩)
        · cases hl; exact ⟨key, hk, hg⟩
        · rcases h with h | h <;> cases h

/-- what it means for a constructed rule to match an event, stated without the loop -/
def Matches (m : Search) (r : Rule) (e : Event) : Prop :=
  ∃ p, r.regex = some p ∧ ∃ s, Selected r.selectKeys e.data (JVal.str s) ∧ m p r.ignoreCase s = true

theorem match_iff (m : Search) (r : Rule) (e : Event) : r.match m e = true ↔ Matches m r e := by
  unfold Rule.match Matches
  cases hr : r.regex with
  | none => simp
  | some p =>
    simp only [anyStrMatch_iff, mem_values_iff]
    constructor
    · rintro ⟨s, hs, hm⟩; exact ⟨p, rfl, s, hs, hm⟩
    · rintro ⟨p', hp, s, hs, hm⟩; cases hp; exact ⟨s, hs, hm⟩

theorem ofDict_regex (rx : Option String) (ic : Bool) (sk : Option (List String)) (p : String) :
    (Rule.ofDict rx ic sk).regex = some p ↔ rx = some p ∧ p ≠ "" := by
  unfold Rule.ofDict
  cases rx with
  | none => simp
  | some s =>
    by_cases h : s = ""
    · subst h
      simp only [if_true, reduceCtorEq, false_iff, not_and, Option.some.injEq]
      intro e; subst e; simp
    · simp only [h, if_false, Option.some.injEq]
      constructor
      · intro e; subst e; exact ⟨rfl, h⟩
      · intro e; exact e.1

theorem matching_eq {α : Type} (m : Search) (classes : List (α × Rule)) (e : Event) :
    matching m classes e = (classes.filter (fun c => c.2.match m e)).map (·.1) := by
  unfold matching
  induction classes with
  | nil => rfl
  | cons c r ih =>
    by_cases h : c.2.match m e = true
    · simp [h, ih]
    · simp [h, ih]

/-! ## the category fold -/

theorem foldl_pick (ms : List (List String)) : ∀ (init : List String),
    (ms.foldl pickDeepest init = init ∧ ∀ c ∈ ms, c.length < init.length) ∨
    (∃ pre post, ms = pre ++ (ms.foldl pickDeepest init) :: post ∧
      init.length ≤ (ms.foldl pickDeepest init).length ∧
      (∀ c ∈ pre, c.length ≤ (ms.foldl pickDeepest init).length) ∧
      ∀ c ∈ post, c.length < (ms.foldl pickDeepest init).length) := by
  induction ms with
  | nil => intro init; left; simp
  | cons c rest ih =>
    intro init
    simp only [List.foldl_cons]
    by_cases hc : c.length ≥ init.length
    · have hp : pickDeepest init c = c := by simp [pickDeepest, hc]
      rw [hp]
      rcases ih c with ⟨he, hall⟩ | ⟨pre, post, hms, hle, hpre, hpost⟩
      · right
        refine ⟨[], rest, by simp [he], by rw [he]; exact hc, by simp, ?_⟩
        rw [he]; exact hall
      · right
        refine ⟨c :: pre, post, ?_, Nat.le_trans hc hle, ?_, hpost⟩
        · rw [List.cons_append, ← hms]
        · intro x hx
          rcases List.mem_cons.mp hx with e | hx
          · subst e; exact hle
          · exact hpre x hx
    · have hp : pickDeepest init c = init := by simp [pickDeepest, hc]
      rw [hp]
      have hlt : c.length < init.length := Nat.lt_of_not_ge hc
      rcases ih init with ⟨he, hall⟩ | ⟨pre, post, hms, hle, hpre, hpost⟩
      · left
        refine ⟨he, ?_⟩
        intro x hx
        rcases List.mem_cons.mp hx with e | hx
        · subst e; exact hlt
        · exact hall x hx
      · right
        refine ⟨c :: pre, post, ?_, hle, ?_, hpost⟩
        · rw [List.cons_append, ← hms]
        · intro x hx
          rcases List.mem_cons.mp hx with e | hx
          · subst e; exact Nat.le_of_lt (Nat.lt_of_lt_of_le hlt hle)
          · exact hpre x hx

/-! ## per-event frame facts -/

theorem sameBut_setData (ks : List String) (e : Event) (d' : Data) (h : DSame ks e.data d') :
    SameBut ks e { e with data := d' } := ⟨rfl, rfl, rfl, h⟩

theorem categorizeOne_sameBut (m : Search) (classes : List (List String × Rule)) (e : Event) :
    SameBut ["$category"] e (categorizeOne m classes e) :=
  sameBut_setData _ e _ (DSame.set _ _ _ _ (by simp))

theorem tagOne_sameBut (m : Search) (classes : List (String × Rule)) (e : Event) :
    SameBut ["$tags"] e (tagOne m classes e) :=
  sameBut_setData _ e _ (DSame.set _ _ _ _ (by simp))

/-- the keys `split_url_events` writes -/
def splitKeys : List String := ["$protocol", "$domain", "$path", "$params", "$options", "$identifier"]

/-- the data after the six writes of `split_url_events` -/
def splitData (d : Data) (p : UrlParts) : Data :=
  set (set (set (set (set (set d "$protocol" (.str p.scheme)) "$domain" (.str (stripWww p.netloc)))
    "$path" (.str p.path)) "$params" (.str p.params)) "$options" (.str p.query))
    "$identifier" (.str p.fragment)

theorem splitOne_ok (up : UrlParse) (e e' : Event) (h : splitOne up e = .ok e') :
    (get e.data "url" = none ∧ e' = e) ∨
    (∃ url p, get e.data "url" = some (JVal.str url) ∧ up url = some p ∧
      e' = { e with data := splitData e.data p }) := by
  unfold splitOne at h
  split at h
  · rename_i hg; cases h; exact Or.inl ⟨hg, rfl⟩
  · rename_i url hg
    split at h
    · cases h
    · rename_i p hp
      cases h
      exact Or.inr ⟨url, p, hg, hp, rfl⟩
  · cases h

theorem splitOne_sameBut (up : UrlParse) (e e' : Event) (h : splitOne up e = .ok e') :
    SameBut splitKeys e e' := by
  rcases splitOne_ok up e e' h with ⟨_, rfl⟩ | ⟨url, p, _, _, rfl⟩
  · exact SameBut.refl _ _
  · apply sameBut_setData
    have s := fun (d : Data) (k : String) (v : JVal) (hk : k ∈ splitKeys) => DSame.set splitKeys d k v hk
    unfold splitData
    refine DSame.trans (DSame.trans (DSame.trans (DSame.trans (DSame.trans (s _ _ _ ?_) (s _ _ _ ?_)) (s _ _ _ ?_)) (s _ _ _ ?_)) (s _ _ _ ?_)) (s _ _ _ ?_)
    all_goals simp [splitKeys]

theorem subAt_ok (f : String → String) (d d' : Data) (key : String) (h : subAt f d key = .ok d') :
    ∃ v, get d key = some (JVal.str v) ∧ d' = set d key (.str (f v)) := by
  unfold subAt at h
  split at h
  · cases h
  · rename_i v hg; cases h; exact ⟨v, hg, rfl⟩
  · cases h

theorem subAt_of_str (f : String → String) (d : Data) (key v : String) (h : get d key = some (JVal.str v)) :
    subAt f d key = .ok (set d key (.str (f v))) := by
  unfold subAt; rw [h]

/-- the data after `simplify_string`'s loop body, `v` being the string under `key` -/
def simplifiedData (sb : Subs) (key : String) (d : Data) (v : String) : Data :=
  if key = "title" ∧ has d "app" = true then
    set (set (set d key (.str (sb.parens v))) key (.str (sb.fps (sb.parens v)))) key
      (.str (sb.dot (sb.fps (sb.parens v))))
  else set d key (.str (sb.parens v))

/-- what `simplify_string` does to one event, without the intermediate re-reads -/
theorem simplifyOne_ok (sb : Subs) (key : String) (e e' : Event) (h : simplifyOne sb key e = .ok e') :
    ∃ v, get e.data key = some (JVal.str v) ∧ e' = { e with data := simplifiedData sb key e.data v } := by
  unfold simplifyOne at h
  split at h
  · cases h
  · rename_i d1 h1
    obtain ⟨v, hv, rfl⟩ := subAt_ok _ _ _ _ h1
    refine ⟨v, hv, ?_⟩
    have happ : key = "title" → has (set e.data key (.str (sb.parens v))) "app" = has e.data "app" := by
      intro hk; subst hk
      unfold has; rw [get_set_ne _ _ _ _ (by decide)]
    split at h
    · rename_i hc
      have hc' : key = "title" ∧ has e.data "app" = true := ⟨hc.1, by rw [← happ hc.1]; exact hc.2⟩
      rw [subAt_of_str _ _ _ _ (get_set_eq _ _ _)] at h
      simp only [subAt_of_str _ _ _ _ (get_set_eq _ _ _)] at h
      cases h
      rw [simplifiedData, if_pos hc']
    · rename_i hc
      have hc' : ¬ (key = "title" ∧ has e.data "app" = true) := by
        rintro ⟨hk, ha⟩; exact hc ⟨hk, by rw [happ hk]; exact ha⟩
      cases h
      rw [simplifiedData, if_neg hc']

theorem simplifyOne_sameBut (sb : Subs) (key : String) (e e' : Event) (h : simplifyOne sb key e = .ok e') :
    SameBut [key] e e' := by
  obtain ⟨v, _, rfl⟩ := simplifyOne_ok sb key e e' h
  apply sameBut_setData
  have s := fun (d : Data) (v : JVal) => DSame.set [key] d key v (by simp)
  unfold simplifiedData
  split
  · exact DSame.trans (DSame.trans (s _ _) (s _ _)) (s _ _)
  · exact s _ _

theorem simplifyOne_of_str (sb : Subs) (key : String) (e : Event) (v : String)
    (h : get e.data key = some (JVal.str v)) : ∃ e', simplifyOne sb key e = .ok e' := by
  unfold simplifyOne
  rw [subAt_of_str _ _ _ _ h]
  simp only
  split
  · simp only [subAt_of_str _ _ _ _ (get_set_eq _ _ _)]
    exact ⟨_, rfl⟩
  · exact ⟨_, rfl⟩

theorem mapE_ok_of_forall {α β ε : Type} (f : α → Except ε β) (l : List α)
    (h : ∀ a ∈ l, ∃ b, f a = .ok b) : ∃ out, mapE f l = .ok out := by
  induction l with
  | nil => exact ⟨[], rfl⟩
  | cons a r ih =>
    obtain ⟨b, hb⟩ := h a (by simp)
    obtain ⟨bs, hbs⟩ := ih (fun x hx => h x (by simp [hx]))
    exact ⟨b :: bs, by simp [mapE, hb, hbs]⟩

end Aw.Classify
