import AwModel.Store.Sqlite
import AwModel.Store.Memory
import AwModel.Store.Peewee
import AwProofs.Lemmas.PySort
/-!
# Read-side lemmas of C03 (time-window reads) for the three storage models

Generic part: `applyLimit`, `inWindow`, window widening, the `Bucket.get` rounding `roundWin` and
its tolerance. Then, per backend namespace (`Sqlite`, `Memory`, `Peewee`): a closed form of
`getEvents` on the observable `view`, and from it `get_sound`, `get_complete`, `get_sorted`,
`get_limit_*`, `count_eq`, `count_window_mono`.
-/
/-! ## More on the stable sort (on top of `Lemmas/PySort.lean`) -/
namespace Aw.PySort
variable {α : Type} (key : α → Int)

theorem insertBy_cons_le (x y : α) (ys : List α) (h : key x ≤ key y) :
    insertBy key x (y :: ys) = x :: y :: ys := by
  show (if key x ≤ key y then _ else _) = _; rw [if_pos h]
theorem insertBy_cons_gt (x y : α) (ys : List α) (h : ¬ key x ≤ key y) :
    insertBy key x (y :: ys) = y :: insertBy key x ys := by
  show (if key x ≤ key y then _ else _) = _; rw [if_neg h]
theorem sortBy_cons (x : α) (xs : List α) : sortBy key (x :: xs) = insertBy key x (sortBy key xs) := rfl

theorem insertBy_of_le_all (x : α) (l : List α) (h : ∀ z ∈ l, key x ≤ key z) :
    insertBy key x l = x :: l := by
  cases l with
  | nil => rfl
  | cons y ys => exact insertBy_cons_le key x y ys (h y List.mem_cons_self)

/-- filtering (by any predicate) commutes with insertion into a sorted list -/
theorem insertBy_filter_any (p : α → Bool) (x : α) (l : List α)
    (hs : List.Pairwise (fun a b => key a ≤ key b) l) :
    (insertBy key x l).filter p =
      if p x then insertBy key x (l.filter p) else l.filter p := by
  induction l with
  | nil => cases hp : p x <;> simp [insertBy, hp]
  | cons y ys ih =>
    have hy := List.pairwise_cons.mp hs
    have ih := ih hy.2
    by_cases hxy : key x ≤ key y
    · have hall : ∀ z ∈ (y :: ys).filter p, key x ≤ key z := by
        intro z hz
        rcases List.mem_cons.mp (List.mem_filter.mp hz).1 with rfl | hz'
        · exact hxy
        · exact Int.le_trans hxy (hy.1 z hz')
      rw [insertBy_of_le_all key x _ hall]
      rw [insertBy_cons_le key x y ys hxy]
      cases hpx : p x <;> simp [List.filter_cons, hpx]
    · rw [insertBy_cons_gt key x y ys hxy, List.filter_cons, ih]
      cases hpx : p x <;> cases hpy : p y <;> simp [hpy, insertBy_cons_gt, hxy]

/-- filtering commutes with the stable sort -/
theorem sortBy_filter (p : α → Bool) (l : List α) :
    (sortBy key l).filter p = sortBy key (l.filter p) := by
  induction l with
  | nil => rfl
  | cons x xs ih =>
    rw [sortBy_cons, insertBy_filter_any key p x _ (sortBy_sorted key xs), ih]
    cases hpx : p x <;> simp [hpx, sortBy_cons]

/-- stability, relational form: inserting an element that is `R`-before everything -/
theorem insertBy_lex (R : α → α → Prop) (x : α) (l : List α)
    (hx : ∀ y ∈ l, R x y)
    (h : List.Pairwise (fun a b => key a < key b ∨ (key a = key b ∧ R a b)) l) :
    List.Pairwise (fun a b => key a < key b ∨ (key a = key b ∧ R a b)) (insertBy key x l) := by
  induction l with
  | nil => simp [insertBy]
  | cons y ys ih =>
    have hy := List.pairwise_cons.mp h
    by_cases hxy : key x ≤ key y
    · rw [insertBy_cons_le key x y ys hxy]
      refine List.pairwise_cons.mpr ⟨?_, h⟩
      intro z hz
      have hR := hx z hz
      rcases List.mem_cons.mp hz with rfl | hz'
      · rcases Int.lt_or_eq_of_le hxy with h1 | h1
        · exact Or.inl h1
        · exact Or.inr ⟨h1, hR⟩
      · have h2 : key y ≤ key z := by rcases hy.1 z hz' with h2 | h2 <;> omega
        rcases Int.lt_or_eq_of_le (Int.le_trans hxy h2) with h1 | h1
        · exact Or.inl h1
        · exact Or.inr ⟨h1, hR⟩
    · rw [insertBy_cons_gt key x y ys hxy]
      refine List.pairwise_cons.mpr ⟨?_, ih (fun z hz => hx z (List.mem_cons_of_mem _ hz)) hy.2⟩
      intro z hz
      rcases (mem_insertBy key x z ys).mp hz with rfl | hz
      · exact Or.inl (by omega)
      · exact hy.1 z hz

/-- stability, relational form: if the input is ordered by `R`, the output is ordered by `key`
    and, among equal keys, by `R` -/
theorem sortBy_lex (R : α → α → Prop) (l : List α) (h : List.Pairwise R l) :
    List.Pairwise (fun a b => key a < key b ∨ (key a = key b ∧ R a b)) (sortBy key l) := by
  induction l with
  | nil => simp [sortBy]
  | cons x xs ih =>
    have hx := List.pairwise_cons.mp h
    rw [sortBy_cons]
    exact insertBy_lex key R x _ (fun y hy => hx.1 y ((mem_sortBy key xs y).mp hy)) (ih hx.2)

end Aw.PySort

namespace Aw.Store
open Aw Aw.PySort
variable {D : Type}

/-! ## `applyLimit` -/

theorem applyLimit_zero {α} (l : List α) : applyLimit 0 l = [] := by simp [applyLimit]

theorem applyLimit_neg {α} (n : Int) (h : n < 0) (l : List α) : applyLimit n l = l := by
  have : n ≠ 0 := by omega
  simp [applyLimit, this, h]

theorem applyLimit_pos {α} (n : Int) (h : 0 < n) (l : List α) :
    applyLimit n l = l.take n.toNat := by
  have h1 : n ≠ 0 := by omega
  have h2 : ¬ n < 0 := by omega
  simp [applyLimit, h1, h2]

/-- a positive limit keeps a prefix of the unlimited result -/
theorem applyLimit_pos_eq_take {α} (n : Int) (h : 0 < n) (l : List α) :
    applyLimit n l = (applyLimit (-1) l).take n.toNat := by
  rw [applyLimit_pos n h, applyLimit_neg (-1) (by omega)]

theorem applyLimit_sublist {α} (n : Int) (l : List α) : (applyLimit n l).Sublist l := by
  unfold applyLimit
  split
  · exact List.nil_sublist _
  · split
    · exact List.Sublist.refl _
    · exact List.take_sublist _ _

theorem mem_of_mem_applyLimit {α} {n : Int} {l : List α} {x : α} (h : x ∈ applyLimit n l) : x ∈ l :=
  (applyLimit_sublist n l).subset h

theorem applyLimit_map {α β} (f : α → β) (n : Int) (l : List α) :
    applyLimit n (l.map f) = (applyLimit n l).map f := by
  unfold applyLimit
  split
  · rfl
  · split
    · rfl
    · exact (List.map_take).symm

/-- the model's normalisation of a negative limit to `-1` is immaterial -/
theorem applyLimit_norm {α} (n : Int) (l : List α) :
    applyLimit (if n < 0 then -1 else n) l = applyLimit n l := by
  by_cases h : n < 0
  · rw [if_pos h, applyLimit_neg _ h, applyLimit_neg _ (by omega)]
  · rw [if_neg h]

/-! ## `inWindow` and widening -/

theorem inWindow_iff (st en : Option Int) (x : Ev D) :
    inWindow st en x = true ↔
      (∀ a, st = some a → a ≤ x.ts + x.dur) ∧ (∀ z, en = some z → x.ts ≤ z) := by
  cases st <;> cases en <;> simp [inWindow]

/-- window `(st', en')` contains window `(st, en)` (`none` = unbounded on that side) -/
def winWider (st' en' st en : Option Int) : Prop :=
  (∀ a', st' = some a' → ∃ a, st = some a ∧ a' ≤ a) ∧
  (∀ z', en' = some z' → ∃ z, en = some z ∧ z ≤ z')

theorem winWider_refl (st en : Option Int) : winWider st en st en :=
  ⟨fun a h => ⟨a, h, Int.le_refl _⟩, fun z h => ⟨z, h, Int.le_refl _⟩⟩

theorem inWindow_mono {st' en' st en : Option Int} (hw : winWider st' en' st en) (x : Ev D)
    (h : inWindow st en x = true) : inWindow st' en' x = true := by
  rw [inWindow_iff] at h ⊢
  refine ⟨fun a' ha' => ?_, fun z' hz' => ?_⟩
  · obtain ⟨a, ha, hle⟩ := hw.1 a' ha'
    have := h.1 a ha; omega
  · obtain ⟨z, hz, hle⟩ := hw.2 z' hz'
    have := h.2 z hz; omega

theorem length_filter_mono {α} (p q : α → Bool) (l : List α) (h : ∀ x ∈ l, p x = true → q x = true) :
    (l.filter p).length ≤ (l.filter q).length := by
  induction l with
  | nil => simp
  | cons x xs ih =>
    have ih := ih (fun y hy => h y (List.mem_cons_of_mem _ hy))
    have hx := h x List.mem_cons_self
    cases hp : p x <;> cases hq : q x <;> simp [hp, hq] <;> first | omega | simp_all

/-! ## The rounding done by `Bucket.get` (restated from `Driver/Store.lean`) -/

/-- floor to the millisecond (instants are integer microseconds) -/
def floorMs (t : Int) : Int := t - t % 1000

/-- `Bucket.get`: start floored to ms; end floored to ms plus one ms -/
def roundWin (st en : Option Int) : Option Int × Option Int :=
  (st.map floorMs, en.map (fun e => floorMs e + 1000))

theorem floorMs_le (t : Int) : floorMs t ≤ t := by unfold floorMs; omega
theorem lt_floorMs_add (t : Int) : t < floorMs t + 1000 := by unfold floorMs; omega
theorem floorMs_aligned (t : Int) : floorMs t % 1000 = 0 := by unfold floorMs; omega

theorem roundWin_start (s : Int) (en : Option Int) : (roundWin (some s) en).1 = some (floorMs s) := rfl
theorem roundWin_end (st : Option Int) (e : Int) : (roundWin st (some e)).2 = some (floorMs e + 1000) := rfl
theorem roundWin_start_none (en : Option Int) : (roundWin none en).1 = none := rfl
theorem roundWin_end_none (st : Option Int) : (roundWin st none).2 = none := rfl

/-- rounded start `s'`: `s' ≤ s < s' + 1000` -/
theorem roundWin_start_le (s : Int) (en : Option Int) (s' : Int)
    (h : (roundWin (some s) en).1 = some s') : s' ≤ s ∧ s < s' + 1000 := by
  simp only [roundWin, Option.map_some, Option.some.injEq] at h
  subst h; exact ⟨floorMs_le s, lt_floorMs_add s⟩

/-- rounded end `e'`: `e < e' ≤ e + 1000` -/
theorem roundWin_end_ge (st : Option Int) (e : Int) (e' : Int)
    (h : (roundWin st (some e)).2 = some e') : e < e' ∧ e' ≤ e + 1000 := by
  simp only [roundWin, Option.map_some, Option.some.injEq] at h
  subst h; exact ⟨lt_floorMs_add e, by have := floorMs_le e; omega⟩

/-- the rounded window contains the requested one -/
theorem roundWin_wider (st en : Option Int) : winWider (roundWin st en).1 (roundWin st en).2 st en := by
  constructor
  · intro a' h
    cases st with
    | none => simp [roundWin] at h
    | some a =>
      simp only [roundWin, Option.map_some, Option.some.injEq] at h
      exact ⟨a, rfl, by subst h; exact floorMs_le a⟩
  · intro z' h
    cases en with
    | none => simp [roundWin] at h
    | some z =>
      simp only [roundWin, Option.map_some, Option.some.injEq] at h
      exact ⟨z, rfl, by subst h; have := lt_floorMs_add z; omega⟩

/-- nothing in the true window is lost by the rounding -/
theorem window_tolerance_complete (st en : Option Int) (x : Ev D)
    (h : inWindow st en x = true) :
    inWindow (roundWin st en).1 (roundWin st en).2 x = true :=
  inWindow_mono (roundWin_wider st en) x h

/-- what the rounded window admits: exactly the events reaching the floored start and starting
    no later than the floored end plus one millisecond -/
theorem window_tolerance_exact (st en : Option Int) (x : Ev D) :
    inWindow (roundWin st en).1 (roundWin st en).2 x = true ↔
      (∀ a, st = some a → floorMs a ≤ x.ts + x.dur) ∧
      (∀ z, en = some z → x.ts ≤ floorMs z + 1000) := by
  cases st <;> cases en <;> simp [inWindow, roundWin]

/-- edges are honoured to one millisecond: an event admitted by the rounded window ends less than
    1 ms before the requested start and starts at most 1 ms after the requested end -/
theorem window_tolerance_sound (st en : Option Int) (x : Ev D)
    (h : inWindow (roundWin st en).1 (roundWin st en).2 x = true) :
    (∀ a, st = some a → a - 1000 < x.ts + x.dur) ∧ (∀ z, en = some z → x.ts ≤ z + 1000) := by
  rw [window_tolerance_exact] at h
  refine ⟨fun a ha => ?_, fun z hz => ?_⟩
  · have := h.1 a ha; have := lt_floorMs_add a; omega
  · have := h.2 z hz; have := floorMs_le z; omega

/-- C03 edge tolerance of `Bucket.get`, both directions -/
theorem window_tolerance (st en : Option Int) (x : Ev D) :
    (inWindow st en x = true → inWindow (roundWin st en).1 (roundWin st en).2 x = true) ∧
    (inWindow (roundWin st en).1 (roundWin st en).2 x = true →
      (∀ a, st = some a → a - 1000 < x.ts + x.dur) ∧ (∀ z, en = some z → x.ts ≤ z + 1000)) :=
  ⟨window_tolerance_complete st en x, window_tolerance_sound st en x⟩

/-- for a millisecond-aligned event start (every stored event: the `Event` constructor floors to
    ms) the end edge is strict unless the requested end is itself aligned -/
theorem window_tolerance_sound_aligned (st en : Option Int) (x : Ev D) (hx : x.ts % 1000 = 0)
    (h : inWindow (roundWin st en).1 (roundWin st en).2 x = true) (z : Int) (hz : en = some z)
    (hna : z % 1000 ≠ 0) : x.ts < z + 1000 := by
  rw [window_tolerance_exact] at h
  have := h.2 z hz
  unfold floorMs at this; omega

/-- both bounds of `window_tolerance_sound` are attained -/
example : inWindow (roundWin (some 5999) (some 7000)).1 (roundWin (some 5999) (some 7000)).2
    ({ ts := 8000, dur := 0, data := () } : Ev Unit) = true := by decide
example : inWindow (roundWin (some 5999) (some 7000)).1 (roundWin (some 5999) (some 7000)).2
    ({ ts := 1000, dur := 4000, data := () } : Ev Unit) = true := by decide

end Aw.Store

/-! ## sqlite -/
namespace Aw.Store.Sqlite
open Aw Aw.Store Aw.PySort
variable {D : Type}

/-- the `WHERE` clause of `get_events` / `get_eventcount` on a row -/
def winRow (st en : Option Int) (row : ERow D) : Bool :=
  (match st with | some a => decide (row.en ≥ a) | none => true) &&
  (match en with | some z => decide (row.st ≤ z) | none => true)

theorem toEv_fin (row : ERow D) : (toEv row).ts + (toEv row).dur = row.en := by
  simp only [toEv]; omega

theorem toEv_ts (row : ERow D) : (toEv row).ts = row.st := rfl

/-- the clause is exactly the closed-interval test (repaired, F22: no lower bound when no start
    is given; before the repair the clause added `endtime >= 0` in that case) -/
theorem winRow_iff (st en : Option Int) (row : ERow D) :
    winRow st en row = true ↔ inWindow st en (toEv row) = true := by
  rw [inWindow_iff, toEv_fin, toEv_ts]
  cases st <;> cases en <;> simp [winRow]

theorem winRow_eq (st en : Option Int) (row : ERow D) :
    winRow st en row = inWindow st en (toEv row) := by
  have := winRow_iff st en row
  cases h1 : winRow st en row <;> cases h2 : inWindow st en (toEv row) <;> simp_all

theorem rows_of_view {s : St D} {b : String} {m : Meta} {es : List (Ev D)}
    (h : view s b = some (m, es)) : ∃ r, rowOf s b = some r ∧ es = (rowsOf s r).map toEv := by
  unfold view at h; unfold rowOf
  cases hf : s.buckets.find? (fun r => r.bid = b) with
  | none => simp [hf] at h
  | some r =>
    simp only [hf, Option.some.injEq, Prod.mk.injEq] at h
    exact ⟨r.rowid, rfl, h.2.symm⟩

theorem view_of_rowOf {s : St D} {b : String} {r : Int} (h : rowOf s b = some r) :
    ∃ m, view s b = some (m, (rowsOf s r).map toEv) := by
  unfold rowOf at h; unfold view
  cases hf : s.buckets.find? (fun r => r.bid = b) with
  | none => simp [hf] at h
  | some r' =>
    simp only [hf, Option.map_some, Option.some.injEq] at h
    subst h; exact ⟨r'.md, rfl⟩

theorem view_none_iff_rowOf (s : St D) (b : String) : view s b = none ↔ rowOf s b = none := by
  unfold view rowOf
  cases hf : s.buckets.find? (fun r => r.bid = b) <;> simp

/-- the rows a read selects, in result order -/
def selected (s : St D) (r : Int) (st en : Option Int) : List (ERow D) :=
  orderDesc ((rowsOf s r).filter (winRow st en))

/-- closed form of `get_events` on an existing bucket -/
theorem getEvents_eq (s : St D) (b : String) (r : Int) (hr : rowOf s b = some r)
    (limit : Int) (st en : Option Int) :
    getEvents s b limit st en = applyLimit limit ((selected s r st en).map toEv) := by
  unfold getEvents
  by_cases h0 : limit = 0
  · subst h0; simp [applyLimit_zero]
  · simp only [h0, if_false, hr]
    rw [applyLimit_norm]; rfl

/-- a missing bucket reads as empty (no error on this backend) -/
theorem getEvents_missing (s : St D) (b : String) (h : view s b = none)
    (limit : Int) (st en : Option Int) : getEvents s b limit st en = [] := by
  rw [view_none_iff_rowOf] at h
  unfold getEvents; simp [h]

theorem getEventcount_missing (s : St D) (b : String) (h : view s b = none)
    (st en : Option Int) : getEventcount s b st en = 0 := by
  rw [view_none_iff_rowOf] at h
  unfold getEventcount; simp [h]

theorem mem_orderDesc (x : ERow D) (l : List (ERow D)) : x ∈ orderDesc l ↔ x ∈ l := by
  unfold orderDesc
  rw [List.mem_reverse, mem_sortBy, mem_sortBy]

theorem length_orderDesc (l : List (ERow D)) : (orderDesc l).length = l.length := by
  unfold orderDesc
  rw [List.length_reverse, length_sortBy, length_sortBy]

/-- `ORDER BY starttime DESC, id DESC` -/
theorem orderDesc_lex (l : List (ERow D)) :
    List.Pairwise (fun a b => b.st < a.st ∨ (b.st = a.st ∧ b.id ≤ a.id)) (orderDesc l) := by
  unfold orderDesc
  rw [List.pairwise_reverse]
  exact sortBy_lex (fun r : ERow D => r.st) (fun a b : ERow D => a.id ≤ b.id) _
    (sortBy_sorted (fun r : ERow D => r.id) l)

theorem orderDesc_sorted (l : List (ERow D)) :
    List.Pairwise (fun a b => b.st ≤ a.st) (orderDesc l) := by
  refine (orderDesc_lex l).imp ?_
  intro a b h; omega

theorem mem_selected (s : St D) (r : Int) (st en : Option Int) (row : ERow D) :
    row ∈ selected s r st en ↔ row ∈ rowsOf s r ∧ winRow st en row = true := by
  unfold selected; rw [mem_orderDesc, List.mem_filter]

/-- soundness: every returned event is a stored event of the bucket and lies in the window -/
theorem get_sound (s : St D) (b : String) (limit : Int) (st en : Option Int) (x : Ev D)
    (hx : x ∈ getEvents s b limit st en) :
    ∃ m es, view s b = some (m, es) ∧ x ∈ es ∧ inWindow st en x = true := by
  cases hr : rowOf s b with
  | none =>
    rw [getEvents_missing s b ((view_none_iff_rowOf s b).mpr hr)] at hx
    cases hx
  | some r =>
    rw [getEvents_eq s b r hr] at hx
    obtain ⟨row, hrow, rfl⟩ := List.mem_map.mp (mem_of_mem_applyLimit hx)
    obtain ⟨hmem, hwin⟩ := (mem_selected s r st en row).mp hrow
    obtain ⟨m, hv⟩ := view_of_rowOf hr
    exact ⟨m, _, hv, List.mem_map_of_mem hmem, (winRow_iff st en row).mp hwin⟩

/-- completeness (no limit), with or without a start bound (repaired, F22; before the repair a
    read without a start bound missed events ending before 1970 and this lemma carried the
    hypothesis `st = none → 0 ≤ e.ts + e.dur` under the name `get_complete_partial`) -/
theorem get_complete (s : St D) (b : String) (limit : Int) (hl : limit < 0)
    (st en : Option Int) (m : Meta) (es : List (Ev D)) (hv : view s b = some (m, es))
    (e : Ev D) (he : e ∈ es) (hw : inWindow st en e = true) :
    e ∈ getEvents s b limit st en := by
  obtain ⟨r, hr, rfl⟩ := rows_of_view hv
  rw [getEvents_eq s b r hr, applyLimit_neg _ hl]
  obtain ⟨row, hrow, rfl⟩ := List.mem_map.mp he
  exact List.mem_map_of_mem ((mem_selected s r st en row).mpr ⟨hrow, (winRow_iff st en row).mpr hw⟩)

/-- results are ordered by timestamp descending -/
theorem get_sorted (s : St D) (b : String) (limit : Int) (st en : Option Int) :
    List.Pairwise (fun a b => b.ts ≤ a.ts) (getEvents s b limit st en) := by
  cases hr : rowOf s b with
  | none => rw [getEvents_missing s b ((view_none_iff_rowOf s b).mpr hr)]; exact List.Pairwise.nil
  | some r =>
    rw [getEvents_eq s b r hr]
    refine List.Pairwise.sublist (applyLimit_sublist _ _) ?_
    rw [List.pairwise_map]
    exact orderDesc_sorted _

/-- … and among equal timestamps by id descending -/
theorem get_sorted_lex (s : St D) (b : String) (limit : Int) (st en : Option Int) :
    List.Pairwise (fun a b => b.ts < a.ts ∨ (b.ts = a.ts ∧ ∀ i j, a.id = some i → b.id = some j → j ≤ i))
      (getEvents s b limit st en) := by
  cases hr : rowOf s b with
  | none => rw [getEvents_missing s b ((view_none_iff_rowOf s b).mpr hr)]; exact List.Pairwise.nil
  | some r =>
    rw [getEvents_eq s b r hr]
    refine List.Pairwise.sublist (applyLimit_sublist _ _) ?_
    rw [List.pairwise_map]
    refine (orderDesc_lex _).imp ?_
    intro x y h
    simp only [toEv, Option.some.injEq]
    rcases h with h | ⟨h1, h2⟩
    · exact Or.inl h
    · exact Or.inr ⟨h1, fun i j hi hj => by subst hi hj; exact h2⟩

theorem get_limit_zero (s : St D) (b : String) (st en : Option Int) :
    getEvents s b 0 st en = [] := by simp [getEvents]

theorem get_limit_pos (s : St D) (b : String) (limit : Int) (hl : 0 < limit) (st en : Option Int) :
    getEvents s b limit st en = (getEvents s b (-1) st en).take limit.toNat := by
  cases hr : rowOf s b with
  | none => simp [getEvents_missing s b ((view_none_iff_rowOf s b).mpr hr)]
  | some r => rw [getEvents_eq s b r hr, getEvents_eq s b r hr, applyLimit_pos_eq_take _ hl]

theorem get_limit_neg (s : St D) (b : String) (limit : Int) (hl : limit < 0) (st en : Option Int) :
    getEvents s b limit st en = getEvents s b (-1) st en := by
  cases hr : rowOf s b with
  | none => simp [getEvents_missing s b ((view_none_iff_rowOf s b).mpr hr)]
  | some r =>
    rw [getEvents_eq s b r hr, getEvents_eq s b r hr, applyLimit_neg _ hl, applyLimit_neg _ (by omega)]

/-- the count is the number of events an unlimited read with the same arguments returns -/
theorem count_eq (s : St D) (b : String) (st en : Option Int) :
    getEventcount s b st en = (getEvents s b (-1) st en).length := by
  cases hr : rowOf s b with
  | none =>
    rw [getEvents_missing s b ((view_none_iff_rowOf s b).mpr hr),
        getEventcount_missing s b ((view_none_iff_rowOf s b).mpr hr)]; rfl
  | some r =>
    rw [getEvents_eq s b r hr, applyLimit_neg _ (by omega), List.length_map]
    unfold selected; rw [length_orderDesc]
    unfold getEventcount; simp only [hr]; rfl

/-- the count is the number of stored events meeting the closed-interval test -/
theorem count_eq_spec (s : St D) (b : String) (st en : Option Int) (m : Meta) (es : List (Ev D))
    (hv : view s b = some (m, es)) :
    getEventcount s b st en = (es.filter (inWindow st en)).length := by
  obtain ⟨r, hr, rfl⟩ := rows_of_view hv
  unfold getEventcount; simp only [hr]
  rw [List.filter_map, List.length_map]
  congr 1
  apply List.filter_congr
  intro row _
  exact winRow_eq st en row

/-- widening the window never lowers the count -/
theorem count_window_mono (s : St D) (b : String) (st en st' en' : Option Int)
    (hw : winWider st' en' st en) :
    getEventcount s b st en ≤ getEventcount s b st' en' := by
  cases hv : view s b with
  | none => rw [getEventcount_missing s b hv, getEventcount_missing s b hv]; exact Nat.le_refl _
  | some p =>
    obtain ⟨m, es⟩ := p
    rw [count_eq_spec s b st en m es hv, count_eq_spec s b st' en' m es hv]
    exact length_filter_mono _ _ _ (fun x _ h => inWindow_mono hw x h)

/-- `Bucket.get` reads the rounded window, `get_eventcount` the requested one: the count never
    exceeds the number of events the (unlimited) read returns -/
theorem count_le_get_rounded (s : St D) (b : String) (st en : Option Int) :
    getEventcount s b st en ≤ (getEvents s b (-1) (roundWin st en).1 (roundWin st en).2).length := by
  rw [← count_eq]
  exact count_window_mono s b st en _ _ (roundWin_wider st en)

/-! concrete state: two buckets, three events in bucket "a" (one before 1970), one in "b" -/
def exReads : St Unit :=
  { buckets := [⟨1, "a", default⟩, ⟨2, "b", default⟩],
    events := [⟨1, 1, 5000, 9000, ()⟩, ⟨2, 2, 6000, 7000, ()⟩, ⟨3, 1, 5000, 5000, ()⟩,
               ⟨4, 1, -9000, -8000, ()⟩],
    seqB := 2, seqE := 4 }

example : getEvents exReads "a" (-1) (some 5000) (some 6000)
    = [⟨some 3, 5000, 0, ()⟩, ⟨some 1, 5000, 4000, ()⟩] := by decide
example : getEvents exReads "a" 1 (some 5000) (some 6000) = [⟨some 3, 5000, 0, ()⟩] := by decide
example : getEventcount exReads "a" (some 5000) (some 6000) = 2 := by decide

/-- the hypothesis of `count_window_mono` is satisfiable (bucket "b") -/
example : getEventcount exReads "b" (some 6500) (some 6600) ≤ getEventcount exReads "b" none (some 7000) := by
  apply count_window_mono
  constructor
  · intro a' h; cases h
  · intro z' h; cases h; exact ⟨6600, rfl, by decide⟩

/-- … and in bucket "a", which holds an event ending before 1970: widening to "no start bound"
    now counts it (2 ≤ 3) -/
example : getEventcount exReads "a" (some 5000) (some 6000) ≤ getEventcount exReads "a" none (some 6000) := by
  apply count_window_mono
  constructor
  · intro a' h; cases h
  · intro z' h; cases h; exact ⟨6000, rfl, by decide⟩
example : getEventcount exReads "a" none (some 6000) = 3 := by decide

/-- `get_complete` applied: event 1 of bucket "a" -/
example : (⟨some 1, 5000, 4000, ()⟩ : Ev Unit) ∈ getEvents exReads "a" (-1) none (some 6000) :=
  get_complete exReads "a" (-1) (by decide) none (some 6000) default
    [⟨some 1, 5000, 4000, ()⟩, ⟨some 3, 5000, 0, ()⟩, ⟨some 4, -9000, 1000, ()⟩] (by decide) _
    (by decide) (by decide)

/-- `get_complete` applied to the event of bucket "a" that ends before 1970 -/
example : (⟨some 4, -9000, 1000, ()⟩ : Ev Unit) ∈ getEvents exReads "a" (-1) none none :=
  get_complete exReads "a" (-1) (by decide) none none default
    [⟨some 1, 5000, 4000, ()⟩, ⟨some 3, 5000, 0, ()⟩, ⟨some 4, -9000, 1000, ()⟩] (by decide) _
    (by decide) (by decide)

/-- history of repair F22. Before the repair this witness was the counterexample to unconditional
    completeness (`get_complete_counterexample`: the event ending before 1970 is stored in the
    bucket, lies in the unbounded window, and was NOT returned, because a read without a start
    bound added `endtime >= 0`). On the same witness the repaired read returns it, last in
    `ORDER BY starttime DESC`. -/
theorem get_complete_before_epoch_now_read :
    view exReads "a" = some (default,
      [⟨some 1, 5000, 4000, ()⟩, ⟨some 3, 5000, 0, ()⟩, ⟨some 4, -9000, 1000, ()⟩]) ∧
    inWindow none none (⟨some 4, -9000, 1000, ()⟩ : Ev Unit) = true ∧
    getEvents exReads "a" (-1) none none
      = [⟨some 3, 5000, 0, ()⟩, ⟨some 1, 5000, 4000, ()⟩, ⟨some 4, -9000, 1000, ()⟩] ∧
    getEventcount exReads "a" none none = 3 :=
  ⟨by decide, by decide, by decide, by decide⟩

end Aw.Store.Sqlite

/-! ## memory -/
namespace Aw.Store.Memory
open Aw Aw.Store Aw.PySort
variable {D : Type}

/-- the events a read selects, in result order: newest first, ties in reverse list order -/
def selected (evs : List (Ev D)) (st en : Option Int) : List (Ev D) :=
  ((sortBy (fun x => x.ts) evs).reverse).filter (inWindow st en)

/-- closed form of `get_events` on an existing bucket -/
theorem getEvents_eq (s : St D) (b : String) (m : Meta) (evs : List (Ev D))
    (hv : view s b = some (m, evs)) (limit : Int) (st en : Option Int) :
    getEvents s b limit st en = .ok (applyLimit limit (selected evs st en)) := by
  have hl : lookup s b = some (m, evs) := hv
  unfold getEvents selected
  simp only [hl]
  cases st with
  | none =>
    cases en with
    | none =>
      have : ∀ l : List (Ev D), l.filter (inWindow none none) = l :=
        fun l => List.filter_eq_self.mpr (fun _ _ => rfl)
      simp only [this]
    | some z =>
      have : (inWindow none (some z) : Ev D → Bool) = fun x => decide (x.ts ≤ z) := by
        funext x; simp [inWindow]
      simp only [this]
  | some a =>
    cases en with
    | none =>
      have : (inWindow (some a) none : Ev D → Bool) = fun x => decide (a ≤ x.ts + x.dur) := by
        funext x; simp [inWindow]
      simp only [this]
    | some z =>
      have : (inWindow (some a) (some z) : Ev D → Bool) =
          fun x => decide (x.ts ≤ z) && decide (a ≤ x.ts + x.dur) := by
        funext x; simp [inWindow, Bool.and_comm]
      simp only [this, List.filter_filter]

/-- the only error is `KeyError`, raised exactly when the bucket is missing -/
theorem getEvents_error_iff (s : St D) (b : String) (limit : Int) (st en : Option Int) (e : Err) :
    getEvents s b limit st en = .error e ↔ e = .keyError ∧ view s b = none := by
  cases hv : view s b with
  | none =>
    have hl : lookup s b = none := hv
    unfold getEvents; simp only [hl]
    constructor
    · intro h; cases h; simp
    · rintro ⟨rfl, _⟩; rfl
  | some p =>
    obtain ⟨m, evs⟩ := p
    rw [getEvents_eq s b m evs hv]
    simp

theorem getEventcount_eq (s : St D) (b : String) (m : Meta) (evs : List (Ev D))
    (hv : view s b = some (m, evs)) (st en : Option Int) :
    getEventcount s b st en = .ok (evs.filter (inWindow st en)).length := by
  have hl : lookup s b = some (m, evs) := hv
  unfold getEventcount; simp only [hl]

theorem getEventcount_error_iff (s : St D) (b : String) (st en : Option Int) (e : Err) :
    getEventcount s b st en = .error e ↔ e = .keyError ∧ view s b = none := by
  cases hv : view s b with
  | none =>
    have hl : lookup s b = none := hv
    unfold getEventcount; simp only [hl]
    constructor
    · intro h; cases h; simp
    · rintro ⟨rfl, _⟩; rfl
  | some p =>
    obtain ⟨m, evs⟩ := p
    rw [getEventcount_eq s b m evs hv]
    simp

theorem mem_selected (evs : List (Ev D)) (st en : Option Int) (x : Ev D) :
    x ∈ selected evs st en ↔ x ∈ evs ∧ inWindow st en x = true := by
  unfold selected
  rw [List.mem_filter, List.mem_reverse, mem_sortBy]

theorem selected_sorted (evs : List (Ev D)) (st en : Option Int) :
    List.Pairwise (fun a b => b.ts ≤ a.ts) (selected evs st en) := by
  unfold selected
  apply List.Pairwise.filter
  rw [List.pairwise_reverse]
  exact sortBy_sorted (fun x : Ev D => x.ts) evs

theorem length_selected (evs : List (Ev D)) (st en : Option Int) :
    (selected evs st en).length = (evs.filter (inWindow st en)).length := by
  unfold selected
  exact (((List.reverse_perm _).trans (sortBy_perm _ evs)).filter _).length_eq

/-- soundness: every returned event is a stored event of the bucket and lies in the window -/
theorem get_sound (s : St D) (b : String) (limit : Int) (st en : Option Int) (r : List (Ev D))
    (hr : getEvents s b limit st en = .ok r) (x : Ev D) (hx : x ∈ r) :
    ∃ m es, view s b = some (m, es) ∧ x ∈ es ∧ inWindow st en x = true := by
  cases hv : view s b with
  | none =>
    have := (getEvents_error_iff s b limit st en .keyError).mpr ⟨rfl, hv⟩
    rw [this] at hr; cases hr
  | some p =>
    obtain ⟨m, evs⟩ := p
    rw [getEvents_eq s b m evs hv] at hr
    cases hr
    have := (mem_selected evs st en x).mp (mem_of_mem_applyLimit hx)
    exact ⟨m, evs, rfl, this.1, this.2⟩

/-- completeness: without a limit every stored event in the window is returned -/
theorem get_complete (s : St D) (b : String) (limit : Int) (hl : limit < 0) (st en : Option Int)
    (m : Meta) (es : List (Ev D)) (hv : view s b = some (m, es))
    (e : Ev D) (he : e ∈ es) (hw : inWindow st en e = true) :
    ∃ r, getEvents s b limit st en = .ok r ∧ e ∈ r := by
  refine ⟨_, getEvents_eq s b m es hv limit st en, ?_⟩
  rw [applyLimit_neg _ hl]
  exact (mem_selected es st en e).mpr ⟨he, hw⟩

/-- results are ordered by timestamp descending -/
theorem get_sorted (s : St D) (b : String) (limit : Int) (st en : Option Int) (r : List (Ev D))
    (hr : getEvents s b limit st en = .ok r) :
    List.Pairwise (fun a b => b.ts ≤ a.ts) r := by
  cases hv : view s b with
  | none =>
    have := (getEvents_error_iff s b limit st en .keyError).mpr ⟨rfl, hv⟩
    rw [this] at hr; cases hr
  | some p =>
    obtain ⟨m, evs⟩ := p
    rw [getEvents_eq s b m evs hv] at hr
    cases hr
    exact List.Pairwise.sublist (applyLimit_sublist _ _) (selected_sorted evs st en)

theorem get_limit_zero (s : St D) (b : String) (st en : Option Int) (r : List (Ev D))
    (hr : getEvents s b 0 st en = .ok r) : r = [] := by
  cases hv : view s b with
  | none =>
    have := (getEvents_error_iff s b 0 st en .keyError).mpr ⟨rfl, hv⟩
    rw [this] at hr; cases hr
  | some p =>
    obtain ⟨m, evs⟩ := p
    rw [getEvents_eq s b m evs hv, applyLimit_zero] at hr
    cases hr; rfl

theorem get_limit_pos (s : St D) (b : String) (limit : Int) (hl : 0 < limit) (st en : Option Int) :
    getEvents s b limit st en = (getEvents s b (-1) st en).map (fun l => l.take limit.toNat) := by
  cases hv : view s b with
  | none =>
    rw [(getEvents_error_iff s b limit st en .keyError).mpr ⟨rfl, hv⟩,
        (getEvents_error_iff s b (-1) st en .keyError).mpr ⟨rfl, hv⟩]; rfl
  | some p =>
    obtain ⟨m, evs⟩ := p
    rw [getEvents_eq s b m evs hv, getEvents_eq s b m evs hv, applyLimit_pos_eq_take _ hl]; rfl

theorem get_limit_neg (s : St D) (b : String) (limit : Int) (hl : limit < 0) (st en : Option Int) :
    getEvents s b limit st en = getEvents s b (-1) st en := by
  cases hv : view s b with
  | none =>
    rw [(getEvents_error_iff s b limit st en .keyError).mpr ⟨rfl, hv⟩,
        (getEvents_error_iff s b (-1) st en .keyError).mpr ⟨rfl, hv⟩]
  | some p =>
    obtain ⟨m, evs⟩ := p
    rw [getEvents_eq s b m evs hv, getEvents_eq s b m evs hv, applyLimit_neg _ hl,
        applyLimit_neg _ (by omega)]

/-- the count is the number of events an unlimited read with the same arguments returns
    (and fails exactly when the read fails) -/
theorem count_eq (s : St D) (b : String) (st en : Option Int) :
    getEventcount s b st en = (getEvents s b (-1) st en).map List.length := by
  cases hv : view s b with
  | none =>
    rw [(getEvents_error_iff s b (-1) st en .keyError).mpr ⟨rfl, hv⟩,
        (getEventcount_error_iff s b st en .keyError).mpr ⟨rfl, hv⟩]; rfl
  | some p =>
    obtain ⟨m, evs⟩ := p
    rw [getEvents_eq s b m evs hv, getEventcount_eq s b m evs hv, applyLimit_neg _ (by omega)]
    show _ = Except.ok _
    rw [length_selected]

/-- widening the window never lowers the count -/
theorem count_window_mono (s : St D) (b : String) (st en st' en' : Option Int)
    (hw : winWider st' en' st en) (n : Nat) (hn : getEventcount s b st en = .ok n) :
    ∃ n', getEventcount s b st' en' = .ok n' ∧ n ≤ n' := by
  cases hv : view s b with
  | none =>
    rw [(getEventcount_error_iff s b st en .keyError).mpr ⟨rfl, hv⟩] at hn; cases hn
  | some p =>
    obtain ⟨m, evs⟩ := p
    rw [getEventcount_eq s b m evs hv] at hn
    cases hn
    exact ⟨_, getEventcount_eq s b m evs hv st' en',
      length_filter_mono _ _ _ (fun x _ h => inWindow_mono hw x h)⟩

/-- the count for the requested window never exceeds the number of events `Bucket.get` (which
    reads the rounded window) returns -/
theorem count_le_get_rounded (s : St D) (b : String) (st en : Option Int) (n : Nat)
    (hn : getEventcount s b st en = .ok n) :
    ∃ r, getEvents s b (-1) (roundWin st en).1 (roundWin st en).2 = .ok r ∧ n ≤ r.length := by
  obtain ⟨n', h1, h2⟩ := count_window_mono s b st en _ _ (roundWin_wider st en) n hn
  rw [count_eq] at h1
  cases hg : getEvents s b (-1) (roundWin st en).1 (roundWin st en).2 with
  | error e => rw [hg] at h1; cases h1
  | ok r => rw [hg] at h1; cases h1; exact ⟨r, rfl, h2⟩

def exReads : St Unit :=
  [("a", (default, [⟨some 0, 5000, 4000, ()⟩, ⟨some 1, 7000, 0, ()⟩, ⟨some 2, 5000, 0, ()⟩,
                    ⟨some 3, 1000, 1000, ()⟩])),
   ("b", (default, [⟨some 0, 6000, 1000, ()⟩]))]

example : getEvents exReads "a" (-1) (some 5000) (some 6000)
    = .ok [⟨some 2, 5000, 0, ()⟩, ⟨some 0, 5000, 4000, ()⟩] := rfl
example : getEvents exReads "a" 1 (some 5000) (some 6000) = .ok [⟨some 2, 5000, 0, ()⟩] := rfl
example : getEventcount exReads "a" (some 5000) (some 6000) = .ok 2 := rfl
example : getEvents exReads "c" 1 none none = .error .keyError := rfl

/-- `get_complete` applied: event 0 of bucket "a" -/
example : ∃ r, getEvents exReads "a" (-1) (some 5000) (some 6000) = .ok r ∧
    (⟨some 0, 5000, 4000, ()⟩ : Ev Unit) ∈ r :=
  get_complete exReads "a" (-1) (by decide) _ _ default _ rfl _ (by decide) (by decide)

end Aw.Store.Memory

/-! ## peewee -/
namespace Aw.Store.Peewee
open Aw Aw.Store Aw.PySort
variable {D : Type}

/-- the `bucket_keys` cache agrees with the bucket table (established by `refresh`, which every
    bucket-table mutation ends with) -/
def CacheOk (s : St D) : Prop :=
  ∀ b, keyOf s b = (s.buckets.find? (fun r => r.bid = b)).map (·.key)

/-- the cache being the projection of the bucket table is enough -/
theorem cacheOk_of_keys (s : St D) (h : s.keys = s.buckets.map (fun r => (r.bid, r.key))) :
    CacheOk s := by
  intro b
  simp [keyOf, h, List.find?_map, Function.comp_def]

theorem cacheOk_refresh (s : St D) : CacheOk (refresh s) := cacheOk_of_keys _ rfl

theorem cacheOk_empty : CacheOk ({} : St D) := by intro b; rfl

theorem rows_of_view {s : St D} (hc : CacheOk s) {b : String} {m : Meta} {es : List (Ev D)}
    (h : view s b = some (m, es)) : ∃ k, keyOf s b = some k ∧ es = (rowsOf s k).map toEv := by
  rw [hc b]; unfold view at h
  cases hf : s.buckets.find? (fun r => r.bid = b) with
  | none => simp [hf] at h
  | some r =>
    simp only [hf, Option.some.injEq, Prod.mk.injEq] at h
    exact ⟨r.key, rfl, h.2.symm⟩

theorem view_of_keyOf {s : St D} (hc : CacheOk s) {b : String} {k : Int} (h : keyOf s b = some k) :
    ∃ m, view s b = some (m, (rowsOf s k).map toEv) := by
  rw [hc b] at h; unfold view
  cases hf : s.buckets.find? (fun r => r.bid = b) with
  | none => simp [hf] at h
  | some r' =>
    simp only [hf, Option.map_some, Option.some.injEq] at h
    subst h; exact ⟨r'.md, rfl⟩

theorem view_none_iff_keyOf {s : St D} (hc : CacheOk s) (b : String) : view s b = none ↔ keyOf s b = none := by
  rw [hc b]; unfold view
  cases hf : s.buckets.find? (fun r => r.bid = b) <;> simp

/-- `_where_range` is the closed-interval test plus the 24 h prefilter on the start -/
theorem inRange_iff (st en : Option Int) (r : ERow D) :
    inRange st en r = true ↔
      inWindow st en (toEv r) = true ∧ (∀ a, st = some a → a - 86400000000 ≤ r.ts) := by
  rw [inWindow_iff]
  cases st <;> cases en <;> simp [inRange, toEv] <;> omega

/-- the rows a read selects, in result order (before limit and clipping) -/
def selected (s : St D) (k : Int) (st en : Option Int) : List (ERow D) :=
  (sortBy (fun r => r.ts) ((rowsOf s k).filter (inRange st en)).reverse).reverse

/-- closed form of `get_events` when the bucket key is known -/
theorem getEvents_eq (s : St D) (b : String) (k : Int) (hk : keyOf s b = some k)
    (limit : Int) (st en : Option Int) (dec : Ev D → Ev D) :
    getEvents s b limit st en dec =
      .ok ((applyLimit limit (selected s k st en)).map (fun r => clip st en (dec (toEv r)))) := by
  unfold getEvents
  by_cases h0 : limit = 0
  · subst h0; simp [applyLimit_zero]
  · simp only [h0, if_false, hk]
    by_cases hneg : limit < 0
    · rw [applyLimit_neg _ hneg]; simp only [hneg, if_true]; rfl
    · rw [applyLimit_pos _ (by omega)]; simp only [hneg, if_false]; rfl

/-- `limit == 0` returns `[]` before the bucket is even looked up -/
theorem get_limit_zero (s : St D) (b : String) (st en : Option Int) (dec : Ev D → Ev D) :
    getEvents s b 0 st en dec = .ok [] := by simp [getEvents]

/-- the only error is `KeyError`, raised exactly when the cache has no key for the bucket and
    `limit ≠ 0` -/
theorem getEvents_error_iff_key (s : St D) (b : String) (limit : Int)
    (st en : Option Int) (dec : Ev D → Ev D) (e : Err) :
    getEvents s b limit st en dec = .error e ↔ e = .keyError ∧ limit ≠ 0 ∧ keyOf s b = none := by
  cases hk : keyOf s b with
  | none =>
    unfold getEvents
    by_cases h0 : limit = 0
    · simp [h0]
    · simp only [h0, if_false, hk]
      constructor
      · intro h; cases h; simp [h0]
      · rintro ⟨rfl, _⟩; rfl
  | some k => rw [getEvents_eq s b k hk]; simp

/-- … i.e. exactly when the bucket is missing (and `limit ≠ 0`) -/
theorem getEvents_error_iff (s : St D) (hc : CacheOk s) (b : String) (limit : Int)
    (st en : Option Int) (dec : Ev D → Ev D) (e : Err) :
    getEvents s b limit st en dec = .error e ↔ e = .keyError ∧ limit ≠ 0 ∧ view s b = none := by
  rw [view_none_iff_keyOf hc]; exact getEvents_error_iff_key s b limit st en dec e

theorem getEventcount_eq (s : St D) (b : String) (k : Int) (hk : keyOf s b = some k)
    (st en : Option Int) :
    getEventcount s b st en = .ok ((rowsOf s k).filter (inRange st en)).length := by
  unfold getEventcount; simp only [hk]

theorem getEventcount_error_iff (s : St D) (hc : CacheOk s) (b : String)
    (st en : Option Int) (e : Err) :
    getEventcount s b st en = .error e ↔ e = .keyError ∧ view s b = none := by
  rw [view_none_iff_keyOf hc]
  cases hk : keyOf s b with
  | none =>
    unfold getEventcount; simp only [hk]
    constructor
    · intro h; cases h; simp
    · rintro ⟨rfl, _⟩; rfl
  | some k => rw [getEventcount_eq s b k hk]; simp

theorem mem_selected (s : St D) (k : Int) (st en : Option Int) (row : ERow D) :
    row ∈ selected s k st en ↔ row ∈ rowsOf s k ∧ inRange st en row = true := by
  unfold selected
  rw [List.mem_reverse, mem_sortBy, List.mem_reverse, List.mem_filter]

/-- the selected rows are ordered by timestamp descending -/
theorem selected_sorted (s : St D) (k : Int) (st en : Option Int) :
    List.Pairwise (fun a b => b.ts ≤ a.ts) (selected s k st en) := by
  unfold selected
  rw [List.pairwise_reverse]
  exact sortBy_sorted (fun r : ERow D => r.ts) _

theorem length_selected (s : St D) (k : Int) (st en : Option Int) :
    (selected s k st en).length = ((rowsOf s k).filter (inRange st en)).length := by
  unfold selected
  rw [List.length_reverse, length_sortBy, List.length_reverse]

/-! ### clipping -/

theorem clip_none_none (e : Ev D) : clip none none e = e := rfl

theorem clip_id (st en : Option Int) (e : Ev D) : (clip st en e).id = e.id := by
  cases st <;> cases en <;> grind [clip]

theorem clip_data (st en : Option Int) (e : Ev D) : (clip st en e).data = e.data := by
  cases st <;> cases en <;> grind [clip]

/-- clipping moves the start to the window start if it lies before it, and not otherwise -/
theorem clip_ts (st en : Option Int) (e : Ev D) :
    (clip st en e).ts = match st with | some a => max e.ts a | none => e.ts := by
  cases st <;> cases en <;> grind [clip]

/-- … and the end to the window end if it lies after it -/
theorem clip_fin (st en : Option Int) (e : Ev D) :
    (clip st en e).ts + (clip st en e).dur =
      match en with | some z => min (e.ts + e.dur) z | none => e.ts + e.dur := by
  cases st <;> cases en <;> grind [clip]

/-- the clipped event is the stored event cut to the window and nothing else -/
theorem peewee_clip_exact (st en : Option Int) (e : Ev D) :
    (clip st en e).id = e.id ∧ (clip st en e).data = e.data ∧
    ((clip st en e).ts = match st with | some a => max e.ts a | none => e.ts) ∧
    ((clip st en e).ts + (clip st en e).dur =
      match en with | some z => min (e.ts + e.dur) z | none => e.ts + e.dur) :=
  ⟨clip_id st en e, clip_data st en e, clip_ts st en e, clip_fin st en e⟩

/-- both bounds given: `[clip.ts, clip.ts + clip.dur] = [max e.ts a, min (e.ts + e.dur) z]` -/
theorem peewee_clip_exact_both (a z : Int) (e : Ev D) :
    (clip (some a) (some z) e).ts = max e.ts a ∧
    (clip (some a) (some z) e).ts + (clip (some a) (some z) e).dur = min (e.ts + e.dur) z :=
  ⟨clip_ts (some a) (some z) e, clip_fin (some a) (some z) e⟩

/-- the cut is a genuine interval when the event reaches into a non-empty window -/
theorem clip_dur_nonneg (st en : Option Int) (e : Ev D) (hd : 0 ≤ e.dur)
    (hw : inWindow st en e = true) (hne : ∀ a z, st = some a → en = some z → a ≤ z) :
    0 ≤ (clip st en e).dur := by
  have h1 := clip_ts st en e
  have h2 := clip_fin st en e
  rw [inWindow_iff] at hw
  cases st with
  | none =>
    cases en with
    | none => simp only at h1 h2; omega
    | some z => have := hw.2 z rfl; simp only at h1 h2; omega
  | some a =>
    cases en with
    | none => have := hw.1 a rfl; simp only at h1 h2; omega
    | some z =>
      have := hw.1 a rfl; have := hw.2 z rfl; have := hne a z rfl rfl
      simp only at h1 h2; omega

/-- an event inside the window is returned as it is -/
theorem clip_inside (st en : Option Int) (e : Ev D)
    (h1 : ∀ a, st = some a → a ≤ e.ts) (h2 : ∀ z, en = some z → e.ts + e.dur ≤ z) :
    clip st en e = e := by
  cases st with
  | none =>
    cases en with
    | none => rfl
    | some z => have := h2 z rfl; simp only [clip]; split <;> first | omega | rfl
  | some a =>
    have := h1 a rfl
    cases en with
    | none => simp only [clip]; split <;> first | omega | rfl
    | some z =>
      have := h2 z rfl
      simp only [clip]
      repeat' split
      all_goals first | omega | rfl

theorem clip_ts_mono (st en : Option Int) (x y : Ev D) (h : x.ts ≤ y.ts) :
    (clip st en x).ts ≤ (clip st en y).ts := by
  rw [clip_ts, clip_ts]
  cases st with
  | none => exact h
  | some a => simp only; omega

/-! ### the read theorems -/

/-- soundness: every returned event is the clipping of a stored event of the bucket that lies in
    the window and passes the 24 h prefilter -/
theorem get_sound (s : St D) (hc : CacheOk s) (b : String) (limit : Int) (st en : Option Int)
    (dec : Ev D → Ev D) (r : List (Ev D)) (hr : getEvents s b limit st en dec = .ok r)
    (x : Ev D) (hx : x ∈ r) :
    ∃ m es e, view s b = some (m, es) ∧ e ∈ es ∧ x = clip st en (dec e) ∧
      inWindow st en e = true ∧ (∀ a, st = some a → a - 86400000000 ≤ e.ts) := by
  cases hk : keyOf s b with
  | none =>
    by_cases h0 : limit = 0
    · subst h0; rw [get_limit_zero] at hr; cases hr; cases hx
    · have := (getEvents_error_iff s hc b limit st en dec .keyError).mpr
        ⟨rfl, h0, (view_none_iff_keyOf hc b).mpr hk⟩
      rw [this] at hr; cases hr
  | some k =>
    rw [getEvents_eq s b k hk] at hr
    cases hr
    obtain ⟨row, hrow, rfl⟩ := List.mem_map.mp hx
    obtain ⟨hmem, hin⟩ := (mem_selected s k st en row).mp (mem_of_mem_applyLimit hrow)
    obtain ⟨m, hv⟩ := view_of_keyOf hc hk
    have hw := (inRange_iff st en row).mp hin
    exact ⟨m, _, toEv row, hv, List.mem_map_of_mem hmem, rfl, hw.1, hw.2⟩

/-- completeness: without a limit every stored event in the window that is no longer than 24 h
    is returned (clipped) -/
theorem get_complete (s : St D) (hc : CacheOk s) (b : String) (limit : Int) (hl : limit < 0)
    (st en : Option Int) (dec : Ev D → Ev D) (m : Meta) (es : List (Ev D))
    (hv : view s b = some (m, es)) (e : Ev D) (he : e ∈ es) (hw : inWindow st en e = true)
    (hd : e.dur ≤ 86400000000) :
    ∃ r, getEvents s b limit st en dec = .ok r ∧ clip st en (dec e) ∈ r := by
  obtain ⟨k, hk, rfl⟩ := rows_of_view hc hv
  refine ⟨_, getEvents_eq s b k hk limit st en dec, ?_⟩
  rw [applyLimit_neg _ hl]
  obtain ⟨row, hrow, rfl⟩ := List.mem_map.mp he
  refine List.mem_map.mpr ⟨row, (mem_selected s k st en row).mpr ⟨hrow, ?_⟩, rfl⟩
  refine (inRange_iff st en row).mpr ⟨hw, fun a ha => ?_⟩
  have := ((inWindow_iff st en (toEv row)).mp hw).1 a ha
  have h1 : (toEv row).ts = row.ts := rfl
  have h2 : (toEv row).dur = row.dur := rfl
  omega

/-- the stored events behind the result are ordered by timestamp descending -/
theorem get_sorted_stored (s : St D) (hc : CacheOk s) (b : String) (limit : Int) (hl : limit ≠ 0)
    (st en : Option Int) (dec : Ev D → Ev D) (r : List (Ev D))
    (hr : getEvents s b limit st en dec = .ok r) :
    ∃ m es l, view s b = some (m, es) ∧ r = l.map (fun e => clip st en (dec e)) ∧
      (∀ e ∈ l, e ∈ es) ∧ List.Pairwise (fun a b => b.ts ≤ a.ts) l := by
  cases hk : keyOf s b with
  | none =>
    have := (getEvents_error_iff s hc b limit st en dec .keyError).mpr
      ⟨rfl, hl, (view_none_iff_keyOf hc b).mpr hk⟩
    rw [this] at hr; cases hr
  | some k =>
    rw [getEvents_eq s b k hk] at hr
    cases hr
    obtain ⟨m, hv⟩ := view_of_keyOf hc hk
    refine ⟨m, _, (applyLimit limit (selected s k st en)).map toEv, hv, ?_, ?_, ?_⟩
    · rw [List.map_map]; rfl
    · intro e he
      obtain ⟨row, hrow, rfl⟩ := List.mem_map.mp he
      exact List.mem_map_of_mem ((mem_selected s k st en row).mp (mem_of_mem_applyLimit hrow)).1
    · rw [List.pairwise_map]
      exact List.Pairwise.sublist (applyLimit_sublist _ _) (selected_sorted s k st en)

/-- clipping can only raise a timestamp to the window start, so the returned (clipped) list is
    still ordered by timestamp descending (for any row decoder that leaves timestamps alone) -/
theorem get_sorted (s : St D) (b : String) (limit : Int) (st en : Option Int)
    (dec : Ev D → Ev D) (hdec : ∀ e, (dec e).ts = e.ts) (r : List (Ev D))
    (hr : getEvents s b limit st en dec = .ok r) :
    List.Pairwise (fun a b => b.ts ≤ a.ts) r := by
  cases hk : keyOf s b with
  | none =>
    by_cases h0 : limit = 0
    · subst h0; rw [get_limit_zero] at hr; cases hr; exact List.Pairwise.nil
    · unfold getEvents at hr; simp [h0, hk] at hr
  | some k =>
    rw [getEvents_eq s b k hk] at hr
    cases hr
    rw [List.pairwise_map]
    refine List.Pairwise.sublist (applyLimit_sublist _ _) ((selected_sorted s k st en).imp ?_)
    intro x y h
    apply clip_ts_mono
    rw [hdec, hdec]; exact h

theorem get_limit_pos (s : St D) (b : String) (limit : Int) (hl : 0 < limit) (st en : Option Int)
    (dec : Ev D → Ev D) :
    getEvents s b limit st en dec =
      (getEvents s b (-1) st en dec).map (fun l => l.take limit.toNat) := by
  cases hk : keyOf s b with
  | none =>
    have h0 : limit ≠ 0 := by omega
    unfold getEvents; simp [h0, hk]; rfl
  | some k =>
    rw [getEvents_eq s b k hk, getEvents_eq s b k hk, applyLimit_pos_eq_take _ hl, List.map_take]
    rfl

theorem get_limit_neg (s : St D) (b : String) (limit : Int) (hl : limit < 0) (st en : Option Int)
    (dec : Ev D → Ev D) :
    getEvents s b limit st en dec = getEvents s b (-1) st en dec := by
  cases hk : keyOf s b with
  | none =>
    have h0 : limit ≠ 0 := by omega
    unfold getEvents; simp [h0, hk]
  | some k =>
    rw [getEvents_eq s b k hk, getEvents_eq s b k hk, applyLimit_neg _ hl,
        applyLimit_neg _ (by omega)]

/-- the count is the number of events an unlimited read with the same arguments returns
    (and fails exactly when that read fails) -/
theorem count_eq (s : St D) (b : String) (st en : Option Int) (dec : Ev D → Ev D) :
    getEventcount s b st en = (getEvents s b (-1) st en dec).map List.length := by
  cases hk : keyOf s b with
  | none => unfold getEventcount getEvents; simp [hk]; rfl
  | some k =>
    rw [getEvents_eq s b k hk, getEventcount_eq s b k hk, applyLimit_neg _ (by omega)]
    show _ = Except.ok _
    rw [List.length_map, length_selected]

/-- the count is the number of stored events in the window passing the 24 h prefilter -/
theorem count_eq_spec (s : St D) (hc : CacheOk s) (b : String) (st en : Option Int)
    (m : Meta) (es : List (Ev D)) (hv : view s b = some (m, es)) :
    getEventcount s b st en = .ok (es.filter (fun e =>
      inWindow st en e && (match st with | some a => decide (a - 86400000000 ≤ e.ts) | none => true))).length := by
  obtain ⟨k, hk, rfl⟩ := rows_of_view hc hv
  rw [getEventcount_eq s b k hk, List.filter_map, List.length_map]
  congr 2
  apply List.filter_congr
  intro row _
  have h := inRange_iff st en row
  show inRange st en row = ((fun e => inWindow st en e &&
    (match st with | some a => decide (a - 86400000000 ≤ e.ts) | none => true)) ∘ toEv) row
  simp only [Function.comp]
  have hts : (toEv row).ts = row.ts := rfl
  rw [Bool.eq_iff_iff, h, Bool.and_eq_true, hts]
  cases st <;> simp

/-- widening the window never lowers the count -/
theorem count_window_mono (s : St D) (b : String) (st en st' en' : Option Int)
    (hw : winWider st' en' st en) (n : Nat) (hn : getEventcount s b st en = .ok n) :
    ∃ n', getEventcount s b st' en' = .ok n' ∧ n ≤ n' := by
  cases hk : keyOf s b with
  | none => unfold getEventcount at hn; simp [hk] at hn
  | some k =>
    rw [getEventcount_eq s b k hk] at hn
    cases hn
    refine ⟨_, getEventcount_eq s b k hk st' en', length_filter_mono _ _ _ ?_⟩
    intro row _ h
    rw [inRange_iff] at h ⊢
    refine ⟨inWindow_mono hw _ h.1, fun a' ha' => ?_⟩
    obtain ⟨a, ha, hle⟩ := hw.1 a' ha'
    have := h.2 a ha
    omega

/-- the count for the requested window never exceeds the number of events `Bucket.get` (which
    reads the rounded window) returns -/
theorem count_le_get_rounded (s : St D) (b : String) (st en : Option Int) (dec : Ev D → Ev D)
    (n : Nat) (hn : getEventcount s b st en = .ok n) :
    ∃ r, getEvents s b (-1) (roundWin st en).1 (roundWin st en).2 dec = .ok r ∧ n ≤ r.length := by
  obtain ⟨n', h1, h2⟩ := count_window_mono s b st en _ _ (roundWin_wider st en) n hn
  rw [count_eq s b _ _ dec] at h1
  cases hg : getEvents s b (-1) (roundWin st en).1 (roundWin st en).2 dec with
  | error e => rw [hg] at h1; cases h1
  | ok r => rw [hg] at h1; cases h1; exact ⟨r, rfl, h2⟩

def exReads : St Unit :=
  refresh { buckets := [⟨1, "a", default⟩, ⟨2, "b", default⟩],
            events := [⟨1, 1, 4000, 3000, ()⟩, ⟨2, 2, 6000, 1000, ()⟩, ⟨3, 1, 5000, 0, ()⟩,
                       ⟨4, 1, 1000, 1000, ()⟩, ⟨5, 1, -90000000000, 100000000000, ()⟩] }

example : CacheOk exReads := cacheOk_refresh _
example : getEvents exReads "a" (-1) (some 5000) (some 6000)
    = .ok [⟨some 3, 5000, 0, ()⟩, ⟨some 1, 5000, 1000, ()⟩] := rfl
example : getEvents exReads "a" 1 (some 5000) (some 6000) = .ok [⟨some 3, 5000, 0, ()⟩] := rfl
example : getEventcount exReads "a" (some 5000) (some 6000) = .ok 2 := rfl
example : getEvents exReads "c" 1 none none = .error .keyError := rfl
example : getEvents exReads "c" 0 none none = .ok [] := rfl

/-- `get_complete` applied: event 1 of bucket "a" is returned cut to the window -/
example : ∃ r, getEvents exReads "a" (-1) (some 5000) (some 6000) = .ok r ∧
    clip (some 5000) (some 6000) (⟨some 1, 4000, 3000, ()⟩ : Ev Unit) ∈ r :=
  get_complete exReads (cacheOk_refresh _) "a" (-1) (by decide) _ _ id default _ rfl _
    (by decide) (by decide) (by decide)

/-- the 24 h bound of `get_complete` is needed: event 5 of bucket "a" spans the whole window but
    starts more than 24 h before it, and is not returned -/
theorem get_complete_needs_24h :
    ∃ (s : St Unit) (m : Meta) (es : List (Ev Unit)) (e : Ev Unit),
      CacheOk s ∧ view s "a" = some (m, es) ∧ e ∈ es ∧ inWindow (some 5000) (some 6000) e = true ∧
      getEvents s "a" (-1) (some 5000) (some 6000) = .ok [⟨some 3, 5000, 0, ()⟩, ⟨some 1, 5000, 1000, ()⟩] ∧
      clip (some 5000) (some 6000) e ∉ [(⟨some 3, 5000, 0, ()⟩ : Ev Unit), ⟨some 1, 5000, 1000, ()⟩] :=
  ⟨exReads, default,
   [⟨some 1, 4000, 3000, ()⟩, ⟨some 3, 5000, 0, ()⟩, ⟨some 4, 1000, 1000, ()⟩,
    ⟨some 5, -90000000000, 100000000000, ()⟩],
   ⟨some 5, -90000000000, 100000000000, ()⟩,
   cacheOk_refresh _, rfl, by decide, by decide, rfl, by decide⟩

end Aw.Store.Peewee
